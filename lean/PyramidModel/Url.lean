import PyramidModel.PctCode
import PyramidModel.Gen.C17
/-
C17 — executable model of URL generation (src/pyramid/url.py, src/pyramid/encode.py, the generator half of
src/pyramid/urldispatch.py `_compile_route`, `ResourceURL`/`_join_path_tuple` of src/pyramid/traversal.py,
`StaticURLInfo.generate` of src/pyramid/config/views.py, WebOb's `host_url`/`application_url`), and of the
*standard parser* (`urllib.parse.urlsplit`, `parse_qsl`, `unquote`) as the specification side.  Core Lean only.

The safe-character set of every quoted position comes from `Gen/C17.lean`, which `extract/c17.py` regenerates on
every run by probing the running helpers of the source tree under test (128 ASCII characters per position).

Functions modelled (line numbers of src/pyramid/url.py unless said otherwise)
* `urlencode`            encode.py 25-83 (items in order, sequences expanded, `None` ⇒ `k=`, the `prefix` variable)
* `qsOf` / `fragOf`      parse_url_overrides 45-54
* `partialAppUrl`        `_partial_application_url` 63-108
* `quotedScriptName`     `_quoted_script_name` 110-113
* `hostUrl`/`applicationUrl`  webob/request.py `host_url`, `application_url`
* `appUrlOf`             parse_url_overrides 33-43
* `routeGenerate`        urldispatch.py 152-250 (generator only)
* `joinElements`         `_join_elements` 886-890
* `routeUrl`/`routePath` 115-305
* `resourceUrl`/`resourcePath`  307-603 (no `__resource_url__` hook, no virtual root: those are C07's)
* `staticUrl`/`staticPath`  605-690 and config/views.py 2165-2189 (no cache busters)
* `currentRouteUrl`/`currentRoutePath`  692-784
* `urlsplit`, `parseQsl`, `lastSegments`  urllib.parse (Python 3.12)
-/
namespace Pyr.Url
open Pyr Pyr.Trav Pyr.Pct

inductive Err where
  | keyError         -- a placeholder of the route has no value (KeyError from `gen % newdict`) / unknown route name
  | noStatic         -- ValueError: No static URL definition matching
  | noCurrentRoute   -- ValueError: Current request matches no route
  | outside          -- input outside the modelled fragment (said where it is produced)
deriving Repr, DecidableEq

/-! ### small text helpers -/

/-- `s.partition(sep)`: the text before the first `sep`, and the text after it when there is one -/
def cut (sep : Char) : Text → Text × Option Text
  | [] => ([], none)
  | c :: r => if c = sep then ([], some r) else ((c :: (cut sep r).1), (cut sep r).2)

/-- `s.rpartition(sep)` in the same shape: text before the *last* `sep`, text after it -/
def rcut (sep : Char) (t : Text) : Text × Option Text :=
  match cut sep t.reverse with
  | (a, some b) => (b.reverse, some a.reverse)
  | (_, none) => (t, none)

def sHttp : Text := ['h', 't', 't', 'p']
def sHttps : Text := ['h', 't', 't', 'p', 's']
def p80 : Text := ['8', '0']
def p443 : Text := ['4', '4', '3']
def colonSlashSlash : Text := [':', '/', '/']

/-! ### query string and fragment -/

/-- a value of a query mapping / pair list -/
inductive QVal where
  | none                      -- `None`
  | one (v : Text)            -- a string (or anything else, through `str()`)
  | many (vs : List Text)     -- a non-string iterable, items through `str()`
deriving Repr, DecidableEq

/-- the `_query` argument -/
inductive Query where
  | absent                                -- not passed
  | null                                  -- `_query=None`
  | str (q : Text)                        -- a string: quoted as a whole
  | pairs (ps : List (Text × QVal)) (truthy : Bool := false)
      -- a mapping (its `.items()`) or a sequence of pairs; `truthy`: the object is true even when it has no
      -- items (an object with `.items()` but without `__len__`; dict, list, tuple, MultiDict are false when empty)
deriving Repr

/-- one round of the `for k, v in query` loop of `urlencode`; the state is `(result, prefix)` -/
def encStep (safe : List UInt8) (st : Text × Text) (kv : Text × QVal) : Text × Text :=
  let k := quotePlus safe kv.1
  match kv.2 with
  | .many xs =>
    let r := xs.foldl (fun (rp : Text × Text) x => (rp.1 ++ rp.2 ++ k ++ '=' :: quotePlus safe x, ['&'])) st
    (r.1, ['&'])
  | .none => (st.1 ++ st.2 ++ k ++ ['='], ['&'])
  | .one v => (st.1 ++ st.2 ++ k ++ '=' :: quotePlus safe v, ['&'])

/-- `pyramid.encode.urlencode(query)` -/
def urlencodeWith (safe : List UInt8) (ps : List (Text × QVal)) : Text := (ps.foldl (encStep safe) ([], [])).1

def urlencode (ps : List (Text × QVal)) : Text := urlencodeWith Gen.plusSafe ps

/-- the `qs` of `parse_url_overrides` -/
def qsOf : Query → Text
  | .absent => []
  | .null => []
  | .str q => if q = [] then [] else '?' :: quote Gen.querySafe q
  | .pairs ps truthy => if ps = [] && !truthy then [] else '?' :: urlencode ps

/-- the `frag` of `parse_url_overrides` (`None` and `''` are both falsy; `truthy`: the anchor object is true
although its text is empty — an object whose `__str__` returns `''` — which gives a bare `#`) -/
def fragOf (anchor : Text) (truthy : Bool := false) : Text :=
  if anchor = [] && !truthy then [] else '#' :: quote Gen.anchorSafe anchor

/-! ### the application URL -/

/-- what URL generation reads from the WSGI environment -/
structure Env where
  scheme : Text               -- wsgi.url_scheme
  httpHost : Option Text      -- HTTP_HOST
  serverName : Text           -- SERVER_NAME
  serverPort : Text           -- SERVER_PORT
  scriptName : Text           -- request.script_name (SCRIPT_NAME decoded as UTF-8)
deriving Repr

/-- the special keyword arguments (`_app_url`, `_scheme`, `_host`, `_port`, `_query`, `_anchor`) -/
structure Ovr where
  appUrl : Option Text := none
  scheme : Option Text := none
  host : Option Text := none
  port : Option Text := none      -- `str(port)`
  query : Query := .absent
  anchor : Text := []
  anchorTruthy : Bool := false    -- the anchor object is true although `str()` of it is empty
deriving Repr

/-- `request._quoted_script_name()` -/
def quotedScriptName (e : Env) : Text := quote Gen.scriptSafe e.scriptName

/-- the host text the caller chose or the request came with: `_host`, else `Host`, else `SERVER_NAME` -/
def effHostText (e : Env) (host : Option Text) : Text :=
  match host, e.httpHost with
  | some h, _ => h
  | none, some h => h
  | none, none => e.serverName

/-- the optional `:port` split off a host text, bracket-aware (`_partial_application_url`, a63b542):
`[…]` + optional `:port` — the colons inside the brackets belong to the host, anything else after `]` is dropped;
a `[` without `]` is left whole; otherwise the text is split at its first `:`. -/
def splitHostPort (h : Text) : Text × Option Text :=
  match h with
  | '[' :: _ =>
    (match cut ']' h with
     | (a, some rest) =>
       (a ++ [']'], match rest with
                    | ':' :: p => some p
                    | _ => none)
     | (_, none) => (h, none))
  | _ => cut ':' h

/-- scheme, host and optional port text of `_partial_application_url`, before the script name is appended -/
def partialParts (e : Env) (scheme host port : Option Text) : Text × Text × Option Text :=
  let sp : Text × Option Text :=
    match scheme with
    | none => (e.scheme, port)
    | some s =>
      let port1 := if s = sHttps then (match port with | none => some p443 | some p => some p) else port
      let port2 := if s = sHttp then (match port1 with | none => some p80 | some p => some p) else port1
      (s, port2)
  let scheme := sp.1
  let host0 : Text := effHostText e host
  let hs := splitHostPort host0
  let hp : Text × Text :=
    match sp.2 with
    | none =>
      (match hs.2 with
       | some p => (hs.1, p)
       | none => (hs.1, e.serverPort))
    | some p => (hs.1, p)
  let port : Option Text :=
    if scheme = sHttps then (if hp.2 = p443 then none else some hp.2)
    else if scheme = sHttp then (if hp.2 = p80 then none else some hp.2)
    else some hp.2
  (scheme, hp.1, port)

/-- `scheme + '://' + host`, then `':%s' % port` when `port` is truthy -/
def originText (p : Text × Text × Option Text) : Text :=
  let url := p.1 ++ colonSlashSlash ++ p.2.1
  match p.2.2 with
  | some pt => if pt = [] then url else url ++ ':' :: pt
  | none => url

/-- `request._partial_application_url(scheme, host, port)` -/
def partialAppUrl (e : Env) (scheme host port : Option Text) : Text :=
  originText (partialParts e scheme host port) ++ quotedScriptName e

/-- WebOb `BaseRequest.host_url` parts -/
def hostUrlParts (e : Env) : Text × Text × Option Text :=
  let hp : Text × Option Text :=
    match e.httpHost with
    | some h =>
      if h.contains ':' && h.getLast? != some ']' then
        (match rcut ':' h with
         | (a, some b) => (a, some b)
         | (_, none) => (h, none))
      else (h, none)
    | none => (e.serverName, some e.serverPort)
  let port : Option Text :=
    if e.scheme = sHttps then (if hp.2 = some p443 then none else hp.2)
    else if e.scheme = sHttp then (if hp.2 = some p80 then none else hp.2)
    else hp.2
  (e.scheme, hp.1, port)

def hostUrl (e : Env) : Text := originText (hostUrlParts e)

/-- WebOb's own `PATH_SAFE` (webob/request.py), used by `application_url` -/
def webobPathSafe : List UInt8 := [47, 126, 33, 36, 38, 39, 40, 41, 42, 43, 44, 59, 61, 58, 64]

/-- WebOb `BaseRequest.application_url` -/
def applicationUrl (e : Env) : Text := hostUrl e ++ quote webobPathSafe e.scriptName

/-- the `app_url` of `parse_url_overrides` -/
def appUrlOf (e : Env) (o : Ovr) : Text :=
  match o.appUrl with
  | some a => a
  | none =>
    if o.scheme.isSome || o.host.isSome || o.port.isSome then partialAppUrl e o.scheme o.host o.port
    else applicationUrl e

/-! ### route generation -/

/-- a compiled route pattern: literals, `{name}` placeholders, a trailing `*name` -/
inductive Piece where
  | lit (t : Text)
  | ph (name : Text)
  | star (name : Text)
deriving Repr, DecidableEq

/-- a keyword value handed to `route.generate` -/
inductive RVal where
  | one (v : Text)            -- a string (or `str(v)`)
  | many (vs : List Text)     -- a non-string iterable (only meaningful for the `*star` placeholder)
deriving Repr, DecidableEq

abbrev Kw := List (Text × RVal)

def genPiece (kw : Kw) : Piece → Except Err Text
  | .lit t => .ok (quote Gen.routeLitSafe t)
  | .ph n =>
    match kw.lookup n with
    | some (.one v) => .ok (quote Gen.routeValSafe v)
    | some (.many _) => .error .outside      -- `str(list)`: not modelled
    | none => .error .keyError
  | .star n =>
    match kw.lookup n with
    | some (.one v) => .ok (quote Gen.routeValSafe v)
    | some (.many vs) => .ok (joinWith '/' (vs.map (quote Gen.routeValSafe)))
    | none => .error .keyError

/-- `route.generate(kw)` -/
def routeGenerate (kw : Kw) : List Piece → Except Err Text
  | [] => .ok []
  | p :: ps =>
    match genPiece kw p, routeGenerate kw ps with
    | .ok a, .ok b => .ok (a ++ b)
    | .error e, _ => .error e
    | _, .error e => .error e

abbrev Routes := List (Text × List Piece)

/-- `_join_elements(elements)` -/
def joinElements (es : List Text) : Text := joinWith '/' (es.map (quote Gen.elementSafe))

def endsWithSlash (p : Text) : Bool := p.getLast? == some '/'

/-- the `suffix` of `route_url` -/
def routeSuffix (path : Text) (elems : List Text) : Text :=
  if elems = [] then []
  else if endsWithSlash path then joinElements elems else '/' :: joinElements elems

/-- `request.route_url(route_name, *elements, **kw)` -/
def routeUrl (e : Env) (routes : Routes) (name : Text) (elems : List Text) (kw : Kw) (o : Ovr) : Except Err Text :=
  match routes.lookup name with
  | none => .error .keyError
  | some pieces =>
    match routeGenerate kw pieces with
    | .error er => .error er
    | .ok path => .ok (appUrlOf e o ++ path ++ routeSuffix path elems ++ qsOf o.query ++ fragOf o.anchor o.anchorTruthy)

/-- `request.route_path(…)`: `kw['_app_url'] = self._quoted_script_name()` -/
def routePath (e : Env) (routes : Routes) (name : Text) (elems : List Text) (kw : Kw) (o : Ovr) : Except Err Text :=
  routeUrl e routes name elems kw { o with appUrl := some (quotedScriptName e) }

/-! ### resources -/

/-- `ResourceURL(resource, request).virtual_path` without a virtual root; `names` are the `__name__`s below the
root (root name `''`/`None`) -/
def virtualPath (names : List Text) : Text :=
  if names = [] then ['/'] else '/' :: joinWith '/' (names.map (quote Gen.resNameSafe)) ++ ['/']

/-- `ResourceURL.virtual_path_tuple` -/
def virtualPathTuple (names : List Text) : List Text :=
  if names = [] then [[]] else [] :: names ++ [[]]

/-- the keyword arguments of `resource_url` that matter here -/
structure ResRoute where
  routeName : Text
  remainderName : Text          -- `route_remainder_name`, default `traverse`
  routeKw : Kw                  -- `route_kw`
deriving Repr

/-- `request.resource_url(resource, *elements, **kw)` -/
def resourceUrl (e : Env) (routes : Routes) (names : List Text) (elems : List Text) (o : Ovr)
    (rr : Option ResRoute) : Except Err Text :=
  match rr with
  | some r =>
    routeUrl e routes r.routeName elems (r.routeKw ++ [(r.remainderName, .many (virtualPathTuple names))]) o
  | none =>
    let suffix := if elems = [] then [] else joinElements elems
    .ok (appUrlOf e o ++ virtualPath names ++ suffix ++ qsOf o.query ++ fragOf o.anchor o.anchorTruthy)

/-- `request.resource_path(…)`: `kw['app_url'] = self._quoted_script_name()` -/
def resourcePath (e : Env) (routes : Routes) (names : List Text) (elems : List Text) (o : Ovr)
    (rr : Option ResRoute) : Except Err Text :=
  resourceUrl e routes names elems { o with appUrl := some (quotedScriptName e) } rr

/-! ### the standard parser (specification side): `urllib.parse` -/

structure Split where
  scheme : Text
  netloc : Text
  path : Text
  query : Text
  fragment : Text
deriving Repr, DecidableEq

def isC0OrSpace (c : Char) : Bool := c.toNat ≤ 32
def isTabNl (c : Char) : Bool := c = '\t' || c = '\r' || c = '\n'
def isAsciiAlpha (c : Char) : Bool := (65 ≤ c.toNat && c.toNat ≤ 90) || (97 ≤ c.toNat && c.toNat ≤ 122)
def isSchemeChar (c : Char) : Bool := isAlnum c || c = '+' || c = '-' || c = '.'
def lowerC (c : Char) : Char := if 65 ≤ c.toNat ∧ c.toNat ≤ 90 then Char.ofNat (c.toNat + 32) else c
def notNetlocDelim (c : Char) : Bool := !(c = '/' || c = '?' || c = '#')

/-- `url[0].isascii() and url[0].isalpha()` (false on the empty text) -/
def startsAlpha : Text → Bool
  | c :: _ => isAsciiAlpha c
  | [] => false

/-- the scheme step of `urlsplit`: `i = url.find(':')`, `i > 0`, first character an ASCII letter, all of
`url[:i]` scheme characters -/
def splitScheme (url : Text) : Text × Text :=
  match cut ':' url with
  | (pre, some post) =>
    if startsAlpha pre && pre.all isSchemeChar then (pre.map lowerC, post)
    else ([], url)
  | (_, none) => ([], url)

/-- the netloc step: `url[:2] == '//'` then `_splitnetloc(url, 2)` -/
def splitNetloc (url : Text) : Text × Text :=
  match url with
  | '/' :: '/' :: r => (r.takeWhile notNetlocDelim, r.dropWhile notNetlocDelim)
  | _ => ([], url)

/-- `ipaddress.IPv4Address._parse_octet`: 1–3 ASCII digits, no leading zero unless `0`, ≤ 255 -/
def octetOk (t : Text) : Bool :=
  t ≠ [] && t.all (fun c => 48 ≤ c.toNat && c.toNat ≤ 57) && t.length ≤ 3 &&
  (t = ['0'] || t.head? != some '0') && (t.foldl (fun n c => 10 * n + (c.toNat - 48)) 0) ≤ 255

/-- `ipaddress.IPv4Address(s)` accepts `s` -/
def ipv4Ok (t : Text) : Bool :=
  let os := splitOn '.' t
  t ≠ [] && os.length = 4 && os.all octetOk

/-- `ipaddress._BaseV6._parse_hextet` (an empty hextet fails in `int('', 16)`) -/
def hextetOk (t : Text) : Bool := t ≠ [] && t.all isHexC && t.length ≤ 4

/-- `ipaddress.IPv6Address(s)` accepts `s` (`_split_scope_id` + `_ip_int_from_string`) -/
def ipv6Ok (s : Text) : Bool :=
  if s.contains '/' then false else
  let sc := cut '%' s
  let scopeOk : Bool := match sc.2 with
    | none => true
    | some z => z ≠ [] && !z.contains '%'
  let addr := sc.1
  let parts0 := splitOn ':' addr
  if !scopeOk || addr = [] || parts0.length < 3 then false else
  let last := parts0.getLast?.getD []
  -- an IPv4-style suffix is replaced by two (valid) hextets
  let v4 := last.contains '.'
  if v4 && !ipv4Ok last then false else
  let parts := if v4 then parts0.dropLast ++ [['0'], ['0']] else parts0
  let n := parts.length
  if n > 9 then false else
  let first := parts.head?.getD []
  let lastP := parts.getLast?.getD []
  let middle := (parts.drop 1).dropLast
  let skips := (middle.filter (fun p => p.isEmpty)).length
  if skips > 1 then false
  else if skips = 1 then
    let k := 1 + (middle.takeWhile (fun p => !p.isEmpty)).length      -- index of the '::'
    let hi0 := k
    let lo0 := n - k - 1
    if first.isEmpty && hi0 - 1 ≠ 0 then false
    else if lastP.isEmpty && lo0 - 1 ≠ 0 then false
    else
      let hi := if first.isEmpty then hi0 - 1 else hi0
      let lo := if lastP.isEmpty then lo0 - 1 else lo0
      if hi + lo ≥ 8 then false
      else (parts.take hi).all hextetOk && ((parts.drop (n - lo)).all hextetOk)
  else
    n = 8 && !first.isEmpty && !lastP.isEmpty && parts.all hextetOk

/-- `urllib.parse._check_bracketed_host`: IPvFuture `v` HEX+ `.` 1+ characters, or an IPv6 address
(an IPv4 address in brackets is refused; a text is never both) -/
def checkBracketedHost (h : Text) : Bool :=
  match h with
  | 'v' :: r =>
    let hx := r.takeWhile isHexC
    (match r.dropWhile isHexC with
     | '.' :: rest => hx ≠ [] && rest ≠ [] && !rest.contains '\n'
     | _ => false)
  | _ => ipv6Ok h

/-- the bracket rules of `urlsplit` for a netloc: `[` and `]` only together, and then the text between the first
`[` and the next `]` must pass `_check_bracketed_host` -/
def netlocOk (n : Text) : Bool :=
  if (n.contains '[' && !n.contains ']') || (n.contains ']' && !n.contains '[') then false
  else if n.contains '[' && n.contains ']' then checkBracketedHost (cut ']' ((cut '[' n).2.getD [])).1
  else true

/-- `urllib.parse.urlsplit(url)`; `none` = `ValueError` (unbalanced `[`/`]` in the netloc, or a bracketed host that
is neither IPv6 nor IPvFuture).  Not modelled: the NFKC check of a non-ASCII netloc. -/
def urlsplit (url : Text) : Option Split :=
  let url := (url.dropWhile isC0OrSpace).filter (fun c => !isTabNl c)
  let su := splitScheme url
  let nu := splitNetloc su.2
  let netloc := nu.1
  if !netlocOk netloc then none
  else
    let fu := cut '#' nu.2
    let qu := cut '?' fu.1
    some ⟨su.1, netloc, qu.1, qu.2.getD [], fu.2.getD []⟩

/-- `urllib.parse.parse_qsl(qs, keep_blank_values=True, errors='strict')`; `none` = a name or value does not
decode -/
def parseQsl (qs : Text) : Option (List (Text × Text)) :=
  if qs = [] then some []
  else
    ((splitOn '&' qs).filter (fun nv => !nv.isEmpty)).mapM fun nv =>
      match cut '=' nv with
      | (n, some v) =>
        (match unquotePlus n, unquotePlus v with
         | some n', some v' => some (n', v')
         | _, _ => none)
      | (n, none) =>
        (match unquotePlus n with
         | some n' => some (n', [])
         | none => none)

/-- the last `n` `/`-separated segments of a path, each percent-decoded -/
def lastSegments (path : Text) (n : Nat) : Option (List Text) :=
  let segs := splitOn '/' path
  (segs.drop (segs.length - n)).mapM unquote

/-! ### `urllib.parse.urljoin` (used by the external static branch) -/

/-- `urllib.parse.urlunsplit` -/
def urlunsplit (scheme netloc path query fragment : Text) : Text :=
  let usesNetloc := scheme ≠ []       -- every scheme admitted below is in `uses_netloc`
  let url : Text :=
    if netloc ≠ [] || (usesNetloc && (path.take 2 != ['/', '/'])) then
      ['/', '/'] ++ netloc ++ (if path ≠ [] && path.head? != some '/' then '/' :: path else path)
    else path
  let url := if scheme ≠ [] then scheme ++ ':' :: url else url
  let url := if query ≠ [] then url ++ '?' :: query else url
  if fragment ≠ [] then url ++ '#' :: fragment else url

/-- schemes in both `uses_relative` and `uses_netloc` that a static base URL may have -/
def relativeSchemes : List Text := [sHttp, sHttps, ['f', 't', 'p'], ['w', 's'], ['w', 's', 's']]

/-- the `segments[1:-1] = filter(None, segments[1:-1])` step -/
def dropEmptyMiddle : List Text → List Text
  | [] => []
  | h :: t => h :: (t.dropLast.filter (fun s => !s.isEmpty)) ++ t.getLast?.toList

/-- one round of the dot-segment loop; the resolved path is kept in order -/
def dotStep (acc : List Text) (seg : Text) : List Text :=
  if seg = ['.', '.'] then acc.dropLast
  else if seg = ['.'] then acc
  else acc ++ [seg]

/-- the path of `urljoin` when the reference has a non-empty path and no netloc -/
def joinPaths (bpath path : Text) : Text :=
  let baseParts0 := splitOn '/' bpath
  let baseParts := if baseParts0.getLast? != some [] then baseParts0.dropLast else baseParts0
  let segments := if path.head? = some '/' then splitOn '/' path else dropEmptyMiddle (baseParts ++ splitOn '/' path)
  let resolved := segments.foldl dotStep []
  let resolved := if segments.getLast? = some ['.'] || segments.getLast? = some ['.', '.'] then resolved ++ [[]] else resolved
  let p := joinWith '/' resolved
  if p = [] then ['/'] else p

/-- `urllib.parse.urljoin(base, url)` for a base and a reference without `;params`; `outside` otherwise, and when
the base is not `scheme://netloc…` with a scheme of `relativeSchemes` -/
def urljoin (base url : Text) : Except Err Text :=
  if base = [] then .ok url
  else if url = [] then .ok base
  else
    match urlsplit base, urlsplit url with
    | some b, some u =>
      if b.path.contains ';' || u.path.contains ';' then .error .outside
      else
        let scheme := if u.scheme = [] then b.scheme else u.scheme
        if scheme ≠ b.scheme then .ok url                      -- (also `scheme not in uses_relative`)
        else if !relativeSchemes.contains scheme then .error .outside
        else if u.netloc ≠ [] then .ok (urlunsplit scheme u.netloc u.path u.query u.fragment)
        else if u.path = [] then
          .ok (urlunsplit scheme b.netloc b.path (if u.query = [] then b.query else u.query) u.fragment)
        else .ok (urlunsplit scheme b.netloc (joinPaths b.path u.path) u.query u.fragment)
    | _, _ => .error .outside                                   -- ValueError from the parser

/-! ### static assets -/

/-- one entry of `StaticURLInfo.registrations` -/
structure StaticReg where
  url : Option Text       -- external base URL (ends with `/`), or none for a route-backed static view
  spec : Text             -- asset spec prefix, ends with `/`
  routeName : Text        -- `__<name>/` for a route-backed static view
deriving Repr

def subpathName : Text := ['s', 'u', 'b', 'p', 'a', 't', 'h']

/-- the registered base URL, with the request's scheme when it was registered protocol-relative (`//cdn…`):
`urlunparse(parsed._replace(scheme=request.scheme))` when `urlparse(url).scheme` is empty -/
def staticBase (e : Env) (u : Text) : Text :=
  match u with
  | '/' :: '/' :: _ => e.scheme ++ ':' :: u
  | _ => u

/-- `request.static_url(path, **kw)` for an already package-qualified asset spec -/
def staticUrl (e : Env) (routes : Routes) (regs : List StaticReg) (path : Text) (o : Ovr) : Except Err Text :=
  match regs.find? (fun r => r.spec.isPrefixOf path) with
  | none => .error .noStatic
  | some r =>
    let sub := path.drop r.spec.length
    match r.url with
    | none => routeUrl e routes r.routeName [] [(subpathName, .one sub)] o
    | some u =>
      let base : Text := staticBase e u
      -- `subpath = quote(subpath)` (urllib's default safe '/'), `urljoin(url, subpath)`, `+ qs + anchor`
      match urljoin base (quote [47] sub) with
      | .ok r => .ok (r ++ qsOf o.query ++ fragOf o.anchor o.anchorTruthy)
      | .error er => .error er

/-- `request.static_path(…)`: `kw['_app_url'] = self._quoted_script_name()` -/
def staticPath (e : Env) (routes : Routes) (regs : List StaticReg) (path : Text) (o : Ovr) : Except Err Text :=
  staticUrl e routes regs path { o with appUrl := some (quotedScriptName e) }

/-! ### the current route -/

/-- what `current_route_url` reads from the request -/
structure Cur where
  matchedRoute : Option Text          -- `request.matched_route.name`
  matchdict : Kw
  get : List (Text × Text)            -- `request.GET.items()`
deriving Repr

/-- the route `current_route_url` generates for: `_route_name` if passed, else the matched route -/
def curRouteName (cur : Cur) (routeName : Option Text) : Option Text :=
  match routeName with
  | some n => some n
  | none => cur.matchedRoute

/-- the `_query` `current_route_url` uses: the one passed, else the request's GET items -/
def curQuery (cur : Cur) (q : Query) : Query :=
  match q with
  | .absent => .pairs (cur.get.map fun kv => (kv.1, QVal.one kv.2))
  | q => q

/-- `request.current_route_url(*elements, **kw)`; `routeName` is the `_route_name` argument -/
def currentRouteUrl (e : Env) (routes : Routes) (cur : Cur) (routeName : Option Text) (elems : List Text)
    (kw : Kw) (o : Ovr) : Except Err Text :=
  match curRouteName cur routeName with
  | none => .error .noCurrentRoute
  | some n => routeUrl e routes n elems (kw ++ cur.matchdict) { o with query := curQuery cur o.query }

/-- `request.current_route_path(…)` -/
def currentRoutePath (e : Env) (routes : Routes) (cur : Cur) (routeName : Option Text) (elems : List Text)
    (kw : Kw) (o : Ovr) : Except Err Text :=
  currentRouteUrl e routes cur routeName elems kw { o with appUrl := some (quotedScriptName e) }

/-! ### the declarative reading of the property (what a caller is entitled to expect) -/

/-- the pairs a query mapping stands for: in order, sequences expanded, `None` as the empty string -/
def expand : List (Text × QVal) → List (Text × Text)
  | [] => []
  | (k, .none) :: r => (k, []) :: expand r
  | (k, .one v) :: r => (k, v) :: expand r
  | (k, .many vs) :: r => vs.map (fun v => (k, v)) ++ expand r

def defaultPort (scheme : Text) : Option Text :=
  if scheme = sHttps then some p443 else if scheme = sHttp then some p80 else none

/-- the port wanted, by priority: `_port`; the default port of an explicit `_scheme`; a port written after the host
(`name:port`, `[v6]:port`); `SERVER_PORT` -/
def effPort (e : Env) (scheme host port : Option Text) : Text :=
  match port, scheme.bind defaultPort, (splitHostPort (effHostText e host)).2 with
  | some p, _, _ => p
  | none, some d, _ => d
  | none, none, some hp => hp
  | none, none, none => e.serverPort

/-- scheme, host name and port (`none` = elided: the scheme's default port, or an empty port) that
`_scheme`/`_host`/`_port` ask for -/
def wanted (e : Env) (scheme host port : Option Text) : Text × Text × Option Text :=
  let s := scheme.getD e.scheme
  let p := effPort e scheme host port
  (s, (splitHostPort (effHostText e host)).1, if defaultPort s = some p then none else some p)

/-- the same string with `scheme://netloc` removed, as found by the standard parser -/
def minusAuthority (url : Text) : Option Text :=
  match urlsplit url with
  | some s => some (url.drop (s.scheme.length + 3 + s.netloc.length))
  | none => none

end Pyr.Url
