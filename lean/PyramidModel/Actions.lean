/-
C04 — executable model of `pyramid.config.actions`:
`resolveConflicts` (src/pyramid/config/actions.py:352-502, the lazy generator) with its
`ConflictResolverState` (333-348), and `ActionState.execute_actions` (209-330, the re-entrant loop).

Vocabulary
* an action is its log id, its discriminator (`None`, a value, or a `pyramid.registry.Deferred`
  thunk), its `order` (phase) and its include path;
* the callables of the harness only (a) append their id to a log and (b) append further actions to
  `ActionState.actions`; the latter is the function `kids : id → actions appended when id runs`
  (any function: the model does not need the program to be a finite forest, it runs on fuel);
* a `Deferred` discriminator of the harness is `lambda: a if dep in log else b`, cached by
  `Deferred.value` (registry.py:266-300) and written back into the action dict (actions.py:424-425).

Correspondence of state: `St.pending` = `ActionState.actions` (between loop iterations),
`St.remaining` = `state.remaining_actions`, `St.minOrder` = `state.min_order`,
`St.queue` = the part of `sorted(output)` the suspended generator has not yielded yet,
`St.log` = `executed_actions` newest first; `state.resolved_ainfos[d]` is the newest logged action
with discriminator `d` (it is written at every `yield`, immediately before the action is executed
and logged; both happen or neither).  `state.start` only offsets the enumeration indices, which are
compared within one enumeration only; the model uses list positions (the group is kept in index
order, `sorted(output, key=i)` is the index-ordered sub-list of the group).
The generator's snapshot `sactions` is not stored: while one generator is alive nothing is appended
to `remaining_actions`, and everything it has processed has been removed from it, so its next group
is the lowest-order group of the current `remaining_actions`.
-/
namespace Pyr.Actions

/-- `action['discriminator']` -/
inductive Disc where
  | none
  | val (d : Nat)
  /-- `Deferred(lambda: thenD if dep in log else elseD)` (`none` = Python `None`) -/
  | deferred (dep : Nat) (thenD elseD : Option Nat)
deriving Repr, DecidableEq, Inhabited

/-- the hashable value conflicts are keyed by; `none` for `None` (and for a thunk not yet called) -/
def Disc.key : Disc → Option Nat
  | .val d => some d
  | _ => Option.none

def Disc.ofOption : Option Nat → Disc
  | some d => .val d
  | Option.none => .none

/-- `undefer(action['discriminator'])` when the ids in `done` have been executed -/
def Disc.eval (done : List Nat) : Disc → Disc
  | .deferred dep a b => Disc.ofOption (if done.contains dep then a else b)
  | d => d

def Disc.isPlain : Disc → Bool
  | .deferred .. => false
  | _ => true

structure Act where
  id : Nat
  disc : Disc
  order : Int
  path : List Nat
deriving Repr, DecidableEq, Inhabited

def Act.key (a : Act) : Option Nat := a.disc.key

/-- negation of the conflict test `includepath[:len(basepath)] != basepath or includepath == basepath`
(actions.py:462-465 and 478-481): `p` extends `base` and is not `base`. -/
def strictExt (base p : List Nat) : Bool := p.take base.length == base && p != base

/-- Python tuple `<` on include paths (lexicographic) -/
def pathLt : List Nat → List Nat → Bool
  | [], [] => false
  | [], _ :: _ => true
  | _ :: _, [] => false
  | a :: as, b :: bs => a < b || (a == b && pathLt as bs)

/-- `ainfos.sort(key=bypath); ainfos[0]` (actions.py:444-449) for a group kept in index order: the
least include path, the earliest index among equal paths (the `order` component of the key is
constant inside a group). -/
def pickFirst : Act → List Act → Act
  | m, [] => m
  | m, a :: rest => pickFirst (if pathLt a.path m.path then a else m) rest

/-- what the loop body 439-485 decides for one discriminator -/
structure DiscRes where
  conflict : Bool
  overridden : List Nat
  winner : Option Nat
deriving Repr, DecidableEq

/-- `prev_ainfo = state.resolved_ainfos.get(discriminator)` -/
def prevOf (log : List Act) (d : Nat) : Option Act := log.find? (fun a => a.key == some d)

/-- Lines 449-485.  `first, rest = ainfos[0], ainfos[1:]`.  When the discriminator was executed before
(`prev_ainfo is not None`, 455-469) `first` is tested against the executed action and `basepath` stays the
executed action's include path, so `rest` (474-485) is tested against the executed action too; otherwise
(470-472) `first` is put on the output and becomes the base `rest` is tested against. -/
def resolveDisc (log g : List Act) (d : Nat) : DiscRes :=
  match g.filter (fun a => a.key == some d) with
  | [] => ⟨false, [], none⟩
  | a :: as =>
    let first := pickFirst a as
    let rest := (a :: as).filter (fun r => r.id != first.id)
    match prevOf log d with
    | some p =>
      let base := p.path
      let restO := (rest.filter (fun r => strictExt base r.path)).map (·.id)
      let restC := rest.any (fun r => !strictExt base r.path)
      if strictExt base first.path then ⟨restC, first.id :: restO, none⟩
      else ⟨true, restO, none⟩
    | none =>
      let base := first.path
      let restO := (rest.filter (fun r => strictExt base r.path)).map (·.id)
      let restC := rest.any (fun r => !strictExt base r.path)
      ⟨restC, restO, some first.id⟩

/-- keys of `unique` in insertion order -/
def discsOf (g : List Act) : List Nat := (g.filterMap Act.key).eraseDups

/-- One order group (actions.py:395-494), `g` = the group in index order with discriminators
undeferred: `error keys` = `ConfigurationConflictError(conflicts)` (keys in dict order),
`ok (output sorted by index, ids of the overridden actions)`. -/
def resolveGroup (log g : List Act) : Except (List Nat) (List Act × List Nat) :=
  let rs := (discsOf g).map (fun d => (d, resolveDisc log g d))
  let ks := (rs.filter (fun r => r.2.conflict)).map (·.1)
  if ks.isEmpty then
    let winners := rs.filterMap (fun r => r.2.winner)
    .ok (g.filter (fun a => a.key.isNone || winners.contains a.id), rs.flatMap (fun r => r.2.overridden))
  else .error ks

/-- least `order` of a list -/
def minOrd : List Act → Option Int
  | [] => none
  | a :: rest =>
    match minOrd rest with
    | none => some a.order
    | some m => some (if a.order ≤ m then a.order else m)

/-- `state.remaining_actions.remove(action)` (distinct callables make dict equality identity) -/
def eraseId (i : Nat) : List Act → List Act
  | [] => []
  | a :: rest => if a.id == i then rest else a :: eraseId i rest

structure St where
  pending : List Act := []
  remaining : List Act := []
  queue : List Act := []
  log : List Act := []
  minOrder : Option Int := none
deriving Repr, DecidableEq

inductive Ev where
  | yielded (a : Act)
  | done
  | conflict (ks : List Nat)
  | regress (order minOrder : Int)
  | stuck
deriving Repr, DecidableEq

/-- lines 496-502 for the head of the sorted output -/
def yieldHead (a : Act) (q : List Act) (st : St) : Ev × St :=
  (.yielded a, { st with queue := q, minOrder := some a.order, remaining := eraseId a.id st.remaining })

/-- `discriminator = undefer(action['discriminator']); action['discriminator'] = discriminator`
for the actions of order `o` -/
def undeferAt (done : List Nat) (o : Int) (l : List Act) : List Act :=
  l.map (fun a => if a.order == o then { a with disc := a.disc.eval done } else a)

/-- lines 398-409: `state.min_order is not None and order < state.min_order` → the `min_order` reported -/
def regressAt (minOrder : Option Int) (o : Int) : Option Int :=
  match minOrder with
  | some m => if o < m then some m else none
  | none => none

/-- lines 411-494 for the group of order `o`: undefer, resolve, forget the overridden actions;
`error keys` or `ok (sorted output, new state)` -/
def groupStep (o : Int) (st : St) : Except (List Nat) (List Act × St) :=
  let rem := undeferAt (st.log.map (·.id)) o st.remaining
  match resolveGroup st.log (rem.filter (fun a => a.order == o)) with
  | .error ks => .error ks
  | .ok (out, ov) => .ok (out, { st with remaining := rem.filter (fun a => !ov.contains a.id) })

/-- The generator body from the top of one `groupby` iteration (line 390) to the next `yield`,
`StopIteration` or exception; called with an empty queue.  The fuel bounds the number of groups
entered without yielding (each such group is removed entirely). -/
def advance : Nat → St → Ev × St
  | 0, st => (.stuck, st)
  | n + 1, st =>
    match minOrd st.remaining with
    | none => (.done, st)
    | some o =>
      match regressAt st.minOrder o with
      | some m => (.regress o m, st)
      | none =>
        match groupStep o st with
        | .error ks => (.conflict ks, st)
        | .ok (out, st') =>
          match out with
          | [] => advance n st'
          | a :: q => yieldHead a q st'

/-- `next(action_iter, None)` -/
def next (st : St) : Ev × St :=
  match st.queue with
  | a :: q => yieldHead a q st
  | [] => advance (st.remaining.length + 1) st

/-- lines 285-290: new actions replace the generator by a fresh one over old remaining + new -/
def absorb (st : St) : St :=
  match st.pending with
  | [] => st
  | p => { st with remaining := st.remaining ++ p, pending := [], queue := [] }

inductive Outcome where
  | ok
  | conflict (ks : List Nat)
  | regress (order minOrder : Int)
  | fuel
deriving Repr, DecidableEq

def Ev.outcome : Ev → Outcome
  | .conflict ks => .conflict ks
  | .regress o m => .regress o m
  | .stuck => .fuel
  | _ => .ok

/-- `execute_actions`: the `while True` loop; `kids i` = what the callable of action `i` appends to
`self.actions`. -/
def exec (kids : Nat → List Act) : Nat → St → Outcome × St
  | 0, st => (.fuel, st)
  | f + 1, st =>
    match next (absorb st) with
    | (.yielded a, st') => exec kids f { st' with log := a :: st'.log, pending := kids a.id }
    | (ev, st') => (ev.outcome, st')

def initSt (top : List Act) : St := { pending := top }

/-- outcome and executed ids (oldest first) of committing `top` -/
def run (kids : Nat → List Act) (fuel : Nat) (top : List Act) : Outcome × List Nat :=
  let r := exec kids fuel (initSt top)
  (r.1, r.2.log.reverse.map (·.id))

/-- no action adds actions -/
def noKids : Nat → List Act := fun _ => []

end Pyr.Actions
