/-
C18 — executable model of `pyramid.util.TopologicalSorter` (src/pyramid/util.py) and of the two places
that turn its output into a wrapping order: `pyramid.config.tweens.Tweens.__call__` and
`pyramid.config.views.ViewsConfiguratorMixin._apply_view_derivers`.

Names are abstract (`Nat`); the two sentinels are the fields `first` / `last`.  Values (`name2val`) are
not modelled: `sorted()` returns `(name, name2val[name])` pairs and the harness checks the pairing.
`before` / `after` arguments arrive normalised the way `add` normalises them
(`None` ↦ `none`, a scalar ↦ a one-element list, an iterable ↦ its elements).
-/
namespace Pyr.Topo

/-- association-list dictionary operations used for `name2before` / `name2after` -/
def alookup (k : Nat) : List (Nat × List Nat) → Option (List Nat)
  | [] => none
  | (k', v) :: rest => if k' == k then some v else alookup k rest

def aerase (k : Nat) : List (Nat × List Nat) → List (Nat × List Nat)
  | [] => []
  | (k', v) :: rest => if k' == k then aerase k rest else (k', v) :: aerase k rest

/-- `set.add` on a list-represented set -/
def sadd (x : Nat) (s : List Nat) : List Nat := if s.contains x then s else s ++ [x]

structure Sorter where
  names : List Nat := []
  reqBefore : List Nat := []
  reqAfter : List Nat := []
  n2before : List (Nat × List Nat) := []
  n2after : List (Nat × List Nat) := []
  order : List (Nat × Nat) := []
  defBefore : Option (List Nat)
  defAfter : Option (List Nat)
  first : Nat
  last : Nat
deriving Repr

/-- `TopologicalSorter.remove` (called by `add` only when `name in self.names`) -/
def Sorter.remove (s : Sorter) (name : Nat) : Sorter :=
  let after := (alookup name s.n2after).getD []
  let s := { s with names := s.names.erase name, n2after := aerase name s.n2after }
  let s := if after.isEmpty then s else
    { s with reqAfter := s.reqAfter.erase name,
             order := after.foldl (fun o u => o.erase (u, name)) s.order }
  let before := (alookup name s.n2before).getD []
  let s := { s with n2before := aerase name s.n2before }
  if before.isEmpty then s else
    { s with reqBefore := s.reqBefore.erase name,
             order := before.foldl (fun o u => o.erase (name, u)) s.order }

/-- `if after is None and before is None: before = self.default_before; after = self.default_after` -/
def effective (s : Sorter) (after before : Option (List Nat)) : Option (List Nat) × Option (List Nat) :=
  match after, before with
  | none, none => (s.defAfter, s.defBefore)
  | a, b => (a, b)

def Sorter.putAfter (s : Sorter) (name : Nat) : Option (List Nat) → Sorter
  | none => s
  | some a => { s with n2after := (name, a) :: s.n2after,
                       order := s.order ++ a.map (fun u => (u, name)),
                       reqAfter := sadd name s.reqAfter }

def Sorter.putBefore (s : Sorter) (name : Nat) : Option (List Nat) → Sorter
  | none => s
  | some b => { s with n2before := (name, b) :: s.n2before,
                       order := s.order ++ b.map (fun o => (name, o)),
                       reqBefore := sadd name s.reqBefore }

/-- the part of `add` after the optional `remove`: `name` is not in `self.names` here -/
def Sorter.addFresh (s : Sorter) (name : Nat) (after before : Option (List Nat)) : Sorter :=
  let e := effective s after before
  (({ s with names := s.names ++ [name] }).putAfter name e.1).putBefore name e.2

/-- `TopologicalSorter.add` -/
def Sorter.add (s : Sorter) (name : Nat) (after before : Option (List Nat)) : Sorter :=
  (if s.names.contains name then s.remove name else s).addFresh name after before

inductive SortResult where
  | ok (names : List Nat)
  | unsatBefore (who : List Nat)
  | unsatAfter (who : List Nat)
  | cyclic (left : List Nat)
deriving Repr, DecidableEq

/-- nodes of the graph: the two sentinels, then the names in insertion order -/
def Sorter.nodes (s : Sorter) : List Nat := s.first :: s.last :: s.names

/-- the arcs actually added to the graph: `(first, last)` then `self.order`, restricted to pairs whose
both ends are nodes ("deal with missing dependencies") -/
def Sorter.arcs (s : Sorter) : List (Nat × Nat) :=
  ((s.first, s.last) :: s.order).filter fun e => s.nodes.contains e.1 && s.nodes.contains e.2

structure KState where
  roots : List Nat
  alive : List Nat
  indeg : Nat → Nat
  out : List Nat

def upd (f : Nat → Nat) (k v : Nat) : Nat → Nat := fun x => if x = k then v else f x

/-- the `for child in children` loop of one Kahn step -/
def processChildren : List Nat → List Nat × (Nat → Nat) → List Nat × (Nat → Nat)
  | [], st => st
  | c :: cs, (roots, indeg) =>
    let k := indeg c - 1
    processChildren cs (if k = 0 then c :: roots else roots, upd indeg c k)

def childrenOf (arcs : List (Nat × Nat)) (v : Nat) : List Nat :=
  (arcs.filter fun e => e.1 = v).map (·.2)

/-- `while roots:` — one iteration per unit of fuel -/
def kahn (arcs : List (Nat × Nat)) : Nat → KState → KState
  | 0, st => st
  | fuel + 1, st =>
    match st.roots with
    | [] => st
    | r :: rs =>
      let p := processChildren (childrenOf arcs r) (rs, st.indeg)
      kahn arcs fuel { roots := p.1, alive := st.alive.erase r, indeg := p.2, out := st.out ++ [r] }

/-- graph construction in closed form: a node is a root iff no arc enters it (roots keep node order);
`graph[v][0]` is the number of arcs entering `v` -/
def initState (nodes : List Nat) (arcs : List (Nat × Nat)) : KState :=
  { roots := nodes.filter fun v => !(arcs.any fun e => e.2 = v),
    alive := nodes,
    indeg := fun v => (arcs.filter fun e => e.2 = v).length,
    out := [] }

/-- a requirement is satisfied when one of the name's own alternatives is a node -/
def satisfied (nodes : List Nat) (tbl : List (Nat × List Nat)) : List Nat :=
  (tbl.filter fun p => p.2.any fun o => nodes.contains o).map (·.1)

/-- `TopologicalSorter.sorted` -/
def Sorter.sorted (s : Sorter) : SortResult :=
  let nodes := s.nodes
  let arcs := s.arcs
  let hasBefore := satisfied nodes s.n2before
  let hasAfter := satisfied nodes s.n2after
  let missB := s.reqBefore.filter fun n => !hasBefore.contains n
  if !missB.isEmpty then .unsatBefore missB else
  let missA := s.reqAfter.filter fun n => !hasAfter.contains n
  if !missA.isEmpty then .unsatAfter missA else
  let fin := kahn arcs nodes.length (initState nodes arcs)
  if !fin.alive.isEmpty then .cyclic fin.alive else
  .ok (fin.out.filter fun n => s.names.contains n)

/-- a sequence of `add` calls -/
structure AddOp where
  name : Nat
  after : Option (List Nat)
  before : Option (List Nat)
deriving Repr

def Sorter.addAll (s : Sorter) (ops : List AddOp) : Sorter :=
  ops.foldl (fun s o => s.add o.name o.after o.before) s

/-! ### Histories on ONE sorter: `add`, the public `remove`, and `sorted()` asked at any point -/

/-- one call on a long-lived sorter -/
inductive HOp where
  | add (o : AddOp)
  | remove (name : Nat)
  | query
deriving Repr

/-- the public `TopologicalSorter.remove(name)`: for a name that is not there `self.names.remove(name)` raises
`ValueError` before anything is touched (state unchanged, `false`) -/
def Sorter.removeOp (s : Sorter) (name : Nat) : Sorter × Bool :=
  if s.names.contains name then (s.remove name, true) else (s, false)

def HOp.isQuery : HOp → Bool
  | .query => true
  | _ => false

/-- effect of one call on the state; `sorted()` only reads -/
def HOp.step (s : Sorter) : HOp → Sorter
  | .add o => s.add o.name o.after o.before
  | .remove n => (s.removeOp n).1
  | .query => s

/-- the answers of the `sorted()` calls of a history, in order -/
def runHistory (s : Sorter) : List HOp → List SortResult
  | [] => []
  | .query :: rest => s.sorted :: runHistory s rest
  | op :: rest => runHistory (op.step s) rest

/-! ### Wrapping order (`Tweens.__call__`, `_apply_view_derivers`) -/

/-- events observed when the composed handler is called -/
inductive Ev where
  | enter (n : Nat)
  | exit (n : Nat)
  | core
deriving Repr, DecidableEq

/-- a handler is modelled by the event trace of one call -/
abbrev Handler := List Ev

/-- what a well-behaved tween/deriver named `n` does: something before, the wrapped handler, something after -/
def wrap (n : Nat) (h : Handler) : Handler := Ev.enter n :: h ++ [Ev.exit n]

/-- `for name, factory in use[::-1]: handler = factory(handler, registry)` -/
def compose (use : List Nat) (handler : Handler) : Handler :=
  use.reverse.foldl (fun h n => wrap n h) handler

/-- `Tweens.__call__`: the explicit list, when non-empty, replaces the implicit (sorted) order -/
def tweensUse (explicit implicit : List Nat) : List Nat :=
  if explicit.isEmpty then implicit else explicit

end Pyr.Topo
