import PyramidModel.RouterModel
import PyramidModel.Lemmas.Route
import PyramidModel.Lemmas.Traversal
import PyramidModel.ViewLookupSpec
import PyramidModel.Lemmas.ExcViewSpec
/-!
X01 — the declarative reading of one request through the router, written on the *specs* of the components
(C01 `qualifies`, C02 `specTraverser`, C03 `candidates` / `anyRegistered`) and on nothing of their algorithms:

1. the FIRST declared route whose pattern matches the path and whose predicates hold decides the request interface, the
   match dictionary and the root factory (its own, else the default one); no such route ⇒ plain `IRequest`, no match
   dictionary, default root factory (C01);
2. traversal from that root — along the match dictionary's `traverse` / `subpath` entries when a route matched, along
   `PATH_INFO` otherwise — gives context, view name, subpath (C02's spec: deepest resource reached, first segment not
   looked up, the rest);
3. the most specific registration (request-interface order of step 1, resolution order of the context of step 2, C03's
   order inside a slot) that carries the view name of step 2 and whose predicates hold runs — if the policy permits its
   permission on that context, otherwise `HTTPForbidden` (C05); nothing registered ⇒ `HTTPNotFound`, something
   registered but nothing qualifies ⇒ `PredicateMismatch`;
4. whatever was raised (undecodable path, root factory, the three above, the body itself) is rendered by the most
   specific exception view for (`request_iface.combined`, the exception's resolution order, name `''`); none ⇒ the same
   exception propagates.  As built (F-C14a = F-C05a): an exception view that is protected and refused makes a NEW
   `HTTPForbidden` propagate.
Definitions only (core Lean), so that the driver can print the spec's answer next to the model's.
-/
namespace Pyr.Router

open Pyr.ExcView (Exc Resp clsView clsExc bodyOf)
open Pyr.Pipeline (Point)

/-- step 1: `none` = the path is not UTF-8; `some none` = no route qualifies -/
def specRoute (app : App) (rq : Req) : Option (Option (Nat × RouteDecl × Route.Env)) :=
  if app.routes.isEmpty then some none
  else
    match Route.requestPath rq.pathInfo with
    | none => none
    | some p =>
      some (app.routes.zipIdx.findSome? fun (d, i) =>
        (Route.qualifies Rx.Ucd.ascii p (mkRoute rq d i)).map fun e => (i, d, e))

/-- step 3: the registration that must answer for record `r` under classifier `cls`, the policy being asked about `key` -/
def specView (app : App) (cls : Nat) (key : CtxKey) (r : ViewLookup.Request) : ViewLookup.Outcome :=
  match (ViewLookup.candidates app.regs cls r).find? (·.holds r) with
  | some v => if v.secured && !app.permits key v.tag then .forbidden v.tag else .response v.tag
  | none => if ViewLookup.anyRegistered app.regs cls r then .mismatch else .none

/-- step 3, continued: what the chosen body does, or what the lookup raises (`nf` when nothing is registered) -/
def specMain (app : App) (nf : Exc) (key : CtxKey) (r : ViewLookup.Request) : Except Exc Resp :=
  match specView app clsView key r with
  | .response t =>
    match bodyOf app.stmts t with
    | .respond => .ok (.view t)
    | .returnContext => .ok (.self 0 none)
    | .raise e => .error e
  | .forbidden _ => .error app.world.forbidden
  | .mismatch => .error app.world.mismatch
  | .none => .error nf

/-- step 4: rendering of exception `e` for the record `r0` -/
def specRender (app : App) (r0 : ViewLookup.Request) (combinedSro : List Nat) (e : Exc) : Final :=
  match specView app clsExc (.exc e.sro) (ExcView.excRequest r0 e combinedSro) with
  | .response t =>
    match bodyOf app.stmts t with
    | .respond => .response (.view t)
    | .returnContext => .response (.self e.id e.status)
    | .raise e2 => .propagates (if e2.isNotFound then e else e2.again)
  | .forbidden _ => .propagates app.world.excForbidden        -- as built: F-C14a
  | .mismatch => .propagates e
  | .none => .propagates e

/-- step 4, what the exception view's body sees when one runs: the exception as context, as `request.exception` and in
`request.exc_info`, and no `response` attribute (C14's `seenOf`, for the kind of callable the statement registered) -/
def specSeen (app : App) (r0 : ViewLookup.Request) (combinedSro : List Nat) (e : Exc) : Option ExcView.Seen :=
  match specView app clsExc (.exc e.sro) (ExcView.excRequest r0 e combinedSro) with
  | .response t => some (ExcView.seenOf e (ExcView.kindOf app.stmts t))
  | _ => none

/-- what leaves the router when the request attributes are `a` and the handler answered / raised `main` -/
def specFinish (app : App) (rq : Req) (a : Attrs) (hooks : List Hook) (main : Except Exc Resp) : Outcome :=
  match main with
  | .ok resp => ⟨.response resp, none, a, none, hooks⟩
  | .error e =>
    ⟨specRender app (record app rq a) a.combinedSro e, some e, a,
     specSeen app (record app rq a) a.combinedSro e, hooks⟩

/-- lines 166-168 as built (finding F-X01b): the `HTTPNotFound` message is `request.path_info`, and reading it raises
`KeyError` when `PATH_INFO` is absent from the environ; with `PATH_INFO` present this is `HTTPNotFound` -/
def specNotFound (app : App) (rq : Req) : Exc :=
  if rq.pathInfo.isSome then app.world.notFound else app.keyError

/-- steps 2-4, the route stage having decided the attributes `a` and the matched route `d` -/
def specAfterRoute (app : App) (rq : Req) (a : Attrs) (d : Option RouteDecl) : Outcome :=
  let (ri, hook) := rootIndex app d
  let h0 : List Hook := [(.newRequest, Attrs.none), (.beforeTraversal, a), (hook, a)]
  match app.roots[ri]? with
  | none => specFinish app rq a h0 (.error app.urlDecode)
  | some root =>
    match root.raises with
    | some e => specFinish app rq a h0 (.error e)
    | none =>
      let a1 := { a with root := some ri }
      match Trav.specTraverser root.tree ⟨rq.pathInfo, rq.vroot, a.matchdict.map travMatchdict⟩ with
      | .error err => specFinish app rq a1 (h0 ++ [(.traverser, a1)]) (.error (travExc app err))
      | .ok t =>
        let a2 := { a with root := some ri, trav := some t }
        specFinish app rq a2 (h0 ++ [(.traverser, a1), (.contextFound, a2)])
          (specMain app (specNotFound app rq) (.res ri t.context) (record app rq a2))

/-- the whole request -/
def specHandle (app : App) (rq : Req) : Outcome :=
  match specRoute app rq with
  | none => specFinish app rq Attrs.none [(.newRequest, Attrs.none)] (.error app.urlDecode)
  | some none => specAfterRoute app rq Attrs.none none
  | some (some (i, d, e)) => specAfterRoute app rq (Attrs.matched i d e) (some d)

/-! ### comparing up to `traversed` (C02's F-C02a: with a virtual root the real `traversed` may be longer than the consumed
segments; nothing else in the router reads it) -/

def Attrs.eraseTraversed (a : Attrs) : Attrs :=
  { a with trav := a.trav.map fun t => { t with traversed := [] } }

def Outcome.eraseTraversed (o : Outcome) : Outcome :=
  { o with attrs := o.attrs.eraseTraversed, hooks := o.hooks.map fun h => (h.1, h.2.eraseTraversed) }

end Pyr.Router
