/-
C13 (b) — the request pipeline as an event model with fault points.

Mirrors, for one thread:
  router.py    Router.__call__ / default_execution_policy / request_context  (`runReq`: push, invoke, pop)
               Router.invoke_subrequest                                       (`callSub`: same, tweens optional)
               Router.invoke_request  (`invokeRequest`: try: chain; response callbacks; NewResponse  finally: finished)
               Router.finish_request / _process_finished_callbacks            (`finPhase`)
               Router.handle_request  (`handleRequest`: NewRequest, route predicate, BeforeTraversal, route/root
                                        factory, traverser, ContextFound, view predicate, permission, view, renderer)
  tweens.py    excview_tween / _error_handler                                 (`excviewTween`)
  view.py      invoke_exception_view (push; try: view  finally: pop)          (`invokeExcView`)
  request.py   _process_response_callbacks / _process_finished_callbacks      (`runCbs`: popleft until empty, an
                                                                               exception leaves the rest queued)
against a schedule (`Cfg`) that says, per request, which hook fails how and which callbacks are registered at
which hook.  Every hook logs, registers the callbacks of its stage, then fails (the order the harness's
fault-injection application uses).  Core Lean only.
-/
namespace Pyr.Pipeline

/-- what a schedule can inject: a plain exception, an HTTP exception response, or (at a predicate / the
permission check only) the answer "no" -/
inductive Kind where
  | plain | http | soft
deriving DecidableEq, Repr, Inhabited

/-- a propagating exception: plain, or an HTTP exception response (incl. the PredicateMismatch / HTTPForbidden
pyramid raises itself) -/
inductive Exc where
  | plain | http
deriving DecidableEq, Repr, Inhabited

inductive Point where
  | tweenOverIn | tweenUnderIn | newRequest | routePred | beforeTraversal | routeFactory | rootFactory
  | traverser | contextFound | viewPred | perm | viewBody | renderer | tweenUnderOut | excView
  | tweenOverOut | newResponse
deriving DecidableEq, Repr, Inhabited

inductive CbKind where
  | resp | fin
deriving DecidableEq, Repr, Inhabited

/-- who registers a callback: the hook at a pipeline point, or the callback with id `parent` while it runs
(`request.add_…_callback` called from inside a callback: the deque is still being drained) -/
inductive Stage where
  | hook (p : Point)
  | cb (parent : Nat)
deriving DecidableEq, Repr, Inhabited

/-- a callback registered at `stage`; its id is its index in `Cfg.regs` -/
structure Reg where
  stage : Stage
  kind : CbKind
  fault : Option Kind
deriving DecidableEq, Repr, Inhabited

structure Cfg where
  useTweens : Bool                    -- subrequests only; the WSGI call always runs the tween chain
  route : Bool                        -- the path matches the route's pattern
  faults : List (Point × Kind)
  regs : List Reg
  explicitXv : Option Kind            -- the view body calls request.invoke_exception_view for such an exception
  /-- the view body calls `request.invoke_exception_view(exc_info, request=other)` for ANOTHER request: (kind of the
  exception, failure scheduled in the exception view, `other` belongs to a different registry) -/
  explicitOther : Option (Kind × Option Kind × Bool) := none
deriving Repr, Inhabited

mutual
  inductive Req where
    | mk (cfg : Cfg) (subs : Reqs)
  inductive Reqs where
    | nil
    | cons (r : Req) (rs : Reqs)
end

/-- identity of a request: the path of child indices from the WSGI request -/
abbrev Path := List Nat

inductive Ev where
  | hook (p : Point) (cur : Bool) (depth : Nat)          -- a hook ran: is the current request this one, stack depth
  | reg (k : CbKind) (id : Nat)                          -- a callback was registered
  | cb (k : CbKind) (id : Nat) (cur : Bool) (depth : Nat) -- a callback ran
  | chain (responded : Bool)                             -- the tween chain returned a response / raised
  | resume (cur : Bool) (depth : Nat)                    -- back in the view body after a nested invocation
  | sub (idx : Nat)                                      -- the view body issues subrequest `idx`
deriving DecidableEq, Repr, Inhabited

inductive Outcome where
  | resp
  | raised (e : Exc)
deriving DecidableEq, Repr, Inhabited

/-- observation tree: own events of a request, its outcome, the stack depth after it, the subrequests it ran, how
many response / finished callbacks are left in its deques afterwards -/
inductive Tr where
  | node (own : List Ev) (out : Outcome) (depthAfter : Nat) (kids : List Tr) (left : Nat × Nat)
deriving Repr, Inhabited

structure St where
  stack : List Path
  log : List Ev := []
  respQ : List Nat := []
  finQ : List Nat := []
  kids : List Tr := []
deriving Repr, Inhabited

/-- result of a step: a value or a propagating exception, and the state either way -/
inductive R (α : Type) where
  | ok (a : α) (s : St)
  | err (e : Exc) (s : St)

def R.st {α} : R α → St
  | .ok _ s => s
  | .err _ s => s

abbrev M (α : Type) := St → R α

def M.pure {α} (a : α) : M α := fun s => .ok a s
def M.bind {α β} (m : M α) (f : α → M β) : M β := fun s =>
  match m s with
  | .ok a s' => f a s'
  | .err e s' => .err e s'
instance : Monad M where
  pure := M.pure
  bind := M.bind

def throw {α} (e : Exc) : M α := fun s => .err e s

/-- `try: m  finally: f` — an exception of `f` replaces whatever `m` did -/
def tryFinally {α} (m : M α) (f : M Unit) : M α := fun s =>
  match m s with
  | .ok a s' =>
    match f s' with
    | .ok _ s'' => .ok a s''
    | .err e s'' => .err e s''
  | .err e s' =>
    match f s' with
    | .ok _ s'' => .err e s''
    | .err e' s'' => .err e' s''

def tryCatch {α} (m : M α) (h : Exc → M α) : M α := fun s =>
  match m s with
  | .ok a s' => .ok a s'
  | .err e s' => h e s'

def emit (e : Ev) : M Unit := fun s => .ok () { s with log := s.log ++ [e] }
def push (p : Path) : M Unit := fun s => .ok () { s with stack := p :: s.stack }
def pop : M Unit := fun s => .ok () { s with stack := s.stack.tail }      -- ThreadLocalManager.pop
def getStack : M (List Path) := fun s => .ok s.stack s

def faultOf (cfg : Cfg) (p : Point) : Option Kind :=
  match cfg.faults.find? (fun f => f.1 == p) with
  | some f => some f.2
  | none => none

def isSoftPoint : Point → Bool
  | .routePred | .viewPred | .perm => true
  | _ => false

/-- `soft` only exists at the predicate points; elsewhere the injection is an HTTP exception -/
def excOf : Kind → Exc
  | .plain => .plain
  | _ => .http

/-- the callbacks a hook at `stage` registers: log + append to the request's deque, in `regs` order -/
def register (stage : Stage) : List Reg → Nat → M Unit
  | [], _ => pure ()
  | r :: rest, i => fun s =>
    if r.stage == stage then
      let s' := { s with log := s.log ++ [Ev.reg r.kind i] }
      let s'' := match r.kind with
        | .resp => { s' with respQ := s'.respQ ++ [i] }
        | .fin => { s' with finQ := s'.finQ ++ [i] }
      register stage rest (i + 1) s''
    else register stage rest (i + 1) s

/-- a hook: log (current request is self?, depth), register the callbacks of this stage, then fail as scheduled.
Returns `true` when the hook answers "no" (soft). -/
def hook (cfg : Cfg) (self : Path) (p : Point) : M Bool := do
  let st ← getStack
  emit (.hook p (st.head? == some self) st.length)
  register (.hook p) cfg.regs 0
  match faultOf cfg p with
  | none => pure false
  | some .soft => if isSoftPoint p then pure true else throw .http
  | some k => throw (excOf k)

/-- view.py invoke_exception_view: push the request again, run the exception view, pop in `finally`.
`xv` = a custom exception view for every exception is configured; otherwise only pyramid's default view for
HTTP exception responses exists (no hook of ours runs in it) and a plain exception finds no view. -/
def invokeExcView (xv : Bool) (cfg : Cfg) (self : Path) (e : Exc) : M Bool := do
  push self
  tryFinally (do
      if xv then
        let _ ← hook cfg self .excView
        pure true
      else pure (e == .http))
    pop

def resume (self : Path) : M Unit := do
  let st ← getStack
  emit (.resume (st.head? == some self) st.length)

/-- the failure scheduled for callback `i` -/
def cbFault (cfg : Cfg) (i : Nat) : Option Kind := (cfg.regs[i]?).bind (·.fault)

/-- the model runs at most this many callbacks per deque and request (the code has no bound: a callback that
re-registers itself spins forever); the theorems say "fewer than `drainFuel` ran" where they need the loop to have
ended by itself -/
def drainFuel : Nat := 1000

def getQ (k : CbKind) (s : St) : List Nat :=
  match k with
  | .resp => s.respQ
  | .fin => s.finQ

def setQ (k : CbKind) (q : List Nat) (s : St) : St :=
  match k with
  | .resp => { s with respQ := q }
  | .fin => { s with finQ := q }

/-- `_process_response_callbacks` / `_process_finished_callbacks`: `while callbacks: callback = callbacks.popleft();
callback(…)` — a FIFO work-list drained until it is EMPTY: a callback that runs may append to either deque (the
registrations with stage `cb i`), and what it appends to the deque being drained runs in the same pass.  A callback
logs, registers, then fails as scheduled; an exception leaves the rest in the deque (nothing runs it later). -/
def drain (cfg : Cfg) (self : Path) (k : CbKind) : Nat → M Unit
  | 0 => fun s => .ok () s
  | n + 1 => fun s =>
    match getQ k s with
    | [] => .ok () s
    | i :: rest =>
      let s1 := setQ k rest s
      let s2 := { s1 with log := s1.log ++ [Ev.cb k i (s1.stack.head? == some self) s1.stack.length] }
      match register (.cb i) cfg.regs 0 s2 with
      | .err e s3 => .err e s3
      | .ok _ s3 =>
        match cbFault cfg i with
        | some f => .err (excOf f) s3
        | none => drain cfg self k n s3

def Req.cfg : Req → Cfg
  | .mk c _ => c
def Req.subs : Req → Reqs
  | .mk _ s => s

def Reqs.toList : Reqs → List Req
  | .nil => []
  | .cons r rs => r :: rs.toList

/-- identity of the request handed to `invoke_exception_view(request=…)`: a child index no subrequest uses -/
def otherId : Nat := 1000

/-- the schedule of that other request: only its exception view can fail -/
def otherCfg (f : Option Kind) : Cfg :=
  { useTweens := false, route := false, faults := (match f with | some k => [(Point.excView, k)] | none => []),
    regs := [], explicitXv := none }

/-- `request.invoke_exception_view(exc_info, request=other)` from the view body of `self`: view.py pushes a frame for
the request ARGUMENT (`{'request': request, 'registry': registry}` with `request = other`), so inside the exception
view the current request is `other`; the events of `other` are its own log (a kid tree); an unanswered exception
(no exception view in `other`'s registry) is HTTPNotFound, a failing exception view propagates. -/
def invokeOther (xv : Bool) (t : Kind × Option Kind × Bool) (self : Path) : M Unit := fun s =>
  let target := self ++ [otherId]
  let xvT := if t.2.2 then !xv else xv
  let r := invokeExcView xvT (otherCfg t.2.1) target (excOf t.1) { stack := s.stack }
  let out : Outcome := match r with
    | .ok true _ => .resp
    | .ok false _ => .raised .http
    | .err e _ => .raised e
  let s1 : St := { s with
    log := s.log ++ [Ev.sub otherId, Ev.resume (r.st.stack.head? == some self) r.st.stack.length],
    stack := r.st.stack,
    kids := s.kids ++ [Tr.node r.st.log out r.st.stack.length [] (r.st.respQ.length, r.st.finQ.length)] }
  match out with
  | .resp => .ok () s1
  | .raised e => .err e s1

/-- the view callable: hook, optional explicit `request.invoke_exception_view`, the subrequests (`subsM`), optional
explicit `invoke_exception_view(request=other)` -/
def viewBody (xv : Bool) (cfg : Cfg) (self : Path) (subsM : M Unit) : M Unit := do
  let _ ← hook cfg self .viewBody
  match cfg.explicitXv with
  | none => pure ()
  | some k =>
    let handled ← tryFinally (invokeExcView xv cfg self (excOf k)) (resume self)
    if handled then pure () else throw .http                          -- no exception view: HTTPNotFound
  subsM
  match cfg.explicitOther with
  | none => pure ()
  | some t => invokeOther xv t self

/-- `_call_view` on the derived view: predicates, permission, the view, the renderer -/
def callView (xv : Bool) (cfg : Cfg) (self : Path) (subsM : M Unit) : M Unit := do
  if (← hook cfg self .viewPred) then throw .http                     -- PredicateMismatch
  if (← hook cfg self .perm) then throw .http                         -- HTTPForbidden
  viewBody xv cfg self subsM
  let _ ← hook cfg self .renderer
  pure ()

/-- Router.handle_request -/
def handleRequest (xv : Bool) (cfg : Cfg) (self : Path) (subsM : M Unit) : M Unit := do
  let _ ← hook cfg self .newRequest
  let matched ← (if cfg.route then do
                   let no ← hook cfg self .routePred
                   pure (!no)
                 else pure false)
  let _ ← hook cfg self .beforeTraversal
  let _ ← hook cfg self (if matched then .routeFactory else .rootFactory)
  let _ ← hook cfg self .traverser
  let _ ← hook cfg self .contextFound
  callView xv cfg self subsM

def tweenUnder (xv : Bool) (cfg : Cfg) (self : Path) (subsM : M Unit) : M Unit := do
  let _ ← hook cfg self .tweenUnderIn
  handleRequest xv cfg self subsM
  let _ ← hook cfg self .tweenUnderOut
  pure ()

/-- tweens.py excview_tween / _error_handler (which re-raises the original when no exception view answers) -/
def excviewTween (xv : Bool) (cfg : Cfg) (self : Path) (subsM : M Unit) : M Unit :=
  tryCatch (tweenUnder xv cfg self subsM) fun e => do
    let handled ← invokeExcView xv cfg self e
    if handled then pure () else throw e

def tweenOver (xv : Bool) (cfg : Cfg) (self : Path) (subsM : M Unit) : M Unit := do
  let _ ← hook cfg self .tweenOverIn
  excviewTween xv cfg self subsM
  let _ ← hook cfg self .tweenOverOut
  pure ()

def chain (xv : Bool) (cfg : Cfg) (self : Path) (useTw : Bool) (subsM : M Unit) : M Unit :=
  if useTw then tweenOver xv cfg self subsM else handleRequest xv cfg self subsM

/-- the chain with the observation marker (a response came out / an exception came out) -/
def probed (xv : Bool) (cfg : Cfg) (self : Path) (useTw : Bool) (subsM : M Unit) : M Unit :=
  tryCatch (do chain xv cfg self useTw subsM; emit (.chain true)) fun e => do emit (.chain false); throw e

/-- what follows the chain inside the `try` of Router.invoke_request -/
def respPhase (cfg : Cfg) (self : Path) : M Unit := do
  drain cfg self .resp drainFuel
  let _ ← hook cfg self .newResponse
  pure ()

/-- Router.finish_request -/
def finPhase (cfg : Cfg) (self : Path) : M Unit :=
  drain cfg self .fin drainFuel

/-- Router.invoke_request -/
def invokeRequest (xv : Bool) (cfg : Cfg) (self : Path) (useTw : Bool) (subsM : M Unit) : M Unit :=
  tryFinally (do probed xv cfg self useTw subsM; respPhase cfg self) (finPhase cfg self)

def outcomeOf : R Unit → Outcome
  | .ok _ _ => .resp
  | .err e _ => .raised e

mutual
  /-- one request from the push of its RequestContext to the pop: `(tree, outcome, stack afterwards)`.
  `top` = the WSGI call (tweens always on). -/
  def runReq (xv : Bool) (top : Bool) : Req → Path → List Path → Tr × Outcome × List Path
    | .mk cfg subs, self, stack0 =>
      let r := invokeRequest xv cfg self (top || cfg.useTweens) (runSubs xv subs self 0)
                 { stack := self :: stack0 }                            -- RequestContext.begin
      let stack1 := r.st.stack.tail                                     -- RequestContext.end
      (.node r.st.log (outcomeOf r) stack1.length r.st.kids (r.st.respQ.length, r.st.finQ.length), outcomeOf r, stack1)

  /-- the view body's subrequests, in order; an exception of one propagates out of the view -/
  def runSubs (xv : Bool) : Reqs → Path → Nat → M Unit
    | .nil, _, _ => fun s => .ok () s
    | .cons r rs, self, i => fun s =>
      let s1 := { s with log := s.log ++ [Ev.sub i] }
      match runReq xv false r (self ++ [i]) s1.stack with
      | (tr, out, stack') =>
        let s2 := { s1 with stack := stack', kids := s1.kids ++ [tr] }
        let s3 := { s2 with log := s2.log ++ [Ev.resume (s2.stack.head? == some self) s2.stack.length] }
        match out with
        | .resp => runSubs xv rs self (i + 1) s3
        | .raised e => .err e s3
end

/-! ### custom execution policies (`config.set_execution_policy`): the router is driven through its public pieces
`router.request_context(environ)` + `router.invoke_request(request)` -/

def leftOf (s : St) : Nat × Nat := (s.respQ.length, s.finQ.length)

/-- the example policy of the `IExecutionPolicy` docstring:
`with router.request_context(environ) as request: try: return router.invoke_request(request)
 except Exception: return request.invoke_exception_view(reraise=True)` — an exception that escapes the pipeline
(finished callbacks have run by then) is rendered once more, still inside the request context; `reraise=True` turns
"no exception view" and "the exception view failed" into the ORIGINAL exception.  Result: the request's tree, the
tree of what the policy's own exception-view call logged (if it made one), outcome, stack afterwards. -/
def runSimple (xv : Bool) : Req → List Path → Tr × Option Tr × Outcome × List Path
  | .mk cfg subs, stack0 =>
    let self : Path := []
    let r := invokeRequest xv cfg self true (runSubs xv subs self 0) { stack := self :: stack0 }
    match r with
    | .ok _ s =>
      (.node s.log .resp s.stack.tail.length s.kids (leftOf s), none, .resp, s.stack.tail)
    | .err e s =>
      let p := invokeExcView xv cfg self e { stack := s.stack }
      let out : Outcome := match p with
        | .ok true _ => .resp
        | _ => .raised e
      (.node s.log (.raised e) p.st.stack.tail.length s.kids (leftOf s),
       some (.node p.st.log out p.st.stack.tail.length [] (leftOf p.st)), out, p.st.stack.tail)

/-- a retrying policy (pyramid_retry style): every attempt is a FRESH request over the same environ, run as
`with router.request_context(environ) as request: return router.invoke_request(request)`; a plain exception is
retried while attempts are left, anything else ends the call.  Each attempt is `runReq` (so every theorem about a
request holds for every attempt). -/
def runRetry (xv : Bool) : List Req → Nat → List Path → List Tr × Outcome × List Path
  | [], _, stack0 => ([], .raised .plain, stack0)
  | r :: rest, i, stack0 =>
    match runReq xv true r [i] stack0 with
    | (tr, out, stack1) =>
      match out, rest with
      | .raised .plain, _ :: _ =>
        match runRetry xv rest (i + 1) stack1 with
        | (trs, out', stack2) => (tr :: trs, out', stack2)
      | _, _ => ([tr], out, stack1)

/-- the WSGI call -/
def runTop (xv : Bool) (r : Req) (stack0 : List Path) : Tr × Outcome × List Path :=
  runReq xv true r [] stack0

end Pyr.Pipeline
