/-
X09 — dotted-name resolution: `pyramid.path.DottedNameResolver` (`resolve`, `maybe_resolve`, `_resolve`,
`_pkg_resources_style`, `_zope_dottedname_style`), `Resolver.__init__ / get_package / get_package_name`, `package_name`,
`package_of`, `caller_package` (src/pyramid/path.py) and `Configurator.maybe_dotted` (config/__init__.py).

A module universe is a finite table of on-disk modules (dotted path ↦ package | module | module whose body raises
ImportError) and of attributes bound by module bodies (owner object, name ↦ object identity).  The interpreter state is the
list of loaded modules (`sys.modules`), plus two traces: the arguments of path.py's own `__import__` / `import_module`
calls, and the modules the import system had to look for.  Core Lean only.
-/
namespace Pyr.Dotted

abbrev Text := List Char
abbrev Seg := List Char
abbrev Path := List Seg

inductive MK where
  | pkg | module | bad
deriving DecidableEq, Repr

inductive Obj where
  | mod (p : Path)
  | att (i : Nat)
deriving DecidableEq, Repr

inductive Err where
  | importError | attributeError | relValueError | valueError | indexError
deriving DecidableEq, Repr

structure Univ where
  mods : List (Path × MK)
  attrs : List (Obj × Seg × Nat)

def Univ.kind (U : Univ) (p : Path) : Option MK := (U.mods.find? (fun e => e.1 = p)).map (·.2)

def Univ.attr (U : Univ) (o : Obj) (n : Seg) : Option Nat :=
  (U.attrs.find? (fun e => e.1 = o ∧ e.2.1 = n)).map (·.2.2)

structure St where
  loaded : List Path := []
  calls : List Path := []
  finds : List Path := []
deriving DecidableEq, Repr

/-- `str.split(sep)` -/
def splitOn (sep : Char) : Text → List Text
  | [] => [[]]
  | c :: cs =>
    if c = sep then [] :: splitOn sep cs
    else
      match splitOn sep cs with
      | [] => [[c]]
      | h :: t => (c :: h) :: t

/-- `'.'.join(path)` -/
def joinDots : Path → Text
  | [] => []
  | [s] => s
  | s :: t => s ++ '.' :: joinDots t

/-- `str.split(':', 1)`: the text before the first colon, and what follows it (if there is a colon) -/
def splitColon : Text → Text × Option Text
  | [] => ([], none)
  | c :: cs => if c = ':' then ([], some cs) else ((c :: (splitColon cs).1), (splitColon cs).2)

/-- the import system on the remaining segments `rest` below the already imported prefix `done`: `sys.modules` first; the
parent must be a package (else ModuleNotFoundError before any finder is asked); the finders are asked (`finds`); a missing
module or a body that raises gives ImportError (parents stay imported); otherwise the module is loaded. -/
def importFrom (U : Univ) : Path → Path → St → Option Err × St
  | _, [], st => (none, st)
  | done, s :: rest, st =>
    if (done ++ [s]) ∈ st.loaded then importFrom U (done ++ [s]) rest st
    else if done ≠ [] ∧ U.kind done ≠ some .pkg then (some .importError, st)
    else
      match U.kind (done ++ [s]) with
      | some .pkg => importFrom U (done ++ [s]) rest { st with finds := st.finds ++ [done ++ [s]], loaded := st.loaded ++ [done ++ [s]] }
      | some .module => importFrom U (done ++ [s]) rest { st with finds := st.finds ++ [done ++ [s]], loaded := st.loaded ++ [done ++ [s]] }
      | _ => (some .importError, { st with finds := st.finds ++ [done ++ [s]] })

/-- `__import__(name)` / `import_module(name)` for `name.split('.') = p` (an empty first segment: "Empty module name") -/
def importPath (U : Univ) (p : Path) (st : St) : Option Err × St :=
  match p with
  | [] :: _ => (some .valueError, st)
  | _ => importFrom U [] p st

/-- the same, as a call made by path.py itself (recorded) -/
def callImport (U : Univ) (p : Path) (st : St) : Option Err × St :=
  importPath U p { st with calls := st.calls ++ [p] }

/-- `getattr(obj, n)`: a loaded submodule is bound on its parent (and hides an attribute of the same name); otherwise what
the body bound -/
def getattr (U : Univ) (loaded : List Path) : Obj → Seg → Option Obj
  | .mod p, n => if (p ++ [n]) ∈ loaded then some (.mod (p ++ [n])) else (U.attr (.mod p) n).map .att
  | .att i, n => (U.attr (.att i) n).map .att

/-- `functools.reduce(getattr, attrs, obj)` -/
def getattrs (U : Univ) (loaded : List Path) : Obj → Path → Option Obj
  | o, [] => some o
  | o, n :: ns =>
    match getattr U loaded o n with
    | some o' => getattrs U loaded o' ns
    | none => none

/-- the `while not name[0]` loop of `_zope_dottedname_style` (lines 383-386) -/
def popDots (m : Path) : Path → Except Err Path
  | [] => .error .indexError
  | n :: ns =>
    if n ≠ [] then .ok (m ++ n :: ns)
    else if m = [] then .error .indexError
    else popDots m.dropLast ns

/-- lines 364-386: the absolute segment list -/
def zopeName (pkg : Option Path) (value : Text) : Except Err Path :=
  if value = ['.'] then
    match pkg with
    | none => .error .relValueError
    | some m => .ok m
  else
    match splitOn '.' value with
    | [] => .error .indexError
    | n0 :: ns =>
      if n0 ≠ [] then .ok (n0 :: ns)
      else
        match pkg with
        | none => .error .relValueError
        | some m => popDots m ns

/-- lines 390-396: getattr first, import only when getattr fails, then getattr again -/
def walk (U : Univ) : Obj → Path → Path → St → Except Err Obj × St
  | found, _, [], st => (.ok found, st)
  | found, used, n :: ns, st =>
    match getattr U st.loaded found n with
    | some o => walk U o (used ++ [n]) ns st
    | none =>
      match callImport U (used ++ [n]) st with
      | (some e, st1) => (.error e, st1)
      | (none, st1) =>
        match getattr U st1.loaded found n with
        | some o => walk U o (used ++ [n]) ns st1
        | none => (.error .attributeError, st1)

def zopeStyle (U : Univ) (pkg : Option Path) (value : Text) (st : St) : Except Err Obj × St :=
  match zopeName pkg value with
  | .error e => (.error e, st)
  | .ok [] => (.error .indexError, st)
  | .ok (u :: ns) =>
    match callImport U [u] st with
    | (some e, st1) => (.error e, st1)
    | (none, st1) => walk U (.mod [u]) [u] ns st1

def isRelPkg (value : Text) : Bool := value.head? = some '.' || value.head? = some ':'

/-- lines 340-348: the absolute text -/
def pkgAbs (pkg : Option Path) (value : Text) : Except Err Text :=
  if isRelPkg value then
    match pkg with
    | none => .error .relValueError
    | some m => if value = ['.'] ∨ value = [':'] then .ok (joinDots m) else .ok (joinDots m ++ value)
  else .ok value

def pkgStyle (U : Univ) (pkg : Option Path) (value : Text) (st : St) : Except Err Obj × St :=
  match pkgAbs pkg value with
  | .error e => (.error e, st)
  | .ok v =>
    match callImport U (splitOn '.' (splitColon v).1) st with
    | (some e, st1) => (.error e, st1)
    | (none, st1) =>
      match getattrs U st1.loaded (.mod (splitOn '.' (splitColon v).1))
          (match (splitColon v).2 with | none => [] | some r => splitOn '.' r) with
      | some o => (.ok o, st1)
      | none => (.error .importError, st1)

/-- `_resolve` -/
def resolveStr (U : Univ) (pkg : Option Path) (value : Text) (st : St) : Except Err Obj × St :=
  if ':' ∈ value then pkgStyle U pkg value st else zopeStyle U pkg value st

/-- relative by the documentation: first character `.` or `:` (the empty name is treated as relative by the zope branch) -/
def isRelative (value : Text) : Bool :=
  if ':' ∈ value then isRelPkg value else (value = [] || value.head? = some '.')

-- ------------------------------------------------------------------------------------------------------------------
/-- the constructor argument -/
inductive PkgArg where
  | none
  | caller (m : Path)       -- CALLER_PACKAGE; `m` = the module whose code calls the resolver
  | name (p : Path)         -- a dotted string
  | obj (p : Path)          -- an imported module object
deriving DecidableEq, Repr

/-- `self.package` -/
inductive Sel where
  | none
  | caller (m : Path)
  | pkg (p : Path)
deriving DecidableEq, Repr

/-- `package_name` / `caller_package`: a package is its own package, a module lives in its parent, a top-level module in itself -/
def packageOf (U : Univ) (p : Path) : Path :=
  if U.kind p = some .pkg ∨ p.length ≤ 1 then p else p.dropLast

def packageOfCall (U : Univ) (p : Path) (st : St) : Except Err Sel × St :=
  match callImport U (packageOf U p) st with
  | (some e, st1) => (.error e, st1)
  | (none, st1) => (.ok (.pkg (packageOf U p)), st1)

/-- `Resolver.__init__` -/
def initResolver (U : Univ) (a : PkgArg) (st : St) : Except Err Sel × St :=
  match a with
  | .none => (.ok .none, st)
  | .caller m => (.ok (.caller m), st)
  | .name p =>
    match callImport U p st with
    | (some _, st1) => (.error .valueError, st1)
    | (none, st1) => packageOfCall U p st1
  | .obj p => packageOfCall U p st

/-- the package relative names are resolved against -/
def currentPkg (U : Univ) : Sel → Option Path
  | .none => none
  | .caller m => some (packageOf U m)
  | .pkg p => some p

inductive Arg where
  | str (t : Text)
  | other (n : Nat)
deriving DecidableEq, Repr

inductive Meth where
  | resolve | maybe | name | package
deriving DecidableEq, Repr

inductive Out where
  | obj (o : Obj)
  | same (n : Nat)          -- the non-string argument itself
  | pyNone
  | str (t : Text)
  | err (e : Err)
deriving DecidableEq, Repr

def outOf : Except Err Obj → Out
  | .ok o => .obj o
  | .error e => .err e

def runOp (U : Univ) (sel : Sel) (m : Meth) (a : Arg) (st : St) : Out × St :=
  match m with
  | .name =>
    match currentPkg U sel with
    | some p => (.str (joinDots p), st)
    | none => (.err .attributeError, st)
  | .package =>
    match currentPkg U sel with
    | some p => (.obj (.mod p), st)
    | none => (.pyNone, st)
  | .resolve =>
    match a with
    | .other _ => (.err .valueError, st)
    | .str t => (outOf (resolveStr U (currentPkg U sel) t st).1, (resolveStr U (currentPkg U sel) t st).2)
  | .maybe =>
    match a with
    | .other n => (.same n, st)
    | .str t => (outOf (resolveStr U (currentPkg U sel) t st).1, (resolveStr U (currentPkg U sel) t st).2)

-- ------------------------------------------------------------------------------------------------------------------
/-- one observation of the running resolver (extract/x09.py): a fresh interpreter state, `pre` imported, the resolver
constructed from `pkg`, one `resolve(name)` -/
structure ProbeRow where
  pkg : PkgArg
  pre : List Path
  name : Text
  init : Option Err            -- `none`: the constructor returned
  icalls : List Text
  ifinds : List Text
  out : Out
  calls : List Text
  finds : List Text
  loaded : List Text           -- the universe's modules in sys.modules afterwards (any order)

def untraced (st : St) : St := { st with calls := [], finds := [] }

def sameSet (a b : List Text) : Bool := a.all (· ∈ b) && b.all (· ∈ a)

/-- does the model give exactly this observation? -/
def probeRun (U : Univ) (r : ProbeRow) : Bool :=
  let st0 := r.pre.foldl (fun st m => (importPath U m st).2) ({} : St)
  let st1 := match r.pkg with
    | .caller p => (importPath U p st0).2
    | .obj p => (importPath U p st0).2
    | _ => st0
  match initResolver U r.pkg (untraced st1) with
  | (.error e, st2) =>
    decide (r.init = some e) && decide (st2.calls.map joinDots = r.icalls) && decide (st2.finds.map joinDots = r.ifinds) &&
      sameSet (st2.loaded.map joinDots) r.loaded
  | (.ok sel, st2) =>
    let res := runOp U sel .resolve (.str r.name) (untraced st2)
    decide (r.init = none) && decide (st2.calls.map joinDots = r.icalls) && decide (st2.finds.map joinDots = r.ifinds) &&
      decide (res.1 = r.out) && decide (res.2.calls.map joinDots = r.calls) && decide (res.2.finds.map joinDots = r.finds) &&
      sameSet (res.2.loaded.map joinDots) r.loaded

end Pyr.Dotted
