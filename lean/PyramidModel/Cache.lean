/-
C15 — the view-lookup cache protocol as a small-step concurrent machine (core Lean only).

What is modelled (line by line where it matters):

* `pyramid/view.py  _find_views`                      — a *lookup thread*
    cache = registry._view_lookup_cache                 `start  → probe c`        (ONE read of the reference)
    views = cache.get(key)                              `probe c → done | scan c 0 []`
    for … in product(req.__sro__, ctx.__sro__):         `scan c i acc → scan c (i+1) (acc ++ registered(slotᵢ))`
      for view_type in view_types:                        (each step reads the CURRENT registrations)
        registered(source_ifaces, view_type, name=…)
    if views:                                           `scan c n []  → done`    (misses are not cached)
      with registry._lock:                              `scan c n acc → holding c acc`   (needs the lock free)
        cache[key] = views                              `holding → written`      (into the dict it HOLDS, `c`)
                                                        `written → done`         (lock released)
* `pyramid/config/views.py  add_view.register`        — the single *registrar*
    register_view(...)  (registered/unregister/registerAdapter)   `begin mods; modify; …; modify`
    self.registry._clear_view_lookup_cache()                      `finish`  (swap in a fresh dict, last)
* `pyramid/registry.py  Registry._clear_view_lookup_cache`:  `self._view_lookup_cache = {}`  — a NEW dict
  object (address `cur+1`), not an in-place `.clear()`.

Abstract data: a *slot* is one exact adapter-registry key `(classifier, req_type, ctx_type, view_type, name)`,
a *view* is an object identity, a *query* is the argument tuple of one `_find_views` call
`(view_classifier, view_types, request_iface, context_iface, view_name)`, a *key* is the cache key the code
derives from it (`Cfg.ck`), and `Cfg.slots q` is the scan order (SRO product × view types — computed by
zope.interface, an input here).  The theorems need `Cfg.KeyFaithful`: queries with the same cache key scan the
same slots.  For the source this is a GENERATED obligation (`Gen.C15.keyCoversScan`: every parameter the scan loop
reads is a field of the key tuple).  It used to fail — until commit fc67717 the key omitted classifier and view
types, so an exception view lookup could be answered from an ordinary lookup's entry (fixed finding F-C15a;
`Props/C15.lean: key_collision_witness` keeps the counterexample as the necessity proof of the obligation).
Since commit c18a9ea the two specifications enter the key as their RESOLUTION ORDERS (not as objects that are updated
in place when what a class/object provides changes: fixed finding F-C15c, `interface_change_witness`).

`Proto` holds the five structural facts of the source the proofs rest on.  They are regenerated from the
source by `extract/c15.py` (`Gen/C15.lean`); `Proto.good` is the protocol as designed, and the machine is
defined for every `Proto` so that the *necessity* of each fact is a `decide`d counterexample (Props/C15.lean).
-/
namespace Pyr.Cache

abbrev Slot := Nat
abbrev View := Nat
abbrev Key := Nat
abbrev Query := Nat

/-- the static part of an application: which cache key a query uses and which slots it scans, in order -/
structure Cfg where
  ck : Query → Key
  slots : Query → List Slot

/-- queries that share a cache key scan the same slots (the cache key determines the answer) -/
def Cfg.KeyFaithful (cfg : Cfg) : Prop := ∀ q q', cfg.ck q = cfg.ck q' → cfg.slots q = cfg.slots q'

/-- adapter registrations: exact slot ↦ registered view object -/
abbrev Regs := Slot → Option View

def setReg (r : Regs) (s : Slot) (v : Option View) : Regs := fun x => if x = s then v else r x

/-- one registration's effect on the adapter registry: a sequence of unregister (`none`) / register (`some v`) steps -/
abbrev Mods := List (Slot × Option View)

def applyMods (r : Regs) : Mods → Regs
  | [] => r
  | (s, v) :: ms => applyMods (setReg r s v) ms

/-- SPEC: the list of views a lookup must return under registrations `r`: the registered views of the slots in
scan order (most specific first).  Declarative: no cache, no threads, no history. -/
def scan (r : Regs) (ss : List Slot) : List View := ss.filterMap r

/-- a cache dict: association list with distinct keys.  Entries are VALUES: no two entries share structure, so the
model cannot alias cached lists; that the implementation does not either is checked on the implementation
(`Gen.C15.cachedValuesImmutable`, and the harness's at-rest comparison of every entry with a cold scan). -/
abbrev Dict := List (Key × List View)

def Dict.get (d : Dict) (k : Key) : Option (List View) := List.lookup k d

def Dict.set : Dict → Key → List View → Dict
  | [], k, v => [(k, v)]
  | (k', v') :: d, k, v => if k' = k then (k, v) :: d else (k', v') :: Dict.set d k v

def Dict.keys (d : Dict) : List Key := d.map (·.1)

/-- the five facts about the source the protocol depends on -/
structure Proto where
  /-- `add_view.register` contains `self.registry._clear_view_lookup_cache()` -/
  clears : Bool
  /-- … as its last statement, after every `register_view(...)` call (modify BEFORE swap) -/
  swapLast : Bool
  /-- `_clear_view_lookup_cache` assigns a NEW dict (`= {}`), it does not empty the old one in place -/
  freshDict : Bool
  /-- `_find_views` reads `registry._view_lookup_cache` exactly once and probes/writes through that local -/
  singleRead : Bool
  /-- the write is NOT guarded by `if views:` (empty results are cached) -/
  cacheEmpty : Bool
deriving DecidableEq, Repr

/-- the protocol as designed (and as the translator finds it in the unchanged source) -/
def Proto.good : Proto := ⟨true, true, true, true, false⟩

inductive PC where
  | start
  | probe (c : Nat)
  | scan (c : Nat) (i : Nat) (acc : List View)
  | holding (c : Nat) (acc : List View)
  | written (c : Nat) (acc : List View)
  | done (c : Nat) (res : List View)
deriving DecidableEq, Repr

/-- the cache dict (heap address) the thread holds a reference to -/
def PC.ref? : PC → Option Nat
  | .start => none
  | .probe c => some c
  | .scan c _ _ => some c
  | .holding c _ => some c
  | .written c _ => some c
  | .done c _ => some c

structure Thread where
  q : Query
  pc : PC
deriving DecidableEq, Repr

structure St where
  regs : Regs
  /-- heap of cache dicts; `heap cur` is `registry._view_lookup_cache` -/
  heap : Nat → Dict
  cur : Nat
  /-- `registry._lock`: the tid of the holder -/
  lock : Option Nat
  /-- the registrar is between `begin` and `finish` -/
  busy : Bool
  pending : Mods
  threads : List Thread

inductive Lbl where
  | spawn (q : Query)
  | thread (tid : Nat)
  | begin (mods : Mods)
  | modify
  | finish
deriving DecidableEq, Repr

def init (r : Regs) : St :=
  { regs := r, heap := fun _ => [], cur := 0, lock := none, busy := false, pending := [], threads := [] }

def updHeap (h : Nat → Dict) (a : Nat) (d : Dict) : Nat → Dict := fun x => if x = a then d else h x

def setPc (s : St) (tid : Nat) (q : Query) (pc : PC) : St :=
  { s with threads := s.threads.set tid ⟨q, pc⟩ }

/-- `_clear_view_lookup_cache()` -/
def swap (P : Proto) (s : St) : St :=
  if P.freshDict then { s with cur := s.cur + 1, heap := updHeap s.heap (s.cur + 1) [] }
  else { s with heap := updHeap s.heap s.cur [] }

def stepThread (P : Proto) (cfg : Cfg) (s : St) (tid : Nat) : St :=
  match s.threads[tid]? with
  | none => s
  | some t =>
    match t.pc with
    | .start => setPc s tid t.q (.probe s.cur)
    | .probe c =>
      match (s.heap c).get (cfg.ck t.q) with
      | some v => setPc s tid t.q (.done c v)
      | none => setPc s tid t.q (.scan c 0 [])
    | .scan c i acc =>
      match (cfg.slots t.q)[i]? with
      | some sl => setPc s tid t.q (.scan c (i + 1) (acc ++ (s.regs sl).toList))
      | none =>
        if acc.isEmpty && !P.cacheEmpty then setPc s tid t.q (.done c acc)
        else if s.lock.isNone then setPc { s with lock := some tid } tid t.q (.holding c acc)
        else s
    | .holding c acc =>
      let tgt := if P.singleRead then c else s.cur
      setPc { s with heap := updHeap s.heap tgt ((s.heap tgt).set (cfg.ck t.q) acc) } tid t.q (.written c acc)
    | .written c acc => setPc { s with lock := none } tid t.q (.done c acc)
    | .done _ _ => s

def step (P : Proto) (cfg : Cfg) (s : St) : Lbl → St
  | .spawn q => { s with threads := s.threads ++ [⟨q, .start⟩] }
  | .thread tid => stepThread P cfg s tid
  | .begin mods =>
    if s.busy then s
    else
      let s1 := { s with busy := true, pending := mods }
      if P.clears && !P.swapLast then swap P s1 else s1
  | .modify =>
    match s.busy, s.pending with
    | true, (sl, v) :: ms => { s with regs := setReg s.regs sl v, pending := ms }
    | _, _ => s
  | .finish =>
    if s.busy && s.pending.isEmpty then
      let s1 := if P.clears && P.swapLast then swap P s else s
      { s1 with busy := false }
    else s

def run (P : Proto) (cfg : Cfg) (s : St) (sched : List Lbl) : St :=
  sched.foldl (step P cfg) s

/-- a whole registration executed without pre-emption: `begin mods; modify × |mods|; finish` -/
def atomicReg (mods : Mods) : List Lbl :=
  .begin mods :: (List.replicate mods.length .modify ++ [.finish])

/-- a whole lookup of a fresh thread executed without pre-emption (enough steps for any outcome) -/
def soloLookup (cfg : Cfg) (tid : Nat) (q : Query) : List Lbl :=
  .spawn q :: List.replicate ((cfg.slots q).length + 5) (.thread tid)

/-- result of thread `tid`, if it has finished -/
def result? (s : St) (tid : Nat) : Option (List View) :=
  match s.threads[tid]? with
  | some ⟨_, .done _ v⟩ => some v
  | _ => none

end Pyr.Cache
