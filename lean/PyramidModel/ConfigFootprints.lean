import PyramidModel.ConfigOrder
/-!
C08 — HAND-WRITTEN footprint table: which registry families the callable of each action kind reads and writes
(and what the computation of its discriminator reads).  Independent of `Gen/`; VALIDATED DYNAMICALLY on every run:
`harness/c08.py` wraps the real registry, logs every `queryUtility / getUtility / registerUtility /
registerAdapter / registerHandler / adapters.registered / adapters.unregister / …` and every in-place change of a
registered container (PredicateList, TopologicalSorter, Tweens, RoutesMapper, _RequestExtensions, StaticURLInfo,
translation-dir list) while each action callable runs, and checks  observed reads ⊆ declared reads ∪ writes,
observed writes ⊆ declared writes  (a violation is a correspondence break of this table).

Sources (the `register` closures): adapters.py:43-75,178-195,255-273,305-325; assets.py:383-398; factories.py:37-46,
66-75,100-109,128-137,193-232,247-256; i18n.py:31-40,108-125; predicates.py:38-52; rendering.py:36-55;
routes.py:460-514; security.py:40-56,83-117,141-177,220-238,327-349,363-370; tweens.py:140-160; views.py:907-1153
(`discrim_func`, `register`, `derive_view`, `register_view`), 1311-1326, 1399-1419, 1921-1937, 2267-2281, 2300-2330;
viewderivers.py (`secured_view`, `csrf_view`, `rendered_view`, `mapped_view` read ISecurityPolicy,
IDefaultPermission is resolved in `_derive_view`, IDefaultCSRFOptions, IRendererFactory, IViewMapperFactory).
-/
namespace Pyr.ConfigOrder

/-- how the key of a touched slot is determined -/
inductive Keying where
  /-- the family has one slot (key 0): `ISecurityPolicy`, the predicate list of one type, the routes mapper … -/
  | whole
  /-- the key is the action's discriminator (`(IRendererFactory, name)` ↦ `IRendererFactory[name]`,
  `('route', name)` ↦ `IRouteRequest[name]`, `('request extensions', name)` ↦ the dict entry `name`) -/
  | byDisc
  /-- the key is an argument of the statement unrelated to the discriminator (a view's route name, renderer
  name, registration triad) -/
  | byArg
deriving DecidableEq, Repr

structure KEntry where
  fam : Fam
  keying : Keying
deriving DecidableEq, Repr

/-- declared footprint of an action kind -/
structure KFoot where
  reads : List KEntry
  writes : List KEntry
  /-- families read while the discriminator is computed (`discrim_func` of `add_view`) -/
  discReads : List Fam
deriving Repr

private def w (f : Fam) : KEntry := ⟨f, .whole⟩
private def d (f : Fam) : KEntry := ⟨f, .byDisc⟩
private def a (f : Fam) : KEntry := ⟨f, .byArg⟩

/-- THE TABLE.  A container that is fetched and then mutated in place (`predlist.add`, `derivers.add`,
`mapper.connect`, `exts.methods[name] = …`) is a read *and* a write of its family. -/
def kfoot : Kind → KFoot
  | .addSubscriber => ⟨[w .predListSubscriber], [w .subscribers], []⟩
  | .addResponseAdapter => ⟨[], [d .responseAdapter], []⟩
  | .addTraverser => ⟨[], [d .traverser], []⟩
  | .addResourceUrlAdapter => ⟨[], [d .resourceUrl], []⟩
  | .overrideAsset => ⟨[w .assetOverrides], [w .assetOverrides], []⟩
  | .setRootFactory => ⟨[], [w .rootFactory], []⟩
  | .setSessionFactory => ⟨[], [w .sessionFactory], []⟩
  | .setRequestFactory => ⟨[], [w .requestFactory], []⟩
  | .setResponseFactory => ⟨[], [w .responseFactory], []⟩
  | .addRequestMethodNone => ⟨[], [], []⟩
  -- get-or-create of the `_RequestExtensions` container is idempotent; the entry written is `name` = the discriminator
  | .addRequestMethodProp => ⟨[d .requestExtensions], [d .requestExtensions], []⟩
  | .addRequestMethod => ⟨[d .requestExtensions], [d .requestExtensions], []⟩
  | .setExecutionPolicy => ⟨[], [w .executionPolicy], []⟩
  | .setLocaleNegotiator => ⟨[], [w .localeNegotiator], []⟩
  | .addTranslationDirs => ⟨[w .translationDirs], [w .translationDirs], []⟩
  -- one call site for the three predicate types; `type` is an argument of the statement: the instance touches the
  -- one list named by its argument slot (key 0)
  | .addPredicate => ⟨[a .predListView, a .predListRoute, a .predListSubscriber],
                      [a .predListView, a .predListRoute, a .predListSubscriber], []⟩
  | .addRenderer => ⟨[], [d .rendererFactory], []⟩
  | .routeConnect => ⟨[w .predListRoute, w .routesMapper], [w .routesMapper], []⟩
  | .routeIface => ⟨[d .routeRequest], [d .routeRequest], []⟩
  | .setSecurityPolicy => ⟨[], [w .securityPolicy], []⟩
  | .setAuthenticationPolicy => ⟨[w .authzPolicy, w .securityPolicy], [w .authnPolicy, w .securityPolicy], []⟩
  | .setAuthorizationPolicy => ⟨[], [w .authzPolicy], []⟩
  | .ensureAuthentication => ⟨[w .authnPolicy], [], []⟩
  | .setDefaultPermission => ⟨[], [w .defaultPermission], []⟩
  | .addPermission => ⟨[], [], []⟩
  | .setDefaultCSRFOptions => ⟨[], [w .defaultCSRFOptions], []⟩
  | .setCSRFStoragePolicy => ⟨[], [w .csrfStoragePolicy], []⟩
  | .addTween => ⟨[w .tweens], [w .tweens], []⟩
  | .addView => ⟨[a .routeRequest, a .rendererFactory, w .securityPolicy, w .defaultPermission,
                  w .defaultCSRFOptions, w .viewDerivers, w .viewMapper, w .acceptOrder, a .viewSlot],
                 [a .viewSlot], [.predListView, .viewDerivers]⟩
  | .addAcceptViewOrder => ⟨[w .acceptOrder], [w .acceptOrder], []⟩
  | .addViewDeriver => ⟨[w .viewDerivers], [w .viewDerivers], []⟩
  | .setViewMapper => ⟨[], [w .viewMapper], []⟩
  | .staticRegister => ⟨[w .staticRegistrations], [w .staticRegistrations], []⟩
  -- an entry keyed by the statement's (spec, explicit); what is applied to an asset is the most specific matching entry
  -- (explicit ones first): a function of the SET of entries
  | .cacheBuster => ⟨[a .cacheBusters], [a .cacheBusters], []⟩
  | .unknown => ⟨[], [], []⟩

/-- Container families the callable (or the discriminator thunk) gets-or-creates (`get_predlist`,
`queryUtility(IViewDerivers) … if None: registerUtility(TopologicalSorter(…))`, …): registering the EMPTY container
when none exists.  Idempotent and performed by every accessor of the family, so it is neither a read nor a write
of the content; the harness checks that an observed registration outside `writes` really is the first
registration of an empty container. -/
def kcreates : Kind → List Fam
  | .addSubscriber => [.predListSubscriber]
  | .addRequestMethodProp => [.requestExtensions]
  | .addRequestMethod => [.requestExtensions]
  | .addPredicate => [.predListView, .predListRoute, .predListSubscriber]
  | .routeConnect => [.predListRoute]
  | .addView => [.predListView]
  | .addAcceptViewOrder => [.acceptOrder]
  | .addViewDeriver => [.viewDerivers]
  | _ => []

/-- `unknown` has no footprint -/
def kfootKnown : Kind → Bool
  | .unknown => false
  | _ => true

/-- why a pair of kinds is order-sensitive -/
inductive Why where
  /-- documented by pyramid, exempted by the property's quantifier -/
  | documented
  /-- NOT exempted by the property: a recorded finding -/
  | finding (id : String)
  /-- outside the directive families the property lists (deprecated / asset / i18n directives) -/
  | outside
deriving DecidableEq, Repr

/-- DECLARED ORDER-SENSITIVE PAIRS (unordered).  Two same-phase actions of such kinds that touch a common slot
may not be swapped. -/
def sensitivePairs : List (Kind × Kind × Why) :=
  [ -- the property's documented pairs
    (.routeConnect, .routeConnect, .documented),        -- routes are matched in declaration order (routes.py:502-505)
    (.addSubscriber, .addSubscriber, .documented),      -- subscribers are notified in registration order
    (.addTween, .addTween, .documented),                -- unconstrained tweens nest in add_tween order
    (.staticRegister, .staticRegister, .documented),    -- static views declare routes; `registrations` is a list
    -- findings: the statement exempts none of these
    (.addView, .addView, .finding "F-C08a"),            -- same slot, equal predicate order, both hold
    (.addViewDeriver, .addViewDeriver, .finding "F-C08b"),  -- no mutual under/over constraint
    (.addPredicate, .addPredicate, .finding "F-C08c"),  -- no mutual weighs_more/less_than constraint
    -- outside the statement's directive families
    (.addAcceptViewOrder, .addAcceptViewOrder, .outside),
    (.addTranslationDirs, .addTranslationDirs, .outside),
    (.overrideAsset, .overrideAsset, .outside),
    (.cacheBuster, .cacheBuster, .outside),   -- only for the SAME (spec, explicit): the later replaces the earlier (no discriminator)
    (.setAuthenticationPolicy, .setSecurityPolicy, .outside) ]  -- mutually exclusive, legacy API

def sensitive (k1 k2 : Kind) : Bool :=
  sensitivePairs.any (fun p => (p.1 == k1 && p.2.1 == k2) || (p.1 == k2 && p.2.1 == k1))

/-- kinds whose `byDisc` keys live in one namespace (`('request extensions', name)`) -/
def sameKeySpace (k1 k2 : Kind) : Bool :=
  k1 == k2 ||
  ((k1 == .addRequestMethodProp || k1 == .addRequestMethod) && (k2 == .addRequestMethodProp || k2 == .addRequestMethod))

/-- the phase at which `r` reads family `f`: its own phase, except that what the *discriminator* reads is read
at declaration time (before every action: `none`) unless the discriminator is `Deferred` -/
def readsAt (r : Row) : List (KEntry × Option Int) :=
  (kfoot r.kind).reads.map (fun e => (e, r.phase)) ++
  (kfoot r.kind).discReads.map (fun f => (⟨f, .whole⟩, if r.disc = .deferred then r.phase else none))

/-- the escape clauses that do not depend on phases: the pair is declared order-sensitive; or both slots are
keyed by the discriminators of the two actions (distinct in a conflict-free program); or the two actions would
carry the same constant discriminator -/
def escapes (r1 r2 : Row) (e1 e2 : KEntry) : Bool :=
  sensitive r1.kind r2.kind ||
  (e1.keying == .byDisc && e2.keying == .byDisc && sameKeySpace r1.kind r2.kind) ||
  (r1.kind == r2.kind && (r1.disc == .iface && r2.disc == .iface))

/-- ONE PAIR OF ROWS IS SOUND: wherever `r1` writes a family that `r2` reads, `r1`'s phase is strictly lower than
the phase at which `r2` reads it; wherever both write it, their phases differ; or an escape clause applies. -/
def pairOK (r1 r2 : Row) : Bool :=
  (kfoot r1.kind).writes.all fun e1 =>
    ((readsAt r2).all fun (e2, at2) =>
      e1.fam != e2.fam ||
      (match r1.phase, at2 with
       | some p1, some p2 => decide (p1 < p2)
       | _, _ => false) ||
      escapes r1 r2 e1 e2) &&
    ((kfoot r2.kind).writes.all fun e2 =>
      e1.fam != e2.fam ||
      (match r1.phase, r2.phase with
       | some p1, some p2 => decide (p1 ≠ p2)
       | _, _ => false) ||
      escapes r1 r2 e1 e2)

/-- the whole table is sound, understood and complete -/
def tableOK (rows : List Row) : Bool :=
  rows.all (fun r => kfootKnown r.kind && r.phase.isSome && r.disc != .unknown) &&
  rows.all (fun r1 => rows.all (fun r2 => pairOK r1 r2)) &&
  -- a slot keyed by the discriminator needs one
  rows.all (fun r => ((kfoot r.kind).reads ++ (kfoot r.kind).writes).all
    (fun e => e.keying != .byDisc || r.disc == .tuple || r.disc == .iface)) &&
  -- every known call site occurs exactly once
  Kind.all.all (fun k => (rows.filter (fun r => r.kind == k)).length == 1) &&
  rows.length == Kind.all.length

/-! ## instances -/

/-- the slots an action of kind `k` with discriminator key `disc` and argument keys `args` touches through the
entries `es` -/
def instSlots (disc : Option Nat) (args : List Slot) (es : List KEntry) : List Slot :=
  es.flatMap fun e =>
    match e.keying with
    | .whole => [⟨e.fam, 0⟩]
    | .byDisc => match disc with
      | some k => [⟨e.fam, k⟩]
      | none => []
    | .byArg => args.filter (fun x => x.fam == e.fam)

/-- declared instance footprint (reads include what the discriminator reads) -/
def instReads (k : Kind) (disc : Option Nat) (args : List Slot) : List Slot :=
  instSlots disc args ((kfoot k).reads ++ (kfoot k).discReads.map (fun f => ⟨f, .whole⟩))

def instWrites (k : Kind) (disc : Option Nat) (args : List Slot) : List Slot :=
  instSlots disc args (kfoot k).writes

/-- the constant discriminator key of a kind with an interface discriminator -/
def Kind.index (k : Kind) : Nat := (Kind.all.findIdx? (· == k)).getD Kind.all.length

end Pyr.ConfigOrder
