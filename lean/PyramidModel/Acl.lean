/-
C11 — executable model of `pyramid.authorization.ACLHelper`
(`permits` and `principals_allowed_by_permission`), src/pyramid/authorization.py.

Principals and permissions are abstract names (`Nat`); `everyone` is the name the harness maps
`pyramid.authorization.Everyone` to.  A lineage is listed context first; `none` is a location
without an `__acl__` attribute.  Callable ACLs are called by the real code; the harness passes the
callable to the implementation and its value to the model.
-/
namespace Pyr.Acl

/-- The third element of an ACE: a single permission name, an iterable of names, or
`ALL_PERMISSIONS` (whose `__contains__` is constantly true). -/
inductive Perms where
  | one (p : Nat)
  | many (ps : List Nat)
  | all
deriving Repr, DecidableEq

/-- `permission in ace_permissions` after the `is_nonstr_iter` normalisation. -/
def Perms.has : Perms → Nat → Bool
  | .one p, q => p == q
  | .many ps, q => ps.contains q
  | .all, _ => true

/-- `ace_action`: `Allow`, `Deny`, or any other value (the code only ever compares with `Allow`
and `Deny`). -/
inductive Action where
  | allow | deny | other
deriving Repr, DecidableEq

structure Ace where
  action : Action
  who : Nat
  perms : Perms
deriving Repr, DecidableEq

abbrev Acl := List Ace
/-- context first; `none` = `AttributeError` on `location.__acl__` -/
abbrev Lineage := List (Option Acl)

def everyone : Nat := 0

/-- `ace_principal in principals and permission in ace_permissions` -/
def Ace.hits (a : Ace) (princs : List Nat) (perm : Nat) : Bool :=
  princs.contains a.who && a.perms.has perm

/-- inner `for ace in acl` loop of `permits`: index of and the first ACE that hits -/
def scanAclAt (princs : List Nat) (perm : Nat) : Acl → Nat → Option (Nat × Ace)
  | [], _ => none
  | a :: rest, i =>
    if a.hits princs perm then some (i, a) else scanAclAt princs perm rest (i + 1)

/-- `permits`: (location index, ACE index, ACE) of the deciding entry, or `none` for default deny -/
def decideAt (princs : List Nat) (perm : Nat) : Lineage → Nat → Option (Nat × Nat × Ace)
  | [], _ => none
  | none :: up, k => decideAt princs perm up (k + 1)
  | some acl :: up, k =>
    match scanAclAt princs perm acl 0 with
    | some (i, a) => some (k, i, a)
    | none => decideAt princs perm up (k + 1)

/-- truthiness of the `ACLAllowed` / `ACLDenied` result -/
def permits (princs : List Nat) (perm : Nat) (l : Lineage) : Bool :=
  match decideAt princs perm l 0 with
  | some (_, _, a) => a.action == .allow
  | none => false

/-- One location of `principals_allowed_by_permission`: the `for ace in acl` loop.
Arguments: `allowed` (the outer set), `here` (`allowed_here`), `denied` (`denied_here`);
returns the outer set and `allowed_here` as they are when the loop ends (or `break`s). -/
def stepAcl (perm : Nat) : Acl → List Nat → List Nat → List Nat → List Nat × List Nat
  | [], allowed, here, _ => (allowed, here)
  | a :: rest, allowed, here, denied =>
    if a.perms.has perm then
      match a.action with
      | .allow =>
        if denied.contains a.who then stepAcl perm rest allowed here denied
        else stepAcl perm rest allowed (a.who :: here) denied
      | .deny =>
        if a.who == everyone then ([], here)
        else stepAcl perm rest (allowed.filter (· != a.who)) here (a.who :: denied)
      | .other => stepAcl perm rest allowed here denied
    else stepAcl perm rest allowed here denied

/-- the outer loop, walking from the root down to the context (`down` is root first) -/
def allowedFrom (perm : Nat) : List (Option Acl) → List Nat → List Nat
  | [], allowed => allowed
  | none :: down, allowed => allowedFrom perm down allowed
  | some acl :: down, allowed =>
    let r := stepAcl perm acl allowed [] []
    allowedFrom perm down (r.1 ++ r.2)

/-- `principals_allowed_by_permission` (as a list; the harness compares as a set) -/
def principalsAllowed (perm : Nat) (l : Lineage) : List Nat := allowedFrom perm l.reverse []

end Pyr.Acl
