/-
X05 — executable model of the authentication policies of `src/pyramid/authentication.py` (everything except the
auth-ticket cookie machinery, which is C09's `PyramidModel.AuthTkt`) and of the request-API glue of
`src/pyramid/security.py`.  Core Lean only.

Modelled, statement by statement (debug logging left out):
  `CallbackAuthenticationPolicy._clean_principal / authenticated_userid / effective_principals`      (40-177)
  `RepozeWho1AuthenticationPolicy._get_identity / authenticated_userid / unauthenticated_userid /
     effective_principals / remember / forget`                                                         (210-374)
  `RemoteUserAuthenticationPolicy.unauthenticated_userid / remember / forget`                         (413-427)
  `SessionAuthenticationPolicy`, `SessionAuthenticationHelper`                                        (1211-1288)
  `BasicAuthAuthenticationPolicy.unauthenticated_userid / remember / forget / callback`               (1343-1370)
  `extract_http_basic_credentials`, `b64decode`                                                        (658-659, 1377-1420)
  `security.remember / forget`, `PermitsResult / Allowed / Denied`, `SecurityAPIMixin`,
  `AuthenticationAPIMixin`, `LegacySecurityPolicy`                                                     (security.py 21-80, 157-389)

The byte/text codecs are C09's, imported read-only: `latin1Enc` (`bytes_`), `b64dec` (`binascii.a2b_base64`, the C loop,
non-strict), `b64enc`, `utf8Enc`, `utf8Step` (one step of CPython's strict UTF-8 decoder), `splitFirst` (`str.split(sep, 1)`).
base64 is therefore IMPLEMENTED, not assumed.  `utf8Dec` below is the same decoder as C09's `utf8DecStrict` with fuel instead
of well-founded recursion (so that the generated tables can be `decide`d by the kernel); Lemmas/AuthPolicy.lean proves them equal.

User-supplied callables (the groupfinder `callback`, BasicAuth's `check`, the authorization policy, a new-style security
policy) are function parameters.
-/
import PyramidModel.AuthTkt

namespace Pyr.AuthPolicy

open Pyr.AuthTkt (Bytes latin1Enc utf8Enc utf8Step b64enc b64dec splitFirst)

/-! ## principals -/

/-- a principal / userid: a `str`, or some other hashable that is never `==` to a `str` (modelled: an `int`) -/
inductive Prin where
  | str (t : Text)
  | int (n : Int)
  deriving DecidableEq, Repr

/-- `pyramid.authorization.Everyone` -/
def everyone : Prin := .str "system.Everyone".toList
/-- `pyramid.authorization.Authenticated` -/
def authenticated : Prin := .str "system.Authenticated".toList

/-- what a groupfinder answers: `None`, or a sequence of principals -/
abbrev Groups := Option (List Prin)

/-- `_clean_principal` (40-43): `None` for the two system principals, else the argument -/
def cleanPrincipal (p : Prin) : Option Prin :=
  if p = authenticated ∨ p = everyone then none else some p

/-- `CallbackAuthenticationPolicy.authenticated_userid` (45-95), given what `unauthenticated_userid` answered -/
def cbAuthUserid (uid : Option Prin) (cb : Option (Prin → Groups)) : Option Prin :=
  match uid with
  | none => none
  | some u =>
    match cleanPrincipal u with
    | none => none
    | some _ =>
      match cb with
      | none => some u
      | some f =>
        match f u with
        | some _ => some u
        | none => none

/-- `CallbackAuthenticationPolicy.effective_principals` (97-177) -/
def cbEffPrincipals (uid : Option Prin) (cb : Option (Prin → Groups)) : List Prin :=
  match uid with
  | none => [everyone]
  | some u =>
    match cleanPrincipal u with
    | none => [everyone]
    | some _ =>
      let groups : Groups := match cb with
        | none => some []
        | some f => f u
      match groups with
      | none => [everyone]
      | some gs => [everyone] ++ [authenticated] ++ [u] ++ gs

/-! ## `extract_http_basic_credentials` -/

/-- the code points `str.isspace()` accepts (what `str.strip()` removes); checked against the running interpreter over all of
Unicode by the translator (`Gen.spaceCodes`) -/
def spaceCodes : List Nat :=
  [9, 10, 11, 12, 13, 28, 29, 30, 31, 32, 133, 160, 5760, 8192, 8193, 8194, 8195, 8196, 8197, 8198, 8199, 8200, 8201, 8202,
   8232, 8233, 8239, 8287, 12288]

def isSpace (c : Char) : Bool := spaceCodes.contains c.toNat

/-- `str.strip()` -/
def strip (t : Text) : Text := ((t.dropWhile isSpace).reverse.dropWhile isSpace).reverse

/-- `str.lower()` restricted to what matters for a comparison with `'basic'`: A-Z fold, every other character is left alone.
(No other character of Unicode lower-cases into letters of `basic`: `Gen.lowerIntoBasic`.) -/
def lowerAscii (c : Char) : Char :=
  if 65 ≤ c.toNat ∧ c.toNat ≤ 90 then Char.ofNat (c.toNat + 32) else c

def basicWord : Text := ['b', 'a', 's', 'i', 'c']

/-- `authmeth.lower() == 'basic'` -/
def isBasic (m : Text) : Bool := m.map lowerAscii == basicWord

/-- strict UTF-8 decoding, CPython's steps (`utf8Step` of C09), with fuel -/
def utf8DecF : Nat → Bytes → Option Text
  | _, [] => some []
  | 0, _ :: _ => none
  | f + 1, b0 :: rest =>
    match utf8Step b0 rest with
    | (some c, k) => (c :: ·) <$> utf8DecF f (rest.drop k)
    | (none, _) => none

/-- `bytes.decode('utf-8')`; `none` = UnicodeDecodeError -/
def utf8Dec (bs : Bytes) : Option Text := utf8DecF bs.length bs

/-- `bytes.decode('latin-1')` -/
def latin1Dec (bs : Bytes) : Text := bs.map fun b => Char.ofNat b.toNat

/-- "try utf-8 first, then latin-1" (1407-1412) -/
def decodeText (bs : Bytes) : Text :=
  match utf8Dec bs with
  | some t => t
  | none => latin1Dec bs

/-- outcome of `extract_http_basic_credentials` -/
inductive Parse where
  | none                      -- returns None
  | creds (user pw : Text)    -- HTTPBasicCredentials(user, pw)
  | raises                    -- UnicodeEncodeError out of `bytes_` (a header with a code point > 255: not a WSGI string)
  deriving DecidableEq, Repr

/-- `extract_http_basic_credentials(request)` (1377-1420); the argument is `request.headers.get('Authorization')` -/
def parseBasic (h : Option Text) : Parse :=
  match h with
  | none => .none
  | some [] => .none                                  -- `if not authorization`
  | some a =>
    match splitFirst ' ' a with                       -- `authorization.split(' ', 1)`
    | none => .none
    | some (meth, rest) =>
      if !isBasic meth then .none
      else
        match latin1Enc (strip rest) with             -- `bytes_(auth.strip())`
        | .error _ => .raises
        | .ok bs =>
          match b64dec bs with                        -- `base64.b64decode`
          | none => .none
          | some raw =>
            match splitFirst ':' (decodeText raw) with   -- `auth.split(':', 1)`
            | none => .none
            | some (u, p) => .creds u p

/-- the header a client sends for `(user, pw)`: `'Basic ' + b64encode((user + ':' + pw).encode('utf-8'))` -/
def formatBasic (user pw : Text) : Text :=
  ['B', 'a', 's', 'i', 'c', ' '] ++ b64enc (utf8Enc (user ++ ':' :: pw))

/-! ## the request as the policies see it -/

/-- a session: insertion-ordered dict `key ↦ value` (`none` = a stored `None`) -/
abbrev Session := List (Text × Option Prin)

/-- `session.get(k)` -/
def sessGet (s : Session) (k : Text) : Option Prin :=
  match s.lookup k with
  | some v => v
  | none => none

def sessHas (s : Session) (k : Text) : Bool := s.any (·.1 == k)

/-- `session[k] = v`: an existing key keeps its place -/
def sessSet (s : Session) (k : Text) (v : Option Prin) : Session :=
  if sessHas s k then s.map (fun kv => if kv.1 == k then (k, v) else kv) else s ++ [(k, v)]

/-- `if k in session: del session[k]` -/
def sessDel (s : Session) (k : Text) : Session := s.filter (fun kv => !(kv.1 == k))

/-- a repoze.who identity: `userid = none` — the dict has no `'repoze.who.userid'` key; `some none` — it maps to `None`;
`tag` stands for the rest of the dict (the callback receives the whole identity) -/
structure Ident where
  userid : Option (Option Prin)
  tag : Nat := 0
  deriving DecidableEq, Repr

structure Req where
  /-- `environ.get(environ_key)` -/
  remoteUser : Option Prin := none
  /-- `environ.get('repoze.who.identity')` -/
  identity : Option Ident := none
  /-- `environ.get('repoze.who.plugins')`: `none` — absent; `some b` — present, `b` = it has the policy's identifier -/
  plugins : Option Bool := none
  /-- `headers.get('Authorization')` -/
  authorization : Option Text := none
  session : Session := []

inductive Err where
  | keyError | unicodeEncodeError | valueError
  deriving DecidableEq, Repr

abbrev R := Except Err

instance {ε α : Type} [DecidableEq ε] [DecidableEq α] : DecidableEq (Except ε α) := fun a b =>
  match a, b with
  | .ok x, .ok y => if h : x = y then isTrue (by rw [h]) else isFalse (fun e => h (by cases e; rfl))
  | .error x, .error y => if h : x = y then isTrue (by rw [h]) else isFalse (fun e => h (by cases e; rfl))
  | .ok _, .error _ => isFalse (fun e => by cases e)
  | .error _, .ok _ => isFalse (fun e => by cases e)

/-- one authentication policy object -/
inductive Policy where
  | remoteUser (cb : Option (Prin → Groups))
  | session (pfx : Text) (cb : Option (Prin → Groups))
  | repoze (cb : Option (Ident → Groups))
  | basic (check : Text → Text → Groups) (realm : Text)

def useridKey (pfx : Text) : Text := pfx ++ "userid".toList

/-- `BasicAuthAuthenticationPolicy.callback` (1361-1370): the username argument is ignored, the header is parsed again -/
def basicCallback (check : Text → Text → Groups) (req : Req) : Prin → Groups := fun _ =>
  match parseBasic req.authorization with
  | .creds u p => check u p
  | _ => none

/-- `policy.unauthenticated_userid(request)` -/
def unauthUserid : Policy → Req → R (Option Prin)
  | .remoteUser _, req => pure req.remoteUser
  | .session pfx _, req => pure (sessGet req.session (useridKey pfx))
  | .repoze _, req =>
    match req.identity with
    | none => pure none
    | some i =>
      match i.userid with
      | none => throw .keyError
      | some u => pure u
  | .basic _ _, req =>
    match parseBasic req.authorization with
    | .raises => throw .unicodeEncodeError
    | .none => pure none
    | .creds u _ => pure (some (.str u))

/-- the `callback` attribute the inherited methods consult -/
def genericCallback : Policy → Req → Option (Prin → Groups)
  | .remoteUser cb, _ => cb
  | .session _ cb, _ => cb
  | .repoze _, _ => none          -- not used: repoze overrides both methods
  | .basic check _, req => some (basicCallback check req)

/-- `policy.authenticated_userid(request)` -/
def authUserid (pol : Policy) (req : Req) : R (Option Prin) :=
  match pol with
  | .repoze cb =>                                      -- 220-265
    match req.identity with
    | none => pure none
    | some i =>
      match i.userid with
      | none => throw .keyError
      | some none => pure none
      | some (some u) =>
        match cleanPrincipal u with
        | none => pure none
        | some _ =>
          match cb with
          | none => pure (some u)
          | some f => if (f i).isSome then pure (some u) else pure none
  | _ => do
    let uid ← unauthUserid pol req
    pure (cbAuthUserid uid (genericCallback pol req))

/-- `policy.effective_principals(request)` -/
def effPrincipals (pol : Policy) (req : Req) : R (List Prin) :=
  match pol with
  | .repoze cb =>                                      -- 274-345: the callback is asked BEFORE the userid is looked at
    match req.identity with
    | none => pure [everyone]
    | some i =>
      let groups : Groups := match cb with
        | none => some []
        | some f => f i
      match groups with
      | none => pure [everyone]
      | some gs =>
        match i.userid with
        | none => throw .keyError
        | some none => pure [everyone]
        | some (some u) =>
          match cleanPrincipal u with
          | none => pure [everyone]
          | some _ => pure ([everyone] ++ [authenticated] ++ [u] ++ gs)
  | _ => do
    let uid ← unauthUserid pol req
    pure (cbEffPrincipals uid (genericCallback pol req))

/-- what `remember` / `forget` hand back -/
inductive Headers where
  | list (hs : List (Text × Text))
  /-- the repoze.who identifier plugin's `remember(environ, identity)` with `identity['repoze.who.userid'] = uid` -/
  | pluginRemember (uid : Prin)
  /-- the plugin's `forget(environ, identity)` -/
  | pluginForget (identity : Option Ident)
  deriving DecidableEq, Repr

/-- `_get_identifier` (213-218) then the delegation -/
def repozeIdentifier (req : Req) (k : Headers) : R Headers :=
  match req.plugins with
  | none => pure (.list [])
  | some false => throw .keyError
  | some true => pure k

/-- `policy.remember(request, userid)`: the headers and the session afterwards -/
def polRemember : Policy → Req → Prin → R (Headers × Session)
  | .remoteUser _, req, _ => pure (.list [], req.session)
  | .session pfx _, req, u => pure (.list [], sessSet req.session (useridKey pfx) (some u))
  | .repoze _, req, u => do pure (← repozeIdentifier req (.pluginRemember u), req.session)
  | .basic _ _, req, _ => pure (.list [], req.session)

def challenge (realm : Text) : Text × Text :=
  ("WWW-Authenticate".toList, "Basic realm=\"".toList ++ realm ++ ['"'])

/-- `policy.forget(request)` -/
def polForget : Policy → Req → R (Headers × Session)
  | .remoteUser _, req => pure (.list [], req.session)
  | .session pfx _, req => pure (.list [], sessDel req.session (useridKey pfx))
  | .repoze _, req => do pure (← repozeIdentifier req (.pluginForget req.identity), req.session)
  | .basic _ realm, req => pure (.list [challenge realm], req.session)

/-! ## `pyramid.security` -/

/-- a new-style security policy, by its answers for this request -/
structure Custom (C P : Type) where
  identity : Option Prin
  userid : Option Prin
  permits : C → P → Bool
  remember : Prin → List (Text × Text)
  forget : List (Text × Text)

/-- `registry.queryUtility(ISecurityPolicy)` -/
inductive Sec (C P : Type) where
  | none
  /-- `LegacySecurityPolicy` over the registered authentication and authorization policies; `authz` = truthiness of
  `authz_policy.permits(context, principals, permission)` -/
  | legacy (pol : Policy) (authz : C → List Prin → P → Bool)
  | custom (c : Custom C P)

/-- `request.identity` -/
def reqIdentity {C P} : Sec C P → Req → R (Option Prin)
  | .none, _ => pure none
  | .legacy pol _, req => authUserid pol req          -- LegacySecurityPolicy.identity = authenticated_userid
  | .custom c, _ => pure c.identity

/-- `request.authenticated_userid` -/
def reqAuthUserid {C P} : Sec C P → Req → R (Option Prin)
  | .none, _ => pure none
  | .legacy pol _, req => authUserid pol req
  | .custom c, _ => pure c.userid

/-- `request.is_authenticated` -/
def reqIsAuthenticated {C P} (s : Sec C P) (req : Req) : R Bool := do
  pure (← reqAuthUserid s req).isSome

/-- `request.unauthenticated_userid` (deprecated API) -/
def reqUnauthUserid {C P} : Sec C P → Req → R (Option Prin)
  | .none, _ => pure none
  | .legacy pol _, req => unauthUserid pol req
  | .custom c, _ => pure c.userid

/-- `request.effective_principals` (deprecated API) -/
def reqEffPrincipals {C P} : Sec C P → Req → R (List Prin)
  | .legacy pol _, req => effPrincipals pol req
  | _, _ => pure [everyone]

/-- result of `request.has_permission` -/
inductive PermOut where
  /-- `Allowed('No security policy in use.')` -/
  | noPolicy
  /-- what the policy's `permits` answered (its truthiness) -/
  | decided (b : Bool)
  deriving DecidableEq, Repr

def PermOut.truthy : PermOut → Bool
  | .noPolicy => true
  | .decided b => b

/-- `LegacySecurityPolicy.permits` (385-389) -/
def legacyPermits {C P} (pol : Policy) (authz : C → List Prin → P → Bool) (req : Req) (ctx : C) (perm : P) : R Bool := do
  let principals ← effPrincipals pol req
  pure (authz ctx principals perm)

/-- `request.has_permission(permission, context)` (252-277); `reqCtx` = `request.context` -/
def reqHasPermission {C P} (s : Sec C P) (req : Req) (perm : P) (ctxArg : Option C) (reqCtx : C) : R PermOut :=
  let ctx := match ctxArg with
    | some c => c
    | none => reqCtx
  match s with
  | .none => pure .noPolicy
  | .legacy pol authz => do pure (.decided (← legacyPermits pol authz req ctx perm))
  | .custom c => pure (.decided (c.permits ctx perm))

/-- `security.remember(request, userid)` -/
def secRemember {C P} : Sec C P → Req → Prin → R (Headers × Session)
  | .none, req, _ => pure (.list [], req.session)
  | .legacy pol _, req, u => polRemember pol req u
  | .custom c, req, u => pure (.list (c.remember u), req.session)

/-- `security.forget(request, **kw)`; `kw` = some keyword argument was given -/
def secForget {C P} : Sec C P → Req → (kw : Bool) → R (Headers × Session)
  | .none, req, _ => pure (.list [], req.session)
  | .legacy pol _, req, kw => if kw then throw .valueError else polForget pol req
  | .custom c, req, _ => pure (.list c.forget, req.session)

/-! ## `PermitsResult` -/

/-- `Allowed(s, *args)` / `Denied(s, *args)`: `boolval`, the format string and its (string) arguments -/
structure PermitsResult where
  boolval : Bool
  s : Text
  args : List Text
  deriving DecidableEq, Repr

def allowed (s : Text) (args : List Text := []) : PermitsResult := ⟨true, s, args⟩
def denied (s : Text) (args : List Text := []) : PermitsResult := ⟨false, s, args⟩

/-- `bool(result)` (an `int` subclass constructed from `boolval`) -/
def PermitsResult.truthy (r : PermitsResult) : Bool := r.boolval

inductive FmtErr where
  | typeError      -- not enough arguments / not all arguments converted
  | valueError     -- incomplete format
  | unmodelled     -- a conversion other than %s and %%
  deriving DecidableEq, Repr

/-- `s % args` for a tuple of `str` arguments, conversions `%s` and `%%` only -/
def fmt : Text → List Text → Except FmtErr Text
  | [], [] => pure []
  | [], _ :: _ => throw .typeError
  | ['%'], _ => throw .valueError
  | '%' :: '%' :: r, args => ('%' :: ·) <$> fmt r args
  | '%' :: 's' :: r, a :: args => (a ++ ·) <$> fmt r args
  | '%' :: 's' :: _, [] => throw .typeError
  | '%' :: _ :: _, _ => throw .unmodelled
  | c :: r, args => (c :: ·) <$> fmt r args

/-- the `msg` property -/
def PermitsResult.msg (r : PermitsResult) : Except FmtErr Text := fmt r.s r.args

/-- the message `has_permission` gives without a policy -/
def noPolicyMsg : Text := "No security policy in use.".toList

end Pyr.AuthPolicy
