import PyramidModel.Prelude
import PyramidModel.Rx
/-!
X06 — view / route / subscriber predicates (`src/pyramid/predicates.py`) and `PredicateList.make`
(`src/pyramid/config/predicates.py`).  Executable model, core Lean only.

A predicate is built by its class (`construct` = the `__init__` methods) from a configuration value, then asked
(`call` = `__call__`) about a context and a request; `text` / `phash` are the two strings the class reports.
`make` is `PredicateList.make` statement by statement; `evalAll` is the `all(pred(ctx, request) for pred in preds)`
the callers run (views: `config/views.py` predicate wrapper; routes: `urldispatch.RoutesMapper.__call__`;
subscribers: `config/adapters.py`).

External things are parameters (`Env`): `re.compile` (a partial map from regex text to a tree of the C01 fragment
`Pyr.Rx`, whose backtracking matcher is reused read-only), the Unicode class data of that fragment, and the user's
custom predicate callables.  `sha256` is not modelled: `make` returns the *pre-image* (the byte string fed to the
hash, as latin-1 code points).  `hash(func)`, `str(cls)` and `object_description(func)` are data of the value.
-/
namespace Pyr.Pred
open Pyr Pyr.Rx

/-! ### text helpers -/

def T (s : String) : Text := s.toList

/-- Python's `str <=` : lexicographic by code point -/
def tle : Text → Text → Bool
  | [], _ => true
  | _ :: _, [] => false
  | a :: as, b :: bs =>
    if a.toNat < b.toNat then true else if b.toNat < a.toNat then false else tle as bs

def insertT (x : Text) : List Text → List Text
  | [] => [x]
  | y :: ys => if tle x y then x :: y :: ys else y :: insertT x ys

/-- `sorted(...)` on a list of `str` -/
def sortT : List Text → List Text
  | [] => []
  | x :: xs => insertT x (sortT xs)

/-- `sep.join(xs)` -/
def joinWith (sep : Text) : List Text → Text
  | [] => []
  | [x] => x
  | x :: y :: ys => x ++ sep ++ joinWith sep (y :: ys)

/-- the code points `str.strip()` removes (`str.isspace`); compared with a probe of the running interpreter by
`gen_space` -/
def spaceCodes : List Nat :=
  [9, 10, 11, 12, 13, 28, 29, 30, 31, 32, 133, 160, 5760, 8192, 8193, 8194, 8195, 8196, 8197, 8198, 8199, 8200, 8201,
   8202, 8232, 8233, 8239, 8287, 12288]

def isPySpace (c : Char) : Bool := spaceCodes.contains c.toNat

def stripL : Text → Text
  | [] => []
  | c :: cs => if isPySpace c then stripL cs else c :: cs

/-- `str.strip()` -/
def strip (t : Text) : Text := (stripL (stripL t).reverse).reverse

/-- `t.split(c, 1)` when `c` occurs: (before the first `c`, after it) -/
def splitFirst (c : Char) : Text → Option (Text × Text)
  | [] => none
  | x :: xs =>
    if x = c then some ([], xs)
    else match splitFirst c xs with
      | some (a, b) => some (x :: a, b)
      | none => none

/-- `t.split(c)` -/
def splitAll (c : Char) : Text → List Text
  | [] => [[]]
  | x :: xs =>
    if x = c then [] :: splitAll c xs
    else match splitAll c xs with
      | [] => [[x]]
      | s :: ss => (x :: s) :: ss

def natRepr (n : Nat) : Text := (Nat.toDigits 10 n)

def intRepr (i : Int) : Text :=
  match i with
  | .ofNat n => natRepr n
  | .negSucc n => '-' :: natRepr (n + 1)

def hex2 (n : Nat) : Text := [Nat.digitChar (n / 16 % 16), Nat.digitChar (n % 16)]

/-- one character inside `repr(str)` with the quote `q`; code points ≥ 128 are taken to be printable (limit) -/
def reprChar (q : Char) (c : Char) : Text :=
  if c = '\\' then ['\\', '\\']
  else if c = q then ['\\', q]
  else if c = '\t' then ['\\', 't']
  else if c = '\n' then ['\\', 'n']
  else if c = '\r' then ['\\', 'r']
  else if c.toNat < 32 || c.toNat = 127 then '\\' :: 'x' :: hex2 c.toNat
  else [c]

/-- `repr(s)` for a `str` -/
def pyRepr (s : Text) : Text :=
  let q : Char := if s.contains '\'' && !s.contains '"' then '"' else '\''
  q :: (s.flatMap (reprChar q)) ++ [q]

/-- `repr(tuple_of_str)` -/
def tupleRepr : List Text → Text
  | [] => T "()"
  | [x] => '(' :: pyRepr x ++ T ",)"
  | xs => '(' :: joinWith (T ", ") (xs.map pyRepr) ++ [')']

/-- `repr(list_of_str)` -/
def listRepr (xs : List Text) : Text := '[' :: joinWith (T ", ") (xs.map pyRepr) ++ [']']

/-! ### values, requests, contexts -/

/-- a configuration value that is `str` or a non-str iterable of `str` -/
inductive PVal where
  | one (t : Text)
  | many (ts : List Text)
deriving Repr, DecidableEq

/-- `pyramid.util.as_sorted_tuple` -/
def asSortedTuple : PVal → List Text
  | .one t => [t]
  | .many ts => sortT ts

/-- a matchdict value: text, or a tuple of segments (`*stararg`, `traverse`) -/
inductive MVal where
  | str (t : Text)
  | segs (ts : List Text)
deriving Repr, DecidableEq

abbrev Dict := List (Text × MVal)

def dictGet (d : Dict) (k : Text) : Option MVal :=
  match d with
  | [] => none
  | (k', v) :: r => if k' = k then some v else dictGet r k

/-- `d[k] = v` on an insertion-ordered dict -/
def dictSet (d : Dict) (k : Text) (v : MVal) : Dict :=
  match d with
  | [] => [(k, v)]
  | (k', v') :: r => if k' = k then (k, v) :: r else (k', v') :: dictSet r k v

/-- the `__name__` attribute of a resource: missing, `None`, or text -/
inductive NameAttr where
  | absent
  | none
  | text (t : Text)
deriving Repr, DecidableEq

/-- a resource: its `__name__` and the classes / interfaces it provides (numbered) -/
structure Node where
  name : NameAttr
  tags : List Nat
deriving Repr, DecidableEq

/-- one media range of an `Accept` header without media type parameters; `q` in thousandths -/
structure Range where
  typ : Text
  sub : Text
  q : Nat
deriving Repr, DecidableEq

structure Req where
  method : Text
  upath : Text                        -- `request.upath_info`
  get : List (Text × Text)            -- `request.GET` items in order
  post : List (Text × Text)           -- `request.POST` items in order
  environ : List (Text × Text)        -- the CGI-style keys of the WSGI environ (distinct keys)
  accept : Option (List Range)        -- `none`: no `Accept` header
  context : Option (List Node)        -- `request.context` when the attribute exists (lineage, context first)
  ifaces : List Nat                   -- interfaces the request provides
  matchdict : Option Dict             -- `request.matchdict`
  isAuth : Bool                       -- `request.is_authenticated`
  principals : List Text              -- `request.effective_principals`
deriving Repr, DecidableEq

/-- what a predicate is called with besides the request: a resource (its lineage, itself first; `[]` when the
object has no `__name__`, e.g. a route's info dict) or a route info dict (`'traverse' in info`, `info['match']`) -/
structure Ctx where
  lineage : List Node
  hasTraverse : Bool
  match_ : Dict
deriving Repr, DecidableEq

inductive Err where
  | configError        -- pyramid.exceptions.ConfigurationError
  | valueError
  | keyError
  | attributeError
  | unicodeEncode
  | outside (what : Text)   -- not a Python exception: the case is outside the modelled domain
deriving Repr, DecidableEq

/-! ### the request API the predicates use (webob) -/

def envGet (e : List (Text × Text)) (k : Text) : Option Text :=
  match e with
  | [] => none
  | (k', v) :: r => if k' = k then some v else envGet r k

/-- `request.is_xhr` -/
def isXhr (r : Req) : Bool := envGet r.environ (T "HTTP_X_REQUESTED_WITH") == some (T "XMLHttpRequest")

/-- the last value under `k` (`MultiDict.__getitem__`) -/
def lastOf (k : Text) : List (Text × Text) → Option Text
  | [] => none
  | (k', v) :: r =>
    match lastOf k r with
    | some x => some x
    | none => if k' = k then some v else none

/-- `request.params.get(k)` : GET first, then POST (`NestedMultiDict`) -/
def getParam (r : Req) (k : Text) : Option Text :=
  match lastOf k r.get with
  | some v => some v
  | none => lastOf k r.post

def asciiUpper (c : Char) : Char := if 97 ≤ c.toNat && c.toNat ≤ 122 then Char.ofNat (c.toNat - 32) else c

/-- `webob.headers._trans_name` for ASCII header names -/
def transName (name : Text) : Text :=
  let u := name.map asciiUpper
  if u = T "CONTENT-TYPE" then T "CONTENT_TYPE"
  else if u = T "CONTENT-LENGTH" then T "CONTENT_LENGTH"
  else T "HTTP_" ++ u.map (fun c => if c = '-' then '_' else c)

/-- `request.headers.get(name)` -/
def headerGet (r : Req) (name : Text) : Option Text := envGet r.environ (transName name)

/-- `re.match(rx, s) is not None` -/
def rxMatch (u : Ucd) (r : Rx) (s : Text) : Bool := !(run u r s).isEmpty

/-! #### `request.accept.acceptable_offers` on the parameter-free fragment -/

def offerType (o : Text) : Text := o.takeWhile (· ≠ '/')

/-- RFC 7231 §5.3.2 specificity of `r` for the offer (0 = does not apply) -/
def specificity (r : Range) (o : Text) : Nat :=
  if o = r.typ ++ '/' :: r.sub then 3
  else if r.sub = ['*'] && offerType o = r.typ then 2
  else if r.typ = ['*'] && r.sub = ['*'] then 1
  else 0

/-- the loop over the ranges: the first range of the greatest specificity wins -/
def bestRange (o : Text) : List Range → Option (Nat × Nat) → Option (Nat × Nat)
  | [], acc => acc
  | r :: rs, acc =>
    let s := specificity r o
    if s = 0 then bestRange o rs acc
    else match acc with
      | some (_, s0) => if s ≤ s0 then bestRange o rs acc else bestRange o rs (some (r.q, s))
      | none => bestRange o rs (some (r.q, s))

/-- an offer of the modelled fragment: `type/subtype` over lower-case letters, digits, `.`, `+`, `-` -/
def offerChar (c : Char) : Bool :=
  (97 ≤ c.toNat && c.toNat ≤ 122) || (48 ≤ c.toNat && c.toNat ≤ 57) || c = '.' || c = '+' || c = '-'

def validOffer (o : Text) : Bool :=
  match splitFirst '/' o with
  | some (a, b) => !a.isEmpty && !b.isEmpty && a.all offerChar && b.all offerChar
  | none => false

def offerAcceptable (acc : Option (List Range)) (o : Text) : Bool :=
  match acc with
  | none => true
  | some rs =>
    match bestRange o rs none with
    | some (q, _) => q != 0
    | none => false

/-! ### predicates -/

/-- `is_authenticated=` value -/
inductive AuthVal where
  | bool (b : Bool)
  | int (n : Int)
  | none
deriving Repr, DecidableEq

/-- a custom predicate callable: `hash(func)`, its `text()`, and which callable of the environment it is -/
structure Custom where
  hash : Int
  text : Text
  fn : Nat
deriving Repr, DecidableEq

/-- a token of a `traverse=` pattern -/
inductive TTok where
  | lit (t : Text)
  | ph (n : Text)
deriving Repr, DecidableEq

inductive Pred where
  | xhr (v : Bool)
  | method (v : List Text)
  | pathInfo (orig : Text) (rx : Rx)
  | reqParam (reqs : List (Text × Option Text))
  | header (vals : List (Text × Option (Text × Rx)))
  | accept (values : List Text)
  | containment (tag : Nat) (str : Text)
  | reqType (tag : Nat) (str : Text)
  | matchParam (reqs : List (Text × Text))
  | custom (c : Custom)
  | traverse (pat : List TTok)
  | physPath (v : List Text)
  | isAuth (v : AuthVal)
  | effPrin (v : List Text)
  | notted (p : Pred)
deriving Repr, DecidableEq

inductive Factory where
  | xhr | method | pathInfo | reqParam | header | accept | containment | reqType | matchParam | custom | traverse
  | physPath | isAuth | effPrin
deriving Repr, DecidableEq

/-- a configuration value handed to a predicate factory -/
inductive Val where
  | bool (b : Bool)
  | txt (v : PVal)
  | tag (n : Nat) (str : Text)
  | cust (c : Custom)
  | auth (a : AuthVal)
  | pat (p : List TTok)
deriving Repr, DecidableEq

structure Env where
  re : Text → Option Rx                       -- `re.compile`: `none` = `re.error`
  ucd : Ucd
  fns : Nat → Ctx → Req → Bool                -- the custom callables

/-! #### constructors (`__init__`) -/

def GET : Text := T "GET"
def HEAD : Text := T "HEAD"

/-- `RequestMethodPredicate.__init__` -/
def mkMethod (v : PVal) : List Text :=
  let m := asSortedTuple v
  if m.contains GET && !m.contains HEAD then sortT (m ++ [HEAD]) else m

/-- one element of `RequestParamPredicate.__init__`'s loop -/
def parseParam (p : Text) : Text × Option Text :=
  match p with
  | '=' :: rest =>
    match splitFirst '=' rest with
    | some (a, b) => (strip ('=' :: a), some (strip b))
    | none => (p, none)
  | _ =>
    match splitFirst '=' p with
    | some (a, b) => (strip a, some (strip b))
    | none => (p, none)

/-- one element of `HeaderPredicate.__init__`'s loop -/
def parseHeader (E : Env) (name : Text) : Except Err (Text × Option (Text × Rx)) :=
  match splitFirst ':' name with
  | some (n, vs) =>
    match E.re vs with
    | some r => .ok (n, some (vs, r))
    | none => .error .configError
  | none => .ok (name, none)

/-- one element of `MatchParamPredicate.__init__`: `x, y = p.split('=', 1)` then both stripped -/
def parseMatch (p : Text) : Except Err (Text × Text) :=
  match splitFirst '=' p with
  | some (a, b) => .ok (strip a, strip b)
  | none => .error .valueError

/-- `PhysicalPathPredicate.__init__` -/
def mkPhysPath : PVal → List Text
  | .many ts => ts
  | .one s => [] :: (splitAll '/' s).filter (· ≠ [])

def dedup : List Text → List Text
  | [] => []
  | x :: xs => if xs.contains x then dedup xs else x :: dedup xs

/-- `EffectivePrincipalsPredicate.__init__` : the set, kept sorted without duplicates -/
def mkEffPrin : PVal → List Text
  | .one s => [s]
  | .many ts => sortT (dedup ts)

def mkAccept : PVal → List Text
  | .one s => [s]
  | .many ts => ts

def construct (E : Env) : Factory → Val → Except Err Pred
  | .xhr, .bool b => .ok (.xhr b)
  | .method, .txt v => .ok (.method (mkMethod v))
  | .pathInfo, .txt (.one t) =>
    match E.re t with
    | some r => .ok (.pathInfo t r)
    | none => .error .configError
  | .reqParam, .txt v => .ok (.reqParam ((asSortedTuple v).map parseParam))
  | .header, .txt v => do
    let vals ← (asSortedTuple v).mapM (parseHeader E)
    pure (.header vals)
  | .accept, .txt v => .ok (.accept (mkAccept v))
  | .containment, .tag n s => .ok (.containment n s)
  | .reqType, .tag n s => .ok (.reqType n s)
  | .matchParam, .txt v => do
    let reqs ← (asSortedTuple v).mapM parseMatch
    pure (.matchParam reqs)
  | .custom, .cust c => .ok (.custom c)
  | .traverse, .pat p => .ok (.traverse p)
  | .physPath, .txt v => .ok (.physPath (mkPhysPath v))
  | .isAuth, .auth a => .ok (.isAuth a)
  | .effPrin, .txt v => .ok (.effPrin (mkEffPrin v))
  | _, _ => .error (.outside (T "value type"))

/-! #### `text()` and `phash()` -/

def truthy : Option Text → Bool
  | some (_ :: _) => true
  | _ => false

def paramItem (kv : Text × Option Text) : Text :=
  match kv.2 with
  | some (c :: cs) => kv.1 ++ '=' :: c :: cs
  | _ => kv.1

def headerItem (x : Text × Option (Text × Rx)) : Text :=
  match x.2 with
  | some (c :: cs, _) => x.1 ++ '=' :: c :: cs
  | _ => x.1

def authRepr : AuthVal → Text
  | .bool true => T "True"
  | .bool false => T "False"
  | .int n => intRepr n
  | .none => T "None"

def nottedText (t : Text) : Text :=
  match t with
  | [] => []
  | _ => '!' :: t

def text : Pred → Text
  | .xhr v => T "xhr = " ++ (if v then T "True" else T "False")
  | .method v => T "request_method = " ++ joinWith [','] v
  | .pathInfo o _ => T "path_info = " ++ o
  | .reqParam reqs => T "request_param " ++ joinWith [','] (reqs.map paramItem)
  | .header vals => T "header " ++ joinWith (T ", ") (vals.map headerItem)
  | .accept vs => T "accept = " ++ joinWith (T ", ") vs
  | .containment _ s => T "containment = " ++ s
  | .reqType _ s => T "request_type = " ++ s
  | .matchParam reqs => T "match_param " ++ joinWith [','] (reqs.map fun kv => kv.1 ++ '=' :: kv.2)
  | .custom c => c.text
  | .traverse _ => T "traverse matchdict pseudo-predicate"
  | .physPath v => T "physical_path = " ++ tupleRepr v
  | .isAuth v => T "is_authenticated = " ++ authRepr v
  | .effPrin v => T "effective_principals = " ++ listRepr v
  | .notted p => nottedText (text p)

def phash : Pred → Text
  | .custom c => T "custom:" ++ intRepr c.hash
  | .traverse _ => []
  | .notted p => nottedText (phash p)
  | p => text p

/-! #### `__call__` -/

/-- `RequestParamPredicate.__call__`'s loop -/
def paramsOk (r : Req) : List (Text × Option Text) → Bool
  | [] => true
  | (k, v) :: rest =>
    match getParam r k with
    | none => false
    | some actual =>
      match v with
      | some w => if actual ≠ w then false else paramsOk r rest
      | none => paramsOk r rest

/-- `HeaderPredicate.__call__`'s loop -/
def headersOk (u : Ucd) (r : Req) : List (Text × Option (Text × Rx)) → Bool
  | [] => true
  | (name, none) :: rest => if (headerGet r name).isNone then false else headersOk u r rest
  | (name, some (_, rx)) :: rest =>
    match headerGet r name with
    | none => false
    | some value => if rxMatch u rx value then headersOk u r rest else false

/-- `MatchParamPredicate.__call__`'s loop -/
def matchOk (d : Dict) : List (Text × Text) → Bool
  | [] => true
  | (k, v) :: rest => if dictGet d k ≠ some (.str v) then false else matchOk d rest

/-- `loc.__name__ or ''` along the lineage, root first (`resource_path_tuple`); `none` = AttributeError -/
def pathTuple : List Node → Option (List Text)
  | [] => some []
  | n :: ns =>
    match n.name, pathTuple ns with
    | .absent, _ => none
    | _, none => none
    | .none, some p => some (p ++ [[]])
    | .text t, some p => some (p ++ [t])

def AuthVal.eqBool (v : AuthVal) (b : Bool) : Bool :=
  match v with
  | .bool c => c == b
  | .int n => n == (if b then 1 else 0)
  | .none => false

/-- `traversal_path` on a string that needs no unquoting: split, drop `''` and `.`, `..` pops -/
def travPath (acc : List Text) : List Text → List Text
  | [] => acc
  | s :: ss =>
    if s = [] || s = ['.'] then travPath acc ss
    else if s = ['.', '.'] then travPath acc.dropLast ss
    else travPath (acc ++ [s]) ss

/-- characters `quote_path_segment(·, safe=PATH_SAFE)` leaves alone and that the model admits in traverse values -/
def plainChar (c : Char) : Bool :=
  (97 ≤ c.toNat && c.toNat ≤ 122) || (48 ≤ c.toNat && c.toNat ≤ 57) || c = '.' || c = '-' || c = '_' || c = '/'

/-- `tgenerate(m)` on the plain fragment -/
def tgenerate (m : Dict) : List TTok → Except Err Text
  | [] => .ok []
  | .lit t :: r => do
    let rest ← tgenerate m r
    if t.all plainChar then pure (t ++ rest) else throw (.outside (T "traverse literal"))
  | .ph n :: r =>
    match dictGet m n with
    | none => .error .keyError
    | some (.str v) => do
      let rest ← tgenerate m r
      if v.all plainChar then pure (v ++ rest) else throw (.outside (T "traverse value"))
    | some (.segs _) => .error (.outside (T "traverse tuple"))

/-- does the predicate (under any number of `not_`) rewrite the context? -/
def call (E : Env) : Pred → Ctx → Req → Except Err (Bool × Ctx)
  | .xhr v, c, r => .ok (isXhr r == v, c)
  | .method v, c, r => .ok (v.contains r.method, c)
  | .pathInfo _ rx, c, r => .ok (rxMatch E.ucd rx r.upath, c)
  | .reqParam reqs, c, r => .ok (paramsOk r reqs, c)
  | .header vals, c, r => .ok (headersOk E.ucd r vals, c)
  | .accept vs, c, r =>
    if vs.all validOffer then .ok (vs.any (offerAcceptable r.accept), c)
    else .error (.outside (T "accept offer"))
  | .containment tag _, c, r =>
    let lin := match r.context with | some l => l | none => c.lineage
    .ok (lin.any (·.tags.contains tag), c)
  | .reqType tag _, c, r => .ok (r.ifaces.contains tag, c)
  | .matchParam reqs, c, r =>
    match r.matchdict with
    | none => .ok (false, c)
    | some [] => .ok (false, c)
    | some d => .ok (matchOk d reqs, c)
  | .custom cu, c, r => .ok (E.fns cu.fn c r, c)
  | .traverse pat, c, _ =>
    if c.hasTraverse then .ok (true, c)
    else match tgenerate c.match_ pat with
      | .error e => .error e
      | .ok tv => .ok (true, { c with match_ := dictSet c.match_ (T "traverse") (.segs (travPath [] (splitAll '/' tv))) })
  | .physPath v, c, _ =>
    match c.lineage with
    | [] => .ok (false, c)
    | n :: ns =>
      if n.name = .absent then .ok (false, c)
      else match pathTuple (n :: ns) with
        | none => .error .attributeError
        | some p => .ok (p == v, c)
  | .isAuth v, c, r => .ok (v.eqBool r.isAuth, c)
  | .effPrin v, c, r => .ok (v.all (r.principals.contains ·), c)
  | .notted p, c, r =>
    match call E p c r with
    | .error e => .error e
    | .ok (b, c') => .ok (if (nottedText (phash p)).isEmpty then b else !b, c')

/-- `k` nested `not_` wrappers -/
def nest : Nat → Pred → Pred
  | 0, p => p
  | k + 1, p => .notted (nest k p)

/-- the decision alone (`none` = an exception) -/
def decides (E : Env) (p : Pred) (c : Ctx) (r : Req) : Option Bool :=
  match call E p c r with
  | .ok (b, _) => some b
  | .error _ => none

/-! ### `PredicateList.make` -/

def MAX_ORDER : Int := 1073741824     -- 1 << 30

/-- the value under a keyword: `None`, or the values (a `predvalseq` has several), each possibly wrapped in `not_` -/
abbrev KwVal := Option (List (Bool × Val))
abbrev Kw := List (Text × KwVal)

/-- `kw.pop(name, None)` -/
def kwPop (name : Text) : Kw → KwVal × Kw
  | [] => (none, [])
  | (k, v) :: r =>
    if k = name then (v, r)
    else let (x, r') := kwPop name r; (x, (k, v) :: r')

structure Acc where
  preds : List Pred
  weights : List Nat
  pre : Text
deriving Repr, DecidableEq

/-- `bytes_(h)` : latin-1 -/
def latin1 (t : Text) : Bool := t.all (·.toNat < 256)

/-- the inner loop `for val in vals` for the predicate numbered `n` -/
def makeVals (E : Env) (n : Nat) (f : Factory) : List (Bool × Val) → Acc → Except Err Acc
  | [], a => .ok a
  | (notted, v) :: r, a =>
    match construct E f v with
    | .error e => .error e
    | .ok p0 =>
      let p := if notted then Pred.notted p0 else p0
      let h := phash p
      if latin1 h then makeVals E n f r ⟨a.preds ++ [p], a.weights ++ [2 ^ (n + 1)], a.pre ++ h⟩
      else .error .unicodeEncode

/-- the outer loop `for n, (name, factory) in enumerate(ordered)` from position `n` on -/
def makeLoop (E : Env) : Nat → List (Text × Factory) → Kw → Acc → Except Err (Acc × Kw)
  | _, [], kw, a => .ok (a, kw)
  | n, (name, f) :: rest, kw, a =>
    match kwPop name kw with
    | (none, kw') => makeLoop E (n + 1) rest kw' a
    | (some vals, kw') =>
      match makeVals E n f vals a with
      | .error e => .error e
      | .ok a' => makeLoop E (n + 1) rest kw' a'

def score (ws : List Nat) : Nat := ws.foldl (· ||| ·) 0

structure Made where
  order : Int
  preds : List Pred
  pre : Text          -- what `sha256` is fed; `phash = sha256(pre.encode('latin-1')).hexdigest()`
deriving Repr, DecidableEq

def orderOf (sc : Nat) (count : Nat) : Int := Int.fdiv (MAX_ORDER - (sc : Int)) ((count : Int) + 1)

/-- `PredicateList.make(config, **kw)` with `ordered = self.sorter.sorted()` -/
def make (E : Env) (ordered : List (Text × Factory)) (kw : Kw) : Except Err Made :=
  match makeLoop E 0 ordered kw ⟨[], [], []⟩ with
  | .error e => .error e
  | .ok (a, kw') =>
    if kw'.isEmpty then .ok ⟨orderOf (score a.weights) a.preds.length, a.preds, a.pre⟩
    else .error .configError

/-! ### evaluation by the callers: `all(pred(ctx, request) for pred in preds)` -/

/-- answer, the context as the predicates left it, how many predicates were called -/
def evalAll (E : Env) : List Pred → Ctx → Req → Except Err (Bool × Ctx × Nat)
  | [], c, _ => .ok (true, c, 0)
  | p :: ps, c, r =>
    match call E p c r with
    | .error e => .error e
    | .ok (false, c') => .ok (false, c', 1)
    | .ok (true, c') =>
      match evalAll E ps c' r with
      | .error e => .error e
      | .ok (b, c'', k) => .ok (b, c'', k + 1)

end Pyr.Pred
