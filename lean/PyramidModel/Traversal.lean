import PyramidModel.Prelude
/-
C02 / C07 — executable model of `pyramid.traversal` (src/pyramid/traversal.py), core Lean only.

Vocabulary
* `Text` / `Seg` : `List Char` — a Python `str` without lone surrogates (Unicode scalar values).
* `Bytes`        : `List UInt8` — a Python `bytes`, and also a *WSGI string* (a `str` whose characters are all
                   < 256, i.e. the latin-1 image of the bytes the server received; PEP 3333).
* `Tree`         : a resource tree.  A node says whether it has `__getitem__` and lists its children by name
                   (`dict` semantics: the first entry with an equal key is the one found).  A resource is
                   identified by its *position*: the list of names leading to it from the root.

Functions modelled (line numbers of src/pyramid/traversal.py)
* `unquoteToBytes`        urllib.parse.unquote_to_bytes as used by `unquote_bytes_to_wsgi`        (532-533)
* `decodePathInfo`        `decode_path_info` — latin-1 encode, strict UTF-8 decode                 (527-528)
* `splitPathInfo`         `split_path_info`                                                      (509-523)
* `traversalPathInfo`     `traversal_path_info`                                                  (438-506)
* `traversalPath`         `traversal_path`                                                       (420-435)
* `quoteBytes`/`quoteSegment`  `quote_path_segment` → `url_quote` → `urllib.parse.quote`           (539-579)
* `joinPathTuple`         `_join_path_tuple`                                                     (748-750)
* `traverser`             `ResourceTreeTraverser.__call__`                                       (595-700)
* `traverseApi`           `traverse(resource, path)` incl. the `Request.blank` step of WebOb     (160-316)

The caches (`lru_cache`, `_segment_cache`) are not modelled: the model is a function of its arguments, and
that the implementation is too is what the history part of the correspondence run checks.
-/
namespace Pyr.Trav

abbrev Seg := List Char
abbrev Bytes := List UInt8

/-! ### percent-coding and the PEP 3333 decoding -/

def hexVal (b : UInt8) : Option Nat :=
  if 48 ≤ b.toNat ∧ b.toNat ≤ 57 then some (b.toNat - 48)
  else if 65 ≤ b.toNat ∧ b.toNat ≤ 70 then some (b.toNat - 55)
  else if 97 ≤ b.toNat ∧ b.toNat ≤ 102 then some (b.toNat - 87)
  else none

/-- `urllib.parse.unquote_to_bytes` on an ASCII byte string: `%` followed by two hex digits (either case)
becomes that byte, every other `%` stays. -/
def unquoteToBytes : Bytes → Bytes
  | [] => []
  | [a] => [a]
  | [a, b] => [a, b]
  | a :: b :: c :: rest =>
    if a = 37 then
      match hexVal b, hexVal c with
      | some h, some l => UInt8.ofNat (16 * h + l) :: unquoteToBytes rest
      | _, _ => a :: unquoteToBytes (b :: c :: rest)
    else a :: unquoteToBytes (b :: c :: rest)

/-- WebOb's own `unquote` (webob/compat.py), used by `Request.blank`: like the above, and in addition a
single hex digit that is the whole item (`%7` at the end or right before the next `%`) is accepted, because
it calls `int(item[:2], 16)`.  (The other things `int` tolerates — sign, white space — are not modelled.) -/
def unquoteWebob : Bytes → Bytes
  | [] => []
  | [a] => [a]
  | [a, b] =>
    if a = 37 then
      match hexVal b with
      | some h => [UInt8.ofNat h]
      | none => [a, b]
    else a :: unquoteWebob [b]
  | a :: b :: c :: rest =>
    if a = 37 then
      match hexVal b, hexVal c with
      | some h, some l => UInt8.ofNat (16 * h + l) :: unquoteWebob rest
      | some h, none => if c = 37 then UInt8.ofNat h :: unquoteWebob (c :: rest) else a :: unquoteWebob (b :: c :: rest)
      | _, _ => a :: unquoteWebob (b :: c :: rest)
    else a :: unquoteWebob (b :: c :: rest)

/-- UTF-8 encoding of a text (the computable body of core's `List.utf8Encode`). -/
def utf8Enc (t : Text) : Bytes := t.flatMap String.utf8EncodeChar

/-- strict UTF-8 decoding (core's verified decoder: rejects overlong forms, surrogates, > U+10FFFF,
truncation — the behaviour of Python's `utf-8` codec with `errors='strict'`). -/
def utf8Dec (b : Bytes) : Option Text := (ByteArray.mk b.toArray).utf8Decode?.map Array.toList

/-- `decode_path_info`: a WSGI string is re-encoded to latin-1 (giving back the raw bytes) and decoded as UTF-8. -/
def decodePathInfo (wsgi : Bytes) : Option Text := utf8Dec wsgi

/-- `str.encode('ascii')` -/
def asciiEncode (t : Text) : Option Bytes :=
  if t.all (fun c => c.toNat < 128) then some (t.map fun c => UInt8.ofNat c.toNat) else none

/-! ### split_path_info -/

/-- `str.split('/')` -/
def splitOn (sep : Char) : Text → List Text
  | [] => [[]]
  | c :: cs =>
    if c = sep then [] :: splitOn sep cs
    else
      match splitOn sep cs with
      | [] => [[c]]
      | p :: ps => (c :: p) :: ps

/-- `str.strip('/')` -/
def stripSlash (t : Text) : Text :=
  ((t.dropWhile (· = '/')).reverse.dropWhile (· = '/')).reverse

/-- one round of the `for segment in path.split('/')` loop; `clean` is kept as a stack (last segment first) -/
def normStep (clean : List Seg) (segment : Seg) : List Seg :=
  if segment = [] ∨ segment = ['.'] then clean
  else if segment = ['.', '.'] then clean.tail      -- `if clean: del clean[-1]`
  else segment :: clean

/-- the loop over already split segments -/
def normSegs (segs : List Seg) : List Seg := (segs.foldl normStep []).reverse

/-- `split_path_info(path)` -/
def splitPathInfo (path : Text) : List Seg := normSegs (splitOn '/' (stripSlash path))

inductive Err where
  | urlDecode        -- pyramid.exceptions.URLDecodeError
  | unicodeDecode    -- a plain UnicodeDecodeError (virtual-root header that is not UTF-8)
  | unicodeEncode    -- UnicodeEncodeError from `ascii_` / `.encode('ascii')`
  | keyError         -- find_resource
  | outsideModel     -- WebOb's scheme branch of `Request.blank` (`^[a-z]+:`), not modelled
  | badStart         -- the start position given to `traverseApi` does not exist in the tree
deriving Repr, DecidableEq

/-- `traversal_path_info(path)` — `path` is a WSGI string -/
def traversalPathInfo (wsgi : Bytes) : Except Err (List Seg) :=
  match decodePathInfo wsgi with
  | none => .error .urlDecode
  | some t => .ok (splitPathInfo t)

/-- `traversal_path(path)` — `path` is a URL-quoted ASCII `str` -/
def traversalPath (path : Text) : Except Err (List Seg) :=
  match asciiEncode path with
  | none => .error .unicodeEncode
  | some b => traversalPathInfo (unquoteToBytes b)

/-! ### quoting -/

def isUnreserved (b : UInt8) : Bool :=
  (48 ≤ b.toNat && b.toNat ≤ 57) || (65 ≤ b.toNat && b.toNat ≤ 90) || (97 ≤ b.toNat && b.toNat ≤ 122) ||
  b = 95 || b = 46 || b = 45 || b = 126      -- `_.-~`

/-- `PATH_SEGMENT_SAFE = "~!$&'()*+,;=:@"` -/
def pathSegmentSafe : List UInt8 := [126, 33, 36, 38, 39, 40, 41, 42, 43, 44, 59, 61, 58, 64]

def hexDigit (n : Nat) : Char := if n < 10 then Char.ofNat (48 + n) else Char.ofNat (55 + n)

/-- `urllib.parse.quote_from_bytes(bs, safe)` -/
def quoteBytes (safe : List UInt8) : Bytes → Text
  | [] => []
  | b :: bs =>
    if isUnreserved b || safe.contains b then Char.ofNat b.toNat :: quoteBytes safe bs
    else '%' :: hexDigit (b.toNat / 16) :: hexDigit (b.toNat % 16) :: quoteBytes safe bs

/-- `quote_path_segment(segment)` for a `str` segment -/
def quoteSegment (s : Seg) : Text := quoteBytes pathSegmentSafe (utf8Enc s)

def joinWith (sep : Char) : List Text → Text
  | [] => []
  | [x] => x
  | x :: y :: rest => x ++ sep :: joinWith sep (y :: rest)

/-- `_join_path_tuple(tuple)`:  `tuple and '/'.join([quote_path_segment(x) for x in tuple]) or '/'` -/
def joinPathTuple (tuple : List Seg) : Text :=
  match tuple with
  | [] => ['/']
  | _ =>
    let j := joinWith '/' (tuple.map quoteSegment)
    if j = [] then ['/'] else j

/-! ### the resource tree -/

inductive Tree where
  | mk (getitem : Bool) (kids : List (Seg × Tree))

def Tree.getitem : Tree → Bool
  | .mk g _ => g

def Tree.kids : Tree → List (Seg × Tree)
  | .mk _ k => k

/-- `ob.__getitem__(segment)`: `none` = KeyError -/
def Tree.lookup (t : Tree) (s : Seg) : Option Tree := t.kids.lookup s

/-- the resource at a position -/
def Tree.resolve (t : Tree) : List Seg → Option Tree
  | [] => some t
  | s :: rest =>
    match t.lookup s with
    | none => none
    | some c => c.resolve rest

/-! ### ResourceTreeTraverser.__call__ -/

inductive StrOrTuple where
  | str (s : Text)
  | tup (xs : List Text)
deriving Repr, DecidableEq

structure MatchDict where
  traverse : Option StrOrTuple     -- `none`: key absent
  subpath : Option StrOrTuple
deriving Repr, DecidableEq

structure Req where
  pathInfo : Option Bytes          -- environ.get('PATH_INFO'), a WSGI string
  vroot : Option Bytes             -- environ.get('HTTP_X_VHM_ROOT'), a WSGI string
  matchdict : Option MatchDict
deriving Repr, DecidableEq

/-- the dict returned by the traverser; resources are given as positions relative to the traverser's root -/
structure Result where
  context : List Seg
  viewName : Seg
  subpath : List Seg
  traversed : List Seg
  virtualRoot : List Seg
  virtualRootPath : List Seg
deriving Repr, DecidableEq

/-- The `for segment in vpath_tuple` loop.  `vt` is the whole `vpath_tuple`, `vlen = vroot_idx + 1`
(so `i == vroot_idx` is `i + 1 = vlen`, and the slice bound `vroot_idx + i + 1` is `vlen + i`),
`sub0` the subpath returned when the loop runs to its end, `vr` the position of `vroot` so far.
Since every successful step consumes `vt[i]`, the position of `ob` is `vt.take i`. -/
def walkLoop (vt vrootTuple sub0 : List Seg) (vlen : Nat) : List Seg → Nat → Tree → List Seg → Result
  | [], i, _, vr =>
    { context := vt.take i, viewName := [], subpath := sub0, traversed := vt,
      virtualRoot := vr, virtualRootPath := vrootTuple }
  | segment :: rest, i, ob, vr =>
    let stop (viewName : Seg) : Result :=
      { context := vt.take i, viewName := viewName, subpath := vt.drop (i + 1),
        traversed := vt.take (vlen + i), virtualRoot := vr, virtualRootPath := vrootTuple }
    if segment.take 2 = ['@', '@'] then stop (segment.drop 2)
    else if !ob.getitem then stop segment
    else
      match ob.lookup segment with
      | none => stop segment
      | some next =>
        walkLoop vt vrootTuple sub0 vlen rest (i + 1) next (if i + 1 = vlen then vt.take (i + 1) else vr)

/-- the `path`/`subpath` part of `__call__` (lines 599-626) -/
def requestPath (rq : Req) : Except Err (Text × List Seg) :=
  match rq.matchdict with
  | some md =>
    let path : Text :=
      match md.traverse with
      | none => ['/']
      | some (.str s) => if s = [] then ['/'] else s
      | some (.tup xs) => if xs = [] then ['/'] else '/' :: joinWith '/' xs
    let subpath : List Seg :=
      match md.subpath with
      | none => []
      | some (.tup xs) => xs
      | some (.str s) => splitPathInfo s
    .ok (path, subpath)
  | none =>
    match decodePathInfo (rq.pathInfo.getD []) with
    | none => .error .urlDecode
    | some p => .ok (if p = [] then ['/'] else p, [])

/-- lines 628-700 of `__call__` once `path`, `subpath` and the decoded virtual-root header are known:
with a header `vpath_tuple = vroot_tuple + split_path_info(path)` and `vroot_idx = len(vroot_tuple) - 1`, without
one `vpath_tuple = split_path_info(path)`, `vroot_tuple = ()`, `vroot_idx = -1` (the request path is normalised on
its own; the two are joined as tuples, never as strings).  `if vpath_tuple:` guards the loop; on the empty tuple
`walkLoop` returns the final `return` at once. -/
def traverseText (root : Tree) (vroot : Option Text) (path : Text) (subpath : List Seg) : Result :=
  match vroot with
  | some vrootPath =>
    let vrootTuple := splitPathInfo vrootPath
    let vpathTuple := vrootTuple ++ splitPathInfo path
    walkLoop vpathTuple vrootTuple subpath vrootTuple.length vpathTuple 0 root []
  | none =>
    let vpathTuple := splitPathInfo path
    walkLoop vpathTuple [] subpath 0 vpathTuple 0 root []

/-- `ResourceTreeTraverser(root)(request)` -/
def traverser (root : Tree) (rq : Req) : Except Err Result :=
  match requestPath rq with
  | .error e => .error e
  | .ok (path, subpath) =>
    match rq.vroot with
    | some raw =>
      match decodePathInfo raw with
      | none => .error .unicodeDecode
      | some vrootPath => .ok (traverseText root (some vrootPath) path subpath)
    | none => .ok (traverseText root none path subpath)

/-! ### traverse(resource, path) -/

def isAsciiLetter (c : Char) : Bool := (65 ≤ c.toNat && c.toNat ≤ 90) || (97 ≤ c.toNat && c.toNat ≤ 122)

/-- WebOb `SCHEME_RE = ^[a-z]+:` (ignore case) on an ASCII string -/
def looksLikeScheme (p : Text) : Bool :=
  let rest := p.dropWhile isAsciiLetter
  rest.length < p.length && rest.head? = some ':'

/-- `Request.blank(path).environ['PATH_INFO']` for an ASCII `path` outside the scheme branch:
cut at the first `?`, unquote. -/
def blankPathInfo (path : Bytes) : Bytes := unquoteWebob (path.takeWhile (· ≠ 63))

/-- the result of `traverse`: `base` is the position of the resource the walk started from (the traverser's
root); all positions in `res` are relative to it. -/
structure ApiResult where
  base : List Seg
  res : Result
deriving Repr, DecidableEq

/-- `traverse(resource, path)` where `resource` is the node at position `start` of `root` (which the caller
must exist). -/
def traverseApi (root : Tree) (start : List Seg) (path : StrOrTuple) : Except Err ApiResult :=
  let p : Text :=
    match path with
    | .tup xs => if xs = [] then [] else joinPathTuple xs
    | .str s => s
  match asciiEncode p with
  | none => .error .unicodeEncode
  | some b =>
    let base : List Seg := if p.head? = some '/' then [] else start
    if looksLikeScheme p then .error .outsideModel
    else
      let rq : Req := { pathInfo := some (blankPathInfo b), vroot := none, matchdict := none }
      match root.resolve base with
      | none => .error .badStart
      | some t =>
        match traverser t rq with
        | .error e => .error e
        | .ok r => .ok { base := base, res := r }

end Pyr.Trav
