import PyramidModel.Url
import PyramidModel.Static
/-
C16 (configuration / URL side) — executable model of `StaticURLInfo` (src/pyramid/config/views.py 2165-2420) and of the
cache busters of src/pyramid/static.py, on top of C17's URL model (`PyramidModel.Url`, imported read-only).

Functions modelled
* `normSpec`, `normName`            the trailing-separator rules of `StaticURLInfo.add` / `add_cache_buster` (POSIX)
* `isUrlName`                       `urlparse(name).netloc` is non-empty
* `routeNameOf`, `patternPieces`    `'__%s' % name` / `f'__{route_prefix}/{name}'`; the pattern `<name>*subpath` as
                                    `add_route` compiles it (leading slash, route prefix)
* `register`, `registerAll`         the deferred `register()` of `StaticURLInfo.add`: `names = [t[0] for t in
                                    registrations]` (the URL column!), pop the first equal one, append
* `scanBusters`, `addCacheBuster`   the insertion loop of `StaticURLInfo.add_cache_buster.register`
* `Buster`, `applyBuster`           `QueryStringCacheBuster.__call__` (token into `_query`; dict: item assignment,
                                    sequence: appended pair) and `ManifestCacheBuster.__call__` (subpath looked up)
* `bustAssetPath`                   `StaticURLInfo._bust_asset_path` (pathspec = the asset spec itself; rawspec from the
                                    asset overrides, which are data here; busters scanned in reverse)
* `urlOf`, `generate`               `StaticURLInfo.generate` (first registration whose spec is a prefix; busting only when
                                    busters exist; route-backed through `route_url`, external through `urljoin`)
Not modelled: `WIN`, `pyramid.prevent_cachebust`, the introspectables, `ManifestCacheBuster` reloading.
-/
namespace Pyr.StaticUrl

open Pyr Pyr.Url Pyr.Pct
open Pyr.Trav (Seg Bytes splitOn joinWith)

def endsWithC (t : Text) (c : Char) : Bool := t.getLast? = some c

/-- `if not spec.endswith(sep) and not spec.endswith(':'): spec = spec + sep` (`sep = '/'`) -/
def normSpec (spec : Text) : Text := if endsWithC spec '/' || endsWithC spec ':' then spec else spec ++ ['/']

/-- `if not name.endswith('/'): name = name + '/'` -/
def normName (name : Text) : Text := if endsWithC name '/' then name else name ++ ['/']

/-- `urlparse(name).netloc` is truthy (`none`: `urlparse` raises ValueError) -/
def isUrlName (name : Text) : Option Bool := (urlsplit name).map fun s => s.netloc ≠ []

/-- the name of the route `add` registers for a local name (already normalised) -/
def routeNameOf (routePrefix : Option Text) (name : Text) : Text :=
  match routePrefix with
  | some p => ['_', '_'] ++ p ++ '/' :: name
  | none => ['_', '_'] ++ name

/-- `str.lstrip('/')` -/
def lstripSlash (t : Text) : Text := t.dropWhile (· = '/')

/-- the compiled pattern `<name>*subpath` (`add_route` prepends the route prefix, `_compile_route` a slash) -/
def patternPieces (routePrefix : Option Text) (name : Text) : List Piece :=
  let pat : Text := match routePrefix with
    | some p => Pyr.Static.rstripSlash p ++ '/' :: lstripSlash name
    | none => name
  [.lit (if pat.head? = some '/' then pat else '/' :: pat), .star subpathName]

/-- `idx = names.index(name); registrations.pop(idx)`: the first entry whose URL column is `name` is removed -/
def eraseFirstUrl (name : Text) : List StaticReg → List StaticReg
  | [] => []
  | r :: rest => if r.url = some name then rest else r :: eraseFirstUrl name rest

/-- the deferred `register()`; `name`, `spec` as given to `add_static_view` (spec already package-qualified) -/
def register (routePrefix : Option Text) (regs : List StaticReg) (name spec : Text) : List StaticReg :=
  let name := normName name
  let spec := normSpec spec
  let isUrl := (isUrlName name).getD false
  let entry : StaticReg :=
    if isUrl then { url := some name, spec := spec, routeName := [] }
    else { url := none, spec := spec, routeName := routeNameOf routePrefix name }
  -- `names = [t[0] for t in registrations]`: the first column is the URL (None for route-backed views)
  eraseFirstUrl name regs ++ [entry]

def registerAll (routePrefix : Option Text) (adds : List (Text × Text)) : List StaticReg :=
  adds.foldl (fun regs a => register routePrefix regs a.1 a.2) []

/-- the routes of the local names, in registration order (a later route of the same name replaces the earlier
one in place of the name, at the end of the list: `RoutesMapper.connect`) -/
def routesOf (routePrefix : Option Text) (adds : List (Text × Text)) : Routes :=
  adds.foldl (fun rs a =>
    let name := normName a.1
    if (isUrlName name).getD false then rs
    else
      let rn := routeNameOf routePrefix name
      (rs.filter fun r => r.1 ≠ rn) ++ [(rn, patternPieces routePrefix name)]) []

/-! ### cache busters -/

inductive Buster where
  | query (param token : Text)              -- QueryString(Constant)CacheBuster: `tokenize` gives `token`
  | manifest (m : List (Text × Text))       -- ManifestCacheBuster with this manifest
deriving Repr, DecidableEq

structure BusterReg where
  spec : Text
  cb : Buster
  explicit : Bool
deriving Repr, DecidableEq

/-- the `for idx, (spec_, cb_, explicit_) in enumerate(cache_busters)` loop: `(new_idx, old_idx)` -/
def scanBusters (spec : Text) (explicit : Bool) : List BusterReg → Nat → Nat × Option Nat
  | [], i => (i, none)
  | b :: rest, i =>
    if spec = b.spec ∧ explicit = b.explicit then (i, some i)
    else if !explicit && b.explicit then (i, none)
    else if explicit = b.explicit && decide (spec.length < b.spec.length) then (i, none)
    else scanBusters spec explicit rest (i + 1)

def insertAt {α} (x : α) : Nat → List α → List α
  | 0, l => x :: l
  | _ + 1, [] => [x]
  | n + 1, y :: l => y :: insertAt x n l

/-- the deferred `register()` of `add_cache_buster` -/
def addCacheBuster (bs : List BusterReg) (spec : Text) (cb : Buster) (explicit : Bool) : List BusterReg :=
  let spec := normSpec spec
  let (newIdx, oldIdx) := scanBusters spec explicit bs 0
  let bs' := match oldIdx with
    | some i => bs.eraseIdx i
    | none => bs
  insertAt ⟨spec, cb, explicit⟩ newIdx bs'

/-- `dict[param] = token`: an existing key keeps its place -/
def dictSet (ps : List (Text × QVal)) (k : Text) (v : QVal) : List (Text × QVal) :=
  if ps.any (fun p => p.1 = k) then ps.map fun p => if p.1 = k then (k, v) else p else ps ++ [(k, v)]

/-- `cachebust(request, subpath, kw)`; `qIsDict`: the `_query` argument is a `dict` -/
def applyBuster (cb : Buster) (sub : Text) (q : Query) (qIsDict : Bool) : Except Url.Err (Text × Query) :=
  match cb with
  | .manifest m => .ok ((m.lookup sub).getD sub, q)
  | .query p t =>
    match q with
    | .absent => .ok (sub, .pairs [(p, .one t)])
    | .pairs ps truthy =>
      .ok (sub, .pairs (if qIsDict then dictSet ps p (.one t) else ps ++ [(p, .one t)]) truthy)
    | _ => .error .outside          -- `tuple('a=1')` / `tuple(None)`: ValueError / TypeError later on

/-- `_bust_asset_path`: `rawOf` gives the overriding asset's spec when an override applies -/
def bustAssetPath (bs : List BusterReg) (rawOf : Text → Option Text) (path sub : Text) (q : Query) (qIsDict : Bool) :
    Except Url.Err (Text × Query) :=
  let pathspec := path
  let rawspec := (rawOf path).getD pathspec
  match bs.reverse.find? (fun b => if b.explicit then b.spec.isPrefixOf rawspec else b.spec.isPrefixOf pathspec) with
  | none => .ok (sub, q)
  | some b => applyBuster b.cb sub q qIsDict

/-! ### generate -/

/-- the URL for a chosen registration and a (possibly busted) subpath: lines 2180-2194 of config/views.py, which
C17 models as the tail of `Pyr.Url.staticUrl` — reused here through a one-entry registration list with an empty
spec (the empty spec is a prefix of every subpath and leaves it whole) -/
def urlOf (e : Env) (routes : Routes) (r : StaticReg) (sub : Text) (o : Ovr) : Except Url.Err Text :=
  Pyr.Url.staticUrl e routes [{ r with spec := [] }] sub o

/-- `StaticURLInfo.generate(path, request, **kw)` -/
def generate (e : Env) (routes : Routes) (regs : List StaticReg) (bs : List BusterReg) (rawOf : Text → Option Text)
    (path : Text) (o : Ovr) (qIsDict : Bool) : Except Url.Err Text :=
  match regs.find? (fun r => r.spec.isPrefixOf path) with
  | none => .error .noStatic
  | some r =>
    let sub := path.drop r.spec.length
    if bs = [] then urlOf e routes r sub o
    else
      match bustAssetPath bs rawOf path sub o.query qIsDict with
      | .error er => .error er
      | .ok (sub', q') => urlOf e routes r sub' { o with query := q' }

end Pyr.StaticUrl
