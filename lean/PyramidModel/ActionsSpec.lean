import PyramidModel.Actions
/-!
C04 — the declarative specification the model is proved against (Lemmas/Actions*.lean, Props/C04.lean).
Written without sorting, `first`/`rest`, or the conflict/override bookkeeping of the code: it only
speaks of *which action's include path is a strict prefix of which*.
-/
namespace Pyr.Actions

/-- actions of the group carrying discriminator `d` -/
def withKey (g : List Act) (d : Nat) : List Act := g.filter (fun a => a.key == some d)

/-- `w` is the action the property lets run for its discriminator inside the group `g`:
its include path is a strict prefix of the include path of every other action of `g` with the
same discriminator. -/
def isWinner (g : List Act) (w : Act) : Bool :=
  g.all (fun x => x.id == w.id || x.key != w.key || strictExt w.path x.path)

/-- The discriminator `d` is settled in group `g`, given the already executed actions `log`:
* if an action with `d` was executed already, it must be a strict prefix of every action of the group;
* otherwise some action of the group must be the winner. -/
def settled (log g : List Act) (d : Nat) : Bool :=
  match prevOf log d with
  | some p => (withKey g d).all (fun x => strictExt p.path x.path)
  | none => (withKey g d).any (fun w => isWinner g w)

/-- the contested discriminators of the group (each once) -/
def contested (log g : List Act) : List Nat := (discsOf g).filter (fun d => !settled log g d)

/-- what runs from a settled group, in declaration order: every action without discriminator and
every winner whose discriminator was not executed before -/
def groupRuns (log g : List Act) : List Act :=
  g.filter (fun a => match a.key with
    | none => true
    | some d => (prevOf log d).isNone && isWinner g a)

/-- Phase-by-phase specification of a commit without re-entrancy: take the lowest remaining phase;
if it has contested discriminators stop with exactly those; otherwise run `groupRuns`, discard the
rest of the phase, go on.  The fuel is the number of phases (`rem.length` always suffices). -/
def specPhases : Nat → List Act → List Act → Outcome × List Act
  | 0, log, _ => (.fuel, log)
  | n + 1, log, rem =>
    match minOrd rem with
    | none => (.ok, log)
    | some o =>
      let g := rem.filter (fun a => a.order == o)
      match contested log g with
      | [] => specPhases n ((groupRuns log g).reverse ++ log) (rem.filter (fun a => a.order != o))
      | ks => (.conflict ks, log)

def specRun (top : List Act) : Outcome × List Nat :=
  let r := specPhases (top.length + 1) [] top
  (r.1, r.2.reverse.map (·.id))

end Pyr.Actions
