/-
X02 — executable model of pyramid's configuration settings and small pure helpers:

* `pyramid.settings`: `truthy`, `asbool`, `aslist_cronly`, `aslist`                     (src/pyramid/settings.py)
* `pyramid.config.settings.Settings` (the function, lines 57-111): `expand_key`, `S`, `O`, the
  `reload_assets`/`reload_resources` alias loop, in source order                           (src/pyramid/config/settings.py)
* `pyramid.util`: `text_`, `bytes_`, `ascii_`, `is_nonstr_iter`, `is_string_or_iterable`, `as_sorted_tuple`
  (`strings_differ` and `is_same_domain` are C12's `Pyr.Csrf.stringsDiffer` / `Pyr.Csrf.isSameDomain`, reused)

Python values are `Val`: `None`, `bool`, `int`, `str` (no lone surrogates) and a list of such atoms.  Python dicts are
association lists with unique keys in insertion order (`set` replaces in place or appends, as `dict.__setitem__` does).
Python exceptions: `Except Err _`.

Core Lean only.
-/
namespace Pyr.Settings

abbrev Text := List Char

/-- the elements of a Python list that the settings code can meet -/
inductive Atom where
  | none
  | bool (b : Bool)
  | int (i : Int)
  | str (s : Text)
deriving DecidableEq, Repr

inductive Val where
  | none
  | bool (b : Bool)
  | int (i : Int)
  | str (s : Text)
  | list (xs : List Atom)
deriving DecidableEq, Repr

def Atom.toVal : Atom → Val
  | .none => .none
  | .bool b => .bool b
  | .int i => .int i
  | .str s => .str s

inductive Err where
  | typeError     -- `list(value)` of a value that is not iterable (aslist of None / bool / int)
  | keyError      -- `d[key]` of an absent key inside `O` / the alias loop
deriving DecidableEq, Repr

/-! ## strings -/

/-- the code points `c` with `chr(c).isspace()` (what `str.strip()` removes and `str.split()` splits at) -/
def spaceCodes : List Nat :=
  [9, 10, 11, 12, 13, 28, 29, 30, 31, 32, 0x85, 0xA0, 0x1680, 0x2000, 0x2001, 0x2002, 0x2003, 0x2004, 0x2005, 0x2006,
   0x2007, 0x2008, 0x2009, 0x200A, 0x2028, 0x2029, 0x202F, 0x205F, 0x3000]

/-- the line boundaries of `str.splitlines()` -/
def lineBreakCodes : List Nat := [10, 11, 12, 13, 28, 29, 30, 0x85, 0x2028, 0x2029]

def isSpace (c : Char) : Bool := spaceCodes.contains c.toNat

def isLineBreak (c : Char) : Bool := lineBreakCodes.contains c.toNat

/-- `s.rstrip()` -/
def rstrip : Text → Text
  | [] => []
  | c :: cs => match rstrip cs with
    | [] => if isSpace c then [] else [c]
    | r => c :: r

/-- `s.strip()` -/
def strip (t : Text) : Text := rstrip (t.dropWhile isSpace)

/-- `(piece under construction, completed pieces)` of splitting at every character satisfying `p` -/
def splitGo (p : Char → Bool) : Text → Text × List Text
  | [] => ([], [])
  | c :: cs =>
    let r := splitGo p cs
    if p c then ([], r.1 :: r.2) else (c :: r.1, r.2)

/-- every piece between separators, empty ones included (always at least one piece) -/
def splitAll (p : Char → Bool) (t : Text) : List Text := (splitGo p t).1 :: (splitGo p t).2

/-- `s.split()` -/
def splitWs (t : Text) : List Text := (splitAll isSpace t).filter (· ≠ [])

/-- the lines of `s.splitlines()` as far as `aslist_cronly` can tell: split at every boundary character.  (Python joins
`\r\n` into one boundary and drops a trailing empty line; both only remove EMPTY lines, which `filter(None, …)` drops anyway.) -/
def lines (t : Text) : List Text := splitAll isLineBreak t

/-- `str.lower()` as far as membership in `truthy` can tell: ASCII letters.  (No non-ASCII character lower-cases to one of
the letters of a truthy word; the harness sweeps every code point.) -/
def lower (t : Text) : Text := t.map Char.toLower

def s (x : String) : Text := x.toList

/-! ## pyramid/settings.py -/

/-- `truthy = frozenset(('t', 'true', 'y', 'yes', 'on', '1'))` -/
def truthy : List Text := [s "t", s "true", s "y", s "yes", s "on", s "1"]

/-- `falsey` (exported, not consulted by `asbool`) -/
def falsey : List Text := [s "f", s "false", s "n", s "no", s "off", s "0"]

/-- `asbool(s)`, lines 5-14.  `str(i)` of an int is its decimal numeral, the only truthy numeral is `1`;
`str(list)` starts with `[`, never truthy. -/
def asbool : Val → Bool
  | .none => false
  | .bool b => b
  | .int i => i == 1
  | .str t => truthy.contains (lower (strip t))
  | .list _ => false

/-- `aslist_cronly(value)`, lines 17-20 -/
def aslistCronly : Val → Except Err (List Atom)
  | .str t => .ok ((((lines t).map strip).filter (· ≠ [])).map Atom.str)
  | .list xs => .ok xs
  | _ => .error .typeError

/-- the flattening loop of `aslist`, lines 31-38 -/
def flattenAtoms : List Atom → List Atom
  | [] => []
  | .str t :: rest => (splitWs t).map Atom.str ++ flattenAtoms rest
  | a :: rest => a :: flattenAtoms rest

/-- `aslist(value, flatten)`, lines 23-38 -/
def aslist (v : Val) (flatten : Bool := true) : Except Err (List Atom) :=
  match aslistCronly v with
  | .error e => .error e
  | .ok values => if flatten then .ok (flattenAtoms values) else .ok values

/-! ## dictionaries -/

abbrev Dict := List (Text × Val)
abbrev Env := List (Text × Text)

/-- `d.get(k)` -/
def get : Dict → Text → Option Val
  | [], _ => none
  | (k', v) :: rest, k => if k' = k then some v else get rest k

/-- `d[k] = v` -/
def set : Dict → Text → Val → Dict
  | [], k, v => [(k, v)]
  | (k', v') :: rest, k, v => if k' = k then (k, v) :: rest else (k', v') :: set rest k v

/-- `d.update(other)` -/
def update (d : Dict) (other : Dict) : Dict := other.foldl (fun d kv => set d kv.1 kv.2) d

/-- `_environ_.get(k)` (os.environ: text values) -/
def eget : Env → Text → Option Text
  | [], _ => none
  | (k', v) :: rest, k => if k' = k then some v else eget rest k

/-! ## pyramid/config/settings.py -/

inductive Kind where
  | bool      -- type_ = asbool
  | str       -- type_ = str
  | list      -- type_ = aslist
deriving DecidableEq, Repr

/-- one `S(settings_key, env_key, type_, default)` call -/
structure Row where
  name : Text
  env : Text
  kind : Kind
  default : Val
deriving DecidableEq, Repr

def pfx : Text := s "pyramid."

/-- `expand_key`, lines 68-72 -/
def expandKey (key : Text) : List Text :=
  if pfx.isPrefixOf key then [key] else [key, pfx ++ key]

/-- `str(value)` for the `default_locale_name` row.  A list is OUTSIDE the modelled domain (Python prints its `repr`);
the placeholder is never compared (`Row`s of kind `str` with a list source are flagged by `inDomain`). -/
def pyStr : Val → Text
  | .none => s "None"
  | .bool true => s "True"
  | .bool false => s "False"
  | .int i => (toString i).toList
  | .str t => t
  | .list _ => s "<list>"

/-- `type_(value)` -/
def conv : Kind → Val → Except Err Val
  | .bool, v => .ok (.bool (asbool v))
  | .str, v => .ok (.str (pyStr v))
  | .list, v => match aslist v with
    | .ok xs => .ok (.list xs)
    | .error e => .error e

/-- lines 75-81: the value `S` converts — default, overridden by `d[key]`, by `d['pyramid.'+key]`, by the environment -/
def sourceOf (r : Row) (d : Dict) (env : Env) : Val :=
  let v0 := (expandKey r.name).foldl (fun v k => match get d k with | some x => x | none => v) r.default
  if r.env = [] then v0 else
    match eget env r.env with
    | some t => .str t
    | none => v0

/-- `S`, lines 74-82 -/
def stepS (r : Row) (env : Env) (d : Dict) : Except Err Dict :=
  match conv r.kind (sourceOf r d env) with
  | .error e => .error e
  | .ok v => .ok ((expandKey r.name).foldl (fun d k => set d k v) d)

/-- Python truth value -/
def truth : Val → Bool
  | .none => false
  | .bool b => b
  | .int i => i != 0
  | .str t => t != []
  | .list xs => xs != []

/-- `a or b` -/
def pyOr (a b : Val) : Val := if truth a then a else b

/-- `d[target] = d[a] or d[b]` -/
def orInto (target a b : Text) (d : Dict) : Except Err Dict :=
  match get d a, get d b with
  | some x, some y => .ok (set d target (pyOr x y))
  | _, _ => .error .keyError

/-- run `f k` for every `k` of the list, threading the dictionary -/
def forKeys (f : Text → Dict → Except Err Dict) : List Text → Dict → Except Err Dict
  | [], d => .ok d
  | k :: ks, d => match f k d with
    | .error e => .error e
    | .ok d' => forKeys f ks d'

inductive Step where
  /-- `S(name, env, type_, default)` -/
  | S (r : Row)
  /-- `O(name, over)`: `for key in expand_key(name): d[key] = d[key] or d[over]` -/
  | O (name over : Text)
  /-- `for k in expand_key(a) + expand_key(b): d[k] = d[a] or d[b]` -/
  | A (a b : Text)
deriving DecidableEq, Repr

def step (env : Env) (st : Step) (d : Dict) : Except Err Dict :=
  match st with
  | .S r => stepS r env d
  | .O name over => forKeys (fun k d => orInto k k over d) (expandKey name) d
  | .A a b => forKeys (fun k d => orInto k a b d) (expandKey a ++ expandKey b) d

def run (env : Env) : List Step → Dict → Except Err Dict
  | [], d => .ok d
  | st :: rest, d => match step env st d with
    | .error e => .error e
    | .ok d' => run env rest d'

def bS (name env : String) : Step := .S ⟨s name, s env, .bool, .bool false⟩

/-- lines 84-109, statement by statement -/
def program : List Step := [
  bS "debug_all" "PYRAMID_DEBUG_ALL",
  bS "debug_authorization" "PYRAMID_DEBUG_AUTHORIZATION",
  .O (s "debug_authorization") (s "debug_all"),
  bS "debug_notfound" "PYRAMID_DEBUG_NOTFOUND",
  .O (s "debug_notfound") (s "debug_all"),
  bS "debug_routematch" "PYRAMID_DEBUG_ROUTEMATCH",
  .O (s "debug_routematch") (s "debug_all"),
  bS "debug_templates" "PYRAMID_DEBUG_TEMPLATES",
  .O (s "debug_templates") (s "debug_all"),
  bS "reload_all" "PYRAMID_RELOAD_ALL",
  bS "reload_templates" "PYRAMID_RELOAD_TEMPLATES",
  .O (s "reload_templates") (s "reload_all"),
  bS "reload_assets" "PYRAMID_RELOAD_ASSETS",
  .O (s "reload_assets") (s "reload_all"),
  bS "reload_resources" "PYRAMID_RELOAD_RESOURCES",
  .O (s "reload_resources") (s "reload_all"),
  .A (s "reload_assets") (s "reload_resources"),
  .S ⟨s "default_locale_name", s "PYRAMID_DEFAULT_LOCALE_NAME", .str, .str (s "en")⟩,
  bS "prevent_http_cache" "PYRAMID_PREVENT_HTTP_CACHE",
  bS "prevent_cachebust" "PYRAMID_PREVENT_CACHEBUST",
  .S ⟨s "csrf_trusted_origins", s "PYRAMID_CSRF_TRUSTED_ORIGINS", .list, .list []⟩]

/-- `Settings(d, _environ_, **kw)`, lines 57-111 (`d=None` is `{}`) -/
def settings (d kw : Dict) (env : Env) : Except Err Dict := run env program (update d kw)

/-- the modelled domain: no `str`-kind row is fed a list (see `pyStr`) -/
def inDomain (d kw : Dict) (env : Env) : Bool :=
  program.all fun st => match st with
    | .S r => r.kind != .str || (match sourceOf r (update d kw) env with | .list _ => false | _ => true)
    | _ => true

/-! ## pyramid/util.py -/

/-- a `str`, a `bytes`, or anything else (by name) -/
inductive SB where
  | str (t : Text)
  | bytes (b : List UInt8)
  | other (tag : Nat)
deriving DecidableEq, Repr

inductive CodecErr where
  | unicodeEncode | unicodeDecode | typeError
deriving DecidableEq, Repr

/-- `text_(s)` with the default `latin-1`, lines 30-35 -/
def text_ : SB → SB
  | .bytes b => .str (b.map fun x => Char.ofNat x.toNat)
  | x => x

/-- `bytes_(s)` with the default `latin-1`, lines 38-43 -/
def bytes_ : SB → Except CodecErr SB
  | .str t => if t.all (fun c => c.toNat < 256) then .ok (.bytes (t.map fun c => c.toNat.toUInt8)) else .error .unicodeEncode
  | x => .ok x

/-- `ascii_(s)`, lines 46-53 -/
def ascii_ : SB → Except CodecErr Text
  | .str t => if t.all (fun c => c.toNat < 128) then .ok t else .error .unicodeEncode
  | .bytes b => if b.all (fun x => x.toNat < 128) then .ok (b.map fun x => Char.ofNat x.toNat) else .error .unicodeDecode
  | .other _ => .error .typeError

/-- `is_nonstr_iter(v)`, lines 56-59, on the values of this model (a list has `__iter__`; None/bool/int do not) -/
def isNonstrIter : Val → Bool
  | .list _ => true
  | _ => false

/-- `is_string_or_iterable(v)`, lines 62-66: `True` or (falling off the end) `None` -/
def isStringOrIterable : Val → Option Bool
  | .str _ => some true
  | .list _ => some true
  | _ => none

/-- `<=` of two `str` (code-point lexicographic) -/
def leText : Text → Text → Bool
  | [], _ => true
  | _ :: _, [] => false
  | a :: as, b :: bs => a.toNat < b.toNat || (a == b && leText as bs)

/-- `as_sorted_tuple(val)`, lines 69-73, for a single text or a list of texts (what predicates pass) -/
def asSortedTuple : Text ⊕ List Text → List Text
  | .inl t => [t]
  | .inr ts => ts.mergeSort leText

end Pyr.Settings
