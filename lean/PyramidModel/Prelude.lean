/-
Shared vocabulary of the executable models and the line protocol of the drivers.
Core Lean only (no Mathlib): everything here is linked into the `drv_*` executables.

Line protocol: one JSON value per input line, one JSON value per output line, same order.
-/
import Lean.Data.Json

namespace Pyr

open Lean (Json ToJson FromJson toJson fromJson?)

/-- Text as Python `str` without lone surrogates: a list of Unicode scalar values. -/
abbrev Text := List Char

def textOfCodes (cs : List Nat) : String := String.ofList (cs.map Char.ofNat)
def codesOfText (s : String) : List Nat := s.toList.map Char.toNat

/-- Read stdin line by line, answer every line with `f`; the reply `f` gives is printed on one line. -/
partial def lineLoop (h : IO.FS.Stream) (out : IO.FS.Stream) (f : String → String) : IO Unit := do
  let line ← h.getLine
  if line.isEmpty then
    out.flush
    return ()
  let l := line.trimAsciiEnd.toString
  if l.isEmpty then
    lineLoop h out f
  else
    out.putStrLn (f l)
    lineLoop h out f

/-- A driver whose cases are JSON values: parse, run, print compact JSON; parse errors become
`{"error": …}` lines so that the harness sees them as disagreements, never as silence. -/
def jsonDriver (f : Json → Except String Json) : IO Unit := do
  let i ← IO.getStdin
  let o ← IO.getStdout
  lineLoop i o fun l =>
    match Json.parse l with
    | .error e => (Json.mkObj [("error", Json.str s!"parse: {e}")]).compress
    | .ok j =>
      match f j with
      | .ok r => r.compress
      | .error e => (Json.mkObj [("error", Json.str e)]).compress

/-- Stateful variant: the state threads through the lines (operation sequences). -/
partial def jsonDriverSt {σ : Type} (init : σ) (f : σ → Json → Except String (σ × Json)) : IO Unit := do
  let i ← IO.getStdin
  let o ← IO.getStdout
  let rec go (s : σ) : IO Unit := do
    let line ← i.getLine
    if line.isEmpty then
      o.flush
      return ()
    let l := line.trimAsciiEnd.toString
    if l.isEmpty then go s
    else
      match Json.parse l with
      | .error e =>
        o.putStrLn (Json.mkObj [("error", Json.str s!"parse: {e}")]).compress
        go s
      | .ok j =>
        match f s j with
        | .ok (s', r) => o.putStrLn r.compress; go s'
        | .error e => o.putStrLn (Json.mkObj [("error", Json.str e)]).compress; go s
  go init

def getField (j : Json) (k : String) : Except String Json := j.getObjVal? k

def getAs {α} [FromJson α] (j : Json) (k : String) : Except String α := do
  let v ← j.getObjVal? k
  fromJson? v

end Pyr
