import PyramidModel.Actions
/-!
C04 — executable model of the *Configurator* side of `pyramid.config`:
`Configurator.action` (src/pyramid/config/actions.py:30-114), `Configurator.include`
(src/pyramid/config/__init__.py:630-668), `Configurator.commit` (actions.py:126-154),
`ActionState.processSpec` (actions.py:164-176), `route_prefix_context` (routes.py:569-613).

A configuration program is a tree of statements
* `declare id disc order body` — `config.action(disc, callable, order=order)` where `callable` logs `id` and
  then runs the statements `body` on the configurator that declared it (a closure over `config`);
* `include spec rp body`       — `config.include(inc_spec, route_prefix=rp)` where `inc_spec(config)` runs `body`
  on the nested configurator;
* `commit`                     — `config.commit()`.

State: every configurator of one program shares the registry, hence one `ActionState` (`Core.seen` =
`_seen_files`, `Core.actions` = `actions`); a configurator itself is its `includepath` and `route_prefix`
(`Cfg`).  `Configurator.commit` runs `ActionState.execute_actions` with a *fresh* `ConflictResolverState`
(actions.py:277) and then replaces the registry's `ActionState` by a fresh one (actions.py:153): nothing —
neither the executed set nor `_seen_files` nor pending actions — survives a commit.

Not modelled: `basepath` (all harness includemes live in one file), the `_ainfo` stack / `info` (only used
in the texts of error reports), `commit()` called from inside an executing action callable (the model flags
it, `Core.bad`, the harness never generates it), callables that raise.  `route_prefix` is modelled for
prefixes that are single non-empty segments without slashes (then `old.rstrip('/') + '/' + new.lstrip('/')`
stripped of slashes is the list of segments).  The `autocommit` branch is modelled by `autoStmts`.
-/
namespace Pyr.Actions

mutual
inductive Stmt where
  | declare (id : Nat) (disc : Disc) (order : Int) (body : Stmts)
  | include (spec : Nat) (rp : Option Nat) (body : Stmts)
  | commit
inductive Stmts where
  | nil
  | cons (s : Stmt) (rest : Stmts)
end

def Stmts.append : Stmts → Stmts → Stmts
  | .nil, q => q
  | .cons s p, q => .cons s (p.append q)

/-- what a configurator is, as far as declarations are concerned -/
structure Cfg where
  path : List Nat := []
  /-- `route_prefix` as its list of segments (`[]` = `None`) -/
  rprefix : List Nat := []
deriving Repr, DecidableEq

/-- the nested configurator `include` builds (config/__init__.py:652-663) -/
def Cfg.enter (c : Cfg) (spec : Nat) (rp : Option Nat) : Cfg :=
  { path := c.path ++ [spec], rprefix := c.rprefix ++ rp.toList }

/-- the callable of a pending action: the configurator it closes over and what it does -/
structure Closure where
  id : Nat
  cfg : Cfg
  body : Stmts

/-- one declaration as the harness observes it: action id, `config.includepath`, `config.route_prefix` -/
structure Seen where
  id : Nat
  path : List Nat
  rprefix : List Nat
deriving Repr, DecidableEq

/-- the shared `ActionState` plus the callables -/
structure Core where
  seen : List Nat := []
  actions : List Act := []
  closures : List Closure := []
  /-- write-only record of the declarations made, in order -/
  declared : List Seen := []
  /-- a `commit` statement was met inside an executing action callable (not modelled) -/
  bad : Bool := false

/-- `Configurator.action`, deferred branch (actions.py:99-114): the action dict gets
`includepath=self.includepath`, `order=order` and goes to `action_state.action` -/
def declareCore (c : Cfg) (id : Nat) (disc : Disc) (order : Int) (body : Stmts) (k : Core) : Core :=
  { k with actions := k.actions ++ [⟨id, disc, order, c.path⟩],
           closures := k.closures ++ [⟨id, c, body⟩],
           declared := k.declared ++ [⟨id, c.path, c.rprefix⟩] }

mutual
/-- statements run on configurator `c` while no commit statement is allowed (inside an action callable) or
needed: `declare` queues, `include` checks `processSpec` first and marks the spec before running the body -/
def walkStmt (c : Cfg) : Stmt → Core → Core
  | .declare id disc order body, k => declareCore c id disc order body k
  | .include spec rp body, k =>
    if k.seen.contains spec then k
    else walkStmts (c.enter spec rp) body { k with seen := spec :: k.seen }
  | .commit, k => { k with bad := true }
def walkStmts (c : Cfg) : Stmts → Core → Core
  | .nil, k => k
  | .cons s rest, k => walkStmts c rest (walkStmt c s k)
end

/-- what one `commit()` did -/
structure CommitRes where
  outcome : Outcome
  /-- executed actions, oldest first, with their discriminators as evaluated -/
  log : List Act
  /-- `(id, actions its callable declared)` for every executed action, in execution order -/
  trace : List (Nat × List Act)
deriving Repr

def runClosure (i : Nat) (k : Core) : Core :=
  match k.closures.find? (fun cl => cl.id == i) with
  | some cl => walkStmts cl.cfg cl.body k
  | none => k

/-- `ActionState.execute_actions` with the callables of the program: like `exec`, but what an executed action
appends is what running its callable on the shared state declares -/
def execW : Nat → St → Core → List (Nat × List Act) → Outcome × St × Core × List (Nat × List Act)
  | 0, st, k, tr => (.fuel, st, k, tr)
  | f + 1, st, k, tr =>
    match next (absorb st) with
    | (.yielded a, st') =>
      let k1 := runClosure a.id { k with actions := [] }
      execW f { st' with log := a :: st'.log, pending := k1.actions } { k1 with actions := [] }
        (tr ++ [(a.id, k1.actions)])
    | (ev, st') => (ev.outcome, st', k, tr)

mutual
/-- number of statements: a bound for the number of actions a callable can declare -/
def Stmt.size : Stmt → Nat
  | .declare _ _ _ body => 1 + body.size
  | .include _ _ body => 1 + body.size
  | .commit => 1
def Stmts.size : Stmts → Nat
  | .nil => 0
  | .cons s rest => s.size + rest.size
end

def closuresSize : List Closure → Nat
  | [] => 0
  | cl :: rest => 1 + cl.body.size + closuresSize rest

/-- `Configurator.commit` (actions.py:148-153): execute with a fresh resolver state, then install a fresh
`ActionState`.  Returns the result and the state the registry is left with (`declared` is kept: it is a record). -/
def commitCore (k : Core) : CommitRes × Core :=
  let r := execW (closuresSize k.closures + 1) (initSt k.actions) { k with actions := [] } []
  (⟨r.1, r.2.1.log.reverse, r.2.2.2⟩, { declared := r.2.2.1.declared, bad := r.2.2.1.bad })

/-- the world a program runs in: the shared state, the results of the commits so far, and whether a commit
raised (then the program is over) -/
structure World where
  core : Core := {}
  commits : List CommitRes := []
  aborted : Bool := false

mutual
def runStmt (c : Cfg) : Stmt → World → World
  | .declare id disc order body, w => { w with core := declareCore c id disc order body w.core }
  | .include spec rp body, w =>
    if w.core.seen.contains spec then w
    else runStmts (c.enter spec rp) body { w with core := { w.core with seen := spec :: w.core.seen } }
  | .commit, w =>
    let r := commitCore w.core
    { core := r.2, commits := w.commits ++ [r.1], aborted := r.1.outcome != .ok }
def runStmts (c : Cfg) : Stmts → World → World
  | .nil, w => w
  | .cons s rest, w => if w.aborted then w else runStmts c rest (runStmt c s w)
end

/-- a whole program on a fresh root configurator -/
def runProgram (p : Stmts) : World := runStmts {} p {}

/-! ### autocommit (actions.py:86-97): nothing is queued, nothing is checked -/

structure AutoWorld where
  seen : List Nat := []
  /-- executed ids, oldest first -/
  log : List Nat := []
  /-- discriminators as `undefer` returned them at declaration: `(id, key)` -/
  discs : List (Nat × Option Nat) := []
  declared : List Seen := []

mutual
def autoStmt (c : Cfg) : Stmt → AutoWorld → AutoWorld
  | .declare id disc _ body, w =>
    -- `undefer(discriminator)` first, then the callable (which logs, then runs its body)
    autoStmts c body { w with discs := w.discs ++ [(id, (disc.eval w.log).key)], log := w.log ++ [id],
                              declared := w.declared ++ [⟨id, c.path, c.rprefix⟩] }
  | .include spec rp body, w =>
    if w.seen.contains spec then w
    else autoStmts (c.enter spec rp) body { w with seen := spec :: w.seen }
  | .commit, w => { w with seen := [] }
def autoStmts (c : Cfg) : Stmts → AutoWorld → AutoWorld
  | .nil, w => w
  | .cons s rest, w => autoStmts c rest (autoStmt c s w)
end

end Pyr.Actions
