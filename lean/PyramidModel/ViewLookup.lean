/-
C03 / C14 — executable model of Pyramid's view registration and view lookup.

Mirrors (src/pyramid):
* `config/predicates.py`  `PredicateList.make` (order / phash arithmetic)            → `mkPreds`, `orderOf`, `derive`
* `predicates.py`         the built-in predicate classes (constructor + `__call__`)   → `mkCond`, `Cond.eval`
* `config/views.py`       `register_view` (IView / ISecuredView / IMultiView slots,
                          same-phash override, promotion to a MultiView)              → `regSlot`, `registerView`
                          `MultiView.add / get_views / __call__`                      → `MultiView.add`, `getViews`, `callMulti`
                          `predicated_view`, `_secured_view` (only: refusal raises)   → `DView.call`
* `view.py`               `_find_views` (request SRO × context SRO × view types),
                          `_call_view` (PredicateMismatch remembered, fall through)   → `findViews`, `callViews`, `callView`

Inputs that are DATA (computed by the harness from the real objects; trusted base): interface / class
resolution orders (`__sro__`), regular-expression match results (`reTable`), the q-value WebOb assigns to a
media-type offer for the request's Accept header (`accQ`), an offer's position in the accept-order list,
`repr` texts of classes / tuples / `hash()` of custom predicates that enter the phash, the parsed GET/POST
pairs, the context's lineage and physical path, the security policy's verdict (`permitted`).
Core Lean only.
-/
import PyramidModel.Gen.C03Tables

namespace Pyr.ViewLookup

/-! ## small text helpers (Python `str` methods on ASCII data) -/

def isWs (c : Char) : Bool :=
  c == ' ' || c == '\t' || c == '\n' || c == '\r' || c == '\x0b' || c == '\x0c'

def stripL : List Char → List Char
  | [] => []
  | c :: cs => if isWs c then stripL cs else c :: cs

/-- `s.strip()` (ASCII white space) -/
def stripCs (s : List Char) : List Char := (stripL (stripL s).reverse).reverse

def strip (s : String) : String := String.ofList (stripCs s.toList)

/-- `s.split(sep, 1)` when `sep` occurs in `s`: the text before and after its first occurrence -/
def splitOnce (sep : Char) : List Char → Option (List Char × List Char)
  | [] => none
  | c :: cs =>
    if c == sep then some ([], cs)
    else match splitOnce sep cs with
      | some (a, b) => some (c :: a, b)
      | none => none

/-- `s.split(sep)` -/
def splitAll (sep : Char) : List Char → List (List Char)
  | [] => [[]]
  | c :: cs =>
    if c == sep then [] :: splitAll sep cs
    else match splitAll sep cs with
      | [] => [[c]]
      | p :: ps => (c :: p) :: ps

/-- insertion into a strictly increasing list of strings (`sorted(set(...))`, code-point order) -/
def insertStr (s : String) : List String → List String
  | [] => [s]
  | t :: ts => if s < t then s :: t :: ts else if s = t then t :: ts else t :: insertStr s ts

/-- `as_sorted_tuple(val)` for an iterable of strings: `tuple(sorted(set(val)))` -/
def sortedSet (xs : List String) : List String := xs.foldr insertStr []

/-- `sep.join(xs)` -/
def joinWith (sep : String) : List String → String
  | [] => ""
  | [x] => x
  | x :: xs => x ++ sep ++ joinWith sep xs

/-! ## generic stable sort (Python `list.sort(key=…)` is stable) -/

/-- insert `v` behind every element that is not greater: what `l.append(v); l.sort()` does to a sorted `l` -/
def insertLast {α} (le : α → α → Bool) (v : α) : List α → List α
  | [] => [v]
  | y :: ys => if le y v then y :: insertLast le v ys else v :: y :: ys

/-- stable sort: elements are inserted one by one, each behind its equals -/
def sortL {α} (le : α → α → Bool) (xs : List α) : List α :=
  xs.foldl (fun acc v => insertLast le v acc) []

/-! ## requests -/

/-- What view lookup can see of a request (after routing and traversal). -/
structure Request where
  /-- `request.method` -/
  method : String
  /-- `request.GET.items()` / `request.POST.items()` as WebOb parsed them -/
  getParams : List (String × String)
  postParams : List (String × String)
  /-- the `HTTP_*`, `CONTENT_TYPE`, `CONTENT_LENGTH` entries of the WSGI environ -/
  environ : List (String × String)
  /-- `request.upath_info` -/
  pathInfo : String
  /-- `request.matchdict` (`none` = attribute is `None`) -/
  matchdict : Option (List (String × String))
  /-- `request.is_authenticated` -/
  authenticated : Bool
  /-- ids of the custom predicates that return true on this request -/
  customTrue : List Nat
  /-- `(pattern, subject, re.compile(pattern).match(subject) is not None)` -/
  reTable : List (String × String × Bool)
  /-- offer id ↦ 1000·q of the best matching media range of the Accept header (0/absent: not acceptable) -/
  accQ : List (Nat × Nat)
  /-- for every location of the context's lineage (context first) the classes/interfaces it satisfies -/
  lineage : List (List Nat)
  /-- `resource_path_tuple(context)`; `none` when the context has no `__name__` -/
  physPath : Option (List String)
  /-- verdict of the security policy for a protected view on this request/context -/
  permitted : Bool
  /-- `request_iface.__sro__` and `providedBy(context).__sro__` as slot ids -/
  reqSro : List Nat
  ctxSro : List Nat
  /-- the view name found by traversal -/
  viewName : String
deriving Repr

/-- `MultiDict.__getitem__`: the last value stored under the key -/
def lastOf (k : String) : List (String × String) → Option String
  | [] => none
  | (k', v) :: rest =>
    match lastOf k rest with
    | some w => some w
    | none => if k' = k then some v else none

/-- `request.params.get(k)`: `NestedMultiDict(GET, POST)` — the first dict that has the key answers -/
def Request.param (r : Request) (k : String) : Option String :=
  match lastOf k r.getParams with
  | some v => some v
  | none => lastOf k r.postParams

/-- `EnvironHeaders._trans_name`/`trans_name` of WebOb -/
def transName (name : String) : String :=
  let up := name.toUpper
  if up = "CONTENT-TYPE" then "CONTENT_TYPE"
  else if up = "CONTENT-LENGTH" then "CONTENT_LENGTH"
  else "HTTP_" ++ String.ofList (up.toList.map fun c => if c == '-' then '_' else c)

/-- `request.headers.get(name)` -/
def Request.header (r : Request) (name : String) : Option String :=
  (r.environ.find? (·.1 = transName name)).map (·.2)

/-- `request.is_xhr` -/
def Request.isXhr (r : Request) : Bool :=
  ((r.environ.find? (·.1 = "HTTP_X_REQUESTED_WITH")).map (·.2)).getD "" = "XMLHttpRequest"

/-- `re.compile(pat).match(s) is not None` (table supplied by the harness; Python's `re` is trusted) -/
def Request.reMatch (r : Request) (pat s : String) : Bool :=
  match r.reTable.find? (fun t => t.1 = pat && t.2.1 = s) with
  | some t => t.2.2
  | none => false

def Request.q (r : Request) (offer : Nat) : Nat :=
  match r.accQ.find? (·.1 = offer) with
  | some p => p.2
  | none => 0

/-! ## predicates -/

/-- A constructed built-in predicate (state after `__init__`). -/
inductive Cond where
  | xhr (v : Bool)
  | method (vals : List String)
  | pathInfo (pat : String)
  | params (reqs : List (String × Option String))
  | headers (vals : List (String × Option String))
  | accept (offer : Nat)
  | containment (iface : Nat)
  | matchParam (reqs : List (String × String))
  | physicalPath (val : List String)
  | isAuthenticated (v : Bool)
  | custom (id : Nat)
deriving Repr, DecidableEq

/-- `__call__(context, request)` of each predicate class -/
def Cond.eval (r : Request) : Cond → Bool
  | .xhr v => r.isXhr == v
  | .method vals => vals.contains r.method
  | .pathInfo pat => r.reMatch pat r.pathInfo
  | .params reqs => reqs.all fun (k, v) =>
      match r.param k with
      | none => false
      | some actual => match v with
        | none => true
        | some w => actual == w
  | .headers vals => vals.all fun (name, pat) =>
      match pat with
      | none => (r.header name).isSome
      | some p => match r.header name with
        | none => false
        | some value => r.reMatch p value
  | .accept o => r.q o > 0
  | .containment i => r.lineage.any (·.contains i)
  | .matchParam reqs =>
      match r.matchdict with
      | none => false
      | some [] => false
      | some md => reqs.all fun (k, v) => (md.find? (·.1 = k)).map (·.2) == some v
  | .physicalPath val => r.physPath == some val
  | .isAuthenticated v => r.authenticated == v
  | .custom id => r.customTrue.contains id

/-- A media-type offer (an `accept=` value normalised by `normalize_accept_offer`) with the data
`sort_accept_offers` looks up for it in the accept-order list. -/
structure Offer where
  id : Nat
  /-- index of `type/subtype` in the order list -/
  typeIdx : Option Nat
  /-- index of the full `type/subtype;params` value in the order list -/
  paramIdx : Option Nat
  hasParams : Bool
deriving Repr, DecidableEq

/-- The value given for a predicate name in `add_view(...)`. -/
inductive RawVal where
  | xhr (v : Bool)
  | method (vals : List String)
  | pathInfo (pat : String)
  | params (vals : List String)
  | headers (vals : List String)
  | accept (offer : Nat) (text : String)
  | containment (iface : Nat) (repr : String)
  | matchParam (vals : List String)
  | physicalPathStr (val : String) (repr : String)
  | physicalPathSeq (val : List String) (repr : String)
  | isAuthenticated (v : Bool)
  | custom (id : Nat) (phash : String)
deriving Repr, DecidableEq

structure RawPred where
  name : String
  /-- wrapped in `not_(...)` -/
  notted : Bool
  val : RawVal
deriving Repr, DecidableEq

/-- `RequestParamPredicate.__init__`: one `(k, v)` requirement per value -/
def parseParam (p : String) : String × Option String :=
  let cs := p.toList
  match cs with
  | '=' :: rest =>
    match splitOnce '=' rest with
    | some (k, v) => (String.ofList (stripCs ('=' :: k)), some (String.ofList (stripCs v)))
    | none => (p, none)
  | _ =>
    match splitOnce '=' cs with
    | some (k, v) => (String.ofList (stripCs k), some (String.ofList (stripCs v)))
    | none => (p, none)

/-- `HeaderPredicate.__init__`: `name` or `name:regex` -/
def parseHeader (h : String) : String × Option String :=
  match splitOnce ':' h.toList with
  | some (n, v) => (String.ofList n, some (String.ofList v))
  | none => (h, none)

/-- `MatchParamPredicate.__init__`: `k=v` (values without `=` are a configuration error; the pair
is then `(p, "")`, never produced by the harness) -/
def parseMatch (p : String) : String × String :=
  match splitOnce '=' p.toList with
  | some (k, v) => (String.ofList (stripCs k), String.ofList (stripCs v))
  | none => (strip p, "")

/-- `RequestMethodPredicate.__init__`: sorted tuple; GET implies HEAD -/
def normMethods (vals : List String) : List String :=
  let t := sortedSet vals
  if t.contains "GET" && !t.contains "HEAD" then sortedSet (t ++ ["HEAD"]) else t

def pyBool (b : Bool) : String := if b then "True" else "False"

/-- constructor of the predicate class registered under the name -/
def mkCond : RawVal → Cond
  | .xhr v => .xhr v
  | .method vals => .method (normMethods vals)
  | .pathInfo pat => .pathInfo pat
  | .params vals => .params ((sortedSet vals).map parseParam)
  | .headers vals => .headers ((sortedSet vals).map parseHeader)
  | .accept o _ => .accept o
  | .containment i _ => .containment i
  | .matchParam vals => .matchParam ((sortedSet vals).map parseMatch)
  | .physicalPathStr s _ =>
      .physicalPath ("" :: ((splitAll '/' s.toList).filter (· ≠ [])).map String.ofList)
  | .physicalPathSeq l _ => .physicalPath l
  | .isAuthenticated v => .isAuthenticated v
  | .custom id _ => .custom id

/-- `text()` / `phash()` of the predicate -/
def condText : RawVal → String
  | .xhr v => "xhr = " ++ pyBool v
  | .method vals => "request_method = " ++ joinWith "," (normMethods vals)
  | .pathInfo pat => "path_info = " ++ pat
  | .params vals => "request_param " ++ joinWith ","
      (((sortedSet vals).map parseParam).map fun (k, v) =>
        match v with
        | some w => if w = "" then k else k ++ "=" ++ w
        | none => k)
  | .headers vals => "header " ++ joinWith ", "
      (((sortedSet vals).map parseHeader).map fun (n, v) =>
        match v with
        | some w => if w = "" then n else n ++ "=" ++ w
        | none => n)
  | .accept _ text => "accept = " ++ text
  | .containment _ repr => "containment = " ++ repr
  | .matchParam vals => "match_param " ++ joinWith ","
      (((sortedSet vals).map parseMatch).map fun (k, v) => k ++ "=" ++ v)
  | .physicalPathStr _ repr => "physical_path = " ++ repr
  | .physicalPathSeq _ repr => "physical_path = " ++ repr
  | .isAuthenticated v => "is_authenticated = " ++ pyBool v
  | .custom _ ph => ph

/-- A predicate as `PredicateList.make` leaves it in `preds` (possibly wrapped in `Notted`). -/
structure Pred where
  /-- index `n` of the predicate's name in the predicate list (its weight is `1 <<< (n + 1)`) -/
  kind : Nat
  cond : Cond
  /-- wrapped in `Notted` -/
  notted : Bool
  /-- `phash()` contribution -/
  text : String
deriving Repr, DecidableEq

/-- `Notted.__call__`: inverts unless the phash text is empty -/
def Pred.eval (r : Request) (p : Pred) : Bool :=
  if p.notted && p.text ≠ "" then !(p.cond.eval r) else p.cond.eval r

def mkPred (n : Nat) (rp : RawPred) : Pred :=
  let t := condText rp.val
  { kind := n, cond := mkCond rp.val, notted := rp.notted,
    text := if rp.notted && t ≠ "" then "!" ++ t else t }

/-- the loop of `PredicateList.make` over the ordered predicate names -/
def mkPredsFrom (raw : List RawPred) : List String → Nat → List Pred
  | [], _ => []
  | name :: names, n => ((raw.filter (·.name = name)).map (mkPred n)) ++ mkPredsFrom raw names (n + 1)

def mkPreds (raw : List RawPred) : List Pred := mkPredsFrom raw Gen.C03.predNames 0

/-- `score`: the weights `1 << n + 1` or-ed together -/
def scoreOf (ps : List Pred) : Nat :=
  ps.foldl (fun s p => s ||| (1 <<< (p.kind + Gen.C03.weightShiftPlus))) 0

/-- the same fold over the bare positions of the predicates (the shape in which `extract/c03.py` records what
`PredicateList.make` returned on its probe inputs; `scoreOf ps = scoreOfKinds (ps.map (·.kind))`) -/
def scoreOfKinds (ks : List Nat) : Nat :=
  ks.foldl (fun s k => s ||| (1 <<< (k + Gen.C03.weightShiftPlus))) 0

/-- `order = (MAX_ORDER - score) // (len(preds) + 1)` -/
def orderOfScore (score len : Nat) : Nat := (Gen.C03.maxOrder - score) / (len + Gen.C03.orderDivPlus)

def orderOf (ps : List Pred) : Nat := orderOfScore (scoreOf ps) ps.length

/-- the text fed to sha256 (`phash.update` per predicate); sha256 itself is trusted to be injective -/
def phashOf (ps : List Pred) : String := String.join (ps.map (·.text))

/-! ## derived views -/

/-- A derived view as `register_view` sees it: the callable (its `tag`), `__order__`, `__phash__`,
`__accept__`, whether it carries `__call_permissive__` (protected), and its predicates. -/
structure DView where
  tag : Nat
  order : Nat
  phash : String
  accept : Option Offer
  secured : Bool
  preds : List Pred
deriving Repr, DecidableEq

/-- `__predicated__`: all predicates hold -/
def DView.holds (v : DView) (r : Request) : Bool := v.preds.all (·.eval r)

/-- what calling a view (or a MultiView) can do -/
inductive Outcome where
  /-- the body of the view with this tag ran -/
  | response (tag : Nat)
  /-- the protected view with this tag refused (`HTTPForbidden` raised before the body) -/
  | forbidden (tag : Nat)
  /-- `PredicateMismatch` -/
  | mismatch
  /-- `_call_view` returned `None`: nothing registered -/
  | none
deriving Repr, DecidableEq

/-- `attr_wrapped_view(predicated_view(… secured_view(view)))`: predicates first, then permission.
`none` = `PredicateMismatch` raised. -/
def DView.call (v : DView) (r : Request) : Option Outcome :=
  if v.holds r then
    if v.secured && !r.permitted then some (.forbidden v.tag) else some (.response v.tag)
  else none

/-! ## MultiView -/

structure MultiView where
  /-- `self.views` (entries `(order, view, phash)`) -/
  views : List DView
  /-- `self.media_views` : accept ↦ list -/
  media : Offer → List DView
  /-- `self.accepts` -/
  accepts : List Offer

def MultiView.empty : MultiView := { views := [], media := fun _ => [], accepts := [] }

/-- replace the first entry with this phash (the `for i, (s, v, h) in enumerate(...)` loops) -/
def replaceFirst (v : DView) : List DView → List DView
  | [] => []
  | e :: es => if e.phash = v.phash then v :: es else e :: replaceFirst v es

def byOrder (a b : DView) : Bool := a.order ≤ b.order

/-- `offer_sort_key` of `sort_accept_offers` with `max_weight = n` -/
def offerKey (n : Nat) (o : Offer) : Nat × Nat :=
  (o.typeIdx.getD n, if o.hasParams then o.paramIdx.getD n else n + 1)

def offerLe (n : Nat) (a b : Offer) : Bool :=
  let ka := offerKey n a
  let kb := offerKey n b
  ka.1 < kb.1 || (ka.1 == kb.1 && ka.2 ≤ kb.2)

/-- `sort_accept_offers(set(accepts) ∪ {accept}, order)` (iteration order of the set: see notes) -/
def addOffer (accepts : List Offer) (a : Offer) : List Offer :=
  let s := if accepts.contains a then accepts else accepts ++ [a]
  sortL (offerLe s.length) s

/-- `MultiView.add(view, order, phash, accept, accept_order)` -/
def MultiView.add (mv : MultiView) (v : DView) : MultiView :=
  if mv.views.any (·.phash = v.phash) then
    { mv with views := replaceFirst v mv.views }
  else
    match v.accept with
    | none => { mv with views := sortL byOrder (mv.views ++ [v]) }
    | some a =>
      let subset := mv.media a
      if subset.any (·.phash = v.phash) then
        { mv with media := fun o => if o = a then replaceFirst v subset else mv.media o }
      else
        { mv with
          media := fun o => if o = a then sortL byOrder (subset ++ [v]) else mv.media o,
          accepts := addOffer mv.accepts a }

/-- `request.accept.acceptable_offers(self.accepts)`: acceptable offers by descending q, ties in
server order -/
def acceptable (r : Request) (accepts : List Offer) : List Offer :=
  sortL (fun a b => r.q a.id ≥ r.q b.id) (accepts.filter fun o => r.q o.id > 0)

/-- `MultiView.get_views(request)` -/
def MultiView.getViews (mv : MultiView) (r : Request) : List DView :=
  if mv.accepts.isEmpty then mv.views
  else ((acceptable r mv.accepts).flatMap fun o => mv.media o) ++ mv.views

/-- the loop of `MultiView.__call__` -/
def callFirst (r : Request) : List DView → Option Outcome
  | [] => none
  | v :: vs =>
    match v.call r with
    | some o => some o
    | none => callFirst r vs

/-! ## the adapter registry, restricted to views -/

/-- `(classifier, request iface, context iface, name)` -/
structure SlotKey where
  classifier : Nat
  reqIface : Nat
  ctxIface : Nat
  name : String
deriving Repr, DecidableEq

/-- what is registered for one exact `(classifier, request iface, context iface)`/name under the
three provided interfaces -/
structure Slot where
  iview : Option DView
  isecured : Option DView
  multi : Option MultiView

def Slot.empty : Slot := { iview := none, isecured := none, multi := none }

/-- `register_view(classifier, request_iface, derived_view)` on one slot -/
def regSlot (s : Slot) (v : DView) : Slot :=
  -- for view_type in (IView, ISecuredView, IMultiView): old_view = registered(...); break
  let oldSingle : Option DView :=
    match s.iview with
    | some o => some o
    | none => s.isecured
  match oldSingle with
  | some o =>
    if o.phash ≠ v.phash then
      -- want_multiview, not is_multiview: a fresh MultiView gets the old view, then the new one;
      -- IView and ISecuredView registrations are removed
      { iview := none, isecured := none, multi := some ((MultiView.empty.add o).add v) }
    else if v.secured then { s with isecured := some v } else { s with iview := some v }
  | none =>
    match s.multi with
    | some mv => { iview := none, isecured := none, multi := some (mv.add v) }
    | none => if v.secured then { s with isecured := some v } else { s with iview := some v }

abbrev Registry := SlotKey → Slot

def Registry.empty : Registry := fun _ => Slot.empty

/-- one registration as `add_view` hands it to `register_view` -/
structure ViewReg where
  classifier : Nat
  reqIface : Nat
  ctxIface : Nat
  name : String
  /-- predicate arguments other than `accept` -/
  preds : List RawPred
  /-- the `accept=` argument: offer and its normalised text -/
  accept : Option (Offer × String)
  /-- the derived view has `__call_permissive__` (a permission and a security policy are in force) -/
  secured : Bool
  tag : Nat
deriving Repr, DecidableEq

def ViewReg.key (r : ViewReg) : SlotKey := ⟨r.classifier, r.reqIface, r.ctxIface, r.name⟩

def ViewReg.raw (r : ViewReg) : List RawPred :=
  r.preds ++ match r.accept with
    | some (o, text) => [⟨"accept", false, .accept o.id text⟩]
    | none => []

/-- `predlist.make(...)` and `_derive_view(...)`: order, phash, predicates of the derived view -/
def derive (r : ViewReg) : DView :=
  let ps := mkPreds r.raw
  { tag := r.tag, order := orderOf ps, phash := phashOf ps, accept := r.accept.map (·.1),
    secured := r.secured, preds := ps }

def registerView (reg : Registry) (r : ViewReg) : Registry :=
  fun k => if k = r.key then regSlot (reg k) (derive r) else reg k

def registerAll (rs : List ViewReg) : Registry := rs.foldl registerView Registry.empty

/-! ## lookup -/

/-- a registered callable: a single derived view or a MultiView -/
inductive Callable where
  | single (v : DView)
  | multi (mv : MultiView)

/-- the `for view_type in view_types` loop of `_find_views` on one slot -/
def slotCallablesFrom (s : Slot) : List String → List Callable
  | [] => []
  | t :: ts =>
    let here : List Callable :=
      if t = "IView" then (s.iview.map Callable.single).toList
      else if t = "ISecuredView" then (s.isecured.map Callable.single).toList
      else if t = "IMultiView" then (s.multi.map Callable.multi).toList
      else []
    here ++ slotCallablesFrom s ts

def slotCallables (s : Slot) : List Callable := slotCallablesFrom s Gen.C03.viewTypes

/-- `itertools.product(request_iface.__sro__, context_iface.__sro__)` (or the other nesting, if the
source says so) as `(request iface, context iface)` pairs -/
def sroPairsOf (reqSro ctxSro : List Nat) : List (Nat × Nat) :=
  if Gen.C03.requestMajor then reqSro.flatMap fun q => ctxSro.map fun c => (q, c)
  else ctxSro.flatMap fun c => reqSro.map fun q => (q, c)

def sroPairs (r : Request) : List (Nat × Nat) := sroPairsOf r.reqSro r.ctxSro

/-- `_find_views` (the cache is C15's subject) -/
def findViews (reg : Registry) (classifier : Nat) (r : Request) : List Callable :=
  (sroPairs r).flatMap fun (q, c) => slotCallables (reg ⟨classifier, q, c, r.viewName⟩)

def Callable.call (r : Request) : Callable → Option Outcome
  | .single v => v.call r
  | .multi mv => callFirst r (mv.getViews r)

/-- the loop of `_call_view`; `pme` = a `PredicateMismatch` was caught -/
def callViews (r : Request) : List Callable → Bool → Outcome
  | [], pme => if pme then .mismatch else .none
  | c :: cs, _ =>
    match c.call r with
    | some o => o
    | none => callViews r cs true

/-- `_call_view(registry, request, context, context_iface, view_name, view_classifier=…)` -/
def callView (reg : Registry) (classifier : Nat) (r : Request) : Outcome :=
  callViews r (findViews reg classifier r) false

/-! ## which predicates the lookup ASKS (evaluation trace)

The loops above written once more, returning the tags of the views whose predicates (`__predicated__` inside the
derived view, `predicate_wrapper`) are evaluated, in order.  `DView.call` evaluates `holds` once; a loop stops at the
first view that does not raise `PredicateMismatch`. -/

/-- `MultiView.__call__`: views asked, in order -/
def askedFirst (r : Request) : List DView → List Nat
  | [] => []
  | v :: vs => v.tag :: (if v.holds r then [] else askedFirst r vs)

def Callable.asked (r : Request) : Callable → List Nat
  | .single v => [v.tag]
  | .multi mv => askedFirst r (mv.getViews r)

/-- `_call_view`: views asked, in order -/
def askedViews (r : Request) : List Callable → List Nat
  | [] => []
  | c :: cs => c.asked r ++ (if (c.call r).isSome then [] else askedViews r cs)

def callViewAsked (reg : Registry) (classifier : Nat) (r : Request) : List Nat :=
  askedViews r (findViews reg classifier r)

end Pyr.ViewLookup
