/-
C03 — the declarative reading of view lookup, written independently of the registry/MultiView
machinery of `ViewLookup.lean`:

* the registrations *in force* in a slot: a later registration with the same phash replaces the
  earlier one (and keeps its place in the registration sequence);
* the candidates of a request, in order: request-interface resolution order (route-bound before
  global), then context resolution order (most specific first), then — inside one slot — the
  views of the media types the request accepts (best q first), then the views without `accept`,
  each group by ascending `order` (more predicates first), ties by registration sequence;
* the outcome: the first candidate whose predicates all hold runs (or refuses, if protected and
  not permitted); none ⇒ not found (`mismatch` when something was registered under the name on the
  resolution orders, `none` otherwise).
-/
import PyramidModel.ViewLookup

namespace Pyr.ViewLookup

/-- register one more derived view: same phash ⇒ replaces in place, otherwise appended -/
def upsert (es : List DView) (v : DView) : List DView :=
  if es.any (·.phash = v.phash) then es.map (fun e => if e.phash = v.phash then v else e)
  else es ++ [v]

/-- the registrations in force, in registration sequence of their phash's first appearance -/
def inForce (vs : List DView) : List DView := vs.foldl upsert []

/-- server-side list of the media types offered by a slot (`MultiView.accepts`) -/
def specAccepts (es : List DView) : List Offer :=
  es.foldl (fun acc e => match e.accept with
    | some a => addOffer acc a
    | none => acc) []

/-- candidates contributed by one slot whose registrations in force are `es` -/
def slotCandidates (es : List DView) (r : Request) : List DView :=
  match es with
  | [] => []
  | [e] => [e]
  | _ =>
    ((acceptable r (specAccepts es)).flatMap fun o => sortL byOrder (es.filter (·.accept = some o)))
      ++ sortL byOrder (es.filter (·.accept = none))

/-- the derived views registered for exactly this slot, in registration order -/
def slotRegs (regs : List ViewReg) (k : SlotKey) : List DView :=
  (regs.filter (·.key = k)).map derive

/-- request-interface resolution order outermost, context resolution order inside -/
def specPairs (r : Request) : List (Nat × Nat) :=
  r.reqSro.flatMap fun q => r.ctxSro.map fun c => (q, c)

/-- every candidate view of the request, most specific first -/
def candidates (regs : List ViewReg) (classifier : Nat) (r : Request) : List DView :=
  (specPairs r).flatMap fun (q, c) =>
    slotCandidates (inForce (slotRegs regs ⟨classifier, q, c, r.viewName⟩)) r

/-- something is registered under the view name for some pair of the resolution orders -/
def anyRegistered (regs : List ViewReg) (classifier : Nat) (r : Request) : Bool :=
  (specPairs r).any fun (q, c) => regs.any (·.key = ⟨classifier, q, c, r.viewName⟩)

/-- the view that must run -/
def expectedView (regs : List ViewReg) (classifier : Nat) (r : Request) : Outcome :=
  match (candidates regs classifier r).find? (·.holds r) with
  | some v => if v.secured && !r.permitted then .forbidden v.tag else .response v.tag
  | none => if anyRegistered regs classifier r then .mismatch else .none

/-- Well-formedness of a registration list: two registrations into the same slot with the same
phash agree on `order`, `accept` and protectedness.  (`order` and `accept` are functions of the
predicate values, as is the phash; protectedness is not — see `Props/C03.lean`.) -/
def coherentB (regs : List ViewReg) : Bool :=
  regs.all fun a => regs.all fun b =>
    if a.key = b.key && (derive a).phash = (derive b).phash then
      (derive a).order = (derive b).order && (derive a).accept = (derive b).accept
        && a.secured = b.secured
    else true

end Pyr.ViewLookup
