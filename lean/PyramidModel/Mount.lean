import PyramidModel.Prelude
import PyramidModel.AuthTkt
import PyramidModel.Traversal
/-
X07 — executable model of WSGI sub-application mounting, core Lean only.

Functions modelled
* `pyramid.request.call_app_with_subpath_as_path_info`   src/pyramid/request.py 261-314   (`rewrite`, `newPathInfo`, `workLoop`, `newScriptName`)
* `pyramid.wsgi.wsgiapp` / `wsgiapp2`                     src/pyramid/wsgi.py             (`mount`)
* the `*subpath` remainder of a route with a literal prefix (urldispatch.py `_compile_route`: `re.escape(prefix)` +
  `(?P<subpath>(?s:.*?))\Z`, `split_path_info` of the remainder)                           (`routeStar`, `routePath`)

Vocabulary
* `Text`       a Python `str` (list of Unicode scalar values).  A *WSGI string* is a `Text` whose characters are all < 256
               (PEP 3333: the latin-1 view of the bytes on the wire); a character ≥ 256 in `SCRIPT_NAME`/`PATH_INFO` is
               representable here and leads to the same `UnicodeEncodeError` as in the real code.
* `wsgiOf x`   `text_(x.encode('utf-8'), 'latin-1')`: how a subpath element (Unicode text) is written into `PATH_INFO`
* `decodeEl`   `text_(bytes_(el, 'latin-1'), 'utf-8')`: how an element of the old path is read back in the `workback` loop

The codecs are C09's (`PyramidModel.AuthTkt`: `utf8Enc`, `utf8Step` = one step of CPython's strict decoder), the splitter
and `split_path_info` are C02's (`PyramidModel.Traversal`: `splitOn`, `joinWith`, `splitPathInfo`); both imported read-only.
The UTF-8 decoder is driven by fuel so that the kernel can `decide` the generated tables (`Lemmas/Mount.lean` proves it
equal to C09's `utf8DecStrict`).
-/
namespace Pyr.Mount

open Pyr.AuthTkt (Bytes utf8Enc utf8Step byteOfNat)
open Pyr.Trav (splitOn joinWith splitPathInfo)

inductive Err where
  | unicodeDecode      -- UnicodeDecodeError: an element of SCRIPT_NAME + PATH_INFO is not UTF-8
  | unicodeEncode      -- UnicodeEncodeError: a character ≥ 256 in SCRIPT_NAME / PATH_INFO (not a WSGI string)
  | urlDecode          -- pyramid.exceptions.URLDecodeError (route matching / traversal of a PATH_INFO that is not UTF-8)
deriving DecidableEq, Repr

/-- decidable equality of outcomes (core has none for `Except`) -/
instance instDecEqExcept {ε α : Type} [DecidableEq ε] [DecidableEq α] : DecidableEq (Except ε α)
  | .ok a, .ok b => if h : a = b then isTrue (by rw [h]) else isFalse (fun h2 => h (by injection h2))
  | .error a, .error b => if h : a = b then isTrue (by rw [h]) else isFalse (fun h2 => h (by injection h2))
  | .ok _, .error _ => isFalse (fun h => by cases h)
  | .error _, .ok _ => isFalse (fun h => by cases h)

/-! ### codecs -/

/-- `str.encode('latin-1')`; `none` = UnicodeEncodeError -/
def latin1Enc : Text → Option Bytes
  | [] => some []
  | c :: r => if c.toNat < 256 then (byteOfNat c.toNat :: ·) <$> latin1Enc r else none

/-- `bytes.decode('latin-1')` -/
def latin1Dec (bs : Bytes) : Text := bs.map fun b => Char.ofNat b.toNat

/-- strict UTF-8 decoding by CPython's steps (`utf8Step` of C09), with fuel -/
def utf8DecF : Nat → Bytes → Option Text
  | _, [] => some []
  | 0, _ :: _ => none
  | f + 1, b0 :: rest =>
    match utf8Step b0 rest with
    | (some c, k) => (c :: ·) <$> utf8DecF f (rest.drop k)
    | (none, _) => none

/-- `bytes.decode('utf-8')`; `none` = UnicodeDecodeError -/
def utf8Dec (bs : Bytes) : Option Text := utf8DecF bs.length bs

/-- `text_(x.encode('utf-8'), 'latin-1')` — request.py line 282 -/
def wsgiOf (x : Text) : Text := latin1Dec (utf8Enc x)

/-- `text_(bytes_(el, 'latin-1'), 'utf-8')` — request.py line 301; also `decode_path_info` -/
def decodeEl (el : Text) : Except Err Text :=
  match latin1Enc el with
  | none => .error .unicodeEncode
  | some bs =>
    match utf8Dec bs with
    | none => .error .unicodeDecode
    | some t => .ok t

/-- the same as a sum (decidable equality for the probe tables) -/
def decodeObs (el : Text) : Err ⊕ Text :=
  match decodeEl el with
  | .error e => .inl e
  | .ok t => .inr t

/-! ### call_app_with_subpath_as_path_info -/

/-- `path_info.endswith('/')` -/
def endsWithSlash (t : Text) : Bool := t.getLast? == some '/'

/-- lines 281-291: `'/' + '/'.join(...)`, and the trailing slash re-added when the old PATH_INFO had one -/
def basePathInfo (subpath : List Text) : Text := '/' :: joinWith '/' (subpath.map wsgiOf)

def newPathInfo (pathInfo : Text) (subpath : List Text) : Text :=
  let base := basePathInfo subpath
  if base ≠ ['/'] ∧ pathInfo ≠ ['/'] ∧ endsWithSlash pathInfo = true then base ++ ['/'] else base

/-- lines 296-302, the `while workback:` loop.  `rv` is `workback` REVERSED (so `pop()` takes the head), `tmp` the elements
collected so far in path order.  Result: what is left of `workback` (still reversed) when the loop ends. -/
def workLoop (subpath : List Text) : List Text → List Text → Except Err (List Text)
  | [], _ => .ok []
  | el :: rest, tmp =>
    if tmp = subpath then .ok (el :: rest)
    else if el = [] then workLoop subpath rest tmp
    else
      match decodeEl el with
      | .error e => .error e
      | .ok t => workLoop subpath rest (t :: tmp)

/-- lines 304-309: strip trailing empty elements, join -/
def joinWorkback (rv : List Text) : Text := joinWith '/' (rv.dropWhile (· = [])).reverse

def newScriptName (scriptName pathInfo : Text) (subpath : List Text) : Except Err Text :=
  match workLoop subpath (splitOn '/' (scriptName ++ pathInfo)).reverse [] with
  | .error e => .error e
  | .ok rv => .ok (joinWorkback rv)

/-- the two keys of the WSGI environ that matter; `none` = key absent -/
structure Env where
  scriptName : Option Text
  pathInfo : Option Text
deriving DecidableEq, Repr

def Env.sn (e : Env) : Text := e.scriptName.getD []          -- environ.get('SCRIPT_NAME', '')
def Env.pi (e : Env) : Text := e.pathInfo.getD ['/']         -- environ.get('PATH_INFO', '/')

/-- the environ the mounted application is called with (the copy; the original request's environ is not touched) -/
def rewrite (e : Env) (subpath : List Text) : Except Err Env :=
  match newScriptName e.sn e.pi subpath with
  | .error err => .error err
  | .ok s => .ok { scriptName := some s, pathInfo := some (newPathInfo e.pi subpath) }

/-! ### wsgiapp / wsgiapp2 -/

inductive Kind where
  | plain     -- @wsgiapp : request.get_response(wrapped)
  | fixup     -- @wsgiapp2: call_app_with_subpath_as_path_info(request, wrapped)
deriving DecidableEq, Repr

/-- the environ seen by the wrapped WSGI application -/
def mount (k : Kind) (e : Env) (subpath : List Text) : Except Err Env :=
  match k with
  | .plain => .ok e
  | .fixup => rewrite e subpath

/-- what the reporting application observes (both keys are set by the rewrite) -/
inductive Out where
  | ok (scriptName pathInfo : Text)
  | err (e : Err)
deriving DecidableEq, Repr

def outOf : Except Err Env → Option Out
  | .error e => some (.err e)
  | .ok { scriptName := some s, pathInfo := some p } => some (.ok s p)
  | .ok _ => none

/-! ### where the subpath comes from: a route `<literal prefix>*subpath` -/

/-- the text route matching and traversal look at: `request.path_info or '/'`, `'/'` when the key is absent -/
def routePath (e : Env) : Except Err Text :=
  match e.pathInfo with
  | none => .ok ['/']
  | some p =>
    match latin1Enc p with
    | none => .error .unicodeEncode
    | some bs =>
      match utf8Dec bs with
      | none => .error .urlDecode
      | some t => .ok (if t = [] then ['/'] else t)

/-- `add_route(name, pre + '*subpath')` for a literal `pre` (no `{}`, no `*`; a leading '/' is added when missing):
the compiled matcher on a decoded path; `none` = no match -/
def routeStar (pre : Text) (path : Text) : Option (List Text) :=
  let pre' := if pre.head? = some '/' then pre else '/' :: pre
  if pre'.isPrefixOf path then some (splitPathInfo (path.drop pre'.length)) else none

/-- what a request through one route gives: `none` = the route does not match (404); otherwise the subpath the view saw and
the environ the mounted application saw (or the error raised while computing it) -/
abbrev RouteOut := Option (List Text × Except Err Env)

/-- a route-level observation, as the probes and the harness record it -/
inductive RouteObs where
  | raised (e : Err)
  | noMatch
  | mounted (subpath : List Text) (o : Out)
deriving DecidableEq, Repr

def routeObs : Except Err RouteOut → Option RouteObs
  | .error e => some (.raised e)
  | .ok none => some .noMatch
  | .ok (some (sp, r)) => (outOf r).map (.mounted sp)

/-- a request through a route `pre*subpath` whose view is the mounted application; the outer `Except` is an error raised
by route matching itself -/
def viaRoute (k : Kind) (pre : Text) (e : Env) : Except Err RouteOut :=
  match routePath e with
  | .error err => .error err
  | .ok path =>
    match routeStar pre path with
    | none => .ok none
    | some sp => .ok (some (sp, mount k e sp))

/-- two levels: the outer application mounts (with `wsgiapp2`) an inner Pyramid application under `pre1*subpath`, which in
turn mounts the reporting application under `pre2*subpath` -/
def viaNested (pre1 pre2 : Text) (e : Env) : Except Err (Option (List Text × Except Err (Env × Except Err RouteOut))) :=
  match viaRoute .fixup pre1 e with
  | .error err => .error err
  | .ok none => .ok none
  | .ok (some (sp1, .error err)) => .ok (some (sp1, .error err))
  | .ok (some (sp1, .ok e1)) => .ok (some (sp1, .ok (e1, viaRoute .fixup pre2 e1)))

/-! ### where the subpath comes from: traversal (C02's `Trav.traverser`, read-only) -/

/-- a request resolved by traversal of `root`; the mounted application is registered as the view named `vn` for every
context.  Result: what traversal found, and — when the view name is `vn` — what the mounted application saw. -/
def viaTraversal (k : Kind) (root : Trav.Tree) (vn : Text) (e : Env) : Except Err (Trav.Result × Option (Except Err Env)) :=
  let raw : Except Err (Option Bytes) :=
    match e.pathInfo with
    | none => .ok none
    | some p =>
      match latin1Enc p with
      | none => .error .unicodeEncode
      | some bs => .ok (some bs)
  match raw with
  | .error err => .error err
  | .ok pinfo =>
    match Trav.traverser root { pathInfo := pinfo, vroot := none, matchdict := none } with
    | .error _ => .error .urlDecode
    | .ok r => .ok (r, if r.viewName = vn then some (mount k e r.subpath) else none)

end Pyr.Mount
