import PyramidModel.Traversal
/-
C07 — executable model of resource path / resource URL generation and of resolving them back
(src/pyramid/traversal.py, src/pyramid/url.py, src/pyramid/location.py), core Lean only.
Built on the C02 model (`PyramidModel/Traversal.lean`): the same `Tree`, positions, percent-coding, `traverser`
and `traverseApi` (which already contains the `Request.blank` step of WebOb).

A resource is identified by its *position* `p : List Seg` (names from the root).  Its `__name__` is the last name of
the position (`None`/`''` for the root), its `__parent__` the position without the last name.

Functions modelled (line numbers of the current tree)
* `lineage`, `nameOf`            pyramid.location.lineage over `__parent__`; `loc.__name__ or ''`     location.py:33-67
* `resourcePathList`             `_resource_path_list` (collect names, reverse, extend)               traversal.py:363-369
* `resourcePathTuple`, `resourcePath`   `resource_path_tuple`, `resource_path` (`_join_path_tuple`)    traversal.py:104-157, 319-360
* `findResource`                 `find_resource` (`ascii_`, `traverse`, view name ⇒ KeyError)          traversal.py:35-86
* `resourceURL`                  `ResourceURL.__init__` (physical/virtual path and tuples, trimming)  traversal.py:713-749
* `joinElements`, `resourceUrl`  `_join_elements`, `Request.resource_url` path assembly (`app_url + virtual_path
                                 + suffix`; query/anchor/app_url overrides are C17's)                  url.py:509-575, 890-893
* `virtualRoot`                  `virtual_root` (inverse of the trimming, via `find_resource`)         traversal.py:375-417
* `requestBack`                  a WSGI server handing the URL's path to the application: percent-decode the
                                 ASCII path to bytes (`PATH_INFO`), then `ResourceTreeTraverser.__call__`
                                 (what `Router.handle_request` does when no route matches)
-/
namespace Pyr.ResUrl
open Pyr.Trav

/-! ### admissible names (the property's own restriction, decidable) -/

/-- non-empty, no `/`, not `.` or `..`, does not start with `@@` -/
def AdmissibleName (n : Seg) : Prop :=
  n ≠ [] ∧ '/' ∉ n ∧ n ≠ ['.'] ∧ n ≠ ['.', '.'] ∧ n.take 2 ≠ ['@', '@']

instance (n : Seg) : Decidable (AdmissibleName n) := by unfold AdmissibleName; infer_instance

/-! ### location.lineage and the path list -/

/-- all prefixes of a position, shortest first: the root, …, the parent, the resource itself -/
def prefixes : List Seg → List (List Seg)
  | [] => [[]]
  | x :: xs => [] :: (prefixes xs).map (x :: ·)

/-- `lineage(resource)`: the resource, its parent, … , the root -/
def lineage (p : List Seg) : List (List Seg) := (prefixes p).reverse

/-- `loc.__name__ or ''` -/
def nameOf (pos : List Seg) : Seg := pos.getLast?.getD []

/-- `_resource_path_list(resource, *elements)` -/
def resourcePathList (p els : List Seg) : List Seg :=
  ((lineage p).map nameOf).reverse ++ els

/-- `resource_path_tuple(resource, *elements)` -/
def resourcePathTuple (p els : List Seg) : List Seg := resourcePathList p els

/-- `resource_path(resource, *elements)` -/
def resourcePath (p els : List Seg) : Text := joinPathTuple (resourcePathTuple p els)

/-! ### find_resource -/

/-- `find_resource(resource, path)`; `start` is the position of `resource`.  The answer is a position from the root. -/
def findResource (root : Tree) (start : List Seg) (path : StrOrTuple) : Except Err (List Seg) :=
  match traverseApi root start path with
  | .error e => .error e
  | .ok a => if a.res.viewName ≠ [] then .error .keyError else .ok (a.base ++ a.res.context)

/-! ### ResourceURL -/

structure ResUrl where
  physicalPath : Text
  virtualPath : Text
  physicalPathTuple : List Seg
  virtualPathTuple : List Seg
deriving Repr, DecidableEq

/-- `ResourceURL(resource, request)`; `vrootHdr` = `environ.get('HTTP_X_VHM_ROOT')` (a WSGI string).  The header is
read the way the traverser reads it — `decode_path_info` (a header that is not UTF-8 raises `UnicodeDecodeError`),
`split_path_info` — and compared with the physical path tuple segment by segment. -/
def resourceURL (p : List Seg) (vrootHdr : Option Bytes) : Except Err ResUrl :=
  let ppt0 := resourcePathTuple p []
  let pp0 := joinPathTuple ppt0
  let ppt := if ppt0 ≠ [[]] then ppt0 ++ [[]] else ppt0
  let pp := if ppt0 ≠ [[]] then pp0 ++ ['/'] else pp0
  let plain : ResUrl := { physicalPath := pp, virtualPath := pp, physicalPathTuple := ppt, virtualPathTuple := ppt }
  match vrootHdr with
  | none => .ok plain
  | some h =>
    match decodePathInfo h with
    | none => .error .unicodeDecode
    | some v =>
      let vrootPathTuple : List Seg := [] :: splitPathInfo v
      let numels := vrootPathTuple.length
      if numels > 1 ∧ ppt.take numels = vrootPathTuple then
        let vpt : List Seg := [] :: ppt.drop numels
        .ok { plain with virtualPathTuple := vpt, virtualPath := joinPathTuple vpt }
      else .ok plain

/-- `_join_elements(elements)` -/
def joinElements (els : List Seg) : Text := joinWith '/' (els.map quoteSegment)

/-- the path part of `Request.resource_url(resource, *elements)`: `app_url + virtual_path + suffix` -/
def resourceUrl (appUrl : Text) (p : List Seg) (vrootHdr : Option Bytes) (els : List Seg) : Except Err Text :=
  match resourceURL p vrootHdr with
  | .error e => .error e
  | .ok u => .ok (appUrl ++ u.virtualPath ++ (if els = [] then [] else joinElements els))

/-- `virtual_root(resource, request)` (the `request.root` / `find_root` fallback is the root = `[]`) -/
def virtualRoot (root : Tree) (p : List Seg) (vrootHdr : Option Bytes) : Except Err (List Seg) :=
  match resourceURL p vrootHdr with
  | .error e => .error e
  | .ok u =>
    if u.physicalPath ≠ u.virtualPath ∧ u.virtualPath.isSuffixOf u.physicalPath = true then
      findResource root p (.str (u.physicalPath.take (u.physicalPath.length - u.virtualPath.length)))
    else .ok []

/-! ### requesting a generated URL -/

/-- The application is asked for `urlPath` (the part of the URL after the application URL): the server
percent-decodes it into `PATH_INFO` and the traverser runs, with the given virtual-root header. -/
def requestBack (root : Tree) (urlPath : Text) (vrootHdr : Option Bytes) : Except Err Result :=
  match asciiEncode urlPath with
  | none => .error .unicodeEncode
  | some b => traverser root { pathInfo := some (unquoteToBytes b), vroot := vrootHdr, matchdict := none }

end Pyr.ResUrl
