/-
C13 (a) — control-flow skeletons of the functions that push/pop the thread-local stack.

`Stmt` is the statement language the translator `extract/c13.py` emits (`Gen/C13Skeleton.lean`):
the try/finally/except/with/push/pop structure of a Python function, every call a numbered *site*.
`exec` runs a skeleton against an `Oracle` that decides which call sites raise, which branches are
taken and how often each loop iterates (keyed by site and by the number of earlier visits of that
site), on a configuration holding the depth of `pyramid.threadlocal.manager.stack` and the trace of
visited sites.  `analyze` is the static analysis (abstract interpretation over the height relative
to the entry depth, one height per outcome kind); `balanced`, `opens`, `closes` are the verdicts
the generated entry points are decided with.  Soundness is in `Lemmas/Skeleton.lean`.

Core Lean only.
-/
namespace Pyr.Skel

inductive Outcome where
  | normal | returned | raised
deriving DecidableEq, Repr, Inhabited

/-- Control-flow skeleton of a Python function body.
* `call s`      — a call the translator does not resolve (user callable or framework function outside the
                  listed set): may raise (oracle), leaves the depth as it found it (trusted base).
* `scope b`     — the inlined body of a resolved callee: a `return` inside stops at its boundary.
* `tryExcept b h` — `h` runs (from the depth at the raise) when `b` raises; a typed `except T:` clause is
                  `ite s handler raise` (the oracle decides whether the exception is a `T`), `except
                  BaseException:`/bare `except:` is the handler itself.
* `unknown`     — a construct the translator does not understand: no analysis verdict. -/
inductive Stmt where
  | skip | push | pop
  | call (site : Nat)
  | ret | raise
  | unknown
  | seq (a b : Stmt)
  | ite (site : Nat) (a b : Stmt)
  | loop (site : Nat) (body : Stmt)
  | scope (body : Stmt)
  | tryFinally (body fin : Stmt)
  | tryExcept (body handler : Stmt)
deriving DecidableEq, Repr, Inhabited

/-- `with cm: body` when `__exit__` returns nothing (never swallows the exception): `__enter__`, then the
body, then `__exit__` whatever the body did.  The translator refuses (`unknown`) an `__exit__` that returns a
value. -/
def withCM (enter body exit : Stmt) : Stmt :=
  .seq (.scope enter) (.tryFinally body (.scope exit))

/-- the translator met a construct it does not follow somewhere in this skeleton -/
def Stmt.hasUnknown : Stmt → Bool
  | .unknown => true
  | .seq a b => a.hasUnknown || b.hasUnknown
  | .ite _ a b => a.hasUnknown || b.hasUnknown
  | .loop _ b => b.hasUnknown
  | .scope b => b.hasUnknown
  | .tryFinally b f => b.hasUnknown || f.hasUnknown
  | .tryExcept b h => b.hasUnknown || h.hasUnknown
  | _ => false

/-- sequence of a list of statements -/
def seqs : List Stmt → Stmt
  | [] => .skip
  | [s] => s
  | s :: rest => .seq s (seqs rest)

/-- one visited site: (site, depth at the visit, raised / branch taken) -/
abbrev Visit := Nat × Nat × Bool

structure Cfg where
  depth : Nat
  trace : List Visit := []      -- most recent first
deriving Repr, DecidableEq

def Cfg.count (c : Cfg) (s : Nat) : Nat := (c.trace.filter (fun v => v.1 == s)).length

def Cfg.visit (c : Cfg) (s : Nat) (b : Bool) : Cfg := { c with trace := (s, c.depth, b) :: c.trace }

/-- Everything the skeleton does not determine: for site `s` visited for the `k`-th time (k = 0, 1, …). -/
structure Oracle where
  raises : Nat → Nat → Bool
  takes : Nat → Nat → Bool
  iters : Nat → Nat → Nat

/-- run `f` up to `n` times, stopping at the first non-normal outcome -/
def iter (f : Cfg → Cfg × Outcome) : Nat → Cfg → Cfg × Outcome
  | 0, c => (c, .normal)
  | n + 1, c =>
    match f c with
    | (c', .normal) => iter f n c'
    | r => r

def exec (o : Oracle) : Stmt → Cfg → Cfg × Outcome
  | .skip, c => (c, .normal)
  | .push, c => ({ c with depth := c.depth + 1 }, .normal)
  | .pop, c => ({ c with depth := c.depth - 1 }, .normal)      -- ThreadLocalManager.pop: no-op on an empty stack
  | .call s, c =>
    let r := o.raises s (c.count s)
    (c.visit s r, if r then .raised else .normal)
  | .ret, c => (c, .returned)
  | .raise, c => (c, .raised)
  | .unknown, c => (c, .normal)
  | .seq a b, c =>
    match exec o a c with
    | (c', .normal) => exec o b c'
    | r => r
  | .ite s a b, c =>
    let t := o.takes s (c.count s)
    if t then exec o a (c.visit s t) else exec o b (c.visit s t)
  | .loop s b, c =>
    let n := o.iters s (c.count s)
    iter (exec o b) n (c.visit s (n != 0))
  | .scope b, c =>
    match exec o b c with
    | (c', .returned) => (c', .normal)
    | r => r
  | .tryFinally b f, c =>
    match exec o b c with
    | (c', ob) =>
      match exec o f c' with
      | (c'', .normal) => (c'', ob)
      | r => r
  | .tryExcept b h, c =>
    match exec o b c with
    | (c', .raised) => exec o h c'
    | r => r

/-! ### the analysis -/

/-- For each outcome kind, the height (relative to the entry depth) every execution with that outcome ends
at; `none` = no execution has that outcome. -/
structure Summ where
  norm : Option Nat
  ret : Option Nat
  exc : Option Nat
deriving DecidableEq, Repr

def Summ.get (σ : Summ) : Outcome → Option Nat
  | .normal => σ.norm
  | .returned => σ.ret
  | .raised => σ.exc

/-- two sets of executions with the same outcome kind must agree on the height; outer `none` = they do not -/
def join : Option Nat → Option Nat → Option (Option Nat)
  | none, b => some b
  | a, none => some a
  | some x, some y => if x = y then some (some x) else none

def joinS (a b : Summ) : Option Summ :=
  match join a.norm b.norm, join a.ret b.ret, join a.exc b.exc with
  | some n, some r, some e => some ⟨n, r, e⟩
  | _, _, _ => none

def Summ.empty : Summ := ⟨none, none, none⟩

/-- what a `finally` clause analysed by `f` makes of the body executions of kind `k` that end at height `x`:
they continue with kind `k` where the clause ends normally, or with the clause's own return / raise -/
def finPart (f : Nat → Option Summ) (k : Outcome) : Option Nat → Option Summ
  | none => some Summ.empty
  | some hx =>
    match f hx with
    | none => none
    | some sf =>
      match k with
      | .normal => some ⟨sf.norm, sf.ret, sf.exc⟩
      | .returned =>
        match join sf.norm sf.ret with
        | none => none
        | some r => some ⟨none, r, sf.exc⟩
      | .raised =>
        match join sf.norm sf.exc with
        | none => none
        | some e => some ⟨none, sf.ret, e⟩

/-- `quiet s` = the call at site `s` is assumed not to raise (the translator's explicit list of total
constructors, or a hypothesis of a `_partial` theorem).  `h` = current height above the entry depth; a `pop`
at height 0 would reach below the caller's frame and is refused. -/
def analyze (quiet : Nat → Bool) : Stmt → Nat → Option Summ
  | .skip, h => some ⟨some h, none, none⟩
  | .push, h => some ⟨some (h + 1), none, none⟩
  | .pop, h => if h = 0 then none else some ⟨some (h - 1), none, none⟩
  | .call s, h => some ⟨some h, none, if quiet s then none else some h⟩
  | .ret, h => some ⟨none, some h, none⟩
  | .raise, h => some ⟨none, none, some h⟩
  | .unknown, _ => none
  | .seq a b, h =>
    match analyze quiet a h with
    | none => none
    | some sa =>
      match sa.norm with
      | none => some sa
      | some h1 =>
        match analyze quiet b h1 with
        | none => none
        | some sb => joinS ⟨none, sa.ret, sa.exc⟩ sb
  | .ite _ a b, h =>
    match analyze quiet a h, analyze quiet b h with
    | some sa, some sb => joinS sa sb
    | _, _ => none
  | .loop _ b, h =>
    match analyze quiet b h with
    | none => none
    | some sb =>
      -- loop invariant: an iteration that ends normally ends at the height it started at
      if sb.norm = none ∨ sb.norm = some h then some ⟨some h, sb.ret, sb.exc⟩ else none
  | .scope b, h =>
    match analyze quiet b h with
    | none => none
    | some sb =>
      match join sb.norm sb.ret with
      | none => none
      | some n => some ⟨n, none, sb.exc⟩
  | .tryFinally b f, h =>
    match analyze quiet b h with
    | none => none
    | some sb =>
      match finPart (analyze quiet f) .normal sb.norm, finPart (analyze quiet f) .returned sb.ret,
            finPart (analyze quiet f) .raised sb.exc with
      | some p1, some p2, some p3 =>
        match joinS p1 p2 with
        | none => none
        | some p12 => joinS p12 p3
      | _, _, _ => none
  | .tryExcept b hd, h =>
    match analyze quiet b h with
    | none => none
    | some sb =>
      match sb.exc with
      | none => some sb
      | some he =>
        match analyze quiet hd he with
        | none => none
        | some sh => joinS ⟨sb.norm, sb.ret, none⟩ sh

def optIs (x : Option Nat) (k : Nat) : Bool :=
  match x with
  | none => true
  | some y => y == k

/-- every outcome at the entry depth -/
def balanced (quiet : Nat → Bool) (s : Stmt) : Bool :=
  match analyze quiet s 0 with
  | none => false
  | some σ => optIs σ.norm 0 && optIs σ.ret 0 && optIs σ.exc 0

/-- success (normal end or `return`) leaves exactly one frame pushed; failure leaves none -/
def opens (quiet : Nat → Bool) (s : Stmt) : Bool :=
  match analyze quiet s 0 with
  | none => false
  | some σ => optIs σ.norm 1 && optIs σ.ret 1 && optIs σ.exc 0

/-- started one frame above the caller's depth, every outcome ends at the caller's depth -/
def closes (quiet : Nat → Bool) (s : Stmt) : Bool :=
  match analyze quiet s 1 with
  | none => false
  | some σ => optIs σ.norm 0 && optIs σ.ret 0 && optIs σ.exc 0

/-- the oracle never raises at a quiet site -/
def Oracle.respects (o : Oracle) (quiet : Nat → Bool) : Prop :=
  ∀ s k, quiet s = true → o.raises s k = false

def noQuiet : Nat → Bool := fun _ => false
def quietList (l : List Nat) : Nat → Bool := fun s => l.contains s

/-! ### checking every execution of a skeleton against a safety monitor

A `Monitor` watches the visits of an execution (site, height above the caller's depth, raised / taken) through a
role table and a transition function (`none` = the observation sequence is not allowed).  `post` is the abstract
interpretation that, from a monitor state and a relative height, returns every (monitor state, height, outcome) an
execution can end in — or `none` when some execution would make the monitor fail, pop below the caller's frame, or
when a loop does not close within the fuel.  Soundness (for every term and oracle) is in `Lemmas/SkeletonMonitor.lean`. -/

structure Monitor where
  role : Nat → Option Nat
  step : Nat → Nat → Nat → Bool → Option Nat      -- state → role → height → flag → next state

/-- monitor state and height relative to the caller's depth -/
abbrev AState := Nat × Nat
abbrev ARes := AState × Outcome

def Monitor.visit (m : Monitor) (a : AState) (s : Nat) (flag : Bool) : Option AState :=
  match m.role s with
  | none => some a
  | some r =>
    match m.step a.1 r a.2 flag with
    | none => none
    | some q => some (q, a.2)

/-- the monitor run over a trace (stored most recent first), heights measured from `base` -/
def Monitor.run (m : Monitor) (base q0 : Nat) : List Visit → Option Nat
  | [] => some q0
  | v :: rest =>
    match m.run base q0 rest with
    | none => none
    | some q =>
      match m.visit (q, v.2.1 - base) v.1 v.2.2 with
      | none => none
      | some a => some a.1

def collect {α β : Type} (f : α → Option (List β)) : List α → Option (List β)
  | [] => some []
  | x :: xs =>
    match f x, collect f xs with
    | some a, some b => some (a ++ b)
    | _, _ => none

def isNormal : ARes → Bool
  | (_, .normal) => true
  | _ => false

/-- add the normal successors of `S` until nothing new appears (at most `fuel` rounds) -/
def closeUnder (f : AState → Option (List ARes)) : Nat → List AState → List AState
  | 0, S => S
  | n + 1, S =>
    match collect f S with
    | none => S
    | some Rs =>
      let new := ((Rs.filter isNormal).map (·.1)).filter (fun x => !S.contains x)
      if new.isEmpty then S else closeUnder f n (S ++ new.eraseDups)

/-- a loop entered in state `a1`: the states closed under "one more normal iteration", verified closed -/
def loopRes (f : AState → Option (List ARes)) (a1 : AState) : Option (List ARes) :=
  let S := closeUnder f 64 [a1]
  match collect f S with
  | none => none
  | some Rs =>
    if Rs.all (fun r => !isNormal r || S.contains r.1) then
      some (S.map (fun x => (x, Outcome.normal)) ++ Rs.filter (fun r => !isNormal r))
    else none

def post (m : Monitor) (quiet : Nat → Bool) : Stmt → AState → Option (List ARes)
  | .skip, a => some [(a, .normal)]
  | .push, a => some [((a.1, a.2 + 1), .normal)]
  | .pop, a => if a.2 = 0 then none else some [((a.1, a.2 - 1), .normal)]
  | .call s, a =>
    match m.visit a s false with
    | none => none
    | some a0 =>
      if quiet s then some [(a0, .normal)]
      else
        match m.visit a s true with
        | none => none
        | some a1 => some [(a0, .normal), (a1, .raised)]
  | .ret, a => some [(a, .returned)]
  | .raise, a => some [(a, .raised)]
  | .unknown, _ => none
  | .seq x y, a =>
    match post m quiet x a with
    | none => none
    | some Rx => collect (fun r => if isNormal r then post m quiet y r.1 else some [r]) Rx
  | .ite s x y, a =>
    match m.visit a s true, m.visit a s false with
    | some at', some af =>
      match post m quiet x at', post m quiet y af with
      | some Rx, some Ry => some (Rx ++ Ry)
      | _, _ => none
    | _, _ => none
  | .loop s b, a =>
    match m.visit a s false, m.visit a s true with
    | some a0, some a1 =>
      match loopRes (post m quiet b) a1 with
      | none => none
      | some R => some ((a0, .normal) :: R)
    | _, _ => none
  | .scope b, a =>
    match post m quiet b a with
    | none => none
    | some R => some (R.map fun r => (r.1, if r.2 = .returned then Outcome.normal else r.2))
  | .tryFinally b f, a =>
    match post m quiet b a with
    | none => none
    | some Rb =>
      collect (fun r =>
        match post m quiet f r.1 with
        | none => none
        | some Rf => some (Rf.map fun r2 => (r2.1, if r2.2 = .normal then r.2 else r2.2))) Rb
  | .tryExcept b h, a =>
    match post m quiet b a with
    | none => none
    | some Rb => collect (fun r => if r.2 = .raised then post m quiet h r.1 else some [r]) Rb

end Pyr.Skel
