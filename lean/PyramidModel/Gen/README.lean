/-! `Gen/` holds Lean files regenerated from /repo's source on every check run by `extract/*.py`. -/
