def hello := "world"
