import PyramidModel.Prelude
import PyramidModel.ViewLookup
/-! JSON decoding of registrations and request records, shared by the C03 and C14 drivers
(`harness/c03.py: model_regs / abstract_request` is the encoder). -/
open Pyr Pyr.ViewLookup Lean

namespace Pyr.ViewLookup.Drv

def strList (j : Json) : Except String (List String) := do
  let a ← j.getArr?
  a.toList.mapM fun x => x.getStr?

def natList (j : Json) : Except String (List Nat) := do
  let a ← j.getArr?
  a.toList.mapM fun x => x.getNat?

def pairList (j : Json) : Except String (List (String × String)) := do
  let a ← j.getArr?
  a.toList.mapM fun x => do
    match x with
    | .arr #[k, v] => pure ((← k.getStr?), (← v.getStr?))
    | _ => throw "bad pair"

def optNat (j : Json) : Except String (Option Nat) :=
  match j with
  | .null => pure none
  | j => do pure (some (← j.getNat?))

def parseOffer (j : Json) : Except String (Offer × String) := do
  let id ← (← j.getObjVal? "id").getNat?
  let t ← optNat (← j.getObjVal? "t")
  let p ← optNat (← j.getObjVal? "p")
  let hp ← (← j.getObjVal? "hp").getBool?
  let text ← (← j.getObjVal? "text").getStr?
  pure (⟨id, t, p, hp⟩, text)

def parseVal (j : Json) : Except String RawVal := do
  let k ← (← j.getObjVal? "k").getStr?
  let s := fun (f : String) => do (← j.getObjVal? f).getStr?
  let l := fun (f : String) => do strList (← j.getObjVal? f)
  let n := fun (f : String) => do (← j.getObjVal? f).getNat?
  let b := fun (f : String) => do (← j.getObjVal? f).getBool?
  match k with
  | "xhr" => pure (.xhr (← b "b"))
  | "request_method" => pure (.method (← l "l"))
  | "path_info" => pure (.pathInfo (← s "s"))
  | "request_param" => pure (.params (← l "l"))
  | "header" => pure (.headers (← l "l"))
  | "containment" => pure (.containment (← n "i") (← s "r"))
  | "match_param" => pure (.matchParam (← l "l"))
  | "pp_str" => pure (.physicalPathStr (← s "s") (← s "r"))
  | "pp_seq" => pure (.physicalPathSeq (← l "l") (← s "r"))
  | "is_authenticated" => pure (.isAuthenticated (← b "b"))
  | "custom" => pure (.custom (← n "i") (← s "r"))
  | _ => throw s!"bad predicate value kind {k}"

def parsePred (j : Json) : Except String RawPred := do
  let name ← (← j.getObjVal? "n").getStr?
  let notted ← (← j.getObjVal? "not").getBool?
  let v ← parseVal (← j.getObjVal? "v")
  pure ⟨name, notted, v⟩

def parseReg (j : Json) : Except String ViewReg := do
  let cls ← (← j.getObjVal? "cls").getNat?
  let rq ← (← j.getObjVal? "req").getNat?
  let cx ← (← j.getObjVal? "ctx").getNat?
  let name ← (← j.getObjVal? "name").getStr?
  let preds ← (← (← j.getObjVal? "preds").getArr?).toList.mapM parsePred
  let acc ← match (← j.getObjVal? "accept") with
    | .null => pure none
    | a => do pure (some (← parseOffer a))
  let sec ← (← j.getObjVal? "sec").getBool?
  let tag ← (← j.getObjVal? "tag").getNat?
  pure ⟨cls, rq, cx, name, preds, acc, sec, tag⟩

def parseReq (j : Json) : Except String Request := do
  let s := fun (f : String) => do (← j.getObjVal? f).getStr?
  let md ← match (← j.getObjVal? "md") with
    | .null => pure none
    | m => do pure (some (← pairList m))
  let re ← (← (← j.getObjVal? "re").getArr?).toList.mapM fun x => do
    match x with
    | .arr #[p, t, b] => pure ((← p.getStr?), (← t.getStr?), (← b.getBool?))
    | _ => throw "bad re entry"
  let accq ← (← (← j.getObjVal? "accq").getArr?).toList.mapM fun x => do
    match x with
    | .arr #[a, b] => pure ((← a.getNat?), (← b.getNat?))
    | _ => throw "bad accq entry"
  let lineage ← (← (← j.getObjVal? "lineage").getArr?).toList.mapM natList
  let phys ← match (← j.getObjVal? "phys") with
    | .null => pure none
    | p => do pure (some (← strList p))
  pure {
    method := ← s "method", getParams := ← pairList (← j.getObjVal? "get"),
    postParams := ← pairList (← j.getObjVal? "post"), environ := ← pairList (← j.getObjVal? "env"),
    pathInfo := ← s "path", matchdict := md, authenticated := ← (← j.getObjVal? "auth").getBool?,
    customTrue := ← natList (← j.getObjVal? "custom"), reTable := re, accQ := accq, lineage := lineage,
    physPath := phys, permitted := ← (← j.getObjVal? "permitted").getBool?,
    reqSro := ← natList (← j.getObjVal? "rsro"), ctxSro := ← natList (← j.getObjVal? "csro"),
    viewName := ← s "vn" }

def outJson : Outcome → Json
  | .response t => Json.arr #["response", toJson t]
  | .forbidden t => Json.arr #["forbidden", toJson t]
  | .mismatch => Json.arr #["mismatch"]
  | .none => Json.arr #["none"]

end Pyr.ViewLookup.Drv
