import PyramidModel.Prelude
/-!
C01 / C06 — a regular-expression fragment of Python's `re` with its backtracking order.

`Rx` is an abstract syntax (no parser: the harness prints the regex *text* from the same tree it sends to the
model, and `Rx.print` below is that printer, so a placeholder's regex text can be resolved to its tree by
comparing printed text).  `Rx.run` is a *list-of-successes* matcher: `run u r s` lists, in the order Python's
backtracking engine would try them, every way `r` can match a prefix of `s`, as `(consumed, rest)`.  The first
element is what `re` picks when nothing after it fails; when a later part of the pattern fails, `re` moves on
to the next element — that is exactly how `Route.matchAll` consumes these lists.

The Unicode character database is not modelled.  What `\d \w \s` mean for characters ≥ U+0080 is *data*
(`Ucd`: the members of each class among the non-ASCII characters that occur in the case at hand, computed by the
harness with the real `re`); for ASCII the tables are written out here and compared with `re` on every run.

Fragment (`Rx.ok`): single characters, `.`, classes with ranges and `\d\w\s`, `\d\w\s\D\W\S`, sequence,
alternation, greedy and lazy `* + ? {m} {m,} {m,n}` whose body cannot match the empty string (Python's handling
of empty iterations is not modelled).  No back-references, look-around, flags, anchors or named groups inside a
placeholder's regex.
-/
namespace Pyr.Rx

/-- Non-ASCII members of the three shorthand classes (supplied, not modelled). -/
structure Ucd where
  word : List Char
  digit : List Char
  space : List Char
deriving Repr, DecidableEq

def Ucd.ascii : Ucd := ⟨[], [], []⟩

def asciiDigit (c : Char) : Bool := 48 ≤ c.toNat && c.toNat ≤ 57
def asciiAlpha (c : Char) : Bool := (65 ≤ c.toNat && c.toNat ≤ 90) || (97 ≤ c.toNat && c.toNat ≤ 122)
def asciiAlnum (c : Char) : Bool := asciiAlpha c || asciiDigit c
/-- `str.isspace` on ASCII: TAB LF VT FF CR, FS GS RS US, SPACE (this is what `\s` means for `str` patterns) -/
def asciiSpace (c : Char) : Bool := (9 ≤ c.toNat && c.toNat ≤ 13) || (28 ≤ c.toNat && c.toNat ≤ 32)

def isDigit (u : Ucd) (c : Char) : Bool := if c.toNat < 128 then asciiDigit c else u.digit.contains c
def isWord (u : Ucd) (c : Char) : Bool := if c.toNat < 128 then asciiAlnum c || c = '_' else u.word.contains c
def isSpace (u : Ucd) (c : Char) : Bool := if c.toNat < 128 then asciiSpace c else u.space.contains c

inductive Esc where
  | d | w | s
deriving Repr, DecidableEq

def Esc.test (u : Ucd) : Esc → Char → Bool
  | .d, c => isDigit u c
  | .w, c => isWord u c
  | .s, c => isSpace u c

/-- an item of a bracketed class -/
inductive CItem where
  | ch (c : Char)
  | range (lo hi : Char)
  | esc (k : Esc)
deriving Repr, DecidableEq

def CItem.test (u : Ucd) : CItem → Char → Bool
  | .ch a, c => c = a
  | .range lo hi, c => lo.toNat ≤ c.toNat && c.toNat ≤ hi.toNat
  | .esc k, c => k.test u c

inductive Rx where
  | eps
  | chr (c : Char)
  | any                                                  -- `.` : anything but LF
  | all                                                  -- `(?s:.)` : any character (`.` under DOTALL)
  | set (neg : Bool) (items : List CItem)                -- `[...]` / `[^...]`
  | esc (k : Esc) (neg : Bool)                           -- `\d \w \s` / `\D \W \S`
  | seq (a b : Rx)
  | alt (a b : Rx)
  | rep (greedy : Bool) (min : Nat) (max : Option Nat) (r : Rx)   -- `* + ? {m} {m,} {m,n}` and lazy forms
  | grp (name : Option Text) (r : Rx)                    -- `(r)` / `(?P<name>r)`: a capturing group of the regex's own;
                                                         -- transparent for matching (its capture is not a placeholder)
deriving Repr, DecidableEq

abbrev Res := List (Text × Text)

/-- one character satisfying `p` -/
def one (p : Char → Bool) : Text → Res
  | [] => []
  | c :: cs => if p c then [([c], cs)] else []

def pre (c1 : Text) (x : Text × Text) : Text × Text := (c1 ++ x.1, x.2)

/-- exactly `k` iterations of `step`, backtracking into the latest iteration first -/
def exactly (step : Text → Res) : Nat → Text → Res
  | 0, s => [([], s)]
  | k + 1, s => (step s).flatMap fun x => (exactly step k x.2).map (pre x.1)

/-- between 0 and `k` further iterations: greedy tries one more first, lazy tries to stop first -/
def upTo (g : Bool) (step : Text → Res) : Nat → Text → Res
  | 0, s => [([], s)]
  | k + 1, s =>
    let more := (step s).flatMap fun x => (upTo g step k x.2).map (pre x.1)
    if g then more ++ [([], s)] else ([], s) :: more

def setTest (u : Ucd) (neg : Bool) (items : List CItem) (c : Char) : Bool := (items.any (·.test u c)) != neg
def escTest (u : Ucd) (k : Esc) (neg : Bool) (c : Char) : Bool := (k.test u c) != neg

/-- how many further iterations a repeat may try after its `m` mandatory ones: `max - m`, or, when unbounded, the
length of what is left -/
def repBound (m : Nat) : Option Nat → Text → Nat
  | some b, _ => b - m
  | none, s => s.length

/-- `{m,n}` with `n < m` is not a regex (`re.error`); the matcher gives it the empty language -/
def repValid (m : Nat) : Option Nat → Bool
  | some b => decide (m ≤ b)
  | none => true

/-- all the ways `r` matches a prefix of `s`, in Python's backtracking order.  An unbounded repeat is bounded by
the length of what is left (each iteration of an `ok` body consumes at least one character). -/
def run (u : Ucd) : Rx → Text → Res
  | .eps, s => [([], s)]
  | .chr a, s => one (· = a) s
  | .any, s => one (· ≠ '\n') s
  | .all, s => one (fun _ => true) s
  | .set neg items, s => one (setTest u neg items) s
  | .esc k neg, s => one (escTest u k neg) s
  | .seq a b, s => (run u a s).flatMap fun x => (run u b x.2).map (pre x.1)
  | .alt a b, s => run u a s ++ run u b s
  | .grp _ r, s => run u r s
  | .rep g m n r, s =>
    if repValid m n then
      (exactly (run u r) m s).flatMap fun x =>
        (upTo g (run u r) (repBound m n x.2) x.2).map (pre x.1)
    else []

/-- can match the empty string -/
def nullable : Rx → Bool
  | .eps => true
  | .chr _ | .any | .all | .set _ _ | .esc _ _ => false
  | .seq a b => nullable a && nullable b
  | .alt a b => nullable a || nullable b
  | .grp _ r => nullable r
  | .rep _ m _ r => m == 0 || nullable r

def CItem.ok : CItem → Bool
  | .ch c => c ≠ '{' && c ≠ '}'
  | .range lo hi => lo.toNat ≤ hi.toNat && lo ≠ '{' && lo ≠ '}' && hi ≠ '{' && hi ≠ '}'
  | .esc _ => true

/-- the fragment the theorems and the correspondence cover.  Braces are excluded as literal characters because
`route_re` gives them a meaning of its own inside `{name:regex}`. -/
def ok : Rx → Bool
  | .eps | .any | .all | .esc _ _ => true
  | .chr c => c ≠ '{' && c ≠ '}'
  | .set _ items => !items.isEmpty && items.all CItem.ok
  | .seq a b => ok a && ok b
  | .alt a b => ok a && ok b
  | .grp n r => ok r && (match n with
      | none => true
      | some t => (match t with
        | [] => false
        | c :: cs => (asciiAlpha c || c = '_') && cs.all fun d => asciiAlnum d || d = '_'))
  | .rep _ m n r => ok r && !nullable r && repValid m n

/-! ### printer (the text `re` is given) -/

/-- the characters `re.escape` puts a backslash before (Python ≥ 3.7): `()[]{}?*+-|^$\.&~#` and ASCII white space -/
def reSpecial (c : Char) : Bool :=
  "()[]{}?*+-|^$\\.&~# \t\n\r\x0b\x0c".toList.contains c

/-- `re.escape` -/
def reEscape : Text → Text
  | [] => []
  | c :: cs => if reSpecial c then '\\' :: c :: reEscape cs else c :: reEscape cs

def escChar (c : Char) : Text := if reSpecial c then ['\\', c] else [c]

def Esc.letter : Esc → Bool → Char
  | .d, false => 'd' | .d, true => 'D'
  | .w, false => 'w' | .w, true => 'W'
  | .s, false => 's' | .s, true => 'S'

def CItem.print : CItem → Text
  | .ch c => escChar c
  | .range lo hi => escChar lo ++ '-' :: escChar hi
  | .esc k => ['\\', k.letter false]

def natText (n : Nat) : Text := Nat.toDigits 10 n

def quant (g : Bool) (m : Nat) (n : Option Nat) : Text :=
  let q : Text :=
    match m, n with
    | 0, none => ['*']
    | 1, none => ['+']
    | 0, some 1 => ['?']
    | m, none => '{' :: natText m ++ [',', '}']
    | m, some b => if m = b then '{' :: natText m ++ ['}'] else '{' :: natText m ++ ',' :: natText b ++ ['}']
  if g then q else q ++ ['?']

def group (t : Text) : Text := '(' :: '?' :: ':' :: t ++ [')']

def print : Rx → Text
  | .eps => []
  | .chr c => escChar c
  | .any => ['.']
  | .all => "(?s:.)".toList
  | .set neg items => '[' :: (if neg then ['^'] else []) ++ items.flatMap CItem.print ++ [']']
  | .esc k neg => ['\\', k.letter neg]
  | .seq a b => print a ++ print b
  | .alt a b => group (print a ++ '|' :: print b)
  | .grp none r => '(' :: print r ++ [')']
  | .grp (some n) r => "(?P<".toList ++ n ++ '>' :: print r ++ [')']
  | .rep g m n r =>
    (match r with
      | .chr _ | .any | .all | .set _ _ | .esc _ _ | .alt _ _ | .grp _ _ => print r
      | _ => group (print r)) ++ quant g m n

/-- `[^/]+` -/
def notSlashPlus : Rx := .rep true 1 none (.set true [.ch '/'])
/-- `.*?` — the remainder group before fc43a19; `.` excludes LF -/
def lazyDotStar : Rx := .rep false 0 none .any
/-- `(?s:.*?)` — the remainder group: any text, shortest first -/
def lazyAllStar : Rx := .rep false 0 none .all
/-- `.*` -/
def greedyDotStar : Rx := .rep true 0 none .any

end Pyr.Rx
