/-
C19 — executable model of the body rendering of `pyramid.httpexceptions.HTTPException`.

Mirrors (src/pyramid/httpexceptions.py, /repo HEAD):
  * `_no_escape`                               → `noEscape`
  * `webob.util.html_escape` (`html.escape(s, True)` then `.encode('ascii','xmlcharrefreplace')`) → `htmlEscape`
  * `string.Template.pattern` / `Template.substitute` (`pattern.sub(convert, template)`)        → `afterDollar`, `substitute`
  * `HTTPException.prepare` (lines 254-330)    → `prepare`
  * `HTTPException._json_formatter` + `json.dumps` of a three-key dict of strings → `jsonBody`
  * the final step of WebOb's `acceptable_offers` (drop q = 0, stable sort by q descending) → `acceptableOffers`
    (the q-value WebOb assigns to each offered type is an input)

Core Lean only.  `Text = List Char` (Python `str` without lone surrogates).
-/
import PyramidModel.Prelude

namespace Pyr.HttpExc

/-! ## 1. escaping -/

/-- decimal digits of `n`, most significant first (`'%d' % n`) -/
def decDigits (n : Nat) : List Char :=
  if n < 10 then [Char.ofNat (48 + n)] else decDigits (n / 10) ++ [Char.ofNat (48 + n % 10)]
termination_by n
decreasing_by omega

/-- `html.escape(c, quote=True)` followed by `.encode('ascii', 'xmlcharrefreplace')`, for one character -/
def escChar (c : Char) : Text :=
  if c = '&' then ['&', 'a', 'm', 'p', ';']
  else if c = '<' then ['&', 'l', 't', ';']
  else if c = '>' then ['&', 'g', 't', ';']
  else if c = '"' then ['&', 'q', 'u', 'o', 't', ';']
  else if c = '\'' then ['&', '#', 'x', '2', '7', ';']
  else if c.toNat < 128 then [c]
  else ['&', '#'] ++ decDigits c.toNat ++ [';']

/-- `webob.html_escape` on a `str` -/
def htmlEscape (t : Text) : Text := t.flatMap escChar

/-- `_no_escape` on a `str` -/
def noEscape (t : Text) : Text := t

/-! ## 2. `string.Template` -/

/-- `[_a-z]` under `(?a:…)` with `re.IGNORECASE` -/
def isIdStart (c : Char) : Bool :=
  c = '_' || ('a' ≤ c && c ≤ 'z') || ('A' ≤ c && c ≤ 'Z')

/-- `[_a-z0-9]` under `(?a:…)` with `re.IGNORECASE` -/
def isIdChar (c : Char) : Bool := isIdStart c || ('0' ≤ c && c ≤ '9')

/-- What `Template.pattern` matches right after a `$`:
`(?P<escaped>\$) | (?P<named>id) | {(?P<braced>id)} | (?P<invalid>)`, alternatives tried in this order. -/
inductive DollarMatch where
  | esc (rest : Text)
  | named (name : Text) (rest : Text)
  | braced (name : Text) (rest : Text)
  | invalid
deriving Repr, DecidableEq

def afterDollar (r : Text) : DollarMatch :=
  match r with
  | [] => .invalid
  | c :: r' =>
    if c = '$' then .esc r'
    else if isIdStart c then .named (c :: r'.takeWhile isIdChar) (r'.dropWhile isIdChar)
    else if c = '{' then
      match r' with
      | [] => .invalid
      | d :: r'' =>
        if isIdStart d then
          match r''.dropWhile isIdChar with
          | [] => .invalid
          | e :: rest => if e = '}' then .braced (d :: r''.takeWhile isIdChar) rest else .invalid
        else .invalid
    else .invalid

inductive Err where
  | key (name : Text)      -- KeyError: placeholder without a value
  | invalid                -- ValueError: Invalid placeholder in string
deriving Repr, DecidableEq

/-- `Template(t).substitute(env)`; the fuel is only there to make the recursion structural (so that the kernel
can evaluate it on the generated templates); `substitute` supplies enough. -/
def substF (env : Text → Option Text) : Nat → Text → Except Err Text
  | 0, _ => .ok []
  | _ + 1, [] => .ok []
  | f + 1, c :: r =>
    if c = '$' then
      match afterDollar r with
      | .esc rest => (substF env f rest).map ('$' :: ·)
      | .named n rest | .braced n rest =>
        match env n with
        | none => .error (.key n)
        | some v => (substF env f rest).map (v ++ ·)
      | .invalid => .error .invalid
    else (substF env f r).map (c :: ·)

def substitute (env : Text → Option Text) (t : Text) : Except Err Text := substF env t.length t

/-- tokens of a template: the declarative reading of `Template.pattern` -/
inductive Tok where
  | lit (c : Char)
  | esc
  | named (n : Text)
  | braced (n : Text)
  | invalid (rest : Text)      -- an ill-formed `$…`; `rest` is the remaining input from that `$` on
deriving Repr, DecidableEq

def tokF : Nat → Text → List Tok
  | 0, _ => []
  | _ + 1, [] => []
  | f + 1, c :: r =>
    if c = '$' then
      match afterDollar r with
      | .esc rest => .esc :: tokF f rest
      | .named n rest => .named n :: tokF f rest
      | .braced n rest => .braced n :: tokF f rest
      | .invalid => [.invalid (c :: r)]
    else .lit c :: tokF f r

def tokenize (t : Text) : List Tok := tokF t.length t

/-! ## 3. JSON (`json.dumps`, ensure_ascii=True, default separators) -/

def hexDigit (n : Nat) : Char := if n < 10 then Char.ofNat (48 + n) else Char.ofNat (87 + n)

/-- `\uXXXX` -/
def u4 (n : Nat) : Text :=
  ['\\', 'u', hexDigit (n / 4096 % 16), hexDigit (n / 256 % 16), hexDigit (n / 16 % 16), hexDigit (n % 16)]

def jsonEncChar (c : Char) : Text :=
  if c = '"' then ['\\', '"']
  else if c = '\\' then ['\\', '\\']
  else if c = '\n' then ['\\', 'n']
  else if c = '\r' then ['\\', 'r']
  else if c = '\t' then ['\\', 't']
  else if c = Char.ofNat 8 then ['\\', 'b']
  else if c = Char.ofNat 12 then ['\\', 'f']
  else if 32 ≤ c.toNat ∧ c.toNat < 127 then [c]
  else if c.toNat < 65536 then u4 c.toNat
  else u4 (55296 + (c.toNat - 65536) / 1024) ++ u4 (56320 + (c.toNat - 65536) % 1024)

def jsonStr (t : Text) : Text := '"' :: (t.flatMap jsonEncChar ++ ['"'])

def keyMessage : Text := ['m', 'e', 's', 's', 'a', 'g', 'e']
def keyCode : Text := ['c', 'o', 'd', 'e']
def keyTitle : Text := ['t', 'i', 't', 'l', 'e']

/-- `json.dumps({'message': body, 'code': status, 'title': title})`: keys and values through the same string
encoder, item separator `", "`, key separator `": "`, insertion order -/
def jsonBody (body status title : Text) : Text :=
  '{' :: (jsonStr keyMessage ++ ':' :: ' ' :: (jsonStr body ++ ',' :: ' ' :: (jsonStr keyCode ++ ':' :: ' ' ::
    (jsonStr status ++ ',' :: ' ' :: (jsonStr keyTitle ++ ':' :: ' ' :: (jsonStr title ++ ['}']))))))

/-! ## 4. negotiation: the last step of `acceptable_offers`, then `prepare`'s choice -/

/-- insert `x` in front of the first element whose q is not larger (so equal q keeps offer order) -/
def insertDesc (q : Text → Nat) (x : Text) : List Text → List Text
  | [] => [x]
  | y :: ys => if q y ≥ q x ∧ q y ≠ q x then y :: insertDesc q x ys else x :: y :: ys

/-- offers with q ≠ 0, by q descending, ties in offer order -/
def acceptableOffers (q : Text → Nat) (offered : List Text) : List Text :=
  (offered.filter (fun o => q o ≠ 0)).foldr (insertDesc q) []

def mimeHtml : Text := ['t', 'e', 'x', 't', '/', 'h', 't', 'm', 'l']
def mimeJson : Text := ['a', 'p', 'p', 'l', 'i', 'c', 'a', 't', 'i', 'o', 'n', '/', 'j', 's', 'o', 'n']
def mimePlain : Text := ['t', 'e', 'x', 't', '/', 'p', 'l', 'a', 'i', 'n']

/-- the list `prepare` passes to `acceptable_offers`: the three forms, in the server's order of preference -/
def offeredForms : List Text := [mimeHtml, mimeJson, mimePlain]

/-- `acceptable = [offer[0] for offer in acceptable] + ['text/plain']; match = acceptable[0]` -/
def chooseMatch (q : Text → Nat) (offered : List Text) : Text :=
  match acceptableOffers q offered ++ [mimePlain] with
  | m :: _ => m
  | [] => mimePlain

inductive Form where
  | html | json | plain
deriving Repr, DecidableEq

/-- the `if match == 'text/html' … elif match == 'application/json' … else` ladder -/
def formOf (m : Text) : Form :=
  if m = mimeHtml then .html else if m = mimeJson then .json else .plain

/-! ## 5. `HTTPException.prepare` -/

/-- the exception object as `prepare` sees it -/
structure Exc where
  status : Text                 -- self.status  ("404 Not Found")
  title : Text                  -- self.title
  explanation : Text            -- self.explanation
  detail : Option Text          -- self.detail (None or str)
  comment : Option Text         -- self.comment (None or str)
  bodyTmpl : Text               -- self.body_template_obj.template
  custom : Bool                 -- HTTPException.body_template_obj is not self.body_template_obj
  htmlTmpl : Text               -- self.html_template_obj.template
  plainTmpl : Text              -- self.plain_template_obj.template
  emptyBody : Bool
  hasBody : Bool
  headers : List (Text × Text)  -- self.headers.items()
  /-- third case of a value: an object with `__html__` (a `str` subclass such as markupsafe.Markup): the text fields
  above hold `str(value)`, these hold what `value.__html__()` returns.  `none` = a plain `str` (or `None`). -/
  detailHtml : Option Text := none
  commentHtml : Option Text := none
  explanationHtml : Option Text := none
deriving Repr

/-- class-level data (generated from the source by extract/c19.py) -/
structure ClassInfo where
  name : String
  code : Nat
  title : Text
  explanation : Text
  bodyTmpl : Text
  custom : Bool
  emptyBody : Bool
  htmlTmpl : Text
  plainTmpl : Text
deriving Repr, DecidableEq

/-- `status = f'{self.code} {self.title}'` -/
def statusLine (code : Nat) (title : Text) : Text := decDigits code ++ ' ' :: title

def ClassInfo.toExc (c : ClassInfo) (detail comment : Option Text) (headers : List (Text × Text)) : Exc :=
  { status := statusLine c.code c.title, title := c.title, explanation := c.explanation, detail := detail,
    comment := comment, bodyTmpl := c.bodyTmpl, custom := c.custom, htmlTmpl := c.htmlTmpl,
    plainTmpl := c.plainTmpl, emptyBody := c.emptyBody, hasBody := false, headers := headers }

structure Resp where
  form : Form
  contentType : Text            -- self.content_type after prepare (the Content-Type header up to the first `;`)
  contentTypeHeader : Text      -- the whole Content-Type header after prepare
  body : Text
deriving Repr, DecidableEq

/-- `x or ''` -/
def orEmpty : Option Text → Text
  | none => []
  | some t => t

def asciiLower (c : Char) : Char := if 'A' ≤ c ∧ c ≤ 'Z' then Char.ofNat (c.toNat + 32) else c

def startsWith (p : Text) (t : Text) : Bool := p.isPrefixOf t

/-- `(not k.startswith('wsgi.')) and ('.' in k)` → the key is omitted -/
def envKeySkipped (k : Text) : Bool := (!startsWith ['w', 's', 'g', 'i', '.'] k) && k.contains '.'

/-- dict lookup in a list of assignments in execution order: the last assignment wins -/
def lookupLast (k : Text) : List (Text × Text) → Option Text
  | [] => none
  | (k', v) :: rest =>
    match lookupLast k rest with
    | some w => some w
    | none => if k' = k then some v else none

def escapeOf (f : Form) : Text → Text :=
  match f with
  | .html => htmlEscape
  | _ => noEscape

/-- `escape(value)` for a value that may be a markup object: `webob.html_escape` returns `value.__html__()` VERBATIM
when the value has `__html__`; `_no_escape` returns a `str` (subclass) value as it is -/
def escVal (f : Form) (text : Text) (html : Option Text) : Text :=
  match f, html with
  | .html, some h => h
  | _, _ => escapeOf f text

def brOf (f : Form) : Text :=
  match f with
  | .html => ['<', 'b', 'r', '/', '>']
  | _ => ['\n']

/-- `html_comment`: `'<!-- %s -->' % escape(comment)` in the HTML branch, `escape(comment)` otherwise, `''` when
there is no comment (`if comment:` — the truth value of a `str` subclass is that of its text) -/
def htmlCommentOf (f : Form) (comment : Text) (html : Option Text := none) : Text :=
  if comment.isEmpty then []
  else match f with
    | .html => ['<', '!', '-', '-', ' '] ++ escVal .html comment html ++ [' ', '-', '-', '>']
    | _ => noEscape comment

/-- `x or ''` on a markup object: an empty one is falsy, so the plain `''` takes its place -/
def orHtml (text : Text) (html : Option Text) : Option Text := if text.isEmpty then none else html

/-- the `args` dict as a list of assignments in execution order -/
def buildArgs (f : Form) (e : Exc) (environ : List (Text × Text)) : List (Text × Text) :=
  let esc := escapeOf f
  let comment := orEmpty e.comment
  let commentHtml := orHtml comment e.commentHtml
  let base : List (Text × Text) :=
    [(['b', 'r'], brOf f),
     (['e', 'x', 'p', 'l', 'a', 'n', 'a', 't', 'i', 'o', 'n'], escVal f e.explanation e.explanationHtml),
     (['d', 'e', 't', 'a', 'i', 'l'], escVal f (orEmpty e.detail) (orHtml (orEmpty e.detail) e.detailHtml)),
     (['c', 'o', 'm', 'm', 'e', 'n', 't'], escVal f comment commentHtml),
     (['h', 't', 'm', 'l', '_', 'c', 'o', 'm', 'm', 'e', 'n', 't'], htmlCommentOf f comment commentHtml)]
  if e.custom then
    base ++ (environ.filter (fun kv => !envKeySkipped kv.1)).map (fun kv => (kv.1, esc kv.2))
         ++ e.headers.map (fun kv => (kv.1.map asciiLower, esc kv.2))
  else base

def contentTypeOf (f : Form) : Text :=
  match f with
  | .html => mimeHtml
  | .json => mimeJson
  | .plain => mimePlain

/-! ### the response's Content-Type header (`webob.headers.ResponseHeaders`, `Response.content_type`)

The caller may have put any Content-Type on the exception before `prepare` runs (`content_type=` / `charset=` keyword,
a `Content-Type` entry in `headers=`, `exc.content_type = …`, `del exc.content_type`): it is part of `Exc.headers`. -/

def headerNameEq (a b : Text) : Bool := a.map asciiLower == b.map asciiLower

def ctName : Text := ['C', 'o', 'n', 't', 'e', 'n', 't', '-', 'T', 'y', 'p', 'e']

/-- `headers[name] = v`: every entry of that name (case-insensitive) is dropped, the new one appended -/
def setHeader (name v : Text) (hs : List (Text × Text)) : List (Text × Text) :=
  hs.filter (fun kv => !headerNameEq kv.1 name) ++ [(name, v)]

/-- `headers.get(name)`: the last entry of that name -/
def getHeader (name : Text) : List (Text × Text) → Option Text
  | [] => none
  | (k, v) :: rest =>
    match getHeader name rest with
    | some w => some w
    | none => if headerNameEq k name then some v else none

/-- what `self.content_type = '<mime>'` (and, for JSON, `self.charset = None`) leaves in the header: the setter
replaces the whole value and adds the default charset `UTF-8` to `text/*` types -/
def contentTypeHeaderOf (f : Form) : Text :=
  match f with
  | .html => mimeHtml ++ [';', ' ', 'c', 'h', 'a', 'r', 's', 'e', 't', '=', 'U', 'T', 'F', '-', '8']
  | .json => mimeJson
  | .plain => mimePlain ++ [';', ' ', 'c', 'h', 'a', 'r', 's', 'e', 't', '=', 'U', 'T', 'F', '-', '8']

/-- `Response.content_type` getter: `header.split(';', 1)[0]` -/
def mimeOfHeader (h : Text) : Text := h.takeWhile (fun c => c != ';')

/-- the exception after the branch of the ladder for `f` has assigned `self.content_type` -/
def Exc.withContentType (e : Exc) (f : Form) : Exc :=
  { e with headers := setHeader ctName (contentTypeHeaderOf f) e.headers }

/-- `self.content_type` / the header as read back from the response -/
def Exc.contentTypeHeader (e : Exc) : Text := (getHeader ctName e.headers).getD []

def respOf (f : Form) (e : Exc) (body : Text) : Resp :=
  ⟨f, mimeOfHeader e.contentTypeHeader, e.contentTypeHeader, body⟩

/-- `page_template.substitute(status=self.status, body=body)` -/
def pageEnv (status body : Text) (k : Text) : Option Text :=
  if k = ['s', 't', 'a', 't', 'u', 's'] then some status else if k = ['b', 'o', 'd', 'y'] then some body else none

/-- `prepare(environ)`: `none` = the response is left alone (`has_body` or `empty_body`).
`q` = the q-value WebOb gives each offered media type for this request's `Accept` header (0 = not acceptable),
`offered` = the list passed to `acceptable_offers`. -/
def prepare (offered : List Text) (e0 : Exc) (environ : List (Text × Text)) (q : Text → Nat) :
    Except Err (Option Resp) :=
  if e0.hasBody || e0.emptyBody then .ok none
  else
    let f := formOf (chooseMatch q offered)
    let e := e0.withContentType f
    let args := buildArgs f e environ
    match substitute (fun k => lookupLast k args) e.bodyTmpl with
    | .error err => .error err
    | .ok body =>
      match f with
      | .json => .ok (some (respOf f e (jsonBody body e.status e.title)))
      | .html =>
        match substitute (pageEnv e.status body) e.htmlTmpl with
        | .error err => .error err
        | .ok page => .ok (some (respOf f e page))
      | .plain =>
        match substitute (pageEnv e.status body) e.plainTmpl with
        | .error err => .error err
        | .ok page => .ok (some (respOf f e page))

end Pyr.HttpExc
