import PyramidModel.Route
/-!
X08 — route prefixes and the mounting of includes: executable model, core Lean only.

Code modelled (tree under test, /repo HEAD)
* `combine`       `Configurator.route_prefix_context(route_prefix)`  src/pyramid/config/routes.py 589-605:
                  `'{}/{}'.format(old.rstrip('/'), new.lstrip('/')).strip('/') or None` (a `None` on either side counts
                  as `''`); the same value is what `Configurator.include(..., route_prefix=)` hands to the nested
                  configurator (src/pyramid/config/__init__.py 653-660)
* `applyPrefix`   `add_route`, routes.py 413-419 (`elif self.route_prefix:`)
* `netlocPath`, `hostOf`   what `urllib.parse.urlparse` answers for `.netloc`, `.hostname`, `.path` on `UrlSafe`
                  texts (no `? # ; @ [ ]`, no character ≤ U+0020): routes.py 381-386, views.py 2222
* `addRoute`      `add_route` from the `inherit_slash` check to `mapper.connect`: (pattern, static)
* `staticView`    `StaticURLInfo.add` (views.py 2196-2266): name → URL registration or route `name/*subpath`
* `exec`/`execL`  a configuration program (add_route / add_static_view / `with route_prefix_context` / `include` /
                  try-except / raise) run against the mapper: `try … finally` of routes.py 607-614 restores the prefix
* `effective`     `_compile_route` 127-128: a pattern without a leading slash gets one

`lstripSlash`, `rstripSlash` (C01, `PyramidModel.Route`) and `stripSlash` (C02) are `str.lstrip('/')`, `str.rstrip('/')`,
`str.strip('/')`, used read-only.
-/
namespace Pyr.Prefix

open Pyr.Route (lstripSlash rstripSlash)
open Pyr.Trav (stripSlash)

/-- `config.route_prefix`: `None` or a `str` -/
abbrev Pfx := Option Text

/-- `s or None` -/
def ofText (t : Text) : Pfx := if t = [] then none else some t

/-- the text of a prefix, `None` read as `''` -/
def txt (p : Pfx) : Text := p.getD []

/-- `route_prefix_context`: the prefix in force inside, from the one outside and the argument -/
def combine (old new : Pfx) : Pfx :=
  ofText (stripSlash (rstripSlash (txt old) ++ '/' :: lstripSlash (txt new)))

/-- what `combine` makes of a single prefix: stripped of slashes at both ends, `''` ↦ `None` -/
def norm (p : Pfx) : Pfx := ofText (stripSlash (txt p))

/-- nested `include(route_prefix=p₁)` … `include(route_prefix=p_k)` below a configurator whose prefix is `top` -/
def prefixAt (top : Pfx) (incs : List Pfx) : Pfx := incs.foldl combine top

/-- `add_route`, routes.py 413-419: the pattern after the prefix is applied -/
def applyPrefix (pfx : Pfx) (pat : Text) (inh : Bool) : Text :=
  match pfx with
  | none => pat
  | some p =>
    if p = [] then pat
    else if pat = [] && inh then p
    else rstripSlash p ++ '/' :: lstripSlash pat

/-- `_compile_route`: `if not route.startswith('/'): route = '/' + route` -/
def effective (pat : Text) : Text :=
  match pat with
  | '/' :: _ => pat
  | _ => '/' :: pat

/-! ### `urlparse` on `UrlSafe` texts -/

def asciiAlpha (c : Char) : Bool := ('a' ≤ c && c ≤ 'z') || ('A' ≤ c && c ≤ 'Z')
/-- `urllib.parse.scheme_chars` -/
def schemeChar (c : Char) : Bool := asciiAlpha c || ('0' ≤ c && c ≤ '9') || c = '+' || c = '-' || c = '.'

/-- characters on which the model of `urlparse` below is claimed: nothing `urlsplit` strips or removes (C0 controls,
space), none of the delimiters `? # ;`, no userinfo / IPv6 syntax `@ [ ]`, and none of the compatibility characters
whose NFKC form contains `/ ? # @ :` (they all lie in U+2000–U+2FFF or U+FE00–U+FFEF; `_checknetloc` raises there) -/
def urlSafeChar (c : Char) : Bool :=
  c.toNat > 32 && !(c = '?' || c = '#' || c = ';' || c = '@' || c = '[' || c = ']') &&
  !(0x2000 ≤ c.toNat && c.toNat ≤ 0x2FFF) && !(0xFE00 ≤ c.toNat && c.toNat ≤ 0xFFEF)

def UrlSafe (t : Text) : Prop := t.all urlSafeChar = true
instance (t : Text) : Decidable (UrlSafe t) := by unfold UrlSafe; infer_instance

/-- `urlsplit`: the text after a scheme (`i = url.find(':')`, `i > 0`, first character an ASCII letter, all of
`url[:i]` scheme characters), or the whole text -/
def afterScheme (t : Text) : Text :=
  let pre := t.takeWhile (· ≠ ':')
  match t.dropWhile (· ≠ ':') with
  | [] => t                                  -- no colon
  | _ :: rest =>
    match pre with
    | [] => t
    | c :: _ => if asciiAlpha c && pre.all schemeChar then rest else t

/-- (`netloc`, `path`) of `urlparse(t)` -/
def netlocPath (t : Text) : Text × Text :=
  match afterScheme t with
  | '/' :: '/' :: r => (r.takeWhile (· ≠ '/'), r.dropWhile (· ≠ '/'))
  | r => ([], r)

/-- `urlparse(t).hostname or ''` (without the lower-casing: only its truth value and nothing else is used) -/
def hostOf (t : Text) : Text := (netlocPath t).1.takeWhile (· ≠ ':')

/-! ### `add_route` -/

inductive Err where
  | inheritSlash      -- ConfigurationError: "inherit_slash" may only be used with an empty pattern
  | boom              -- an exception raised by the body (user code)
deriving Repr, DecidableEq

/-- what reaches `mapper.connect`: (pattern, static) -/
def addRoute (pfx : Pfx) (pat : Text) (inh : Bool) (static : Bool) : Except Err (Text × Bool) :=
  if inh && pat != [] then .error .inheritSlash
  else if hostOf pat != [] then .ok ((netlocPath pat).2, true)      -- external URL: not prefixed, static
  else .ok (applyPrefix pfx pat inh, static)

/-! ### `add_static_view` -/

inductive StaticOut where
  | url (u : Text)                                   -- registration (url, spec, None): no route
  | route (routeName pattern : Text) (static : Bool)    -- the route connected for the view
deriving Repr, DecidableEq

def slashEnd (n : Text) : Text := if n.getLast? = some '/' then n else n ++ ['/']

def staticRouteName (pfx : Pfx) (n : Text) : Text :=
  match pfx with
  | none => '_' :: '_' :: n
  | some p => if p = [] then '_' :: '_' :: n else '_' :: '_' :: (p ++ '/' :: n)

def staticPattern (n : Text) : Text := n ++ "*subpath".toList

/-- `StaticURLInfo.add(config, name, spec)` as far as routes are concerned; `n` below is the name with its slash -/
def staticView (pfx : Pfx) (name : Text) : StaticOut :=
  let n := slashEnd name
  if (netlocPath n).1 != [] then .url n
  else
    match addRoute pfx (staticPattern n) false false with
    | .ok (pat, st) => .route (staticRouteName pfx n) pat st
    | .error _ => .url []       -- unreachable: `inherit_slash` is not passed

/-! ### the mapper and configuration programs -/

structure Reg where
  name : Text
  pattern : Text
deriving Repr, DecidableEq

/-- `RoutesMapper` + `StaticURLInfo.registrations` + what the program observed -/
structure St where
  routelist : List Reg := []
  statics : List Reg := []
  /-- `StaticURLInfo.registrations` without the spec: (url or None, route name or None) -/
  regs : List (Option Text × Option Text) := []
  probes : List Pfx := []
deriving Repr, DecidableEq

/-- `RoutesMapper.connect` -/
def connect (st : St) (name pat : Text) (static : Bool) : St :=
  let kept := st.routelist.filter (·.name != name)
  if static then { st with routelist := kept, statics := st.statics ++ [⟨name, pat⟩] }
  else { st with routelist := kept ++ [⟨name, pat⟩] }

/-- the `register` action of `StaticURLInfo.add`: `names = [t[0] for t in registrations]` are the URLs, so an earlier
registration is dropped exactly when its URL equals the (slash-ended) name -/
def register (st : St) (n : Text) (url rn : Option Text) : St :=
  { st with regs := st.regs.filter (·.1 != some n) ++ [(url, rn)] }

inductive Stmt where
  | route (name pat : Text) (inh static : Bool)       -- config.add_route(name, pat, inherit_slash=, static=)
  | static (name : Text)                              -- config.add_static_view(name, spec)
  | ctx (p : Pfx) (body : List Stmt)                  -- with config.route_prefix_context(p): body
  | inc (p : Pfx) (body : List Stmt)                  -- config.include(fn, route_prefix=p); fn(c) runs body on c
  | try_ (body : List Stmt)                           -- try: body / except (Boom, ConfigurationError): pass
  | raise                                             -- raise Boom
  | probe                                             -- record config.route_prefix
deriving Repr

/-- a leaf statement run where the prefix `cur` is in force -/
def leaf (cur : Pfx) (st : St) : Stmt → St × Option Err
  | .route name pat inh static =>
    match addRoute cur pat inh static with
    | .error e => (st, some e)
    | .ok (p, s) => (connect st name p s, none)
  | .static name =>
    match staticView cur name with
    | .url u => (register st u (some u) none, none)
    | .route rn p s => (register (connect st rn p s) (slashEnd name) none (some rn), none)
  | .probe => ({ st with probes := st.probes ++ [cur] }, none)
  | .raise => (st, some .boom)
  | _ => (st, none)

mutual
/-- one statement on a configurator whose `route_prefix` attribute is `cur`: the attribute afterwards, the shared
registry state, the exception that propagates (if any) -/
def exec (cur : Pfx) (st : St) : Stmt → Pfx × St × Option Err
  | .ctx p body =>
    let orig := cur                                      -- original_route_prefix = self.route_prefix
    let r := execL (combine cur p) st body               -- self.route_prefix = …; yield
    (orig, r.2.1, r.2.2)                                 -- finally: self.route_prefix = original_route_prefix
  | .inc p body =>
    let orig := cur
    let r := execL (combine cur p) st body               -- a NEW configurator made inside the context, body runs on it
    (orig, r.2.1, r.2.2)
  | .try_ body =>
    let r := execL cur st body
    (r.1, r.2.1, none)
  | s => let r := leaf cur st s; (cur, r.1, r.2)
def execL (cur : Pfx) (st : St) : List Stmt → Pfx × St × Option Err
  | [] => (cur, st, none)
  | s :: ss =>
    let r := exec cur st s
    match r.2.2 with
    | some e => (r.1, r.2.1, some e)
    | none => execL r.1 r.2.1 ss
end

/-! ### the declarative reading: lexical scoping -/

/-- a leaf statement together with the `route_prefix` arguments of the blocks that enclose it, outermost first -/
abbrev Scoped := List Pfx × Stmt

mutual
/-- the leaves a program reaches, in order, each with its enclosing prefixes; `true` = an exception leaves the program.
`fails stack s` says whether leaf `s` raises in that scope. -/
def trace (fails : List Pfx → Stmt → Bool) (stack : List Pfx) : Stmt → List Scoped × Bool
  | .ctx p body => traceL fails (stack ++ [p]) body
  | .inc p body => traceL fails (stack ++ [p]) body
  | .try_ body => ((traceL fails stack body).1, false)
  | s => ([(stack, s)], fails stack s)
def traceL (fails : List Pfx → Stmt → Bool) (stack : List Pfx) : List Stmt → List Scoped × Bool
  | [] => ([], false)
  | s :: ss =>
    let r := trace fails stack s
    if r.2 then r else ((r.1 ++ (traceL fails stack ss).1), (traceL fails stack ss).2)
end

/-- does the leaf raise under the prefix that the enclosing blocks compose to -/
def leafFails (top : Pfx) (stack : List Pfx) (s : Stmt) : Bool :=
  (leaf (prefixAt top stack) {} s).2.isSome

/-- run the reached leaves, each under the prefix its enclosing blocks compose to -/
def replay (top : Pfx) (st : St) : List Scoped → St
  | [] => st
  | (stack, s) :: rest => replay top (leaf (prefixAt top stack) st s).1 rest

end Pyr.Prefix
