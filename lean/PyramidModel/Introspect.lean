/-
C20 — executable model of the introspection machinery of pyramid.

* `pyramid.registry.Introspector` (src/pyramid/registry.py:117-206): `add`, `get`, `get_category`,
  `categorized`, `categories`, `remove`, `relate`, `unrelate`, `related`;
* `pyramid.registry.Introspectable.register` (registry.py:250-263): `add` then the recorded relations;
* the registration step of `ActionState.execute_actions` (config/actions.py:319-321): after the callable of an
  executed action has run, each of its introspectables is registered with the action's `info`;
* `Configurator.action` dropping the introspectables when `self.introspection` is false (actions.py:82-85) and
  `Configurator.include` handing the flag to the nested configurator (config/__init__.py:654-661).

Vocabulary.  Category names, discriminators and the *contents* of an introspectable (it is a `dict`) are
numbered by the harness: `Obj = (cat, discr, val)`.  Python's two notions of sameness are both kept:

* dict-key sameness in `_refs` — `hash((category, discriminator))` equal and (`is` or dict `==`) — is equality
  of all three components, i.e. `DecidableEq Obj`;
* list membership `y in L` / `L.remove(y)` uses `==` only, i.e. dict equality of the *contents*: `memV`/`eraseV`
  compare `val` alone.  (Two introspectables with equal contents in different slots are therefore confused by
  `relate`; `Props/C20.lean` states the well-formedness predicate that excludes this and decides a witness.)

`x is not y` in `relate` compares two live objects fetched from their slots, so it is `x ≠ y` on `Obj`.
The order of keys inside the Python dicts is not observable through the public API (`categories()` sorts the
names, `get_category` sorts by `order`); a category is kept as the list of its bindings, a re-added key moving to
the end.  `intr.order`/`intr.action_info` are attributes of the live object: fields of `Entry`.
Not modelled: the second key `discriminator_hash` under which `add` files every introspectable (it can only
alias another introspectable whose discriminator *is* that integer — hash collisions are outside the model).
-/
namespace Pyr.Introspect

/-! ### association lists (the Python dicts) -/

def alookup {α β} [DecidableEq α] (k : α) : List (α × β) → Option β
  | [] => none
  | (k', v) :: r => if k' = k then some v else alookup k r

/-- `d[k] = v` -/
def aset {α β} [DecidableEq α] (k : α) (v : β) : List (α × β) → List (α × β)
  | [] => [(k, v)]
  | (k', v') :: r => if k' = k then (k, v) :: r else (k', v') :: aset k v r

/-- `d.pop(k, …)` (the popped value is read separately) -/
def aerase {α β} [DecidableEq α] (k : α) : List (α × β) → List (α × β)
  | [] => []
  | (k', v') :: r => if k' = k then r else (k', v') :: aerase k r

/-! ### introspectables -/

/-- an introspectable up to Python equality: category, discriminator, dict contents -/
structure Obj where
  cat : Nat
  discr : Nat
  val : Nat
deriving Repr, DecidableEq, Inhabited

/-- a live introspectable: `action_info` (the id of the statement/action that registered it) and `order` -/
structure Entry where
  obj : Obj
  info : Nat
  order : Nat
deriving Repr, DecidableEq, Inhabited

inductive Err where
  | keyError
  | valueError
deriving Repr, DecidableEq

structure IState where
  /-- `_categories` : category → its bindings (distinct discriminators) -/
  cats : List (Nat × List Entry) := []
  /-- `_refs` -/
  refs : List (Obj × List Obj) := []
  /-- `_counter` -/
  counter : Nat := 0
deriving Repr, DecidableEq

def IState.empty : IState := {}

/-- `self._categories.get(c, {})` as a list of bindings -/
def IState.entries (S : IState) (c : Nat) : List Entry := (alookup c S.cats).getD []

def findE (d : Nat) (es : List Entry) : Option Entry := es.find? (fun e => e.obj.discr == d)

/-- `category[discriminator] = intr` -/
def putE (e : Entry) (es : List Entry) : List Entry := es.filter (fun x => x.obj.discr != e.obj.discr) ++ [e]

/-- `del category[discriminator]` -/
def delE (d : Nat) (es : List Entry) : List Entry := es.filter (fun x => x.obj.discr != d)

/-- `Introspector.add` with `intr.action_info = info` already set (registry.py:124-129) -/
def add (S : IState) (o : Obj) (info : Nat) : IState :=
  { S with cats := aset o.cat (putE ⟨o, info, S.counter⟩ (S.entries o.cat)) S.cats
           counter := S.counter + 1 }

/-- `self._categories.setdefault(c, {})` -/
def touch (S : IState) (c : Nat) : IState := { S with cats := aset c (S.entries c) S.cats }

/-- `self._categories.get(c, {}).get(d)` (no side effect; used by `related`, `_get_intrs_by_pairs`) -/
def peek (S : IState) (c d : Nat) : Option Entry := findE d (S.entries c)

/-- `Introspector.get` (131-134): note the `setdefault` — asking creates the category -/
def get (S : IState) (c d : Nat) : Option Entry × IState := (peek S c d, touch S c)

def relatedOf (S : IState) (o : Obj) : List Obj := (alookup o S.refs).getD []

/-- `Introspector.related` (201-206) -/
def related (S : IState) (c d : Nat) : Except Err (List Obj) :=
  match peek S c d with
  | none => .error .keyError
  | some e => .ok (relatedOf S e.obj)

/-- stable insertion by `order` -/
def insertO (e : Entry) : List Entry → List Entry
  | [] => [e]
  | x :: r => if e.order ≤ x.order then e :: x :: r else x :: insertO e r

/-- `sorted(set(values), key=attrgetter('order'))` -/
def sortO : List Entry → List Entry
  | [] => []
  | e :: r => insertO e (sortO r)

/-- `Introspector.get_category` (136-147) with the default sort key; `none` = the `default` -/
def getCategory (S : IState) (c : Nat) : Option (List (Entry × List Obj)) :=
  (alookup c S.cats).map fun es => (sortO es).map fun e => (e, relatedOf S e.obj)

def insertN (n : Nat) : List Nat → List Nat
  | [] => [n]
  | x :: r => if n ≤ x then n :: x :: r else x :: insertN n r

/-- `Introspector.categories` (160-161); the harness numbers the names in sorted order -/
def categories (S : IState) : List Nat := (S.cats.map (·.1)).foldr insertN []

/-- `Introspector.categorized` (149-158) -/
def categorized (S : IState) : List (Nat × List (Entry × List Obj)) :=
  (categories S).map fun c => (c, (getCategory S c).getD [])

/-- `y in L` on a list of introspectables: dict `==`, contents only -/
def memV (y : Obj) (L : List Obj) : Bool := L.any (fun o => o.val == y.val)

/-- `L.remove(y)` (first `==` element; the caller has checked membership) -/
def eraseV (y : Obj) : List Obj → List Obj
  | [] => []
  | o :: r => if o.val == y.val then r else o :: eraseV y r

/-- the loop body of `relate` (188-191) / `unrelate` (196-199) for one ordered pair -/
def relStep (rel : Bool) (refs : List (Obj × List Obj)) (x y : Obj) : List (Obj × List Obj) :=
  if rel then
    let L := (alookup x refs).getD []
    aset x (if x ≠ y ∧ !memV y L then L ++ [y] else L) refs
  else
    match alookup x refs with
    | none => refs
    | some L => if memV y L then aset x (eraseV y L) refs else refs

/-- `((x, y) for x in introspectables for y in introspectables)` -/
def pairsOf (xs : List Obj) : List (Obj × Obj) := xs.flatMap fun x => xs.map fun y => (x, y)

def relateObjs (rel : Bool) (refs : List (Obj × List Obj)) (xs : List Obj) : List (Obj × List Obj) :=
  (pairsOf xs).foldl (fun r p => relStep rel r p.1 p.2) refs

/-- `_get_intrs_by_pairs` (175-183) -/
def lookupAll (S : IState) : List (Nat × Nat) → Except Err (List Obj)
  | [] => .ok []
  | (c, d) :: r =>
    match peek S c d with
    | none => .error .keyError
    | some e =>
      match lookupAll S r with
      | .error x => .error x
      | .ok os => .ok (e.obj :: os)

/-- `Introspector.relate(*pairs)` (`rel = true`) / `unrelate(*pairs)` (`rel = false`) -/
def relate (S : IState) (rel : Bool) (ks : List (Nat × Nat)) : Except Err IState :=
  match lookupAll S ks with
  | .error x => .error x
  | .ok xs => .ok { S with refs := relateObjs rel S.refs xs }

/-- `for d in L: L2 = self._refs[d]; L2.remove(intr)` (168-170) -/
def dropBackRefs (o : Obj) : List Obj → List (Obj × List Obj) → Except Err (List (Obj × List Obj))
  | [], refs => .ok refs
  | d :: r, refs =>
    match alookup d refs with
    | none => .error .keyError
    | some L2 => if memV o L2 then dropBackRefs o r (aset d (eraseV o L2) refs) else .error .valueError

/-- `Introspector.remove` (163-173); an exception leaves the Python object half-updated — the harness ends
the operation sequence there -/
def remove (S : IState) (c d : Nat) : Except Err IState :=
  let S1 := touch S c
  match peek S1 c d with
  | none => .ok S1
  | some e =>
    match dropBackRefs e.obj (relatedOf S1 e.obj) (aerase e.obj S1.refs) with
    | .error x => .error x
    | .ok refs2 => .ok { S1 with refs := refs2, cats := aset c (delE d (S1.entries c)) S1.cats }

/-! ### `Introspectable.register` and the registration step of `execute_actions` -/

/-- one recorded `intr.relate(cat, discr)` (`rel = true`) or `intr.unrelate(…)` -/
structure Rel where
  rel : Bool
  cat : Nat
  discr : Nat
deriving Repr, DecidableEq, Inhabited

/-- an introspectable as a directive built it: slot, contents, `_relations` -/
structure Decl where
  obj : Obj
  rels : List Rel := []
deriving Repr, DecidableEq, Inhabited

def Decl.key (d : Decl) : Nat × Nat := (d.obj.cat, d.obj.discr)

def applyRels (o : Obj) : List Rel → IState → Except Err IState
  | [], S => .ok S
  | r :: rs, S =>
    match relate S r.rel [(o.cat, o.discr), (r.cat, r.discr)] with
    | .error x => .error x
    | .ok S' => applyRels o rs S'

/-- `Introspectable.register(introspector, action_info)` (250-263) -/
def register (S : IState) (info : Nat) (d : Decl) : Except Err IState :=
  applyRels d.obj d.rels (add S d.obj info)

def registerList (info : Nat) : List Decl → IState → Except Err IState
  | [], S => .ok S
  | d :: ds, S =>
    match register S info d with
    | .error x => .error x
    | .ok S' => registerList info ds S'

/-- `for introspectable in introspectables: introspectable.register(introspector, info)` for every executed
action in execution order (actions.py:319-321); `decls i` = the `introspectables` of action `i` -/
def registerAll (decls : Nat → List Decl) : List Nat → IState → Except Err IState
  | [], S => .ok S
  | i :: is, S =>
    match registerList i (decls i) S with
    | .error x => .error x
    | .ok S' => registerAll decls is S'

/-! ### statements, include nesting, the `introspection` flag -/

/-- an action as `Configurator.action` receives it from a directive: log id, discriminator (`none` = `None`),
`order`, the introspectables the directive built -/
structure ActD where
  id : Nat
  disc : Option Nat
  order : Int
  intrs : List Decl
deriving Repr, DecidableEq, Inhabited

/-- a configuration program: directive calls and nested `include`s.  `setFlag` is an assignment
`config.introspection = b` made by the included callable before anything else (`none`: untouched). -/
inductive Stmt where
  | act (a : ActD)
  | incl (node : Nat) (setFlag : Option Bool) (body : List Stmt)
deriving Repr, Inhabited

/-- a pending action dict: what `ActionState.action` stored -/
structure Pending where
  id : Nat
  disc : Option Nat
  order : Int
  path : List Nat
  intrs : List Decl
deriving Repr, DecidableEq, Inhabited

mutual
/-- declare the statements on a configurator with `introspection = flag` and `includepath = path`.
`forwards` says whether `include` passes `introspection=self.introspection` to the nested configurator
(config/__init__.py:660 — generated from the source); if not, the nested one gets the constructor default `True`. -/
def flatten (forwards flag : Bool) (path : List Nat) : Stmt → List Pending
  | .act a => [{ id := a.id, disc := a.disc, order := a.order, path := path,
                 intrs := if flag then a.intrs else [] }]
  | .incl node setFlag body =>
    flattenL forwards (setFlag.getD (if forwards then flag else true)) (path ++ [node]) body
def flattenL (forwards flag : Bool) (path : List Nat) : List Stmt → List Pending
  | [] => []
  | s :: r => flatten forwards flag path s ++ flattenL forwards flag path r
end

/-- the `introspectables` of pending action `i` (ids are distinct) -/
def declsOf (ps : List Pending) (i : Nat) : List Decl :=
  match ps.find? (fun p => p.id == i) with
  | some p => p.intrs
  | none => []

end Pyr.Introspect
