/-
C10 — executable model of `pyramid.session` (src/pyramid/session.py):
`BaseCookieSessionFactory.CookieSession` (`__init__` = `load`, the `manage_accessed` / `manage_changed`
wrappers, every `ISession` operation, `changed`, `invalidate`, the flash queue and CSRF token methods,
`_set_cookie` with `set_on_exception` and the 4064 limit) and of a chain of requests that carry the
`Set-Cookie` of one response into the `Cookie` of a later request.

The serialiser (`SignedCookieSessionFactory`: WebOb `SignedSerializer` over `JSONSerializer`) is ABSTRACT:
the model is parametric in a `Codec κ` (`dumps`, `loads`, `size`); `κ` is the type of cookie values.
`signedCodec` (below) is the construction of `SignedSerializer.dumps/loads` over an abstract inner
serialiser, an abstract MAC and an abstract base64 — the theorems about it are in Props/C10.lean.

Time is counted in QUARTER SECONDS (`Q = Nat`): `time.time()` returns the float `q/4` (exact in binary
floating point, exact through `repr`/`json`), `int(time.time())` is `q/4*4`, a timeout of `T` seconds is
`4*T` quarters.  This keeps the `int()` truncations of the wrappers and the float comparison of
`__init__` observable without floats crossing the line protocol.

Core Lean only.
-/
namespace Pyr.Session

/-! ## JSON values (what `JSONSerializer` round-trips: the `JsonNormal` domain) -/

/-- A Python value of the JSON-normal domain: `None`, `bool`, `int`, `str`, `list`, `dict` with `str`
keys (insertion ordered).  Floats, tuples and non-string keys are outside (run on the real code by the
harness as excluded points). -/
inductive JV where
  | null
  | bool (b : Bool)
  | int (i : Int)
  | str (s : String)
  | arr (xs : List JV)
  | obj (kvs : List (String × JV))
  deriving Repr, Inhabited

/-- The session's own dictionary: insertion-ordered association list (Python `dict`). -/
abbrev Data := List (String × JV)

namespace JV

mutual
/-- structural equality as a `Bool` (used by examples and the driver only) -/
def beq : JV → JV → Bool
  | null, null => true
  | bool a, bool b => a == b
  | int a, int b => a == b
  | str a, str b => a == b
  | arr a, arr b => beqL a b
  | obj a, obj b => beqO a b
  | _, _ => false
def beqL : List JV → List JV → Bool
  | [], [] => true
  | x :: xs, y :: ys => beq x y && beqL xs ys
  | _, _ => false
def beqO : List (String × JV) → List (String × JV) → Bool
  | [], [] => true
  | (k, v) :: r, (k', v') :: r' => k == k' && beq v v' && beqO r r'
  | _, _ => false
end

instance : BEq JV := ⟨beq⟩

/-- lookup by key with an explicit recursion (so that `pyEqO` below is structural) -/
def look (k : String) : List (String × JV) → Option JV
  | [] => none
  | (k', v) :: r => if k' == k then some v else look k r

mutual
/-- Python `==` on the JSON-normal domain: `True == 1`, `False == 0`, lists element-wise, dicts
irrespective of order; everything else by kind. -/
def pyEq : JV → JV → Bool
  | null, w => match w with | null => true | _ => false
  | bool a, w => match w with
    | bool b => a == b
    | int i => i == (if a then 1 else 0)
    | _ => false
  | int a, w => match w with
    | int b => a == b
    | bool b => a == (if b then 1 else 0)
    | _ => false
  | str a, w => match w with | str b => a == b | _ => false
  | arr a, w => match w with | arr b => pyEqL a b | _ => false
  | obj a, w => match w with | obj b => a.length == b.length && pyEqO a b | _ => false
def pyEqL : List JV → List JV → Bool
  | [], ys => ys.isEmpty
  | x :: xs, ys => match ys with
    | [] => false
    | y :: ys' => pyEq x y && pyEqL xs ys'
/-- every item of the first dict has an equal value under the same key in the second -/
def pyEqO : List (String × JV) → List (String × JV) → Bool
  | [], _ => true
  | (k, v) :: r, b => (match look k b with
    | some w => pyEq v w
    | none => false) && pyEqO r b
end

/-- `msg in storage` for a list -/
def pyIn (m : JV) (xs : List JV) : Bool := xs.any (fun x => pyEq x m)

def keysNodup : List String → Bool
  | [] => true
  | k :: r => !(r.contains k) && keysNodup r

mutual
/-- `JsonNormal`: every dict (at any depth) has pairwise distinct keys.  (String keys, lists rather than
tuples and the absence of floats are built into the type.) -/
def normal : JV → Bool
  | arr xs => normalL xs
  | obj kvs => keysNodup (kvs.map (·.1)) && normalO kvs
  | _ => true
def normalL : List JV → Bool
  | [] => true
  | x :: xs => normal x && normalL xs
def normalO : List (String × JV) → Bool
  | [] => true
  | (_, v) :: r => normal v && normalO r
end

/-! ### `len(json.dumps(v))` with Python's defaults (`ensure_ascii=True`, separators `", "` and `": "`) -/

/-- characters `json.dumps` writes for one character of a string -/
def escLen (c : Char) : Nat :=
  let n := c.toNat
  if n == 34 || n == 92 then 2                                   -- \" \\
  else if n == 10 || n == 13 || n == 9 || n == 8 || n == 12 then 2   -- \n \r \t \b \f
  else if n < 32 then 6                                           -- \u00XX
  else if n < 127 then 1
  else if n < 65536 then 6                                        -- \uXXXX
  else 12                                                         -- surrogate pair

def strLen (s : String) : Nat := 2 + (s.toList.map escLen).sum

def intLen (i : Int) : Nat := (toString i).length

mutual
def jlen : JV → Nat
  | null => 4
  | bool b => if b then 4 else 5
  | int i => intLen i
  | str s => strLen s
  | arr xs => 2 + jlenL xs
  | obj kvs => 2 + jlenO kvs
/-- items joined by `", "` -/
def jlenL : List JV → Nat
  | [] => 0
  | [x] => jlen x
  | x :: y :: r => jlen x + 2 + jlenL (y :: r)
def jlenO : List (String × JV) → Nat
  | [] => 0
  | [(k, v)] => strLen k + 2 + jlen v
  | (k, v) :: p :: r => strLen k + 2 + jlen v + 2 + jlenO (p :: r)
end

end JV

/-! ## Python `dict` operations on `Data` -/

def dget (d : Data) (k : String) : Option JV := JV.look k d

def dhas (d : Data) (k : String) : Bool := (dget d k).isSome

/-- `d[k] = v`: an existing key keeps its position, a new key goes last -/
def dset : Data → String → JV → Data
  | [], k, v => [(k, v)]
  | (k', v') :: r, k, v => if k' == k then (k', v) :: r else (k', v') :: dset r k v

/-- `del d[k]` (for a present key; the identity otherwise) -/
def ddel : Data → String → Data
  | [], _ => []
  | (k', v') :: r, k => if k' == k then r else (k', v') :: ddel r k

/-- `d.update(other)` -/
def dupdate (d : Data) (kvs : List (String × JV)) : Data :=
  kvs.foldl (fun d kv => dset d kv.1 kv.2) d

/-! ## Time -/

/-- quarter seconds -/
abbrev Q := Nat

/-- `int(t)` of the float `q/4`, again in quarter seconds -/
def floorSec (q : Q) : Q := q / 4 * 4

/-- `now - renewed > limit` for floats `now = q/4`, `renewed = r/4` and an `int` limit (seconds) -/
def olderThan (now renewed : Nat) (limitSec : Nat) : Bool := now > renewed + 4 * limitSec

/-! ## Factory options, wire format, codec -/

structure Cfg where
  /-- `_timeout` (seconds, after `int()`), `none` = never expires -/
  timeout : Option Nat
  /-- `_reissue_time` (seconds, after `int()`), `none` = never reissued -/
  reissue : Option Nat
  /-- `_cookie_on_exception` -/
  setOnExc : Bool
  deriving Repr, DecidableEq

/-- what `_set_cookie` hands to `serializer.dumps`: `(self.accessed, self.created, dict(self))`.
`accInt` records whether `accessed` is a Python `int` (set by a wrapper) or still the `float` that
`__init__` assigned — the two print differently (`100` / `100.0`), which matters for the size only. -/
structure Payload where
  accessed : Q
  accInt : Bool
  created : Q
  data : Data
  deriving Repr

/-- `float(x)` of a decoded payload field: a number, or `TypeError`/`ValueError` -/
inductive Fld where
  | num (q : Q)
  | bad
  deriving Repr, DecidableEq

/-- what `serializer.loads` returned, as far as `__init__` looks at it: anything that does not unpack
into three (`TypeError`/`ValueError` at `rval, cval, sval = value`), or three fields; the third is the
state: `some d` when it is a mapping, `none` when `isinstance(sval, dict)` fails (since fix f6dc9a1 a `TypeError` raised
inside the try-block, before the stamps are converted). -/
inductive Wire where
  | notTriple
  | triple (r c : Fld) (s : Option Data)
  deriving Repr

def Wire.ofPayload (p : Payload) : Wire := .triple (.num p.accessed) (.num p.created) (some p.data)

/-! ### reading an arbitrary deserialised JSON value the way `__init__` does (lines 226-238, 250)

`strNum` is Python's `float()` on a `str` (`"12"`, `" 1e3 "`, `"inf"` …) — abstract: `none` = `ValueError`; the driver
uses plain decimal digit strings.  Negative integers (a stamp before 1970) are read as 0. -/

/-- `rval, cval, sval = value`: a list of three, a `str` of three characters, a `dict` of three keys (its keys);
anything else raises `TypeError` / `ValueError` -/
def JV.unpack3 : JV → Option (JV × JV × JV)
  | .arr [a, b, c] => some (a, b, c)
  | .obj [(a, _), (b, _), (c, _)] => some (.str a, .str b, .str c)
  | .str s => match s.toList with
    | [a, b, c] => some (.str (String.singleton a), .str (String.singleton b), .str (String.singleton c))
    | _ => none
  | _ => none

/-- `float(x)` -/
def JV.toFld (strNum : String → Option Nat) : JV → Fld
  | .int i => .num (4 * i.toNat)
  | .bool b => .num (if b then 4 else 0)
  | .str s => match strNum s with
    | some q => .num q
    | none => .bad
  | _ => .bad

/-- `isinstance(sval, dict)` (line 231): only a mapping is a state; everything else (`none`) raises `TypeError` inside
the try-block and is treated like any other malformed payload -/
def JV.toState : JV → Option Data
  | .obj d => some d
  | _ => none

/-- `float()` restricted to the strings the harness and the translator generate as stamps: plain ASCII decimal digits are
numbers (in quarter seconds), every other string is refused -/
def digitStrNum (s : String) : Option Nat :=
  let cs := s.toList
  if !cs.isEmpty && cs.all (fun c => 48 ≤ c.toNat && c.toNat ≤ 57) then
    some (4 * cs.foldl (fun acc c => acc * 10 + (c.toNat - 48)) 0)
  else none

/-- what `__init__` makes of a deserialised value -/
def JV.toWire (strNum : String → Option Nat) (v : JV) : Wire :=
  match v.unpack3 with
  | none => .notTriple
  | some (a, b, c) => .triple (a.toFld strNum) (b.toFld strNum) c.toState

/-- a payload `_set_cookie` can have produced, up to the reading of its stamps: three fields, both stamps convertible
by `float()`, the state a mapping -/
def JV.wellFormed (strNum : String → Option Nat) (v : JV) : Bool :=
  match v.unpack3 with
  | some (a, b, .obj _) => (a.toFld strNum != .bad) && (b.toFld strNum != .bad)
  | _ => false

/-- three fields with convertible stamps whose state is NOT a mapping (the class of the repaired defect F-C10c) -/
def JV.nonMappingState (strNum : String → Option Nat) (v : JV) : Bool :=
  match v.unpack3 with
  | some (_, _, .obj _) => false
  | some (a, b, _) => (a.toFld strNum != .bad) && (b.toFld strNum != .bad)
  | none => false

/-- The serialiser handed to `BaseCookieSessionFactory`, abstractly.  `loads = none` is `ValueError`. -/
structure Codec (κ : Type) where
  dumps : Payload → κ
  loads : κ → Option Wire
  /-- `len(cookieval)` -/
  size : κ → Nat

/-- `len(cookieval) > 4064` -/
def cookieLimit : Nat := 4064

/-! ## The session object -/

structure Sess where
  data : Data
  created : Q
  accessed : Q
  accInt : Bool
  renewed : Q
  new : Bool
  dirty : Bool
  /-- number of response callbacks registered by `changed` -/
  callbacks : Nat
  deriving Repr

/-- `CookieSession.__init__` (lines 211-250) given the result of `serializer.loads` (`none`: no cookie, or
`ValueError`).  The result is always `some` since fix f6dc9a1 (`load_total`); before it, a verified payload whose third
component was not a mapping made `dict.__init__(self, state)` raise (`none`). -/
def load (cfg : Cfg) (now : Q) (w : Option Wire) : Option Sess :=
  -- renewed, created, state, new  after the two try-blocks
  let (renewed, created, state, new) : Q × Q × Option Data × Bool :=
    match w with
    | none => (now, now, some [], true)
    | some .notTriple => (now, now, some [], true)
    | some (.triple r c s) =>
      match s with
      | none => (now, now, some [], true)           -- `isinstance(sval, dict)` fails: TypeError before any conversion
      | some d =>
        match r with
        | .bad => (now, now, some [], true)
        | .num rq =>
          match c with
          | .bad => (rq, now, some [], true)        -- `renewed` was already assigned
          | .num cq => (rq, cq, some d, false)
  let state : Option Data :=
    match cfg.timeout with
    | some t => if olderThan now renewed t then some [] else state
    | none => state
  match state with
  | none => none
  | some d => some { data := d, created := created, accessed := renewed, accInt := false,
                     renewed := renewed, new := new, dirty := false, callbacks := 0 }

/-- `changed()` (lines 253-261): first call sets `_dirty` and registers ONE response callback -/
def markChanged (s : Sess) : Sess :=
  if s.dirty then s else { s with dirty := true, callbacks := s.callbacks + 1 }

/-- `manage_accessed` prologue (lines 18-22) -/
def touchAccessed (cfg : Cfg) (now : Q) (s : Sess) : Sess :=
  let n := floorSec now
  let s := { s with accessed := n, accInt := true }
  match cfg.reissue with
  | some r => if olderThan n s.renewed r then markChanged s else s
  | none => s

/-- `manage_changed` prologue (lines 33-35) -/
def touchChanged (now : Q) (s : Sess) : Sess :=
  markChanged { s with accessed := floorSec now, accInt := true }

/-! ## Operations -/

inductive Op where
  -- wrapped by manage_accessed
  /-- `session.get(k)` / `session.get(k, d)` -/
  | get (k : String) (dflt : Option JV)
  | getitem (k : String)
  | contains (k : String)
  | len
  | keys
  | items
  | values
  | iter
  -- wrapped by manage_changed
  | set (k : String) (v : JV)
  | del (k : String)
  | update (kvs : List (String × JV))
  | pop (k : String) (dflt : Option JV)
  | popitem
  | setdefault (k : String) (v : JV)
  | clear
  | flash (msg : JV) (queue : String) (allowDup : Bool)
  | popFlash (queue : String)
  | peekFlash (queue : String)
  | newCsrf (tok : String)
  | getCsrf (tok : String)
  | invalidate
  | changed
  deriving Repr

/-- what a call returned / raised, canonicalised -/
inductive Res where
  | unit
  | val (v : JV)
  | bool (b : Bool)
  | nat (n : Nat)
  | keys (ks : List String)
  | items (kvs : Data)
  | vals (vs : List JV)
  | keyError
  | err            -- AttributeError / TypeError of `flash` on a non-list queue value
  deriving Repr

def flashKey (queue : String) : String := "_f_" ++ queue
def csrfKey : String := "_csrft_"

/-- `dict.setdefault` under `manage_changed` -/
def opSetdefault (now : Q) (k : String) (v : JV) (s : Sess) : Sess × JV :=
  let s := touchChanged now s
  match dget s.data k with
  | some x => (s, x)
  | none => ({ s with data := dset s.data k v }, v)

/-- `dict.pop(k[, d])` under `manage_changed` -/
def opPop (now : Q) (k : String) (dflt : Option JV) (s : Sess) : Sess × Res :=
  let s := touchChanged now s
  match dget s.data k with
  | some x => ({ s with data := ddel s.data k }, .val x)
  | none => match dflt with
    | some d => (s, .val d)
    | none => (s, .keyError)

/-- `dict.get(k, d)` under `manage_accessed` -/
def opGet (cfg : Cfg) (now : Q) (k : String) (s : Sess) : Sess × Option JV :=
  let s := touchAccessed cfg now s
  (s, dget s.data k)

/-- `dict.__setitem__` under `manage_changed` -/
def opSet (now : Q) (k : String) (v : JV) (s : Sess) : Sess :=
  let s := touchChanged now s
  { s with data := dset s.data k v }

/-- `dict.clear` under `manage_changed` -/
def opClear (now : Q) (s : Sess) : Sess :=
  let s := touchChanged now s
  { s with data := [] }

/-- `new_csrf_token` (lines 303-307); `tok` is `hexlify(os.urandom(20))` -/
def opNewCsrf (now : Q) (tok : String) (s : Sess) : Sess :=
  let s := touchChanged now s
  opSet now csrfKey (.str tok) s

/-- One `ISession` call at clock `now`. -/
def runOp (cfg : Cfg) (now : Q) (op : Op) (s : Sess) : Sess × Res :=
  match op with
  | .get k dflt => let (s, r) := opGet cfg now k s; (s, .val (r.getD (dflt.getD .null)))
  | .getitem k =>
    let s := touchAccessed cfg now s
    match dget s.data k with
    | some v => (s, .val v)
    | none => (s, .keyError)
  | .contains k => let s := touchAccessed cfg now s; (s, .bool (dhas s.data k))
  | .len => let s := touchAccessed cfg now s; (s, .nat s.data.length)
  | .keys => let s := touchAccessed cfg now s; (s, .keys (s.data.map (·.1)))
  | .items => let s := touchAccessed cfg now s; (s, .items s.data)
  | .values => let s := touchAccessed cfg now s; (s, .vals (s.data.map (·.2)))
  | .iter => let s := touchAccessed cfg now s; (s, .keys (s.data.map (·.1)))
  | .set k v => (opSet now k v s, .unit)
  | .del k =>
    let s := touchChanged now s
    if dhas s.data k then ({ s with data := ddel s.data k }, .unit) else (s, .keyError)
  | .update kvs =>
    let s := touchChanged now s
    ({ s with data := dupdate s.data kvs }, .unit)
  | .pop k d => opPop now k d s
  | .popitem =>
    let s := touchChanged now s
    match s.data.getLast? with
    | some (k, v) => ({ s with data := s.data.dropLast }, .items [(k, v)])
    | none => (s, .keyError)
  | .setdefault k v => let (s, x) := opSetdefault now k v s; (s, .val x)
  | .clear => (opClear now s, .unit)
  | .flash msg queue dup =>
    -- lines 286-290: manage_changed; storage = self.setdefault('_f_'+queue, []); maybe storage.append(msg)
    let s := touchChanged now s
    let key := flashKey queue
    let (s, st) := opSetdefault now key (.arr []) s
    match st with
    | .arr xs =>
      if dup || !(JV.pyIn msg xs) then ({ s with data := dset s.data key (.arr (xs ++ [msg])) }, .unit)
      else (s, .unit)
    | _ => (s, .err)
  | .popFlash queue =>
    -- lines 292-295: manage_changed; self.pop('_f_'+queue, [])
    let s := touchChanged now s
    opPop now (flashKey queue) (some (.arr [])) s
  | .peekFlash queue =>
    -- lines 297-300: manage_accessed; self.get('_f_'+queue, [])
    let s := touchAccessed cfg now s
    let (s, r) := opGet cfg now (flashKey queue) s
    (s, .val (r.getD (.arr [])))
  | .newCsrf tok => (opNewCsrf now tok s, .val (.str tok))
  | .getCsrf tok =>
    -- lines 309-314: manage_accessed; token = self.get('_csrft_', None); if None: new_csrf_token()
    let s := touchAccessed cfg now s
    let (s, r) := opGet cfg now csrfKey s
    match r with
    | some .null => (opNewCsrf now tok s, .val (.str tok))
    | none => (opNewCsrf now tok s, .val (.str tok))
    | some v => (s, .val v)
  | .invalidate => (opClear now s, .unit)
  | .changed => (markChanged s, .unit)

/-- the operations of one view: each is preceded by a clock advance -/
def runOps (cfg : Cfg) : Q → Sess → List (Nat × Op) → Q × Sess × List Res
  | clock, s, [] => (clock, s, [])
  | clock, s, (dq, op) :: rest =>
    let now := clock + dq
    let (s', r) := runOp cfg now op s
    let (c, s'', rs) := runOps cfg now s' rest
    (c, s'', r :: rs)

/-! ## End of the request: the response callback -/

inductive Outcome (κ : Type) where
  /-- `changed()` never ran: no callback -/
  | noCookie
  /-- `response.set_cookie(name, value=c, …)` -/
  | cookie (c : κ)
  /-- `set_on_exception=False` and `request.exception is not None`: `_set_cookie` returns `False` -/
  | suppressed
  /-- `ValueError('Cookie value is too long to store')` out of the response callback -/
  | oversize
  deriving Repr

def Sess.payload (s : Sess) : Payload := ⟨s.accessed, s.accInt, s.created, s.data⟩

/-- the callback registered by `changed` = `_set_cookie` (lines 317-342); `raised` = the view raised and
an exception view rendered the response (`request.exception is not None`) -/
def finish {κ : Type} (C : Codec κ) (cfg : Cfg) (raised : Bool) (s : Sess) : Outcome κ :=
  if !s.dirty then .noCookie
  else if !cfg.setOnExc && raised then .suppressed
  else
    let c := C.dumps s.payload
    if C.size c > cookieLimit then .oversize else .cookie c

/-! ## Chains of requests -/

/-- which cookie a request sends -/
inductive Present (κ : Type) where
  /-- the cookie most recently set (nothing if none was ever set) -/
  | latest
  | absent
  /-- the `k`-th most recent `Set-Cookie` (0 = latest): replay of an older, validly signed cookie -/
  | issued (k : Nat)
  /-- any other cookie value (edited, foreign key, hand-made) -/
  | other (c : κ)
  deriving Repr

structure Req (κ : Type) where
  /-- clock advance before the request -/
  dq : Nat
  present : Present κ
  /-- `none`: the view never touches `request.session` -/
  ops : Option (List (Nat × Op))
  /-- the view raises after its operations and an exception view renders the response -/
  raised : Bool
  deriving Repr

structure World (κ : Type) where
  clock : Q
  /-- every cookie set so far, newest first -/
  issued : List κ
  deriving Repr

/-- what one request shows -/
structure Obs (κ : Type) where
  touched : Bool
  /-- clock when `request.session` was created -/
  loadClock : Q
  presented : Option κ
  /-- `request.session` raised (see `load`) -/
  loadRaised : Bool
  start : Option Sess
  results : List Res
  final : Option Sess
  outcome : Outcome κ
  deriving Repr

def resolve {κ : Type} (w : World κ) : Present κ → Option κ
  | .latest => w.issued.head?
  | .absent => none
  | .issued k => w.issued[k]?
  | .other c => some c

/-- the jar after the response: a cookie that was set goes in front -/
def pushCookie {κ : Type} (out : Outcome κ) (issued : List κ) : List κ :=
  match out with
  | .cookie c => c :: issued
  | _ => issued

def stepReq {κ : Type} (C : Codec κ) (cfg : Cfg) (w : World κ) (r : Req κ) : World κ × Obs κ :=
  let clock := w.clock + r.dq
  match r.ops with
  | none => ({ w with clock := clock },
             { touched := false, loadClock := clock, presented := none, loadRaised := false, start := none,
               results := [], final := none, outcome := .noCookie })
  | some ops =>
    let pres := resolve w r.present
    match load cfg clock (pres.bind C.loads) with
    | none => ({ w with clock := clock },
               { touched := true, loadClock := clock, presented := pres, loadRaised := true, start := none,
                 results := [], final := none, outcome := .noCookie })
    | some s0 =>
      let (clock', s1, results) := runOps cfg clock s0 ops
      let out := finish C cfg r.raised s1
      ({ clock := clock', issued := pushCookie out w.issued },
       { touched := true, loadClock := clock, presented := pres, loadRaised := false, start := some s0,
         results := results, final := some s1, outcome := out })

def runHistory {κ : Type} (C : Codec κ) (cfg : Cfg) : World κ → List (Req κ) → World κ × List (Obs κ)
  | w, [] => (w, [])
  | w, r :: rest =>
    let (w', o) := stepReq C cfg w r
    let (w'', os) := runHistory C cfg w' rest
    (w'', o :: os)

/-! ## Python's concrete size of the cookie (used by the driver's codec) -/

def natLen (n : Nat) : Nat := (toString n).length

/-- `len(repr(q/4))` as `json.dumps` prints a float: `100.0`, `100.25`, `100.5`, `100.75` -/
def floatLen (q : Q) : Nat :=
  natLen (q / 4) + (if q % 4 == 0 then 2 else if q % 4 == 2 then 2 else 3)

def stampLen (q : Q) (isInt : Bool) : Nat := if isInt then natLen (q / 4) else floatLen q

/-- `len(json.dumps((accessed, created, dict(self))))` -/
def payloadJsonLen (p : Payload) : Nat :=
  1 + stampLen p.accessed p.accInt + 2 + floatLen p.created + 2 + (2 + JV.jlenO p.data) + 1

/-- `len(urlsafe_b64encode(sig + cstruct).rstrip(b'='))` for a digest of `dsize` bytes -/
def signedLen (dsize jsonLen : Nat) : Nat := (4 * (dsize + jsonLen) + 2) / 3

/-! ## `SignedSerializer` over abstract parts (webob/cookies.py lines 653-685) -/

/-- The parts of `SignedSerializer(secret, salt, hashalg, serializer=…)`:
`ser`/`deser` = the inner serialiser's `dumps/loads` (for the session: `JSONSerializer` plus the reading of the value
as a `Wire`; `π` = what is serialised, `ω` = what `loads` gives back; `none` = `ValueError`),
`mac k` = `hmac.new(k, ·, hashalg).digest()`, `dlen` = `digest_size`,
`enc` = `urlsafe_b64encode(·).rstrip(b'=')`, `dec` = re-pad and `urlsafe_b64decode` (`none` = `binascii.Error`),
`len` = length of the cookie text.  `τ` = cookie text, `K` = the HMAC key `bytes(salt) + bytes(secret)`. -/
structure SignedParts (K τ π ω : Type) where
  ser : π → List UInt8
  deser : List UInt8 → Option ω
  mac : K → List UInt8 → List UInt8
  dlen : Nat
  enc : List UInt8 → τ
  dec : τ → Option (List UInt8)
  len : τ → Nat

/-- `SignedSerializer.dumps` -/
def SignedParts.dumps {K τ π ω : Type} (P : SignedParts K τ π ω) (k : K) (p : π) : τ :=
  let c := P.ser p
  P.enc (P.mac k c ++ c)

/-- `SignedSerializer.loads` -/
def SignedParts.loads {K τ π ω : Type} (P : SignedParts K τ π ω) (k : K) (t : τ) : Option ω :=
  match P.dec t with
  | none => none
  | some f =>
    let c := f.drop P.dlen
    let sig := f.take P.dlen
    if P.mac k c == sig then P.deser c else none

/-- `self.salted_secret = bytes_(salt or '') + bytes_(secret)` -/
def saltedKey (salt secret : List UInt8) : List UInt8 := salt ++ secret

def signedCodec {K τ : Type} (P : SignedParts K τ Payload Wire) (k : K) : Codec τ :=
  { dumps := P.dumps k, loads := P.loads k, size := P.len }

end Pyr.Session
