/-
C09 — executable model of pyramid's auth-ticket cookies.

Mirrors, line by line where it matters (src/pyramid/authentication.py at /repo HEAD):
  `AuthTicket.cookie_value` (719-724), `calculate_digest` (784-807), `encode_ip_timestamp` (811-821),
  `parse_ticket` (741-780), `AuthTktCookieHelper.identify` (1048-1114), `.forget` (1116-1120),
  `.remember` (1122-1198), `._get_cookies` (1027-1046), `b64encode/b64decode` (654-659), the
  `userid_type_encoders/decoders` tables (973-984), `VALID_TOKEN` (23);
  src/pyramid/util.py `strings_differ` (320-345), `bytes_`/`text_`/`ascii_`.
Library pieces that the code calls and that are modelled here (tied by the correspondence run only):
  `int(s, base)` on `str`, `'%08x' %`, `str(int)`, `urllib.parse.quote/unquote`, UTF-8 encode / strict decode /
  decode with `errors='replace'`, latin-1 encode, `base64.b64encode`, `binascii.a2b_base64` (non-strict),
  `str.strip/split/startswith`.
Parameters (NOT modelled): the hash function (`Hash.fn`, uninterpreted, with its digest size) and the Unicode
  database for non-ASCII characters (`Uni`: which are whitespace / decimal digits — only `int()` looks at it).
WebOb's cookie parsing and `Set-Cookie` serialisation are outside the model: the model starts from the text
  `request.cookies.get(name)` returns and ends at the attribute record handed to `CookieProfile.get_headers`.

Core Lean only (linked into `drv_c09`).
-/
import PyramidModel.Prelude

namespace Pyr.AuthTkt

abbrev Bytes := List UInt8

/-- the uninterpreted hash: `hashlib.new(alg)`; `size` = `digest_size` in bytes -/
structure Hash where
  size : Nat
  fn : Bytes → Bytes

/-- what `int()` asks the Unicode database about a non-ASCII character -/
structure Uni where
  isSpace : Char → Bool
  decimal : Char → Option Nat

structure Env where
  H : Hash
  U : Uni

inductive Err where
  | valueError | unicodeEncodeError | unicodeDecodeError | binasciiError | typeError
  | unmodelled   -- a path of the real code this model does not follow (only reachable after an accepted digest)
  deriving DecidableEq, Repr, Inhabited

abbrev Res := Except Err

/-! ## bytes and text -/

def byteOfNat (n : Nat) : UInt8 := UInt8.ofNat n

/-- `str.encode('latin-1')`: fails on a character ≥ 256 -/
def latin1Enc : Text → Res Bytes
  | [] => pure []
  | c :: r => if c.toNat < 256 then (byteOfNat c.toNat :: ·) <$> latin1Enc r else throw .unicodeEncodeError

/-- UTF-8 encoding of one scalar value -/
def utf8EncChar (c : Char) : Bytes :=
  let n := c.toNat
  if n < 0x80 then [byteOfNat n]
  else if n < 0x800 then [byteOfNat (0xC0 + n / 64), byteOfNat (0x80 + n % 64)]
  else if n < 0x10000 then [byteOfNat (0xE0 + n / 4096), byteOfNat (0x80 + n / 64 % 64), byteOfNat (0x80 + n % 64)]
  else [byteOfNat (0xF0 + n / 262144), byteOfNat (0x80 + n / 4096 % 64), byteOfNat (0x80 + n / 64 % 64),
        byteOfNat (0x80 + n % 64)]

/-- `str.encode('utf-8')` (total on scalar values) -/
def utf8Enc (t : Text) : Bytes := t.flatMap utf8EncChar

def isCont (b : UInt8) : Bool := 0x80 ≤ b.toNat && b.toNat < 0xC0

/-- one step of CPython's UTF-8 decoder: `(some c, k)` = a character made of `k` bytes, `(none, k)` = an error
covering `k` bytes (the maximal valid prefix, as CPython reports `endinpos`); defined for non-empty input -/
def utf8Step (b0 : UInt8) (rest : Bytes) : Option Char × Nat :=
  let n0 := b0.toNat
  if n0 < 0x80 then (some (Char.ofNat n0), 0)
  else if n0 < 0xC2 then (none, 0)
  else if n0 < 0xE0 then
    match rest with
    | b1 :: _ => if isCont b1 then (some (Char.ofNat ((n0 - 0xC0) * 64 + (b1.toNat - 0x80))), 1) else (none, 0)
    | [] => (none, 0)
  else if n0 < 0xF0 then
    match rest with
    | b1 :: r1 =>
      let lo := if n0 = 0xE0 then 0xA0 else 0x80
      let hi := if n0 = 0xED then 0xA0 else 0xC0
      if lo ≤ b1.toNat && b1.toNat < hi then
        match r1 with
        | b2 :: _ =>
          if isCont b2 then
            (some (Char.ofNat ((n0 - 0xE0) * 4096 + (b1.toNat - 0x80) * 64 + (b2.toNat - 0x80))), 2)
          else (none, 1)
        | [] => (none, 1)
      else (none, 0)
    | [] => (none, 0)
  else if n0 < 0xF5 then
    match rest with
    | b1 :: r1 =>
      let lo := if n0 = 0xF0 then 0x90 else 0x80
      let hi := if n0 = 0xF4 then 0x90 else 0xC0
      if lo ≤ b1.toNat && b1.toNat < hi then
        match r1 with
        | b2 :: r2 =>
          if isCont b2 then
            match r2 with
            | b3 :: _ =>
              if isCont b3 then
                (some (Char.ofNat ((n0 - 0xF0) * 262144 + (b1.toNat - 0x80) * 4096 + (b2.toNat - 0x80) * 64
                                    + (b3.toNat - 0x80))), 3)
              else (none, 2)
            | [] => (none, 2)
          else (none, 1)
        | [] => (none, 1)
      else (none, 0)
    | [] => (none, 0)
  else (none, 0)

/-- `bytes.decode('utf-8', 'strict')` — `none` = UnicodeDecodeError -/
def utf8DecStrict : Bytes → Option Text
  | [] => some []
  | b0 :: rest =>
    match utf8Step b0 rest with
    | (some c, k) => (c :: ·) <$> utf8DecStrict (rest.drop k)
    | (none, _) => none
termination_by bs => bs.length
decreasing_by simp [List.length_drop]; omega

/-- `bytes.decode('utf-8', 'replace')` -/
def utf8DecReplace : Bytes → Text
  | [] => []
  | b0 :: rest =>
    match utf8Step b0 rest with
    | (some c, k) => c :: utf8DecReplace (rest.drop k)
    | (none, k) => Char.ofNat 0xFFFD :: utf8DecReplace (rest.drop k)
termination_by bs => bs.length
decreasing_by all_goals (simp [List.length_drop]; omega)

/-! ## numbers as text -/

/-- `_PyLong_DigitValue` -/
def digitVal (c : Char) : Option Nat :=
  let n := c.toNat
  if 48 ≤ n && n ≤ 57 then some (n - 48)
  else if 97 ≤ n && n ≤ 122 then some (n - 87)
  else if 65 ≤ n && n ≤ 90 then some (n - 55)
  else none

/-- `Py_ISSPACE` -/
def isAsciiSpace (c : Char) : Bool := c.toNat = 32 || (9 ≤ c.toNat && c.toNat ≤ 13)

/-- `_PyUnicode_TransformDecimalAndSpaceToASCII`, per character -/
def transformChar (U : Uni) (c : Char) : Char :=
  if c.toNat < 127 then c
  else if U.isSpace c then ' '
  else match U.decimal c with
    | some d => Char.ofNat (48 + d)
    | none => '?'

/-- the digit loop of `long_from_string_base`: single underscores between digits; returns value and rest -/
def scanDigits (base : Nat) : List Char → (prevUnderscore : Bool) → (acc nd : Nat) → Option (Nat × List Char)
  | [], pu, acc, nd => if pu || nd == 0 then none else some (acc, [])
  | c :: r, pu, acc, nd =>
    if c = '_' then
      if pu || nd == 0 then none else scanDigits base r true acc nd
    else
      match digitVal c with
      | some d =>
        if d < base then scanDigits base r false (acc * base + d) (nd + 1)
        else if pu || nd == 0 then none else some (acc, c :: r)
      | none => if pu || nd == 0 then none else some (acc, c :: r)

/-- optional sign of `PyLong_FromString` -/
def stripSign (s : Text) : Bool × Text :=
  match s with
  | c :: r => if c = '-' then (true, r) else if c = '+' then (false, r) else (false, s)
  | [] => (false, s)

/-- optional `0x`/`0X` prefix (base 16 only), after which one underscore is allowed -/
def strip0x (base : Nat) (s : Text) : Text :=
  if base = 16 then
    match s with
    | c :: x :: r =>
      if c = '0' ∧ (x = 'x' ∨ x = 'X') then
        (match r with
         | u :: r' => if u = '_' then r' else r
         | [] => r)
      else s
    | _ => s
  else s

/-- Python `int(s, base)` for a `str` `s` and `base` ∈ {10, 16}; `none` = ValueError -/
def pyInt (U : Uni) (base : Nat) (s : Text) : Option Int :=
  let s := (s.map (transformChar U)).dropWhile isAsciiSpace
  let (neg, s) := stripSign s
  match scanDigits base (strip0x base s) false 0 0 with
  | none => none
  | some (v, rest) =>
    if rest.all isAsciiSpace then some (if neg then - (v : Int) else (v : Int)) else none

def digitChar (n : Nat) : Char := if n < 10 then Char.ofNat (48 + n) else Char.ofNat (87 + n)

/-- digits of `n` in `base`, most significant first, at least one -/
def natDigits (base : Nat) (n : Nat) : List Char :=
  if _h : n < base ∨ base < 2 then [digitChar n] else natDigits base (n / base) ++ [digitChar (n % base)]
termination_by n
decreasing_by
  apply Nat.div_lt_self <;> omega

/-- `str(z)` for a Python int -/
def decStr (z : Int) : Text := if z < 0 then '-' :: natDigits 10 z.natAbs else natDigits 10 z.toNat

/-- `'%08x' % n` for `n ≥ 0` -/
def hex8 (n : Nat) : Text :=
  let d := natDigits 16 n
  List.replicate (8 - d.length) '0' ++ d

/-- `hexdigest()`: lower-case hex of the digest bytes -/
def hexOf (bs : Bytes) : Text := bs.flatMap fun b => [digitChar (b.toNat / 16), digitChar (b.toNat % 16)]

/-! ## urllib.parse.quote / unquote -/

/-- `_ALWAYS_SAFE` plus the default `safe='/'` -/
def quoteSafe (b : UInt8) : Bool :=
  let n := b.toNat
  (48 ≤ n && n ≤ 57) || (65 ≤ n && n ≤ 90) || (97 ≤ n && n ≤ 122) || n = 45 || n = 46 || n = 95 || n = 126 || n = 47

def upHexChar (n : Nat) : Char := if n < 10 then Char.ofNat (48 + n) else Char.ofNat (55 + n)

/-- `quote_from_bytes(bs)` -/
def quoteBytes (bs : Bytes) : Text :=
  bs.flatMap fun b => if quoteSafe b then [Char.ofNat b.toNat] else ['%', upHexChar (b.toNat / 16), upHexChar (b.toNat % 16)]

def hexVal (c : Char) : Option Nat :=
  match digitVal c with
  | some d => if d < 16 then some d else none
  | none => none

inductive UqItem where
  | byte (b : UInt8)
  | chr (c : Char)       -- a non-ASCII character, passed through
  deriving Repr

/-- the byte of a `%XX` escape whose two characters after the `%` head the given text -/
def pctByte : Text → Option UInt8
  | a :: b :: _ =>
    match hexVal a, hexVal b with
    | some x, some y => some (byteOfNat (x * 16 + y))
    | _, _ => none
  | _ => none

/-- `_unquote_impl` on the ASCII runs, non-ASCII characters kept -/
def unquoteItems : Text → List UqItem
  | [] => []
  | c :: r =>
    if c.toNat ≥ 128 then .chr c :: unquoteItems r
    else if c = '%' then
      match pctByte r with
      | some b => .byte b :: unquoteItems (r.drop 2)
      | none => .byte 37 :: unquoteItems r
    else .byte (byteOfNat c.toNat) :: unquoteItems r
termination_by t => t.length
decreasing_by all_goals (simp [List.length_drop]; try omega)

/-- decode every maximal run of bytes with `errors='replace'`, keep the characters between them -/
def decodeItems : List UqItem → Bytes → Text
  | [], acc => utf8DecReplace acc.reverse
  | .byte b :: r, acc => decodeItems r (b :: acc)
  | .chr c :: r, acc => utf8DecReplace acc.reverse ++ c :: decodeItems r []

/-- `urllib.parse.unquote(s)` (utf-8, errors='replace') -/
def unquote (s : Text) : Text := decodeItems (unquoteItems s) []

/-! ## base64 -/

def b64Char (n : Nat) : Char :=
  if n < 26 then Char.ofNat (65 + n)
  else if n < 52 then Char.ofNat (71 + n)
  else if n < 62 then Char.ofNat (n - 4)
  else if n = 62 then '+' else '/'

/-- `base64.b64encode` (standard alphabet, padded, no newlines) — as text; the bytes are its ASCII codes -/
def b64enc : Bytes → Text
  | [] => []
  | [a] => [b64Char (a.toNat / 4), b64Char (a.toNat % 4 * 16), '=', '=']
  | [a, b] => [b64Char (a.toNat / 4), b64Char (a.toNat % 4 * 16 + b.toNat / 16), b64Char (b.toNat % 16 * 4), '=']
  | a :: b :: c :: r =>
    b64Char (a.toNat / 4) :: b64Char (a.toNat % 4 * 16 + b.toNat / 16) ::
      b64Char (b.toNat % 16 * 4 + c.toNat / 64) :: b64Char (c.toNat % 64) :: b64enc r

def b64Val (n : Nat) : Option Nat :=
  if 65 ≤ n && n ≤ 90 then some (n - 65)
  else if 97 ≤ n && n ≤ 122 then some (n - 71)
  else if 48 ≤ n && n ≤ 57 then some (n + 4)
  else if n = 43 then some 62
  else if n = 47 then some 63
  else none

/-- `binascii.a2b_base64(data, strict_mode=False)` as the C loop: state = (quad_pos, leftchar, pads) and
the output so far (reversed).  `none` = binascii.Error -/
def b64decLoop : Bytes → (quad left pads : Nat) → (out : Bytes) → Option Bytes
  | [], quad, _, _, out => if quad = 0 then some out.reverse else none
  | ch :: r, quad, left, pads, out =>
    if ch.toNat = 61 then
      if quad ≥ 2 && quad + (pads + 1) ≥ 4 then some out.reverse
      else b64decLoop r quad left (if quad ≥ 2 then pads + 1 else pads) out
    else
      match b64Val ch.toNat with
      | none => b64decLoop r quad left pads out
      | some v =>
        match quad with
        | 0 => b64decLoop r 1 v 0 out
        | 1 => b64decLoop r 2 (v % 16) 0 (byteOfNat (left * 4 + v / 16) :: out)
        | 2 => b64decLoop r 3 (v % 4) 0 (byteOfNat (left * 16 + v / 4) :: out)
        | _ => b64decLoop r 0 0 0 (byteOfNat (left * 64 + v) :: out)

def b64dec (bs : Bytes) : Option Bytes := b64decLoop bs 0 0 0 []

/-! ## small string helpers -/

/-- `s.split(sep, 1)` when `sep` occurs: the parts before and after the first occurrence -/
def splitFirst (sep : Char) : Text → Option (Text × Text)
  | [] => none
  | c :: r =>
    if c = sep then some ([], r)
    else match splitFirst sep r with
      | some (a, b) => some (c :: a, b)
      | none => none

/-- `s.split(sep)`: always at least one part -/
def splitAll (sep : Char) : Text → List Text
  | [] => [[]]
  | c :: r =>
    if c = sep then [] :: splitAll sep r
    else match splitAll sep r with
      | h :: t => (c :: h) :: t
      | [] => [[c]]

/-- `s.strip('"')` -/
def stripQuotes (t : Text) : Text :=
  ((t.dropWhile (· = '"')).reverse.dropWhile (· = '"')).reverse

/-! ## the digest -/

/-- `strings_differ(a, b)` of pyramid.util, statement by statement (`compare_digest` = equality of bytes) -/
def stringsDiffer (s1 s2 : Bytes) : Bool :=
  let lenEq := s1.length == s2.length
  let invalidBits := if lenEq then 0 else 1
  let left := if lenEq then s1 else s2
  let right := s2
  let invalidBits := invalidBits + (if left == right then 0 else 1)
  invalidBits != 0

/-- `chr(int(x))` for one dotted part of an IPv4 address, then its latin-1 byte -/
def ipOctet (U : Uni) (p : Text) : Res Nat :=
  match pyInt U 10 p with
  | none => throw .valueError
  | some z => if z < 0 ∨ z ≥ 0x110000 then throw .valueError else pure z.toNat

/-- `encode_ip_timestamp(ip, ts)` / the IPv6 branch of `calculate_digest` -/
def ipTimestamp (U : Uni) (ip : Text) (ts : Int) : Res Bytes :=
  if ip.contains ':' then
    latin1Enc (ip ++ decStr ts)
  else do
    let octs ← (splitAll '.' ip).mapM (ipOctet U)
    let t := (ts % 4294967296).toNat
    let all := octs ++ [t / 16777216 % 256, t / 65536 % 256, t / 256 % 256, t % 256]
    if all.all (· < 256) then pure (all.map byteOfNat) else throw .unicodeEncodeError

/-- the bytes fed to the first hash -/
def digestInput (ipts secret : Bytes) (userid tokens userData : Text) : Bytes :=
  ipts ++ secret ++ utf8Enc userid ++ [0] ++ utf8Enc tokens ++ [0] ++ utf8Enc userData

/-- second hash: hex of the first digest followed by the secret; result = `hexdigest()` text -/
def mac (H : Hash) (secret : Bytes) (x : Bytes) : Text :=
  hexOf (H.fn ((hexOf (H.fn x)).map (fun c => byteOfNat c.toNat) ++ secret))

/-- `calculate_digest(ip, timestamp, secret, userid, tokens, user_data, hashalg)`; `userid` is given as the
bytes `bytes_(userid, 'utf-8')` yields (the ticket holds `bytes` for the base64 userid types) -/
def calcDigestB (env : Env) (ip : Text) (ts : Int) (secret : Text) (userid : Bytes) (tokens userData : Text) : Res Text := do
  let ipts ← ipTimestamp env.U ip ts
  pure (mac env.H (utf8Enc secret)
    (ipts ++ utf8Enc secret ++ userid ++ [0] ++ utf8Enc tokens ++ [0] ++ utf8Enc userData))

def calcDigest (env : Env) (ip : Text) (ts : Int) (secret userid tokens userData : Text) : Res Text :=
  calcDigestB env ip ts secret (utf8Enc userid) tokens userData

/-! ## AuthTicket.cookie_value -/

/-- `AuthTicket(secret, userid, ip, tokens, user_data, time).cookie_value()`; `userid` ASCII text (what
`remember` hands over: decimal digits or base64), `tokens` already validated, `ts ≥ 0` -/
def cookieValue (env : Env) (secret : Text) (userid : Text) (ip : Text) (tokens : List Text) (userData : Text)
    (ts : Nat) : Res Text := do
  let toks := List.intercalate [','] tokens
  let d ← calcDigest env ip ts secret userid toks userData
  let v := d ++ hex8 ts ++ quoteBytes (utf8Enc userid) ++ ['!']
  let v := if toks.isEmpty then v else v ++ toks ++ ['!']
  pure (v ++ userData)

/-! ## parse_ticket -/

structure Parsed where
  ts : Int
  userid : Text
  tokens : Text
  userData : Text
  deriving DecidableEq, Repr

/-- the syntactic part of `parse_ticket`: digest field and the other fields; `none` = BadTicket -/
def parseFields (U : Uni) (dsz : Nat) (ticket : Text) : Option (Text × Parsed) :=
  let t := stripQuotes ticket
  let digest := t.take dsz
  match pyInt U 16 ((t.drop dsz).take 8) with
  | none => none
  | some ts =>
    match splitFirst '!' (t.drop (dsz + 8)) with
    | none => none
    | some (uq, data) =>
      let userid := unquote uq
      match splitFirst '!' data with
      | some (toks, ud) => some (digest, ⟨ts, userid, toks, ud⟩)
      | none => some (digest, ⟨ts, userid, [], data⟩)

/-- `parse_ticket(secret, ticket, ip, hashalg)`: `ok none` = BadTicket, `ok (some p)` = accepted -/
def parseTicket (env : Env) (secret ticket ip : Text) : Res (Option Parsed) :=
  match parseFields env.U (env.H.size * 2) ticket with
  | none => pure none
  | some (digest, p) => do
    let expected ← calcDigest env ip p.ts secret p.userid p.tokens p.userData
    if stringsDiffer (utf8Enc expected) (utf8Enc digest) then pure none else pure (some p)

/-! ## the helper -/

inductive UserId where
  | int (z : Int)
  | str (t : Text)
  | bytes (b : Bytes)
  | other (repr : Text)      -- any other Python type; `repr` = `str(userid)`
  deriving DecidableEq, Repr

inductive Tok where
  | str (t : Text)
  | nonstr
  deriving DecidableEq, Repr

structure Cfg where
  secret : Text
  cookieName : Text := "auth_tkt".toList
  secure : Bool := false
  includeIp : Bool := false
  timeout : Option Nat := none
  reissueTime : Option Nat := none
  maxAge : Option Nat := none
  httpOnly : Bool := false
  path : Text := ['/']
  wildDomain : Bool := true
  parentDomain : Bool := false
  domain : Option Text := none
  samesite : Option Text := some "Lax".toList
  deriving Repr

/-- how `expires` is set by `make_cookie` -/
inductive Expires where
  | absent | past | relative
  deriving DecidableEq, Repr

/-- what `_get_cookies` hands to WebOb for one `Set-Cookie` header -/
structure SetCookie where
  name : Text
  value : Text            -- empty for a deletion
  domain : Option Text
  path : Option Text
  maxAge : Option Nat
  expires : Expires
  secure : Bool
  httpOnly : Bool
  samesite : Option Text
  deriving DecidableEq, Repr

/-- the request as the helper sees it -/
structure Req where
  cookie : Option Text     -- `request.cookies.get(cookie_name)`
  remoteAddr : Text        -- `environ['REMOTE_ADDR']`
  domain : Text            -- `request.domain`
  now : Nat                -- `helper.now`
  clock : Nat              -- `int(time.time())` seen by `AuthTicket.__init__`

/-- per-request bookkeeping: `_authtkt_reissued`, `_authtkt_reissue_revoked`, the registered callbacks -/
structure St where
  reissued : Bool := false
  revoked : Bool := false
  callbacks : List (List SetCookie) := []
  deriving DecidableEq, Repr

structure Identity where
  ts : Int
  userid : UserId
  tokens : List Text
  userData : Text
  deriving DecidableEq, Repr

def countChar (c : Char) (t : Text) : Nat := (t.filter (· = c)).length

/-- the domain chosen by `_get_cookies` -/
def cookieDomain (cfg : Cfg) (curDomain : Text) : Option Text :=
  match cfg.domain with
  | some d => if d.isEmpty then fallback else some d
  | none => fallback
where
  fallback : Option Text :=
    if cfg.parentDomain && countChar '.' curDomain > 1 then
      match splitFirst '.' curDomain with
      | some (_, rest) => some rest
      | none => some curDomain
    else if cfg.wildDomain then some curDomain
    else none

def nonEmpty (t : Option Text) : Option Text :=
  match t with
  | some x => if x.isEmpty then none else some x
  | none => none

/-- `_get_cookies(request, value, max_age)`: `value = none` deletes; WebOb refuses values over 4093 bytes -/
def getCookies (cfg : Cfg) (req : Req) (value : Option Text) (maxAge : Option Nat) : Res (List SetCookie) :=
  let dom := nonEmpty (cookieDomain cfg req.domain)
  let pth := nonEmpty (some cfg.path)
  match value with
  | none =>
    pure [⟨cfg.cookieName, [], dom, pth, some 0, .past, cfg.secure, cfg.httpOnly, cfg.samesite⟩]
  | some v =>
    if v.length > 4093 then throw .valueError
    else
      let ma := match maxAge with | some m => some m | none => cfg.maxAge
      pure [⟨cfg.cookieName, v, dom, pth, ma, (if ma.isSome then .relative else .absent), cfg.secure, cfg.httpOnly,
             cfg.samesite⟩]

def isAlpha (c : Char) : Bool := (65 ≤ c.toNat && c.toNat ≤ 90) || (97 ≤ c.toNat && c.toNat ≤ 122)
def isTokChar (c : Char) : Bool :=
  isAlpha c || (48 ≤ c.toNat && c.toNat ≤ 57) || c = '+' || c = '_' || c = '-'

/-- `VALID_TOKEN = ^[A-Za-z][A-Za-z0-9+_-]*$` with Python's `$` (also matches before one final newline) -/
def validToken (t : Text) : Bool :=
  match t with
  | [] => false
  | c :: r =>
    isAlpha c &&
      (r.all isTokChar ||
        (match r.getLast? with
         | some l => l = '\n' && r.dropLast.all isTokChar
         | none => false))

/-- the token loop of `remember` -/
def checkTokens : List Tok → Res (List Text)
  | [] => pure []
  | .nonstr :: _ => throw .valueError
  | .str t :: r =>
    if t.all (·.toNat < 128) && validToken t then (t :: ·) <$> checkTokens r else throw .valueError

def tagInt : Text := ['i', 'n', 't']
def tagUnicode : Text := ['u', 'n', 'i', 'c', 'o', 'd', 'e']
def tagB64Unicode : Text := ['b', '6', '4', 'u', 'n', 'i', 'c', 'o', 'd', 'e']
def tagB64Str : Text := ['b', '6', '4', 's', 't', 'r']
/-- `'userid_type:'` -/
def userIdTypePrefix : Text := ['u', 's', 'e', 'r', 'i', 'd', '_', 't', 'y', 'p', 'e', ':']

/-- `userid_type_encoders`: the type tag and the text put into the ticket -/
def encodeUserid : UserId → Text × Text
  | .int z => (tagInt, decStr z)
  | .str t => (tagB64Unicode, b64enc (utf8Enc t))
  | .bytes b => (tagB64Str, b64enc b)
  | .other r => (tagB64Unicode, b64enc (utf8Enc r))

def remoteAddr (cfg : Cfg) (req : Req) : Text := if cfg.includeIp then req.remoteAddr else ['0', '.', '0', '.', '0', '.', '0']

/-- `AuthTktCookieHelper.remember(request, userid, max_age, tokens)`.  `internal` = the call `identify` makes for a
reissue (`request._authtkt_reissuing` is set around it): only an application call revokes a reissue -/
def remember (env : Env) (cfg : Cfg) (req : Req) (st : St) (internal : Bool) (userid : UserId) (maxAge : Option Nat)
    (tokens : List Tok) :
    Res (List SetCookie) × St :=
  let (tag, uid) := encodeUserid userid
  let userData := userIdTypePrefix ++ tag
  match checkTokens tokens with
  | .error e => (.error e, st)
  | .ok toks =>
    let st' := if internal then st else { st with revoked := true }
    match cookieValue env cfg.secret uid (remoteAddr cfg req) toks userData req.clock with
    | .error e => (.error e, st')
    | .ok v => (getCookies cfg req (some v) maxAge, st')

/-- `AuthTktCookieHelper.forget(request)` -/
def forget (cfg : Cfg) (req : Req) (st : St) : Res (List SetCookie) × St :=
  (getCookies cfg req none none, { st with revoked := true })

/-- `int` -/
def decInt (U : Uni) (t : Text) : Res UserId :=
  match pyInt U 10 t with
  | some z => pure (.int z)
  | none => throw .valueError

/-- `lambda x: utf_8_decode(x)[0]` applied to a `str`: not bytes-like -/
def decUnicode (_ : Text) : Res UserId := throw .typeError

/-- `lambda x: utf_8_decode(b64decode(x))[0]` -/
def decB64Unicode (t : Text) : Res UserId :=
  match latin1Enc t with
  | .error e => throw e
  | .ok b =>
    match b64dec b with
    | none => throw .binasciiError
    | some raw =>
      match utf8DecStrict raw with
      | none => throw .unicodeDecodeError
      | some s => pure (.str s)

/-- `lambda x: b64decode(x)` -/
def decB64Str (t : Text) : Res UserId :=
  match latin1Enc t with
  | .error e => throw e
  | .ok b =>
    match b64dec b with
    | none => throw .binasciiError
    | some raw => pure (.bytes raw)

/-- `userid_type_decoders.get(typ)` -/
def decoder (U : Uni) (typ : Text) : Option (Text → Res UserId) :=
  if typ = tagInt then some (decInt U)
  else if typ = tagUnicode then some decUnicode
  else if typ = tagB64Unicode then some decB64Unicode
  else if typ = tagB64Str then some decB64Str
  else none

/-- the `for datum in filter(None, user_data.split('|'))` loop of `identify` -/
def decodeLoop (U : Uni) : List Text → UserId → Res UserId
  | [], u => pure u
  | datum :: r, u =>
    if datum.isEmpty then decodeLoop U r u
    else if userIdTypePrefix.isPrefixOf datum then
      match decoder U (datum.drop userIdTypePrefix.length) with
      | none => decodeLoop U r u
      | some dec =>
        match u with
        | .str t => do
          let u' ← dec t
          decodeLoop U r u'
        | _ => throw .unmodelled      -- a second decoder applied to an already decoded value
    else decodeLoop U r u

/-- `self.timeout and ((timestamp + self.timeout) < now)` -/
def isExpired (cfg : Cfg) (now : Nat) (ts : Int) : Bool :=
  match cfg.timeout with
  | some t => t != 0 && ts + (t : Int) < (now : Int)
  | none => false

/-- `reissue and not hasattr(request, '_authtkt_reissued')` and `(now - timestamp) > self.reissue_time` -/
def reissueDue (cfg : Cfg) (st : St) (now : Nat) (ts : Int) : Bool :=
  match cfg.reissueTime with
  | some rt => !st.reissued && (now : Int) - ts > (rt : Int)
  | none => false

/-- `AuthTktCookieHelper.identify(request)` -/
def identify (env : Env) (cfg : Cfg) (req : Req) (st : St) : Res (Option Identity) × St :=
  match req.cookie with
  | none => (pure none, st)
  | some cookie =>
    match parseTicket env cfg.secret cookie (remoteAddr cfg req) with
    | .error e => (.error e, st)
    | .ok none => (pure none, st)
    | .ok (some p) =>
      if isExpired cfg req.now p.ts then (pure none, st)
      else
        match decodeLoop env.U (splitAll '|' p.userData) (.str p.userid) with
        | .error e => (.error e, st)
        | .ok userid =>
          let tokens := splitAll ',' p.tokens
          if reissueDue cfg st req.now p.ts then
            let tokens := tokens.filter (!·.isEmpty)
            match remember env cfg req st true userid cfg.maxAge (tokens.map .str) with
            | (.error e, st') => (.error e, st')
            | (.ok headers, st') =>
              (pure (some ⟨p.ts, userid, tokens, p.userData⟩),
               { st' with reissued := true, callbacks := st'.callbacks ++ [headers] })
          else
            (pure (some ⟨p.ts, userid, tokens, p.userData⟩), st)

/-- the response callbacks: every registered `reissue_authtkt` appends its headers unless revoked -/
def finish (st : St) : List SetCookie :=
  if st.revoked then [] else st.callbacks.flatMap id

/-! ## operation sequences inside one request -/

inductive Op where
  | identify
  | remember (userid : UserId) (maxAge : Option Nat) (tokens : List Tok)
  | forget
  deriving Repr

inductive OpResult where
  | identity (r : Res (Option Identity))
  | headers (r : Res (List SetCookie))
  deriving Repr

def step (env : Env) (cfg : Cfg) (req : Req) (st : St) : Op → OpResult × St
  | .identify => let (r, s) := identify env cfg req st; (.identity r, s)
  | .remember u m t => let (r, s) := remember env cfg req st false u m t; (.headers r, s)
  | .forget => let (r, s) := forget cfg req st; (.headers r, s)

def runOps (env : Env) (cfg : Cfg) (req : Req) : St → List Op → List OpResult × St
  | st, [] => ([], st)
  | st, op :: ops =>
    let (r, st') := step env cfg req st op
    let (rs, st'') := runOps env cfg req st' ops
    (r :: rs, st'')

end Pyr.AuthTkt
