import PyramidModel.Route
import PyramidModel.PctCode
import PyramidModel.Gen.C06
/-!
C06 — executable model of route URL generation and of the way a generated path comes back to the matcher.
Core Lean only.  Tokens, the `%`-template (`genTemplate`) and the matcher are C01's (`PyramidModel.Route`, read-only);
percent-coding and UTF-8 are C02's/C17's (`Pyr.Trav`, `Pyr.Pct`); the safe-character sets are measured on the tree
under test on every run (`Gen/C06.lean`, by `extract/c06.py`, through `Route.generate` / `Request.route_path`).

Functions modelled (line numbers of src/pyramid/urldispatch.py unless said otherwise)
* `atomText`, `qAtom`          `quote_path_segment(v, safe=PATH_SAFE)` on a str / bytes / other object
                               (traversal.py 539-579: `str()` of non-str/bytes, `text_(segment,'utf-8')`, `url_quote`)  (199-200)
* `quoteVal`, `newDict`        the `for k, v in dict.items()` loop of the `generator` closure: bytes decoded, remainder
                               sequences quoted per element and joined with `/`, everything else `str()` + `q`          (202-223)
* `fmtScan`                    `gen % newdict` — Python's `%`-formatting of a `str` with a mapping, for the directives
                               `_compile_route` can emit (`%%`, `%(name)s`); anything else is `Err.format`              (225)
* `generate`                   `route.generate(kw)` = `fmtScan (newDict kw) (genTemplate toks)`                          (197-226)
* `joinElements`, `joinMemo`, `routeSuffix`, `routePath`, `routeUrl`
                               `_join_elements`, `route_url`, `route_path` of src/pyramid/url.py (261-272, 302-303, 890-893);
                               the query string, the fragment and scheme+authority are *parameters* (they are C17's)
* `targetPath`                 what a client/server take as the path of a request target: up to the first `?` or `#`
* `wsgiPathInfo`               the server: percent-decode the path to bytes (= the latin-1 `str` of PEP 3333); with a
                               `SCRIPT_NAME` the mounted prefix is taken off                       (traversal.py 532-533)
* `serverDecode`               then `request.path_info or '/'` with `decode_path_info` (C01's `requestPath`)
* `requestMatch`               then `route.match(path)` (C01's `matchToks`)

The cache `_segment_cache` is not modelled: the model is a function of its arguments; that the implementation is one
too (whatever was quoted before, with whatever `safe`) is what the history part of the correspondence run checks.
-/
namespace Pyr.UrlGen

open Pyr Pyr.Trav Pyr.Pct Pyr.Route
open Pyr.Rx (Rx Ucd)

/-! ### values -/

/-- one value as the caller passes it -/
inductive Atom where
  | str (t : Text)          -- `str`
  | bytes (b : Bytes)       -- `bytes`: decoded as UTF-8
  | int (i : Int)           -- `int`: `str(i)`
  | other (s : Text)        -- any other object; `s` is its `str()` (supplied, not modelled)
deriving Repr, DecidableEq

/-- `str(i)` for an `int` -/
def intText : Int → Text
  | .ofNat n => Nat.toDigits 10 n
  | .negSucc n => '-' :: Nat.toDigits 10 (n + 1)

/-- the text that gets quoted; `none` = `UnicodeDecodeError` (bytes that are not UTF-8) -/
def atomText : Atom → Option Text
  | .str t => some t
  | .bytes b => utf8Dec b
  | .int i => some (intText i)
  | .other s => some s

/-- a keyword value handed to `route.generate` -/
inductive KVal where
  | one (a : Atom)
  | many (xs : List Atom)     -- a non-string iterable (list / tuple)
deriving Repr, DecidableEq

abbrev Kw := List (Text × KVal)

inductive Err where
  | keyError          -- a placeholder of the pattern has no value
  | unicodeDecode     -- a bytes value is not UTF-8
  | format            -- `gen % newdict` meets a directive other than `%%` / `%(name)s` (ValueError / TypeError)
  | outside           -- a sequence passed for something that is not the remainder (`str(list)`: not modelled)
deriving Repr, DecidableEq

def valSafe : List UInt8 := Pyr.Gen.C06.valSafe
def elemSafe : List UInt8 := Pyr.Gen.C06.elemSafe
def scriptSafe : List UInt8 := Pyr.Gen.C06.scriptSafe
def litSafe : List UInt8 := Pyr.Gen.C06.litSafePrefix

/-- `q(x)` -/
def qAtom (a : Atom) : Except Err Text :=
  match atomText a with
  | some t => .ok (quote valSafe t)
  | none => .error .unicodeDecode

/-- `[q(x) for x in v]`: the first element that fails raises -/
def qAtoms : List Atom → Except Err (List Text)
  | [] => .ok []
  | a :: as =>
    match qAtom a with
    | .error e => .error e
    | .ok t =>
      match qAtoms as with
      | .error e => .error e
      | .ok ts => .ok (t :: ts)

/-- the name of the remainder group, if the pattern has one -/
def remName : List Tok → Option Text
  | [] => none
  | .rest n :: _ => some n
  | _ :: ts => remName ts

/-- one round of the loop body: the quoted text stored in `newdict[k]` -/
def quoteVal (rem : Option Text) (k : Text) : KVal → Except Err Text
  | .one a => qAtom a
  | .many xs =>
    if rem = some k then
      match qAtoms xs with
      | .ok ts => .ok (joinWith '/' ts)
      | .error e => .error e
    else .error .outside

/-- the `for k, v in dict.items()` loop: every entry is processed, used by the pattern or not -/
def newDict (rem : Option Text) : Kw → Except Err (List (Text × Text))
  | [] => .ok []
  | (k, v) :: rest =>
    match quoteVal rem k v with
    | .error e => .error e
    | .ok t =>
      match newDict rem rest with
      | .error e => .error e
      | .ok d => .ok ((k, t) :: d)

/-! ### `gen % newdict` -/

/-- scanner state of `%`-formatting: plain text / just after `%` / inside `%(…` with the key so far (reversed) and
the number of open inner parentheses / after the `)` with the value found -/
inductive FSt where
  | txt
  | pct
  | key (acc : Text) (depth : Nat)
  | conv (val : Text)
deriving Repr, DecidableEq

/-- `template % nd` for the directives `%%` and `%(key)s`.  The key is looked up as soon as its `)` is read
(so a missing key is `KeyError` whatever follows), keys may contain balanced parentheses. -/
def fmtScan (nd : List (Text × Text)) : FSt → Text → Except Err Text
  | .txt, [] => .ok []
  | .txt, c :: r =>
    if c = '%' then fmtScan nd .pct r
    else match fmtScan nd .txt r with
      | .ok t => .ok (c :: t)
      | .error e => .error e
  | .pct, [] => .error .format                      -- ValueError: incomplete format
  | .pct, c :: r =>
    if c = '%' then
      match fmtScan nd .txt r with
      | .ok t => .ok ('%' :: t)
      | .error e => .error e
    else if c = '(' then fmtScan nd (.key [] 0) r
    else .error .format                             -- `%2…`, `%C…`: not a directive `_compile_route` emits
  | .key _ _, [] => .error .format                  -- ValueError: incomplete format key
  | .key acc d, c :: r =>
    if c = ')' then
      match d with
      | 0 =>
        match nd.lookup acc.reverse with
        | some v => fmtScan nd (.conv v) r
        | none => .error .keyError
      | d + 1 => fmtScan nd (.key (c :: acc) d) r
    else if c = '(' then fmtScan nd (.key (c :: acc) (d + 1)) r
    else fmtScan nd (.key (c :: acc) d) r
  | .conv _, [] => .error .format
  | .conv v, c :: r =>
    if c = 's' then
      match fmtScan nd .txt r with
      | .ok t => .ok (v ++ t)
      | .error e => .error e
    else .error .format

/-- `route.generate(kw)` -/
def generate (toks : List Tok) (kw : Kw) : Except Err Text :=
  match newDict (remName toks) kw with
  | .error e => .error e
  | .ok nd => fmtScan nd .txt (genTemplate toks)

/-- the closed form of `gen % newdict` the theorems use: token-wise substitution, literals quoted once
(`Lemmas/UrlGen.lean` proves `fmtScan nd .txt (genTemplate toks) = substToks nd toks`) -/
def substToks (nd : List (Text × Text)) : List Tok → Except Err Text
  | [] => .ok []
  | .lit l :: ts =>
    match substToks nd ts with
    | .ok r => .ok (quote litSafe l ++ r)
    | .error e => .error e
  | .ph n _ :: ts =>
    match nd.lookup n with
    | none => .error .keyError
    | some v =>
      match substToks nd ts with
      | .ok r => .ok (v ++ r)
      | .error e => .error e
  | .rest n :: ts =>
    match nd.lookup n with
    | none => .error .keyError
    | some v =>
      match substToks nd ts with
      | .ok r => .ok (v ++ r)
      | .error e => .error e

def generateClosed (toks : List Tok) (kw : Kw) : Except Err Text :=
  match newDict (remName toks) kw with
  | .error e => .error e
  | .ok nd => substToks nd toks

/-! ### `route_path` / `route_url` -/

/-- `_join_elements(elements)` — elements through `quote_path_segment(s, safe=PATH_SEGMENT_SAFE)` -/
def qElem (a : Atom) : Except Err Text :=
  match atomText a with
  | some t => .ok (quote elemSafe t)
  | none => .error .unicodeDecode

def qElems : List Atom → Except Err (List Text)
  | [] => .ok []
  | a :: as =>
    match qElem a with
    | .error e => .error e
    | .ok t =>
      match qElems as with
      | .error e => .error e
      | .ok ts => .ok (t :: ts)

def endsWithSlash (p : Text) : Bool := p.getLast? == some '/'

/-- the `suffix` of `route_url` -/
def routeSuffix (path : Text) (elems : List Atom) : Except Err Text :=
  if elems = [] then .ok []
  else
    match qElems elems with
    | .error e => .error e
    | .ok ts => .ok (if endsWithSlash path then joinWith '/' ts else '/' :: joinWith '/' ts)

/-- `request._quoted_script_name()` -/
def quotedScript (script : Text) : Text := quote scriptSafe script

/-- `route_url` once `parse_url_overrides` has produced `app_url`, `qs`, `anchor` -/
def assemble (appUrl : Text) (toks : List Tok) (elems : List Atom) (kw : Kw) (qs frag : Text) : Except Err Text :=
  match generate toks kw with
  | .error e => .error e
  | .ok path =>
    match routeSuffix path elems with
    | .error e => .error e
    | .ok suffix => .ok (appUrl ++ path ++ suffix ++ qs ++ frag)

/-- `request.route_path(name, *elems, **kw)`: `_app_url` = the quoted script name -/
def routePath (script : Text) (toks : List Tok) (elems : List Atom) (kw : Kw) (qs frag : Text) : Except Err Text :=
  assemble (quotedScript script) toks elems kw qs frag

/-- `request.route_url(name, *elems, **kw)` without `_app_url`: `origin` is `scheme://authority` (C17's) -/
def routeUrl (origin script : Text) (toks : List Tok) (elems : List Atom) (kw : Kw) (qs frag : Text) : Except Err Text :=
  assemble (origin ++ quotedScript script) toks elems kw qs frag

/-! ### the element cache (`_join_elements` → `@lru_cache(1000) _join_text_elements`, url.py) -/

/-- `_join_elements(elements)` without any cache: every element quoted on its own, joined with `/` -/
def joinElements (elems : List Atom) : Except Err Text :=
  match qElems elems with
  | .error e => .error e
  | .ok ts => .ok (joinWith '/' ts)

/-- the cache key of one element since 9c714c3: `s if s.__class__ in (str, bytes) else str(s)` — a `str` or a
`bytes` object (which never compare equal to each other) -/
inductive TKey where
  | text (t : Text)
  | bytes (b : Bytes)
deriving Repr, DecidableEq

def atomTKey : Atom → TKey
  | .str t => .text t
  | .bytes b => .bytes b
  | .int i => .text (intText i)
  | .other s => .text s

/-- the cache key of one element BEFORE 9c714c3 (kept for the regression fact): the object itself, compared with
Python's `==`/`hash` — `True == 1`, `False == 0`, and a float whose `str()` is `n.0` equals the int `n` -/
inductive PyKey where
  | text (t : Text)
  | bytes (b : Bytes)
  | num (i : Int)
  | opaque (s : Text)
deriving Repr, DecidableEq

def oldAtomKey : Atom → PyKey
  | .str t => .text t
  | .bytes b => .bytes b
  | .int i => .num i
  | .other s =>
    if s = "True".toList then .num 1 else if s = "False".toList then .num 0
    else if s = "1.0".toList then .num 1 else if s = "0.0".toList then .num 0 else .opaque s

/-- an `lru_cache` in front of the joiner, keyed by `key` applied to every element (no eviction; a raising call is
not cached) -/
def joinMemo {κ : Type} [DecidableEq κ] (key : Atom → κ) (cache : List (List κ × Text)) (elems : List Atom) :
    Except Err Text × List (List κ × Text) :=
  match cache.lookup (elems.map key) with
  | some t => (.ok t, cache)
  | none =>
    match joinElements elems with
    | .error e => (.error e, cache)
    | .ok t => (.ok t, (elems.map key, t) :: cache)

/-- the cache after a history of element tuples that reached `_join_elements` (in any `route_*`/`resource_*` call) -/
def cacheAfterCalls {κ : Type} [DecidableEq κ] (key : Atom → κ) :
    List (List κ × Text) → List (List Atom) → List (List κ × Text)
  | c, [] => c
  | c, h :: hs => cacheAfterCalls key (joinMemo key c h).2 hs

abbrev ElemCache := List (List TKey × Text)

/-- `_join_elements` as it is now -/
def joinElementsMemo (cache : ElemCache) (elems : List Atom) : Except Err Text × ElemCache :=
  joinMemo atomTKey cache elems

/-- the suffix of `route_url` with the cache in the state -/
def routeSuffixMemo (cache : ElemCache) (path : Text) (elems : List Atom) : Except Err Text × ElemCache :=
  if elems = [] then (.ok [], cache)
  else
    match joinElementsMemo cache elems with
    | (.error e, c) => (.error e, c)
    | (.ok j, c) => (.ok (if endsWithSlash path then j else '/' :: j), c)

/-- the element tuples of a history of `route_path('r', *elems, **kw)` calls that reach `_join_elements`: the call
must get past `route.generate(kw)` and have elements -/
def reaching (toks : List Tok) (kw : Kw) (history : List (List Atom)) : List (List Atom) :=
  match generate toks kw with
  | .error _ => []
  | .ok _ => history.filter (· ≠ [])

/-- the cache after a history of `route_path('r', *elems, **kw)` calls on one route with one `kw` -/
def cacheAfter (toks : List Tok) (kw : Kw) (cache : ElemCache) (history : List (List Atom)) : ElemCache :=
  cacheAfterCalls atomTKey cache (reaching toks kw history)

/-- `route_path` / `route_url` with the cache in the state -/
def assembleMemo (cache : ElemCache) (appUrl : Text) (toks : List Tok) (elems : List Atom) (kw : Kw) (qs frag : Text) :
    Except Err Text :=
  match generate toks kw with
  | .error e => .error e
  | .ok path =>
    match (routeSuffixMemo cache path elems).1 with
    | .error e => .error e
    | .ok suffix => .ok (appUrl ++ path ++ suffix ++ qs ++ frag)

/-! ### the way back: client, server, mapper -/

/-- the path of a request target: everything before the first `?` or `#` -/
def targetPath (target : Text) : Text := target.takeWhile fun c => c ≠ '?' && c ≠ '#'

/-- the server percent-decodes the path to bytes; the WSGI `str` is their latin-1 image -/
def wsgiBytes (path : Text) : Option Bytes := (asciiEncode path).map unquoteToBytes

def dropBytes? : Bytes → Bytes → Option Bytes
  | [], s => some s
  | _ :: _, [] => none
  | a :: as, b :: bs => if a = b then dropBytes? as bs else none

/-- `PATH_INFO` of an application mounted at `script` (its UTF-8 bytes): the decoded path minus that prefix -/
def wsgiPathInfo (script : Bytes) (path : Text) : Option Bytes :=
  (wsgiBytes path).bind (dropBytes? script)

/-- the decoded path the route matcher is given: `request.path_info or '/'` -/
def serverDecode (path : Text) : Option Text :=
  (wsgiBytes path).bind fun b => requestPath (some b)

/-- request `target` from an application mounted at `script`; the answer of `route.match` -/
def requestMatch (u : Ucd) (toks : List Tok) (script : Text) (target : Text) : Option Env :=
  ((wsgiPathInfo (utf8Enc script) (targetPath target)).bind fun b => requestPath (some b)).bind (matchToks u toks)

/-! ### what the caller is entitled to get back (the declarative side) -/

/-- the text a value stands for -/
def atomTexts : List Atom → Option (List Text)
  | [] => some []
  | a :: as =>
    match atomText a, atomTexts as with
    | some t, some ts => some (t :: ts)
    | _, _ => none

/-- the decoded text a remainder value contributes to the path -/
def restText : KVal → Option Text
  | .one a => atomText a
  | .many xs => (atomTexts xs).map (joinWith '/')

/-- the match-dictionary entry the caller expects for a token: the text of a `{name}` value; for `*name` the
elements of a sequence, or `split_path_info` of a string -/
def expectVal : Tok → KVal → Option Val
  | .ph _ _, .one a => (atomText a).map Val.str
  | .rest _, .one a => (atomText a).map fun t => Val.segs (splitPathInfo t)
  | .rest _, .many xs => (atomTexts xs).map Val.segs
  | _, _ => none

/-- the match dictionary the supplied values stand for, in group order -/
def expectEnv (kw : Kw) : List Tok → Option Env
  | [] => some []
  | .lit _ :: ts => expectEnv kw ts
  | .ph n rx :: ts =>
    match kw.lookup n with
    | some v =>
      match expectVal (.ph n rx) v, expectEnv kw ts with
      | some x, some e => some ((n, x) :: e)
      | _, _ => none
    | none => none
  | .rest n :: ts =>
    match kw.lookup n with
    | some v =>
      match expectVal (.rest n) v, expectEnv kw ts with
      | some x, some e => some ((n, x) :: e)
      | _, _ => none
    | none => none

/-- the decoded path the supplied values stand for: literals verbatim, values as text -/
def intended (kw : Kw) : List Tok → Option Text
  | [] => some []
  | .lit l :: ts => (intended kw ts).map (l ++ ·)
  | .ph n _ :: ts =>
    match kw.lookup n with
    | some (.one a) =>
      match atomText a, intended kw ts with
      | some t, some p => some (t ++ p)
      | _, _ => none
    | _ => none
  | .rest n :: ts =>
    match kw.lookup n with
    | some v =>
      match restText v, intended kw ts with
      | some t, some p => some (t ++ p)
      | _, _ => none
    | none => none

/-! ### the property's domain, decidable -/

def cleanSeg (s : Text) : Bool := s ≠ [] && !s.contains '/' && s ≠ ['.'] && s ≠ ['.', '.']

/-- a `{name}` value: non-empty text without `/` -/
def phValueOk : KVal → Bool
  | .one a =>
    match atomText a with
    | some t => t ≠ [] && !t.contains '/'
    | none => false
  | .many _ => false

/-- a `*name` value: any string, or a sequence of non-empty `/`-free segments other than `.` and `..` -/
def restValueOk : KVal → Bool
  | .one a => (atomText a).isSome
  | .many xs =>
    match atomTexts xs with
    | some ts => ts.all cleanSeg
    | none => false

def disjoint (l v : Text) : Bool := l.all fun c => !v.contains c

/-- the text of the value that comes right after a separator: the next placeholder's value, or the remainder's text -/
def nextValue (kw : Kw) : List Tok → Option Text
  | .ph n _ :: _ =>
    match kw.lookup n with
    | some (.one a) => atomText a
    | _ => none
  | .rest n :: _ => (kw.lookup n).bind restText
  | _ => none

/-- **Admissible**: the shape of a compiled pattern whose placeholders are separated by literal text that cannot
occur in the neighbouring values.
* every `{name}` placeholder has the default regex, a non-empty `/`-free value, and is followed by the end of the
  pattern or by a non-empty literal `L`;
* if `L` contains `/`, or ends the pattern, nothing more is asked (a `/` can never be part of a `{name}` value, and
  the end of the path is the end of the pattern);
* otherwise `L` is followed by a placeholder or the remainder, the first character of `L` does not occur in the
  placeholder's own value and no character of `L` occurs in the value that follows `L`;
* a `*name` remainder is the last token; its value is a string or a sequence of clean segments. -/
def sepOk (kw : Kw) : List Tok → Bool
  | [] => true
  | .lit _ :: ts => sepOk kw ts
  | .rest n :: ts => ts.isEmpty && (match kw.lookup n with | some v => restValueOk v | none => false)
  | .ph n rx :: ts =>
    decide (rx = Rx.notSlashPlus) &&
    (match kw.lookup n with | some v => phValueOk v | none => false) &&
    (match ts with
     | [] => true
     | .lit l :: ts' =>
       l ≠ [] &&
       (l.contains '/' || ts'.isEmpty ||
         ((match kw.lookup n with
           | some (.one a) => (match atomText a with | some t => !t.contains (l.headD '/') | none => false)
           | _ => false) &&
          (match nextValue kw ts' with | some t => disjoint l t | none => false)))
     | _ => false) &&
    sepOk kw ts

/-- the pattern begins with a literal that begins with `/` (`_compile_route` puts one there) -/
def leadSlash : List Tok → Bool
  | .lit ('/' :: _) :: _ => true
  | _ => false

/-- group names have no parentheses (they are identifiers in every pattern `re.compile` accepts) -/
def namesPlain (toks : List Tok) : Bool := (tokNames toks).all fun n => !n.contains '(' && !n.contains ')'

/-- every entry of the dictionary can be quoted (no undecodable bytes, sequences only for the remainder) -/
def kwOk (rem : Option Text) (kw : Kw) : Bool :=
  kw.all fun kv =>
    match kv.2 with
    | .one a => (atomText a).isSome
    | .many xs => decide (rem = some kv.1) && (atomTexts xs).isSome

def Admissible (toks : List Tok) (kw : Kw) : Prop :=
  leadSlash toks = true ∧ namesPlain toks = true ∧ sepOk kw toks = true ∧ kwOk (remName toks) kw = true

instance (toks : List Tok) (kw : Kw) : Decidable (Admissible toks kw) := by unfold Admissible; infer_instance

end Pyr.UrlGen
