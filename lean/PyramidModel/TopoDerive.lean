import PyramidModel.TopoSort
import PyramidModel.Gen.C18
/-!
C18 / C05 — `add_view_deriver`'s argument normalisation and the default deriver pipeline, computed
from the facts regenerated out of the source (`Gen/C18.lean`) through the model of the sorter.
Names are strings here; they are numbered for the `Nat`-based sorter model:
`INGRESS ↦ 0`, `VIEW`/`MAIN ↦ 1`, the i-th known name ↦ `20 + i`.
-/
namespace Pyr.Topo

open Pyr.Gen.C18

/-- insertion sort on strings (`tuple(sorted(val))` in `as_sorted_tuple`) -/
def insertStr (x : String) : List String → List String
  | [] => [x]
  | y :: ys => if x ≤ y then x :: y :: ys else y :: insertStr x ys

def sortStr (l : List String) : List String := l.foldr insertStr []

/-- `add_view_deriver`: defaults for `under`/`over`, `as_sorted_tuple`, and "everything is over mapped_view" -/
def normDeriver (d : RawDeriver) : String × List String × List String :=
  let under := sortStr [d.under.getD deriverDefaultUnder]
  let over := sortStr [d.over.getD deriverDefaultOver]
  let over := if over.contains "VIEW" && d.name != "mapped_view" then sortStr (over ++ ["mapped_view"]) else over
  (d.name, under, over)

def nameId (first last : String) (known : List String) (s : String) : Nat :=
  if s = first then 0 else if s = last then 1 else 20 + known.idxOf s

/-- the sorter the configurator creates (`TopologicalSorter(default_before=…, default_after=…, first=…, last=…)`) -/
def mkSorter (c : SorterCtor) (known : List String) : Sorter :=
  { defBefore := c.defaultBefore.map fun x => [nameId c.first c.last known x],
    defAfter := c.defaultAfter.map fun x => [nameId c.first c.last known x],
    first := 0, last := 1 }

/-- `derivers.add(name, deriver, before=over, after=under)` -/
def deriverOp (known : List String) (d : RawDeriver) : AddOp :=
  let n := normDeriver d
  let id := nameId deriverSorter.first deriverSorter.last known
  if deriverAddMapping = "before=over,after=under" then
    { name := id n.1, after := some (n.2.1.map id), before := some (n.2.2.map id) }
  else
    { name := id n.1, after := some (n.2.2.map id), before := some (n.2.1.map id) }

def defaultDeriverNames : List String := defaultDerivers.map (·.name)

/-- the sorter after `add_default_view_derivers` -/
def defaultDeriverSorter : Sorter :=
  (mkSorter deriverSorter defaultDeriverNames).addAll (defaultDerivers.map (deriverOp defaultDeriverNames))

/-- names (as strings) of a sorted result over `defaultDeriverNames` -/
def deriverNamesOf (r : SortResult) : Option (List String) :=
  match r with
  | .ok ids => some (ids.map fun i => defaultDeriverNames.getD (i - 20) "?")
  | _ => none

/-- `_apply_view_derivers`: `for name, deriver in reversed(outer_derivers + derivers.sorted())` wraps the view,
so the FIRST element of `outer ++ sorted` ends up outermost. -/
def wrappingOrder (sorted : List String) : List String :=
  if applyReversed then outerDerivers ++ sorted else (outerDerivers ++ sorted).reverse

end Pyr.Topo
