import PyramidModel.TopoSort
import PyramidModel.Gen.C18
/-!
C18 / C05 — `add_view_deriver`'s argument normalisation and the default deriver pipeline, computed
from the facts regenerated out of the source (`Gen/C18.lean`) through the model of the sorter.
Names are strings here; they are numbered for the `Nat`-based sorter model:
`INGRESS ↦ 0`, `VIEW`/`MAIN ↦ 1`, the i-th known name ↦ `20 + i`.
-/
namespace Pyr.Topo

open Pyr.Gen.C18

/-- insertion sort on strings (`tuple(sorted(val))` in `as_sorted_tuple`) -/
def insertStr (x : String) : List String → List String
  | [] => [x]
  | y :: ys => if x ≤ y then x :: y :: ys else y :: insertStr x ys

def sortStr (l : List String) : List String := l.foldr insertStr []

/-- `add_view_deriver`: defaults for `under`/`over`, `as_sorted_tuple`, and "everything is over mapped_view".
A hint is `none` (not given) or the list of names given (a single string = the one-element list). -/
def normDeriver (d : RawDeriver) : String × List String × List String :=
  let under := sortStr (d.under.getD [deriverDefaultUnder])
  let over := sortStr (d.over.getD [deriverDefaultOver])
  let over := if over.contains "VIEW" && d.name != "mapped_view" then sortStr (over ++ ["mapped_view"]) else over
  (d.name, under, over)

/-- the `ConfigurationError`s of `add_view_deriver`: reserved name, over INGRESS, under VIEW, under mapped_view -/
def rejectsDeriver (d : RawDeriver) : Bool :=
  let under := d.under.getD [deriverDefaultUnder]
  let over := d.over.getD [deriverDefaultOver]
  d.name == "INGRESS" || d.name == "VIEW" || over.contains "INGRESS" || under.contains "VIEW" ||
    under.contains "mapped_view"

/-- what reaches the sorter: `derivers.add(name, deriver, before=over, after=under)` as `(after, before)` -/
def deriverAddArgs (d : RawDeriver) : List String × List String :=
  let n := normDeriver d
  if deriverAddMapping = "before=over,after=under" then (n.2.1, n.2.2) else (n.2.2, n.2.1)

def nameId (first last : String) (known : List String) (s : String) : Nat :=
  if s = first then 0 else if s = last then 1 else 20 + known.idxOf s

/-- the sorter the configurator creates (`TopologicalSorter(default_before=…, default_after=…, first=…, last=…)`) -/
def mkSorter (c : SorterCtor) (known : List String) : Sorter :=
  { defBefore := c.defaultBefore.map fun x => [nameId c.first c.last known x],
    defAfter := c.defaultAfter.map fun x => [nameId c.first c.last known x],
    first := 0, last := 1 }

/-- `derivers.add(name, deriver, before=over, after=under)` -/
def deriverOp (known : List String) (d : RawDeriver) : AddOp :=
  let a := deriverAddArgs d
  let id := nameId deriverSorter.first deriverSorter.last known
  { name := id d.name, after := some (a.1.map id), before := some (a.2.map id) }

def defaultDeriverNames : List String := defaultDerivers.map (·.name)

/-- the sorter after `add_default_view_derivers` -/
def defaultDeriverSorter : Sorter :=
  (mkSorter deriverSorter defaultDeriverNames).addAll (defaultDerivers.map (deriverOp defaultDeriverNames))

/-- names (as strings) of a sorted result over `defaultDeriverNames` -/
def deriverNamesOf (r : SortResult) : Option (List String) :=
  match r with
  | .ok ids => some (ids.map fun i => defaultDeriverNames.getD (i - 20) "?")
  | _ => none

/-- `_apply_view_derivers`: `for name, deriver in reversed(outer_derivers + derivers.sorted())` wraps the view,
so the FIRST element of `outer ++ sorted` ends up outermost. -/
def wrappingOrder (sorted : List String) : List String :=
  if applyReversed then outerDerivers ++ sorted else (outerDerivers ++ sorted).reverse

/-- the real default sorter as the probe saw it, per name: `(name, name2after.get, name2before.get)` in ids -/
def probedSorterTables : List (Nat × Option (List Nat) × Option (List Nat)) :=
  let id := nameId deriverSorter.first deriverSorter.last defaultDeriverNames
  defaultSorterState.map fun e => (id e.name, e.after.map (·.map id), e.before.map (·.map id))

def probedSorterOrder : List (Nat × Nat) :=
  let id := nameId deriverSorter.first deriverSorter.last defaultDeriverNames
  defaultSorterOrder.map fun e => (id e.1, id e.2)

/-- the trace encoding of the tween probes (same as the driver's): `n`, `-(n+1)`, `1000000` -/
def evCode : Ev → Int
  | .enter n => Int.ofNat n
  | .exit n => -(Int.ofNat n) - 1
  | .core => 1000000

end Pyr.Topo
