import PyramidModel.Prelude
/-
X04 — executable model of pyramid's asset specifications and asset overrides, core Lean only.

Functions modelled (src/pyramid/…)
* `isabs`, `joinPath`, `splitSlash`, `fn`      `posixpath.isabs`, `posixpath.join(a, b)`, `str.split('/')`,
                                               `pkg_resources.NullProvider._fn` = `os.path.join(base, *name.split('/'))`
* `splitColon`                                 `spec.split(':', 1)` when `':' in spec`
* `resolveAssetSpec`                           asset.py 7-17   `resolve_asset_spec`
* `assetSpecFromAbspath`                       asset.py 20-33  `asset_spec_from_abspath` (package, not module)
* `abspathFromAssetSpec`                       asset.py 37-43  `abspath_from_asset_spec` (`resource_filename` a parameter)
* `resolve`                                    path.py 202-216 `AssetResolver.resolve` (caller package = an input)
* `mkOverride`, `insert`                       config/assets.py 111-117 `PackageOverrides.insert`
* `Override.apply`                             183-202 `DirectoryOverride.__call__`, `FileOverride.__call__`
* `filteredSources`                            119-123
* `Source.loc`, `lstripSlash`                  223-224 `PackageAssetSource.get_path`, 266-274 `FSAssetSource.get_path` (as repaired by 3e07f6a)
* `Source.exists … Source.listdir`             226-254 / 273-302, the six methods of both source classes
* `firstResult`, `PO.getFilename … PO.listdir` 125-158, the six loops of `PackageOverrides`
* `Prov.filename … Prov.listdir`               22-84, `OverrideProvider` falling back on `pkg_resources.DefaultProvider`
* `overrideAsset`                              319-379 `override_asset` up to the deferred `register`
* `register`, `Registry`                       306-316 `_override` + 383-386 `register` (the commit-time half)
* `runBatches`                                 declarations and commits in order (the Configurator's default phase order
                                               for discriminator-less actions is declaration order: C04)

The file system is abstract: `World = Loc → Node` says, for a package-relative resource or an absolute path, whether it
is absent, a regular file or a directory with a listing.  `Loc.inPkg p r` is "what pkg_resources finds for resource r of
package p".  A source package that has overrides of its own is outside the model (the harness keeps them apart).
-/
namespace Pyr.Assets

/-! ### paths -/

/-- `posixpath.isabs` -/
def isabs (p : Text) : Bool := p.head? = some '/'

/-- `posixpath.join(a, b)` -/
def joinPath (a b : Text) : Text :=
  if b.head? = some '/' then b
  else if a = [] ∨ a.getLast? = some '/' then a ++ b
  else a ++ '/' :: b

/-- `s.split('/')` -/
def splitSlash : Text → List Text
  | [] => [[]]
  | c :: cs =>
    if c = '/' then [] :: splitSlash cs
    else (c :: (splitSlash cs).headD []) :: (splitSlash cs).tail

/-- `'/'.join(segs)` -/
def joinSegs : List Text → Text
  | [] => []
  | [s] => s
  | s :: t :: ss => s ++ '/' :: joinSegs (t :: ss)

/-- `pkg_resources` `_fn(base, resource_name)` -/
def fn (base name : Text) : Text :=
  if name = [] then base else (splitSlash name).foldl joinPath base

/-- `s.split(':', 1)` as a pair; `(s, [])` when there is no colon -/
def splitColon : Text → Text × Text
  | [] => ([], [])
  | c :: cs => if c = ':' then ([], cs) else ((c :: (splitColon cs).1), (splitColon cs).2)

def endsWithSlash (p : Text) : Bool := p.getLast? = some '/'

/-! ### asset specifications (asset.py, path.py) -/

/-- `resolve_asset_spec(spec, pname)`; `pname` already a name (a package object contributes its `__name__`) -/
def resolveAssetSpec (spec : Text) (pname : Option Text) : Option Text × Text :=
  if isabs spec then (none, spec)
  else if spec.contains ':' then (some (splitColon spec).1, (splitColon spec).2)
  else (pname, spec)

def mainName : Text := "__main__".toList

/-- `asset_spec_from_abspath(abspath, package)`; `pkgName` = `package.__name__` = `package_name(package)` (a package),
`pkgPath` = `package_path(package)` -/
def assetSpecFromAbspath (abspath pkgName pkgPath : Text) : Text :=
  if pkgName = mainName then abspath
  else
    let pp := pkgPath ++ ['/']
    if pp.isPrefixOf abspath then pkgName ++ ':' :: abspath.drop pp.length
    else abspath

/-- `abspath_from_asset_spec(spec, pname)`; `rf` = `pkg_resources.resource_filename` -/
def abspathFromAssetSpec (rf : Text → Text → Text) (spec : Text) (pname : Option Text) : Text :=
  match pname with
  | none => spec
  | some _ =>
    match resolveAssetSpec spec pname with
    | (none, filename) => filename
    | (some p, filename) => rf p filename

/-- what `AssetResolver.resolve` builds -/
inductive Desc where
  | fs (path : Text)            -- `FSAssetDescriptor(spec)` (it then applies `os.path.abspath`)
  | pkg (name path : Text)      -- `PkgResourcesAssetDescriptor`
  | valueError
  deriving DecidableEq, Repr

/-- `AssetResolver(package).resolve(spec)`; `package` = the resolver's package name (`None`, or the caller's) -/
def resolve (package : Option Text) (spec : Text) : Desc :=
  if isabs spec then .fs spec
  else if spec.contains ':' then .pkg (splitColon spec).1 (splitColon spec).2
  else match package with
    | none => .valueError
    | some p => .pkg p spec

/-! ### override sources -/

/-- where something is looked for -/
inductive Loc where
  | inPkg (pkg path : Text)     -- resource `path` of package `pkg`, through pkg_resources
  | onFs (path : Text)          -- an OS path
  deriving DecidableEq, Repr

inductive Node where
  | absent
  | file
  | dir (entries : List Text)
  deriving DecidableEq, Repr

abbrev World := Loc → Node

def Node.there : Node → Bool
  | .absent => false
  | _ => true

def Node.isDir : Node → Bool
  | .dir _ => true
  | _ => false

inductive Source where
  | pkg (name pfx : Text)       -- `PackageAssetSource(package, prefix)`
  | fs (pfx : Text)             -- `FSAssetSource(prefix)`
  deriving DecidableEq, Repr

/-- `s.lstrip('/')` -/
def lstripSlash : Text → Text
  | [] => []
  | c :: cs => if c = '/' then lstripSlash cs else c :: cs

/-- `get_path` of either class, as the place that is then examined; since fix 3e07f6a the filesystem source strips the
leading slashes of the resource name before `os.path.join` -/
def Source.loc : Source → Text → Loc
  | .pkg n p, r => .inPkg n (p ++ r)
  | .fs p, r => .onFs (if r = [] then p else joinPath p (lstripSlash r))

/-- `FSAssetSource.get_path` BEFORE fix 3e07f6a (kept for the regression fact of Props/X04.lean) -/
def fsLocOld (p r : Text) : Loc := .onFs (if r = [] then p else joinPath p r)

inductive Err where
  | isDir      -- IsADirectoryError
  | notDir     -- NotADirectoryError
  | notFound   -- FileNotFoundError
  deriving DecidableEq, Repr

/-- `open(path, 'rb')` (and reading it): the file is identified by its location -/
def openAt (w : World) (l : Loc) : Except Err Loc :=
  match w l with
  | .file => .ok l
  | .dir _ => .error .isDir
  | .absent => .error .notFound

/-- `os.listdir(path)` -/
def listAt (w : World) (l : Loc) : Except Err (List Text) :=
  match w l with
  | .dir es => .ok es
  | .file => .error .notDir
  | .absent => .error .notFound

def Source.exists (w : World) (s : Source) (r : Text) : Bool := (w (s.loc r)).there

/-- `get_filename`: the path when it exists, else `None` -/
def Source.getFilename (w : World) (s : Source) (r : Text) : Except Err (Option Loc) :=
  if (w (s.loc r)).there then .ok (some (s.loc r)) else .ok none

/-- `get_stream`: opened when it exists (a directory cannot be opened), else `None` -/
def Source.getStream (w : World) (s : Source) (r : Text) : Except Err (Option Loc) :=
  if (w (s.loc r)).there then (openAt w (s.loc r)).map some else .ok none

/-- `get_string` -/
def Source.getString (w : World) (s : Source) (r : Text) : Except Err (Option Loc) :=
  if (w (s.loc r)).there then (openAt w (s.loc r)).map some else .ok none

/-- `exists` as `PackageOverrides.has_resource` uses it: `True` or nothing -/
def Source.existsOpt (w : World) (s : Source) (r : Text) : Except Err (Option Bool) :=
  if (w (s.loc r)).there then .ok (some true) else .ok none

/-- `isdir` -/
def Source.isdir (w : World) (s : Source) (r : Text) : Except Err (Option Bool) :=
  if (w (s.loc r)).there then .ok (some (w (s.loc r)).isDir) else .ok none

/-- `listdir` -/
def Source.listdir (w : World) (s : Source) (r : Text) : Except Err (Option (List Text)) :=
  if (w (s.loc r)).there then (listAt w (s.loc r)).map some else .ok none

/-! ### overrides -/

inductive Override where
  | dir (path : Text) (src : Source)     -- `DirectoryOverride`
  | file (path : Text) (src : Source)    -- `FileOverride`
  deriving DecidableEq, Repr

/-- the test of `insert`: `not path or path.endswith('/')` -/
def isDirPath (path : Text) : Bool := path = [] || endsWithSlash path

def mkOverride (path : Text) (src : Source) : Override :=
  if isDirPath path then .dir path src else .file path src

/-- `PackageOverrides.insert`: `self.overrides.insert(0, override)` -/
def insert (ovs : List Override) (path : Text) (src : Source) : List Override :=
  mkOverride path src :: ovs

/-- `override(resource_name)` -/
def Override.apply : Override → Text → Option (Source × Text)
  | .dir p s, name => if p.isPrefixOf name then some (s, name.drop p.length) else none
  | .file p s, name => if name = p then some (s, []) else none

/-- `filtered_sources(resource_name)` -/
def filteredSources (ovs : List Override) (name : Text) : List (Source × Text) :=
  ovs.filterMap (·.apply name)

/-- the loop shared by the six methods: the first source whose method does not answer `None`; an exception ends it -/
def firstResult {α : Type} (f : Source → Text → Except Err (Option α)) : List (Source × Text) → Except Err (Option α)
  | [] => .ok none
  | (s, r) :: rest =>
    match f s r with
    | .error e => .error e
    | .ok (some a) => .ok (some a)
    | .ok none => firstResult f rest

namespace PO
def getFilename (w : World) (ovs : List Override) (name : Text) := firstResult (Source.getFilename w) (filteredSources ovs name)
def getStream (w : World) (ovs : List Override) (name : Text) := firstResult (Source.getStream w) (filteredSources ovs name)
def getString (w : World) (ovs : List Override) (name : Text) := firstResult (Source.getString w) (filteredSources ovs name)
def hasResource (w : World) (ovs : List Override) (name : Text) := firstResult (Source.existsOpt w) (filteredSources ovs name)
def isdir (w : World) (ovs : List Override) (name : Text) := firstResult (Source.isdir w) (filteredSources ovs name)
def listdir (w : World) (ovs : List Override) (name : Text) := firstResult (Source.listdir w) (filteredSources ovs name)
end PO

/-! ### `OverrideProvider`: the overrides registered for the package (`none` = no utility), else the package itself -/

namespace Prov

/-- what the override layer answered, else the default provider's answer -/
def orDefault {α : Type} (ovs : Option (List Override)) (q : List Override → Except Err (Option α)) (dflt : Except Err α) :
    Except Err α :=
  match ovs with
  | none => dflt
  | some os =>
    match q os with
    | .error e => .error e
    | .ok (some a) => .ok a
    | .ok none => dflt

/-- `get_resource_filename`: the default provider answers with the path whether or not it exists -/
def filename (w : World) (ovs : Option (List Override)) (pkg name : Text) : Except Err Loc :=
  orDefault ovs (fun os => PO.getFilename w os name) (.ok (.inPkg pkg name))

def stream (w : World) (ovs : Option (List Override)) (pkg name : Text) : Except Err Loc :=
  orDefault ovs (fun os => PO.getStream w os name) (openAt w (.inPkg pkg name))

def string (w : World) (ovs : Option (List Override)) (pkg name : Text) : Except Err Loc :=
  orDefault ovs (fun os => PO.getString w os name) (openAt w (.inPkg pkg name))

def hasResource (w : World) (ovs : Option (List Override)) (pkg name : Text) : Except Err Bool :=
  orDefault ovs (fun os => PO.hasResource w os name) (.ok (w (.inPkg pkg name)).there)

def isdir (w : World) (ovs : Option (List Override)) (pkg name : Text) : Except Err Bool :=
  orDefault ovs (fun os => PO.isdir w os name) (.ok (w (.inPkg pkg name)).isDir)

def listdir (w : World) (ovs : Option (List Override)) (pkg name : Text) : Except Err (List Text) :=
  orDefault ovs (fun os => PO.listdir w os name) (listAt w (.inPkg pkg name))

end Prov

/-! ### `override_asset` -/

inductive CfgErr where
  | itself          -- 'You cannot override an asset with itself'
  | absMissing      -- 'Cannot override asset with an absolute path that does not exist'
  | importError     -- `__import__` of the overriding (at declaration) or overridden (at commit) package fails
  | dirWithFile     -- 'A directory cannot be overridden with a file'
  | fileWithDir     -- 'A file cannot be overridden with a directory'
  deriving DecidableEq, Repr

/-- what the deferred `register` closure holds -/
structure Accepted where
  package : Text
  path : Text
  source : Source
  deriving DecidableEq, Repr

/-- `package, path` of a spec: split at the first colon if there is one, else the whole spec is the package -/
def specParts (spec : Text) : Text × Text :=
  if spec.contains ':' then splitColon spec else (spec, [])

/-- the two kind checks: 'A directory cannot be overridden with a file', 'A file cannot be overridden with a directory' -/
def kindCheck (overriddenIsdir overrideIsdir : Bool) (acc : Accepted) : Except CfgErr Accepted :=
  if overriddenIsdir && !overrideIsdir then .error .dirWithFile
  else if !overriddenIsdir && overrideIsdir then .error .fileWithDir
  else .ok acc

/-- `override_asset(to_override, override_with)` up to the call of `self.action`; `importable` = `__import__` succeeds -/
def overrideAsset (w : World) (importable : Text → Bool) (toOv ovWith : Text) : Except CfgErr Accepted :=
  if toOv = ovWith then .error .itself
  else
    let package := (specParts toOv).1
    let path := (specParts toOv).2
    let overriddenIsdir : Bool := path = [] || endsWithSlash path
    if isabs ovWith then
      if !(w (.onFs ovWith)).there then .error .absMissing
      else kindCheck overriddenIsdir (w (.onFs ovWith)).isDir ⟨package, path, .fs ovWith⟩
    else
      let opkg := (specParts ovWith).1
      let opfx := (specParts ovWith).2
      if !importable opkg then .error .importError
      else kindCheck overriddenIsdir (opfx = [] || endsWithSlash ovWith) ⟨package, path, .pkg opkg opfx⟩

/-- the `IPackageOverrides` utilities of a registry, by package name -/
abbrev Registry := List (Text × List Override)

def Registry.get (r : Registry) (pkg : Text) : Option (List Override) := r.lookup pkg

/-- `_override`: create the utility on first use, then `insert` -/
def Registry.insert : Registry → Text → Text → Source → Registry
  | [], pkg, path, src => [(pkg, Assets.insert [] path src)]
  | (p, ovs) :: rest, pkg, path, src =>
    if p = pkg then (p, Assets.insert ovs path src) :: rest
    else (p, ovs) :: Registry.insert rest pkg path src

/-- the `register` closure run at commit -/
def register (importable : Text → Bool) (r : Registry) (a : Accepted) : Except CfgErr Registry :=
  if !importable a.package then .error .importError else .ok (r.insert a.package a.path a.source)

inductive Phase where
  | declare
  | commit
  deriving DecidableEq, Repr

/-- a failure: at which declaration (index over the whole history), in which half -/
structure Failure where
  phase : Phase
  idx : Nat
  err : CfgErr
  deriving DecidableEq, Repr

/-- validate the declarations of one batch in order (the first error is raised by the statement itself) -/
def declareAll (w : World) (importable : Text → Bool) : Nat → List (Text × Text) → Except Failure (List Accepted)
  | _, [] => .ok []
  | i, (a, b) :: rest =>
    match overrideAsset w importable a b with
    | .error e => .error ⟨.declare, i, e⟩
    | .ok acc =>
      match declareAll w importable (i + 1) rest with
      | .error f => .error f
      | .ok accs => .ok (acc :: accs)

/-- run the deferred actions of one batch in declaration order -/
def commitAll (importable : Text → Bool) : Nat → Registry → List Accepted → Except Failure Registry
  | _, r, [] => .ok r
  | i, r, a :: rest =>
    match register importable r a with
    | .error e => .error ⟨.commit, i, e⟩
    | .ok r' => commitAll importable (i + 1) r' rest

/-- several batches, each declared then committed, on one configurator -/
def runBatches (w : World) (importable : Text → Bool) : Nat → Registry → List (List (Text × Text)) → Except Failure Registry
  | _, r, [] => .ok r
  | i, r, b :: bs =>
    match declareAll w importable i b with
    | .error f => .error f
    | .ok accs =>
      match commitAll importable i r accs with
      | .error f => .error f
      | .ok r' => runBatches w importable (i + b.length) r' bs

end Pyr.Assets
