import PyramidModel.Lemmas.PrefixExec
import PyramidModel.Gen.X08
/-!
X08 — route prefixes and the mounting of includes: property theorems.

§1 the composition of prefixes (`route_prefix_context`, `include(route_prefix=)`) is a monoid on normalised prefixes
§2 shape of a composed prefix: clean, segments of the operands, nothing introduced by the join
§3 `add_route` under a prefix: segments, the slash rule, commutation with nesting
§4 matching (C01's route model, read-only): literal prefix ⇒ `/P` followed by what the un-prefixed route matches
§5 configuration programs: the prefix attribute is restored whatever the body does; execution = lexical scoping
§6 absolute URL patterns and static views
§7 generated obligations: the probe tables of the running Configurator equal the model
-/
namespace Pyr.Prefix

open Pyr.Route (lstripSlash rstripSlash Clean lstrip_of_head rstrip_of_last head_lstrip last_rstrip)
open Pyr.Trav (stripSlash splitOn)

/-! ## 1. composition -/

/-- **The documented join.**  Whatever the two operands look like (None, '', slashes at either end, doubled), the prefix
inside the block is: both stripped of slashes at the ends, an empty one dropped, joined by ONE slash; None if nothing is left. -/
theorem combine_is_join (a b : Pfx) : combine a b = ofText (joinNE (stripSlash (txt a)) (stripSlash (txt b))) :=
  combine_eq a b

/-- **Associativity**: nesting `a(b(c))` composes to the same prefix whichever way it is bracketed — ALL operands,
normalised or not. -/
theorem combine_assoc (a b c : Pfx) : combine (combine a b) c = combine a (combine b c) := by
  rw [combine_eq (combine a b) c, combine_eq a (combine b c), strip_txt_combine, strip_txt_combine, joinNE_assoc]

/-- None, '' and any text of slashes only are identities (up to normalisation of the other operand) … -/
theorem combine_identity_left (e b : Pfx) (he : stripSlash (txt e) = []) : combine e b = norm b := by
  rw [combine_eq, he, joinNE_nil_left]; rfl
theorem combine_identity_right (a e : Pfx) (he : stripSlash (txt e) = []) : combine a e = norm a := by
  rw [combine_eq, he, joinNE_nil_right]; rfl

example : stripSlash (txt none) = [] ∧ stripSlash (txt (some [])) = [] ∧ stripSlash (txt (some "/".toList)) = [] ∧
    stripSlash (txt (some "///".toList)) = [] := by decide

/-- … and exactly the identity on prefixes that are themselves the result of a composition. -/
theorem combine_identity_on_composed (a b e : Pfx) (he : stripSlash (txt e) = []) :
    combine (combine a b) e = combine a b ∧ combine e (combine a b) = combine a b := by
  have hn : norm (combine a b) = combine a b := by
    unfold norm; rw [strip_txt_combine, ← combine_eq]
  exact ⟨by rw [combine_identity_right _ e he, hn], by rw [combine_identity_left e _ he, hn]⟩

theorem combine_none_mid (x p : Pfx) : combine x (combine none p) = combine x p := by
  rw [← combine_assoc, combine_identity_right x none rfl, ← combine_norm_left]

theorem prefixAt_from (ys : List Pfx) : ∀ (x : Pfx), ys ≠ [] → prefixAt x ys = combine x (prefixAt none ys) := by
  induction ys with
  | nil => intro _ h; exact absurd rfl h
  | cons p rest ih =>
    intro x _
    by_cases hr : rest = []
    · subst hr
      show combine x p = combine x (combine none p)
      exact (combine_none_mid x p).symm
    · show prefixAt (combine x p) rest = combine x (prefixAt (combine none p) rest)
      rw [ih (combine x p) hr, ih (combine none p) hr, ← combine_assoc, combine_none_mid]

/-- **Nested includes compose associatively**: for any split of the enclosing blocks into an outer part `xs` and a
non-empty inner part `ys`, the prefix in force is the outer prefix composed with what the inner part alone composes to —
a module that nests includes behaves the same wherever it is itself included. -/
theorem prefixAt_split (top : Pfx) (xs ys : List Pfx) (h : ys ≠ []) :
    prefixAt top (xs ++ ys) = combine (prefixAt top xs) (prefixAt none ys) := by
  have : prefixAt top (xs ++ ys) = prefixAt (prefixAt top xs) ys := by simp [prefixAt, List.foldl_append]
  rw [this]
  exact prefixAt_from ys _ h

example : prefixAt (some "/t/".toList) [some "a".toList, none, some "//b/".toList, some "c".toList] = some "t/a/b/c".toList ∧
    combine (prefixAt (some "/t/".toList) [some "a".toList, none]) (prefixAt none [some "//b/".toList, some "c".toList]) = some "t/a/b/c".toList := by
  decide

/-! ## 2. shape -/

/-- a composed prefix is never empty and never starts or ends with a slash -/
theorem combine_clean (a b : Pfx) (p : Text) (h : combine a b = some p) : Clean p := by
  rw [combine_eq] at h
  have hc := joinNE_nilOrClean _ _ (strip_nilOrClean (txt a)) (strip_nilOrClean (txt b))
  unfold ofText at h
  split at h
  · cases h
  · rename_i hne
    injection h with h
    subst h
    exact hc.resolve_left hne

example : Clean "t/a".toList ∧ combine (some "//t//".toList) (some "/a/".toList) = some "t/a".toList := by decide

/-- **Segments.**  `split('/')` of the composed prefix is `split('/')` of the stripped outer prefix followed by that of the
stripped argument (an empty operand contributes nothing): the join adds no segment, drops none and introduces no empty
segment — an empty segment in the result is one the user wrote INSIDE an operand. -/
theorem combine_segments (a b : Pfx) :
    segsOf (txt (combine a b)) = segsOf (stripSlash (txt a)) ++ segsOf (stripSlash (txt b)) := by
  rw [combine_eq, txt_ofText, segsOf_joinNE]

example : segsOf (txt (combine (some "/a//b/".toList) (some "c".toList))) = ["a".toList, [], "b".toList, "c".toList] := by decide

/-- when neither operand has an empty segment inside, neither has the result -/
theorem combine_no_empty_segment (a b : Pfx)
    (ha : [] ∉ segsOf (stripSlash (txt a))) (hb : [] ∉ segsOf (stripSlash (txt b))) :
    [] ∉ segsOf (txt (combine a b)) := by
  rw [combine_segments]
  intro h
  cases List.mem_append.mp h with
  | inl h => exact ha h
  | inr h => exact hb h

example : [] ∉ segsOf (stripSlash (txt (some "//a/b//".toList))) := by decide

/-! ## 3. `add_route` under a prefix -/

/-- the general case: the prefix without its trailing slashes, one slash, the pattern without its leading slashes; on
segments: those of the prefix followed by those of the pattern -/
theorem apply_general (p pat : Text) (inh : Bool) (hp : p ≠ []) (h : ¬(pat = [] ∧ inh = true)) :
    applyPrefix (some p) pat inh = rstripSlash p ++ '/' :: lstripSlash pat ∧
    splitOn '/' (applyPrefix (some p) pat inh) = splitOn '/' (rstripSlash p) ++ splitOn '/' (lstripSlash pat) := by
  have : applyPrefix (some p) pat inh = rstripSlash p ++ '/' :: lstripSlash pat := by
    unfold applyPrefix
    simp only [hp, ite_false]
    by_cases hpat : pat = []
    · have : inh = false := by cases inh <;> simp_all
      simp [hpat, this]
    · simp [hpat]
  exact ⟨this, by rw [this, Pyr.Trav.splitOn_append_sep]⟩

/-- no prefix (None or ''): the pattern as given -/
theorem apply_none (pat : Text) (inh : Bool) : applyPrefix none pat inh = pat ∧ applyPrefix (some []) pat inh = pat := by
  simp [applyPrefix]

/-- **The slash rule**, exactly: a pattern that is empty or consists of slashes only becomes `prefix.rstrip('/') + '/'` —
unless it is `''` with `inherit_slash`, then it is the prefix exactly as it stands on the configurator (also when that
raw constructor argument itself ends with a slash). -/
theorem slash_rule (p pat : Text) (inh : Bool) (hp : p ≠ []) (hpat : ∀ c ∈ pat, c = '/') :
    applyPrefix (some p) pat inh = if pat = [] ∧ inh = true then p else rstripSlash p ++ ['/'] := by
  split
  · rename_i h; simp [applyPrefix, hp, h.1, h.2]
  · rename_i h
    rw [(apply_general p pat inh hp h).1]
    have : lstripSlash pat = [] := lstrip_all_slash pat hpat
    rw [this]

example : applyPrefix (some "api".toList) [] false = "api/".toList ∧ applyPrefix (some "api".toList) "/".toList false = "api/".toList ∧
    applyPrefix (some "api".toList) [] true = "api".toList ∧ applyPrefix (some "/api/".toList) [] true = "/api/".toList ∧
    applyPrefix (some "/api/".toList) [] false = "/api/".toList ∧ applyPrefix (some "/".toList) [] true = "/".toList := by decide

/-- under a composed (clean) prefix with `inherit_slash` the pattern has no trailing slash; without it exactly one -/
theorem slash_rule_composed (a b : Pfx) (p : Text) (h : combine a b = some p) :
    applyPrefix (combine a b) [] true = p ∧ applyPrefix (combine a b) [] false = p ++ ['/'] := by
  have hc := combine_clean a b p h
  rw [h]
  refine ⟨by simp [applyPrefix, hc.1], ?_⟩
  rw [(apply_general p [] false hc.1 (by simp)).1, rstrip_of_last p hc.2.2]
  rfl

/-- **Prefix application commutes with nesting** (exact, normalised prefixes): registering `pat` under the composition of
`p` and `q` is registering, under `p`, the pattern that `q` makes of `pat`. -/
theorem apply_commutes_with_nesting (p q : Pfx) (pat : Text) (inh : Bool) :
    applyPrefix (combine p q) pat inh = applyPrefix (norm p) (applyPrefix (norm q) pat inh) inh := by
  rw [combine_eq]
  unfold norm
  have hp := strip_nilOrClean (txt p)
  have hq := strip_nilOrClean (txt q)
  generalize stripSlash (txt p) = sp at *
  generalize stripSlash (txt q) = sq at *
  cases hp with
  | inl hp =>
    subst hp
    rw [joinNE_nil_left]
    have : ofText ([] : Text) = none := rfl
    rw [this]
    rfl
  | inr hp =>
    have hpo : ofText sp = some sp := by simp [ofText, hp.1]
    cases hq with
    | inl hq =>
      subst hq
      rw [joinNE_nil_right, hpo]
      have : ofText ([] : Text) = none := rfl
      rw [this]
      rfl
    | inr hq =>
      have hqo : ofText sq = some sq := by simp [ofText, hq.1]
      have hj : joinNE sp sq = sp ++ '/' :: sq := by simp [joinNE, hp.1, hq.1]
      have hjc : Clean (sp ++ '/' :: sq) := Pyr.Route.clean_join sp sq hp hq
      have hjo : ofText (sp ++ '/' :: sq) = some (sp ++ '/' :: sq) := by simp [ofText]
      rw [hj, hjo, hpo, hqo]
      by_cases hpi : pat = [] ∧ inh = true
      · obtain ⟨h1, h2⟩ := hpi
        subst h1; subst h2
        have e1 : applyPrefix (some sq) [] true = sq := by simp [applyPrefix, hq.1]
        have e2 : applyPrefix (some (sp ++ '/' :: sq)) [] true = sp ++ '/' :: sq := by simp [applyPrefix]
        rw [e1, e2, (apply_general sp sq true hp.1 (by simp [hq.1])).1, rstrip_of_last sp hp.2.2,
          lstrip_of_head sq hq.2.1]
      · rw [(apply_general _ pat inh hjc.1 hpi).1, (apply_general sq pat inh hq.1 hpi).1,
          (apply_general sp _ inh hp.1 (by simp)).1]
        rw [rstrip_of_last _ hjc.2.2, rstrip_of_last sq hq.2.2, rstrip_of_last sp hp.2.2]
        have : lstripSlash (sq ++ '/' :: lstripSlash pat) = sq ++ '/' :: lstripSlash pat := by
          apply lstrip_of_head
          cases sq with
          | nil => exact absurd rfl hq.1
          | cons c cs => have := hq.2.1; simpa using this
        rw [this]
        simp

example : applyPrefix (combine (some "/api/".toList) (some "v1".toList)) "/users/{id}".toList false = "api/v1/users/{id}".toList ∧
    applyPrefix (norm (some "/api/".toList)) (applyPrefix (norm (some "v1".toList)) "/users/{id}".toList false) false = "api/v1/users/{id}".toList := by
  decide

/-- the pattern the mapper finally compiles (`_compile_route` adds a leading slash): under a composed prefix it is
`/` + prefix + `/` + the pattern without its leading slashes -/
theorem effective_under_composed (a b : Pfx) (p pat : Text) (h : combine a b = some p) :
    effective (applyPrefix (combine a b) pat false) = '/' :: p ++ '/' :: lstripSlash pat := by
  have hc := combine_clean a b p h
  rw [h, (apply_general p pat false hc.1 (by simp)).1, rstrip_of_last p hc.2.2]
  cases p with
  | nil => exact absurd rfl hc.1
  | cons c cs =>
    have hne : c ≠ '/' := by have := hc.2.1; simpa using this
    unfold effective
    split
    · rename_i heq; simp at heq; exact absurd heq.1 hne
    · rfl

/-! ## 4. matching (C01's route model, read-only) -/

open Pyr.Route in
/-- **A path matches the prefixed route iff it is `/P` followed by a path the un-prefixed route matches.**  `incs` are the
`route_prefix` arguments of the enclosing includes (outermost first) composing to a literal prefix `P` (no placeholder
syntax, so that the joined text is well-formed per C01's grammar `RawWf`); the route's own pattern is `/pfx0` +
placeholders + remainder.  Then the pattern that reaches the mapper compiles to the route's own tokens with `/P` in
front of the first literal, and `matchAll` — all alternatives, hence the match dictionary — on a path is `matchAll` of
the un-prefixed tokens on what follows `/P` (no match when the path does not start with `/P`).  The slash rule: the
remainder must itself start with `/` (it is matched against `/pfx0…`), so `/P` alone never matches here. -/
theorem prefixed_route_language (u : Pyr.Rx.Ucd) (lib : Lib) (top : Pfx) (incs : List Pfx) (P pfx0 : Text)
    (hP : prefixAt top incs = some P) (hinc : incs ≠ [])
    (pieces : List (RawPh × Text)) (rem : Option Text)
    (hbody : (pfx0 ++ renderPieces pieces ++ renderRest rem).head? ≠ some '/')
    (hwf : RawWf u ('/' :: P ++ '/' :: pfx0) pieces rem) (ts : List Tok) (hres : piecesToks lib pieces = some ts)
    (hnames : (tokNames (.lit ('/' :: P ++ '/' :: pfx0) :: ts ++ restToks rem)).all isIdentA = true ∧
      dupFree (tokNames (.lit ('/' :: P ++ '/' :: pfx0) :: ts ++ restToks rem)) = true) :
    compileRoute u lib (applyPrefix (prefixAt top incs) (renderRaw ('/' :: pfx0) pieces rem) false) =
        .ok (.lit ('/' :: P ++ '/' :: pfx0) :: ts ++ restToks rem) ∧
      ∀ (a : Anchor) (path : Text),
        matchAll u a (.lit ('/' :: P ++ '/' :: pfx0) :: ts ++ restToks rem) path =
          match dropPrefix? ('/' :: P) path with
          | some r => matchAll u a (.lit ('/' :: pfx0) :: ts ++ restToks rem) r
          | none => [] := by
  have hclean : Clean P := by
    obtain ⟨xs, x, rfl⟩ : ∃ xs x, incs = xs ++ [x] := by
      cases h : incs.reverse with
      | nil => exact absurd (List.reverse_eq_nil_iff.mp h) hinc
      | cons x xs => exact ⟨xs.reverse, x, by rw [← List.reverse_reverse incs, h]; simp⟩
    rw [prefixAt_append] at hP
    exact combine_clean _ _ P hP
  have hsame : applyPrefix (some P) (renderRaw ('/' :: pfx0) pieces rem) false =
      routePattern (some P) (renderRaw ('/' :: pfx0) pieces rem) false := by
    unfold applyPrefix routePattern; rfl
  rw [hP, hsame]
  refine ⟨compile_prefixed u lib P pfx0 pieces rem hclean hbody hwf ts hres hnames, ?_⟩
  intro a path
  have : ('/' :: P ++ '/' :: pfx0) = ('/' :: P) ++ ('/' :: pfx0) := by simp
  rw [this]
  exact matchAll_lit_append u a ('/' :: P) ('/' :: pfx0) (ts ++ restToks rem) path

/-- non-vacuity: includes `/api/` and `v1`, pattern `/users/{id}*rest` -/
example : prefixAt none [some "/api/".toList, some "v1".toList] = some "api/v1".toList ∧
    Pyr.Route.RawWf Pyr.Rx.Ucd.ascii ('/' :: "api/v1".toList ++ '/' :: "users/".toList) [(⟨"id".toList, none⟩, [])] (some "rest".toList) :=
  ⟨by decide, ⟨by decide, by decide, by decide, Or.inl (by simp), by decide⟩⟩

/-! ## 5. configuration programs -/

/-- **`route_prefix_context` restores the prefix** — for every statement and every program, with nested blocks, includes,
raising bodies (user exceptions and `add_route`'s ConfigurationError), caught or propagating: the configurator's
`route_prefix` afterwards is what it was before. -/
theorem prefix_restored (cur : Pfx) (st : St) :
    (∀ s, (exec cur st s).1 = cur) ∧ (∀ body, (execL cur st body).1 = cur) :=
  ⟨exec_cur cur st, execL_cur cur st⟩

/-- **Execution is lexical scoping.**  Running a program with the state-threaded attribute (save / set / body /
`finally` restore) registers exactly what the declarative reading says: the leaves reached before an uncaught
exception, each under the composition (`prefixAt`) of the `route_prefix` arguments of the blocks that lexically enclose
it — nothing leaks out of a block, normally or exceptionally, and nothing is lost on the way in. -/
theorem exec_is_lexical (top : Pfx) (st : St) (body : List Stmt) :
    (execL top st body).2.1 = replay top st (traceL (leafFails top) [] body).1 ∧
    (execL top st body).2.2.isSome = (traceL (leafFails top) [] body).2 :=
  execL_trace top [] st body

/-- non-vacuity: a raising body inside a block inside a try; the route after the block is registered un-prefixed -/
example :
    let prog : List Stmt := [.try_ [.ctx (some "api".toList) [.route "a".toList "/x".toList false false, .raise,
                                                              .route "never".toList "/n".toList false false]],
                             .route "b".toList "/y".toList false false, .probe]
    (execL none {} prog).1 = none ∧
    (execL none {} prog).2.1.routelist = [⟨"a".toList, "api/x".toList⟩, ⟨"b".toList, "/y".toList⟩] ∧
    (execL none {} prog).2.1.probes = [none] ∧ (execL none {} prog).2.2 = none := by decide

/-- an uncaught exception leaves the program; the attribute is restored all the same -/
example : execL (some "/t/".toList) {} [.inc (some "a".toList) [.ctx (some "b".toList) [.probe, .raise]], .probe] =
    (some "/t/".toList, { probes := [some "t/a/b".toList] }, some .boom) := by decide

/-! ## 6. absolute URLs and static views -/

/-- **An absolute URL pattern is never prefixed**: whatever prefix is in force, the route registered is the URL's path,
marked static (it never matches a request; it only generates URLs). -/
theorem external_not_prefixed (pfx : Pfx) (pat : Text) (st : Bool) (h : hostOf pat ≠ []) :
    addRoute pfx pat false st = .ok ((netlocPath pat).2, true) := by
  have : (hostOf pat != []) = true := by simpa using h
  simp [addRoute, this]

/-- `http://` + a host character is such a URL (for every scheme written with scheme characters, see `afterScheme`) -/
theorem http_is_external (c : Char) (rest : Text) (h1 : c ≠ '/') (h2 : c ≠ ':') :
    hostOf ("http://".toList ++ c :: rest) ≠ [] := by
  simp [hostOf, netlocPath, afterScheme, asciiAlpha, schemeChar, List.takeWhile_cons, List.dropWhile_cons, h1, h2]

example : addRoute (some "api".toList) "http://example.com/{id}".toList false false = .ok ("/{id}".toList, true) := by decide
/-- a scheme-relative URL (`//host/path`) counts as absolute as well -/
example : addRoute (some "api".toList) "//cdn/x".toList false false = .ok ("/x".toList, true) := by decide
/-- … but a triple slash, a scheme without `//`, or an empty host do not -/
example : addRoute (some "api".toList) "///x".toList false false = .ok ("api/x".toList, false) ∧
    addRoute (some "api".toList) "http:/x".toList false false = .ok ("api/http:/x".toList, false) ∧
    addRoute (some "api".toList) "//:80/x".toList false false = .ok ("api/:80/x".toList, false) := by decide

/-- otherwise `add_route` is `applyPrefix`, and `inherit_slash` is refused for a non-empty pattern -/
theorem add_route_local (pfx : Pfx) (pat : Text) (inh st : Bool) (h : hostOf pat = []) :
    addRoute pfx pat inh st = if inh = true ∧ pat ≠ [] then .error .inheritSlash else .ok (applyPrefix pfx pat inh, st) := by
  have : (hostOf pat != []) = false := by simp [h]
  unfold addRoute
  by_cases hi : inh = true ∧ pat ≠ []
  · simp [hi.1, hi.2]
  · rw [if_neg hi]
    have : (inh && pat != []) = false := by
      cases inh <;> simp_all
    simp [this, h]

/-- **A static view whose name is a URL registers no route** (so no prefix can apply) … -/
theorem static_url_no_route (pfx : Pfx) (name : Text) (h : (netlocPath (slashEnd name)).1 ≠ []) :
    staticView pfx name = .url (slashEnd name) := by
  have : ((netlocPath (slashEnd name)).1 != []) = true := by simpa using h
  simp [staticView, this]

/-- … **and a path name becomes the route `name/*subpath` under the prefix in force**, named `__prefix/name/`. -/
theorem static_path_route (pfx : Pfx) (name : Text) (h : (netlocPath (slashEnd name)).1 = [])
    (hh : hostOf (staticPattern (slashEnd name)) = []) :
    staticView pfx name = .route (staticRouteName pfx (slashEnd name)) (applyPrefix pfx (slashEnd name ++ "*subpath".toList) false) false := by
  have h1 : ((netlocPath (slashEnd name)).1 != []) = false := by simp [h]
  have h2 := add_route_local pfx (staticPattern (slashEnd name)) false false hh
  simp only [staticView, h1, Bool.false_eq_true, ite_false, h2]
  simp [staticPattern]

example : staticView (some "api".toList) "static".toList = .route "__api/static/".toList "api/static/*subpath".toList false ∧
    staticView (some "api".toList) "/static/".toList = .route "__api//static/".toList "api/static/*subpath".toList false ∧
    staticView none "a/b".toList = .route "__a/b/".toList "a/b/*subpath".toList false ∧
    staticView (some "api".toList) "//cdn.example.com/x".toList = .url "//cdn.example.com/x/".toList ∧
    staticView (some "api".toList) "http://cdn/s".toList = .url "http://cdn/s/".toList := by decide

/-- the excluded point of `static_path_route` (hypothesis `hh`): the names `//` and `http://` have no netloc, but
`//*subpath` has the host `*subpath`: the route registered is external, static, with an EMPTY pattern (observation O1) -/
theorem static_double_slash_name :
    staticView (some "api".toList) "//".toList = .route "__api///".toList [] true ∧
    staticView none "http://".toList = .route "__http://".toList [] true := by decide

/-! ## 7. generated obligations (tables made by running the Configurator of the tree under test) -/

open Gen in
theorem gen_probe_trusted : probeStatus = "ok".toList ∧ combineCube.length = 196 ∧ includeCube.length = 343 ∧
    applyCube.length = 432 ∧ staticCube.length = 80 ∧ restoreCube.length = 72 ∧ urlProbe.length ≥ 150 := by decide +kernel

open Gen in
/-- `route_prefix_context` on the running Configurator = `combine`, all 14 × 14 shapes -/
theorem gen_combine_cube : combineCube.all (fun r => decide (combine r.1 r.2.1 = r.2.2)) = true := by decide +kernel

open Gen in
/-- two nested `include(route_prefix=)` below `Configurator(route_prefix=)` = `prefixAt`, 7 × 7 × 7 -/
theorem gen_include_cube :
    includeCube.all (fun r => decide (prefixAt r.1 [r.2.1, r.2.2.1] = r.2.2.2)) = true := by decide +kernel

open Gen in
def addObs : Except Err (Text × Bool) → AddObs
  | .error _ => .refused
  | .ok (p, s) => .connected p s

open Gen in
/-- `add_route` on the running Configurator = `addRoute` (prefix × pattern × inherit_slash, absolute URLs included) -/
theorem gen_apply_cube :
    applyCube.all (fun r => decide (addObs (addRoute r.1 r.2.1 r.2.2.1 false) = r.2.2.2)) = true := by decide +kernel

open Gen in
/-- `add_static_view` inside `include(route_prefix=)` = `staticView (combine none prefix)` -/
theorem gen_static_cube :
    staticCube.all (fun r => decide (staticView (combine none r.1) r.2.1 = r.2.2)) = true := by decide +kernel

open Gen in
/-- one block / include with a body that records the prefix and possibly raises, inside a try: prefix inside =
`combine`, prefix afterwards = the constructor argument, threadlocal stack balanced — and the model's `execL` says
the same -/
theorem gen_restore_cube :
    restoreCube.all (fun r =>
      let (top, p, isInc, raises, inside, after, balanced) := r
      let body := [Stmt.probe] ++ (if raises then [Stmt.raise] else [])
      let prog := [Stmt.try_ [if isInc then Stmt.inc p body else Stmt.ctx p body]]
      let out := execL top {} prog
      decide (out.1 = after) && decide (out.2.1.probes = [inside]) && decide (inside = combine top p) &&
        decide (after = top) && balanced) = true := by decide +kernel

open Gen in
/-- CPython's `urlparse` = `netlocPath` / `hostOf` on the probed texts -/
theorem gen_url_probe :
    urlProbe.all (fun r => decide ((netlocPath r.1).1 = r.2.1) && ((hostOf r.1 != []) == r.2.2.1) &&
      decide ((netlocPath r.1).2 = r.2.2.2) && decide (UrlSafe r.1)) = true := by decide +kernel

end Pyr.Prefix
