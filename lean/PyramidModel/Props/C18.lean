import PyramidModel.Lemmas.TopoSorter
import PyramidModel.TopoDerive
/-!
# C18 — Tween, view-deriver and predicate ordering honours every declared constraint

Property theorems only.  Model: `TopoSort.lean` (`TopologicalSorter.add/remove/sorted`, `Tweens.__call__`,
`_apply_view_derivers`), `TopoDerive.lean` (`add_view_deriver` normalisation over the facts regenerated
from the source, `Gen/C18.lean`).  Helper lemmas: `Lemmas/Kahn.lean`, `Lemmas/TopoSorter.lean`.

Domain (`AddOp.Valid`): an added name is not one of the two sentinels, and a constraint that is given
names at least one item.  All statements hold for every sequence of additions of any length over any
set of names, with any alternatives lists (present or absent items), for both sorter flavours.
-/
namespace Pyr.Topo

/-- Every sequence of valid additions to a fresh sorter keeps the bookkeeping invariant
(distinct names, tables keyed by present names, `order` = the arcs of the current declarations,
`req_*` = the names with a declared constraint). -/
theorem additions_keep_invariant (first last : Nat) (dB dA : Option (List Nat)) (hfl : first ≠ last)
    (ops : List AddOp) (hv : ∀ o ∈ ops, o.Valid (Sorter.empty first last dB dA)) :
    ((Sorter.empty first last dB dA).addAll ops).Inv :=
  addAll_inv ops _ (empty_inv first last dB dA hfl) hv

/-- A re-added name replaces the earlier one: after `add`, the name occurs once, at the end, and its
declared constraints are exactly those of the latest call (defaults applied); every other name keeps its
position relative to the others and its constraints. -/
theorem readd_replaces (s : Sorter) (inv : s.Inv) (o : AddOp) :
    (s.add o.name o.after o.before).names =
        (if s.names.contains o.name then s.names.erase o.name else s.names) ++ [o.name] ∧
    (∀ n, alookup n (s.add o.name o.after o.before).n2after =
        if n = o.name then (effective s o.after o.before).1 else alookup n s.n2after) ∧
    (∀ n, alookup n (s.add o.name o.after o.before).n2before =
        if n = o.name then (effective s o.after o.before).2 else alookup n s.n2before) :=
  ⟨add_names s o.name o.after o.before,
   fun n => (add_lookup s inv o.name o.after o.before n).1,
   fun n => (add_lookup s inv o.name o.after o.before n).2⟩

/-- **Success case.**  When `sorted()` returns, the result contains each present name exactly once, it is
the restriction to the names of a topological order of the whole graph (sentinels included, `first`
before `last`), and every item is on the required side of every named item that is present:
each present `after` alternative precedes it, each present `before` alternative follows it. -/
theorem sorted_ok_spec (s : Sorter) (inv : s.Inv) (r : List Nat) (h : s.sorted = .ok r) :
    r.Perm s.names ∧ r.Nodup ∧
    (∃ full, TopoOrder s.nodes s.arcs full ∧ Precedes s.first s.last full ∧
        r = full.filter fun n => s.names.contains n) ∧
    (∀ n a, alookup n s.n2after = some a → ∀ u ∈ a, u ∈ r → Precedes u n r) ∧
    (∀ n b, alookup n s.n2before = some b → ∀ x ∈ b, x ∈ r → Precedes n x r) := by
  rw [Sorter.sorted_eq] at h
  split at h
  · cases h
  split at h
  · cases h
  split at h
  · cases h
  rename_i _ _ hal
  have halive : s.fin.alive = [] := by
    have : s.fin.alive.isEmpty = true := by simpa using hal
    exact List.isEmpty_iff.mp this
  injection h with hr
  have topo := s.fin_ok inv.nodes_nodup halive
  have hnames : s.names.Nodup := (List.nodup_cons.mp (List.nodup_cons.mp inv.nodes_nodup).2).2
  have hperm : r.Perm s.names := by
    have := topo.1.filter (fun n => s.names.contains n)
    rw [filter_names_nodes s inv.nodes_nodup] at this
    rw [← hr]; exact this
  have hmem_r : ∀ x, x ∈ r ↔ x ∈ s.names := fun x => hperm.mem_iff
  have hnode : ∀ x, x ∈ s.names → x ∈ s.nodes := fun x hx =>
    List.mem_cons_of_mem _ (List.mem_cons_of_mem _ hx)
  have harc : ∀ e, e ∈ s.order → e.1 ∈ s.names → e.2 ∈ s.names → Precedes e.1 e.2 r := by
    intro e he h1 h2
    have : e ∈ s.arcs := by
      simp only [Sorter.arcs, List.mem_filter, List.mem_cons, Bool.and_eq_true, List.contains_eq_mem,
        decide_eq_true_eq]
      exact ⟨Or.inr he, hnode _ h1, hnode _ h2⟩
    have hp := topo.2 e this
    rw [← hr]
    exact precedes_filter _ hp (by simpa using h1) (by simpa using h2)
  refine ⟨hperm, hperm.nodup_iff.mpr hnames, ⟨s.fin.out, topo, ?_, hr.symm⟩, ?_, ?_⟩
  · have : (s.first, s.last) ∈ s.arcs := by
      simp [Sorter.arcs, Sorter.nodes]
    exact topo.2 _ this
  · intro n a hna u hu hur
    have hn : n ∈ s.names := inv.after_sub n (mem_keys_of_alookup hna)
    have : (u, n) ∈ s.order := by
      apply inv.order_perm.mem_iff.mpr
      apply List.mem_append_left
      simp only [afterArcs, List.mem_flatMap, List.mem_map]
      exact ⟨(n, a), alookup_some_mem hna, u, hu, rfl⟩
    exact harc (u, n) this ((hmem_r u).mp hur) hn
  · intro n b hnb x hx hxr
    have hn : n ∈ s.names := inv.before_sub n (mem_keys_of_alookup hnb)
    have : (n, x) ∈ s.order := by
      apply inv.order_perm.mem_iff.mpr
      apply List.mem_append_right
      simp only [beforeArcs, List.mem_flatMap, List.mem_map]
      exact ⟨(n, b), alookup_some_mem hnb, x, hx, rfl⟩
    exact harc (n, x) this hn ((hmem_r x).mp hxr)

/-- **Unsatisfied requirement ⇔ error (before).**  The names reported are exactly those that declared a
`before` constraint none of whose alternatives is present (sentinels count as present) — whatever other
items declare.  (This is the statement F-C18a violated before the `fix:` commit.) -/
theorem unsatisfied_before_iff (s : Sorter) (inv : s.Inv) :
    (∀ n, n ∈ s.missingBefore ↔ ∃ b, alookup n s.n2before = some b ∧ b ≠ [] ∧ ∀ x ∈ b, x ∉ s.nodes) ∧
    (∀ w, s.sorted = .unsatBefore w ↔ (w = s.missingBefore ∧ s.missingBefore ≠ [])) := by
  constructor
  · intro n
    simp only [Sorter.missingBefore, List.mem_filter, Bool.not_eq_eq_eq_not, Bool.not_true,
      List.contains_eq_mem, decide_eq_false_iff_not]
    rw [inv.reqB n, mem_satisfied inv.before_keys]
    constructor
    · rintro ⟨⟨b, hb, hne⟩, hns⟩
      refine ⟨b, hb, hne, fun x hx hxn => hns ⟨b, hb, x, hx, hxn⟩⟩
    · rintro ⟨b, hb, hne, hall⟩
      refine ⟨⟨b, hb, hne⟩, ?_⟩
      rintro ⟨b', hb', x, hx, hxn⟩
      rw [hb] at hb'; cases hb'
      exact hall x hx hxn
  · intro w
    rw [Sorter.sorted_eq]
    by_cases hm : s.missingBefore = []
    · simp [hm]
      split <;> (try split) <;> simp
    · have : (!s.missingBefore.isEmpty) = true := by simpa [List.isEmpty_iff] using hm
      simp only [this, if_true, SortResult.unsatBefore.injEq]
      constructor
      · intro h; exact ⟨h.symm, hm⟩
      · intro h; exact h.1.symm

/-- **Unsatisfied requirement ⇔ error (after)**, when no `before` requirement is unsatisfied
(the `before` check comes first). -/
theorem unsatisfied_after_iff (s : Sorter) (inv : s.Inv) (hb : s.missingBefore = []) :
    (∀ n, n ∈ s.missingAfter ↔ ∃ a, alookup n s.n2after = some a ∧ a ≠ [] ∧ ∀ x ∈ a, x ∉ s.nodes) ∧
    (∀ w, s.sorted = .unsatAfter w ↔ (w = s.missingAfter ∧ s.missingAfter ≠ [])) := by
  constructor
  · intro n
    simp only [Sorter.missingAfter, List.mem_filter, Bool.not_eq_eq_eq_not, Bool.not_true,
      List.contains_eq_mem, decide_eq_false_iff_not]
    rw [inv.reqA n, mem_satisfied inv.after_keys]
    constructor
    · rintro ⟨⟨b, hb, hne⟩, hns⟩
      refine ⟨b, hb, hne, fun x hx hxn => hns ⟨b, hb, x, hx, hxn⟩⟩
    · rintro ⟨b, hb, hne, hall⟩
      refine ⟨⟨b, hb, hne⟩, ?_⟩
      rintro ⟨b', hb', x, hx, hxn⟩
      rw [hb] at hb'; cases hb'
      exact hall x hx hxn
  · intro w
    rw [Sorter.sorted_eq]
    simp only [hb, List.isEmpty_nil, Bool.not_true, Bool.false_eq_true, if_false]
    by_cases hm : s.missingAfter = []
    · simp [hm]
      split <;> simp
    · have : (!s.missingAfter.isEmpty) = true := by simpa [List.isEmpty_iff] using hm
      simp only [this, if_true, SortResult.unsatAfter.injEq]
      constructor
      · intro h; exact ⟨h.symm, hm⟩
      · intro h; exact h.1.symm

/-- **Cycle ⇔ error.**  With every requirement satisfied, `sorted()` raises the cyclic-dependency error
exactly when the constraint graph over the present items (sentinels included) admits no topological
order, i.e. is cyclic; otherwise it returns an order. -/
theorem cycle_iff_error (s : Sorter) (inv : s.Inv) (hb : s.missingBefore = []) (ha : s.missingAfter = []) :
    ((∃ left, s.sorted = .cyclic left) ↔ ¬ ∃ l, TopoOrder s.nodes s.arcs l) ∧
    ((∃ r, s.sorted = .ok r) ↔ ∃ l, TopoOrder s.nodes s.arcs l) := by
  have hs : s.sorted = if !s.fin.alive.isEmpty then .cyclic s.fin.alive
      else .ok (s.fin.out.filter fun n => s.names.contains n) := by
    rw [Sorter.sorted_eq]; simp [hb, ha]
  by_cases hal : s.fin.alive = []
  · have topo := s.fin_ok inv.nodes_nodup hal
    rw [hs]; simp only [hal, List.isEmpty_nil, Bool.not_true, Bool.false_eq_true, if_false]
    constructor
    · constructor
      · rintro ⟨_, h⟩; cases h
      · intro h; exact absurd ⟨_, topo⟩ h
    · exact ⟨fun _ => ⟨_, topo⟩, fun _ => ⟨_, rfl⟩⟩
  · have hno := s.fin_cyclic inv.nodes_nodup hal
    have : (!s.fin.alive.isEmpty) = true := by simpa [List.isEmpty_iff] using hal
    rw [hs]; simp only [this, if_true]
    constructor
    · exact ⟨fun _ => hno, fun _ => ⟨_, rfl⟩⟩
    · constructor
      · rintro ⟨_, h⟩; cases h
      · intro h; exact absurd h hno

/-- The nodes reported by the cyclic-dependency error each have an incoming constraint from another
reported node (they are the part of the graph that could not be ordered). -/
theorem cyclic_report_closed (s : Sorter) (inv : s.Inv) (left : List Nat) (h : s.sorted = .cyclic left) :
    left ≠ [] ∧ ∀ v ∈ left, ∃ e ∈ s.arcs, e.2 = v ∧ e.1 ∈ left := by
  rw [Sorter.sorted_eq] at h
  split at h
  · cases h
  split at h
  · cases h
  split at h
  · rename_i hal
    injection h with h; subst h
    refine ⟨by simpa [List.isEmpty_iff] using hal, ?_⟩
    exact (kahn_outcome inv.nodes_nodup s.arcs_in_nodes).2.2
  · cases h

/-! ### long-lived sorters: the public `remove`, and `sorted()` asked at any point of a history -/

/-- Every history of valid additions, removals (also of names that are not there) and `sorted()` calls, in any
interleaving, keeps the bookkeeping invariant — so `sorted_ok_spec`, `unsatisfied_before_iff`,
`unsatisfied_after_iff`, `cycle_iff_error`, `cyclic_report_closed` apply to the state reached at every point. -/
theorem history_keeps_invariant (first last : Nat) (dB dA : Option (List Nat)) (hfl : first ≠ last)
    (ops : List HOp) (hv : ∀ op ∈ ops, op.Valid (Sorter.empty first last dB dA)) :
    (ops.foldl HOp.step (Sorter.empty first last dB dA)).Inv :=
  history_inv ops _ (empty_inv first last dB dA hfl) hv

/-- `sorted()` only reads: erasing the queries from a history gives the same state. -/
theorem queries_do_not_change_state (s : Sorter) (ops : List HOp) :
    ops.foldl HOp.step s = (ops.filter fun op => !op.isQuery).foldl HOp.step s := by
  induction ops generalizing s with
  | nil => rfl
  | cons op ops ih =>
    cases op with
    | add o => simpa [HOp.isQuery] using ih _
    | remove n => simpa [HOp.isQuery] using ih _
    | query => simpa [HOp.isQuery, HOp.step] using ih s

theorem runHistory_append (s : Sorter) (pre rest : List HOp) :
    runHistory s (pre ++ rest) = runHistory s pre ++ runHistory (pre.foldl HOp.step s) rest := by
  induction pre generalizing s with
  | nil => rfl
  | cons op pre ih =>
    cases op with
    | add o => simpa [runHistory] using ih _
    | remove n => simpa [runHistory] using ih _
    | query => simpa [runHistory, HOp.step] using ih s

/-- **`sorted()` is a function of the declarations in force**: whatever was asked before, the answer to a
`sorted()` call at any position of a history is `sorted` of the state produced by the additions and removals made
so far (the earlier queries erased) — nothing an earlier `sorted()` computed can show in a later answer. -/
theorem sorted_is_a_function_of_the_current_state (s : Sorter) (pre post : List HOp) :
    let now := (pre.filter fun op => !op.isQuery).foldl HOp.step s
    runHistory s (pre ++ HOp.query :: post) = runHistory s pre ++ now.sorted :: runHistory now post := by
  simp only [runHistory_append, runHistory, ← queries_do_not_change_state]

/-- The public `remove`: a present name disappears with everything it declared (so a later `sorted()` neither
returns it nor lets it satisfy anybody's requirement: it is no longer a node); a name that is not there leaves
the state untouched (the real call raises `ValueError`). -/
theorem removed_name_is_gone (s : Sorter) (inv : s.Inv) (n : Nat) :
    (n ∈ s.names →
      let t := (HOp.remove n).step s
      t.names = s.names.erase n ∧ n ∉ t.nodes ∧ alookup n t.n2after = none ∧ alookup n t.n2before = none ∧
      ∀ r, t.sorted = .ok r → n ∉ r) ∧
    (n ∉ s.names → s.removeOp n = (s, false)) := by
  constructor
  · intro hmem
    have hc : s.names.contains n = true := by simpa using hmem
    obtain ⟨tinv, h1, h2, h3⟩ := remove_inv s inv n hmem
    obtain ⟨f1, f2, f3, _⟩ := remove_fields s n
    have hnodes : n ∉ (s.remove n).nodes := by
      have hn := inv.nodes_nodup
      simp only [Sorter.nodes, List.nodup_cons, List.mem_cons, not_or] at hn
      simp only [Sorter.nodes, f2, f3, List.mem_cons, not_or]
      refine ⟨?_, ?_, h1⟩
      · rintro rfl; exact hn.1.2 hmem
      · rintro rfl; exact hn.2.1 hmem
    simp only [HOp.step, Sorter.removeOp, hc, if_true]
    refine ⟨f1, hnodes, alookup_none_of_not_mem h2, alookup_none_of_not_mem h3, ?_⟩
    intro r hr hnr
    exact h1 ((sorted_ok_spec _ tinv r hr).1.mem_iff.mp hnr)
  · intro hmem
    simp [Sorter.removeOp, hmem]

/-- non-vacuity and the history the seeded `sorted()` cache gets wrong: `a before=b`, `b`, ask (fine), remove `b`,
ask again — the second answer must be the unsatisfied-before error for `a`, not the remembered order -/
example :
    runHistory (Sorter.empty 0 1 (some [1]) none)
      [.add ⟨2, none, some [3]⟩, .add ⟨3, none, none⟩, .query, .remove 3, .query, .remove 9, .query] =
      [.ok [2, 3], .unsatBefore [2], .unsatBefore [2]] := by decide

/-! ### wrapping order -/

/-- **Tweens / derivers wrap in list order: the first is outermost** — entered first, left last —
for a chain of any length. -/
theorem compose_trace (use : List Nat) (h : Handler) :
    compose use h = use.map Ev.enter ++ h ++ use.reverse.map Ev.exit := by
  simp only [compose, List.foldl_reverse]
  induction use with
  | nil => simp
  | cons n use ih =>
    rw [List.foldr_cons, ih]
    simp [wrap]

/-- An explicit tween list replaces the implicit order. -/
theorem explicit_replaces_implicit (explicit implicit : List Nat) (hne : explicit ≠ []) (h : Handler) :
    compose (tweensUse explicit implicit) h = explicit.map Ev.enter ++ h ++ explicit.reverse.map Ev.exit := by
  have : tweensUse explicit implicit = explicit := by
    simp only [tweensUse]
    cases explicit with
    | nil => exact absurd rfl hne
    | cons _ _ => rfl
  rw [this, compose_trace]

theorem implicit_when_no_explicit (implicit : List Nat) (h : Handler) :
    compose (tweensUse [] implicit) h = implicit.map Ev.enter ++ h ++ implicit.reverse.map Ev.exit := by
  simp [tweensUse, compose_trace]

/-! ### obligations over the facts regenerated from the source (`Gen/C18.lean`) -/

open Pyr.Gen.C18 in
/-- The generated default deriver chain, pushed through the model of `add_view_deriver` and of the sorter,
sorts to the documented pipeline: the permission check (`secured_view`) outermost, the user's callable
(`mapped_view`) innermost. -/
theorem default_derivers_sorted :
    deriverNamesOf defaultDeriverSorter.sorted =
      some ["secured_view", "csrf_view", "owrapped_view", "http_cached_view", "decorated_view",
            "rendered_view", "mapped_view"] := by decide

open Pyr.Gen.C18 in
/-- `_apply_view_derivers` wraps in that order with the two fixed outer wrappers in front:
the first name is the outermost wrapper. -/
theorem derivers_wrap_in_order :
    (deriverNamesOf defaultDeriverSorter.sorted).map wrappingOrder =
      some ["attr_wrapped_view", "predicated_view", "secured_view", "csrf_view", "owrapped_view",
            "http_cached_view", "decorated_view", "rendered_view", "mapped_view"] := by decide

open Pyr.Gen.C18 in
/-- The sorters the configurator builds, the keyword mapping of the `add` calls (`under ↦ after`,
`over ↦ before`), `Tweens.__call__`, and the documented defaults of `add_view_deriver` (`under='decorated_view'`,
`over='rendered_view'`) are what the model assumes (all observed by running the tree under test). -/
theorem configurator_shapes :
    deriverSorter = ⟨none, some "INGRESS", "INGRESS", "VIEW"⟩ ∧
    tweenSorter = ⟨none, some "INGRESS", "INGRESS", "MAIN"⟩ ∧
    deriverAddMapping = "before=over,after=under" ∧ tweenAddMapping = "after=under,before=over" ∧
    tweenCall = "explicit-else-implicit,reversed-fold" ∧ applyReversed = true ∧
    deriverMappedRule = true ∧ deriverSortedTuples = true ∧ defaultTweens = ["EXCVIEW"] ∧
    deriverDefaultUnder = "decorated_view" ∧ deriverDefaultOver = "rendered_view" := by decide

open Pyr.Gen.C18 in
/-- **`add_view_deriver`'s normalisation is the one OBSERVED on the tree under test**: on each of the 24 probe
calls (defaults, single names, unsorted tuples, duplicates, `VIEW` / `INGRESS` / `mapped_view` inside tuples,
reserved names) the model rejects exactly when the real directive raised `ConfigurationError`, and otherwise
hands the sorter the `after` / `before` tuples the real sorter received. -/
theorem deriver_normalisation_as_probed :
    normProbes.length = 24 ∧
    ∀ p ∈ normProbes, rejectsDeriver p.raw = p.rejected ∧
      (p.rejected = false → deriverAddArgs p.raw = (p.after, p.before)) := by decide +kernel

open Pyr.Gen.C18 in
/-- **The model's sorter after the observed default calls is the real sorter**: replaying the calls
`add_default_view_derivers` was observed to make through the model of `add_view_deriver` and of
`TopologicalSorter.add` gives the `names`, `order`, `name2after`, `name2before`, `req_after`, `req_before`
read from the real `IViewDerivers` utility. -/
theorem default_sorter_state_as_probed :
    let s := defaultDeriverSorter
    let id := nameId deriverSorter.first deriverSorter.last defaultDeriverNames
    s.names = defaultSorterState.map (fun e => id e.name) ∧
    s.order = probedSorterOrder ∧
    s.names.map (fun n => (n, alookup n s.n2after, alookup n s.n2before)) = probedSorterTables ∧
    s.reqAfter = (defaultSorterState.filter (·.reqAfter)).map (fun e => id e.name) ∧
    s.reqBefore = (defaultSorterState.filter (·.reqBefore)).map (fun e => id e.name) ∧
    defaultSorterState.length = 7 := by decide +kernel

open Pyr.Gen.C18 in
/-- **`Tweens.__call__` composes as OBSERVED**: for the 8 probed (explicit, implicit) combinations the trace of
one call of the handler the real `Tweens` object built is the model's `compose (tweensUse explicit implicit)`. -/
theorem tween_call_as_probed :
    tweenCallProbes.length = 8 ∧
    ∀ p ∈ tweenCallProbes, (compose (tweensUse p.1 p.2.1) [Ev.core]).map evCode = p.2.2 := by decide +kernel

/-! ### non-vacuity -/

/-- a concrete non-trivial history meets the hypotheses: valid additions (with a re-add and an absent
alternative), invariant, successful sort honouring the constraints -/
example :
    let s0 := Sorter.empty 0 1 (some [1]) none
    let ops : List AddOp := [⟨2, some [3], none⟩, ⟨3, none, none⟩, ⟨4, some [9, 2], some [1]⟩, ⟨2, some [3], some [4]⟩]
    (∀ o ∈ ops, o.Valid s0) ∧ (s0.addAll ops).sorted = .ok [3, 2, 4] ∧
      (s0.addAll ops).missingBefore = [] ∧ (s0.addAll ops).missingAfter = [] := by
  refine ⟨?_, by decide, by decide, by decide⟩
  intro o ho
  simp only [List.mem_cons, List.not_mem_nil, or_false] at ho
  rcases ho with rfl | rfl | rfl | rfl <;> exact ⟨by decide, by decide, by decide, by decide⟩

/-- a cyclic and an unsatisfied instance (the F-C18a shape: `x before=missing; y after=x`) -/
example :
    ((Sorter.empty 0 1 (some [1]) none).addAll [⟨2, some [3], none⟩, ⟨3, some [2], none⟩]).sorted = .cyclic [2, 3] ∧
    ((Sorter.empty 0 1 (some [1]) none).addAll [⟨2, none, some [9]⟩, ⟨3, some [2], none⟩]).sorted = .unsatBefore [2] := by
  decide

/-- the excluded point of the domain: an empty alternatives list leaves a stale requirement behind
when the name is re-added without constraints (so `AddOp.Valid` cannot be dropped) -/
theorem empty_alternatives_excluded :
    ((Sorter.empty 0 1 (some [1]) none).addAll [⟨2, some [], none⟩, ⟨2, none, some [1]⟩]).sorted
      = .unsatAfter [2] := by decide

end Pyr.Topo
