import PyramidModel.Lemmas.UrlJoin
/-
C17 — Generated URLs are well-formed and decode back to the supplied parts.

Property theorems only.  Model: `PyramidModel/Url.lean` (+ `PctCode.lean`); safe sets: `Gen/C17.lean`, regenerated
from the source on every run; spec side: the model's copy of `urllib.parse` (`urlsplit`, `parseQsl`, `unquote`,
`lastSegments`) and the declarative functions `expand`, `wanted`, `minusAuthority`.

All theorems quantify over texts of any length made of arbitrary Unicode scalar values, item lists of any length,
any number of elements.  Hypotheses are explicit and each has a concrete example below it.
-/
namespace Pyr.Url.Props
open Pyr Pyr.Trav Pyr.Pct Pyr.Url

/-! ## 0. obligations over the generated tables (decided over the whole table) -/

/-- the probe of the running URL helpers (extract/c17.py) ran and could be read -/
theorem gen_recognised : Gen.recognised = true := by decide

/-- every extracted safe set lies inside the RFC 3986 class of the component it is used in, never holds `%`;
element and resource-name sets hold no `/`; script-name and route-literal sets hold `/`; `quote_plus`'s set holds
none of `+ & =`; WebOb's `PATH_SAFE` equals the script-name set; urllib's always-safe set is `isUnreserved`
(checked for all 256 bytes). -/
theorem gen_safe_sets_ok : genOk = true := by decide +kernel

theorem gen_facts : GenFacts := genFacts_of_genOk gen_safe_sets_ok

/-- the probed sets are the named module constants (minus urllib's always-safe characters): a position quoted
with another set than its constant shows here -/
theorem gen_sites_use_the_constants :
    Gen.elementSafe = Gen.constPathSegmentSafe ∧ Gen.resNameSafe = Gen.constPathSegmentSafe ∧
    Gen.scriptSafe = Gen.constPathSafe ∧ Gen.routeValSafe = Gen.constPathSafe ∧
    Gen.querySafe = Gen.constQuerySafe ∧ Gen.anchorSafe = Gen.constAnchorSafe ∧ Gen.plusSafe = [] ∧
    Gen.routeLitSafe = [47] := by decide

/-! ## 1. the codecs -/

/-- UTF-8: encoding then strict decoding gives the text back. -/
theorem utf8_roundtrip (t : Text) : utf8Dec (utf8Enc t) = some t := Pyr.Pct.utf8_roundtrip t

/-- `unquote_to_bytes(quote_from_bytes(b, safe)) == b` for every byte string, when `safe` is ASCII without `%`. -/
theorem pct_roundtrip (safe : List UInt8) (hs : SafeOk safe) (b : Bytes) :
    unquoteToBytes (toBytes (quoteBytes safe b)) = b := unquoteToBytes_quoteBytes safe hs b

/-- `unquote(url_quote(t, safe)) == t` for every text. -/
theorem quote_roundtrip (safe : List UInt8) (hs : SafeOk safe) (t : Text) : unquote (quote safe t) = some t :=
  unquote_quote safe hs t

/-- `parse_qsl`'s decoding undoes `quote_plus` for every text. -/
theorem quote_plus_roundtrip (safe : List UInt8) (hs : PlusSafeOk safe) (t : Text) :
    unquotePlus (quotePlus safe t) = some t :=
  unquotePlus_quotePlus safe hs.1 (fun b hb => (hs.2 b hb).1) t

example : SafeOk Gen.elementSafe ∧ SafeOk Gen.querySafe ∧ PlusSafeOk Gen.plusSafe := by decide

/-- the side condition is needed: with `%` in the safe set the round trip fails (`%41` comes back as `A`). -/
theorem pct_roundtrip_needs_no_pct :
    unquoteToBytes (toBytes (quoteBytes [37] [37, 52, 49])) = [65] := by decide

/-- output character set: everything `url_quote` emits is an unreserved character, a character of `safe`, or a
`%` followed by two hex digits — stated as the grammar `( ok | "%" HEX HEX )*` for any class `ok` holding both. -/
theorem quote_grammar (ok : Char → Bool) (safe : List UInt8) (hs : safeWithin ok safe = true)
    (hu : ∀ c, isUnreservedC c = true → ok c = true) (t : Text) : pctWF ok (quote safe t) = true :=
  pctWF_quote ok safe hs hu t

example : safeWithin isPcharC Gen.elementSafe = true := by decide

/-- a delimiter outside `safe` never appears in quoted text (`/` in an element, `#` in a query, …). -/
theorem quote_has_no_foreign_delimiter (safe : List UInt8) (t : Text) (c : Char)
    (h1 : isUnreservedC c = false) (h2 : c ≠ '%') (h3 : ∀ b ∈ safe, c ≠ Char.ofNat b.toNat) : c ∉ quote safe t :=
  not_mem_quoteBytes safe _ c h1 h2 h3

/-! ## 2. queries -/

/-- **query_roundtrip**: `parse_qsl(urlencode(q), keep_blank_values=True) == expand(q)` — order kept, repeated
keys kept, sequence values expanded, `None` ⇒ `k=` ⇒ `(k, '')` — for every item list and all texts. -/
theorem query_roundtrip (ps : List (Text × QVal)) : parseQsl (urlencode ps) = some (expand ps) :=
  parseQsl_urlencodeWith Gen.plusSafe gen_facts.plusOk ps

example : expand [(['a'], .many [['1'], ['2']]), (['b'], .none), (['a'], .one [' '])]
    = [(['a'], ['1']), (['a'], ['2']), (['b'], []), (['a'], [' '])] := by decide

/-- `urlencode` output obeys the query grammar of RFC 3986. -/
theorem urlencode_grammar (ps : List (Text × QVal)) : pctWF isQueryC (urlencode ps) = true :=
  urlencodeWith_wf Gen.plusSafe gen_facts.plus ps

/-! ## 3. route_url -/

/-- Hypotheses shared by the URL-level theorems: the application URL in front is `scheme://authority` + a path
prefix (this is a theorem for the override branch — `app_url_shape_override` — and the caller's promise for an
explicit `_app_url`), and the route pattern starts with `/` (`_compile_route` guarantees it). -/
structure UrlCtx (e : Env) (o : Ovr) (sch auth pre : Text) : Prop where
  app : appUrlOf e o = sch ++ colonSlashSlash ++ auth ++ pre
  origin : OriginOk sch auth
  authWF : pctWF isUrlC auth = true
  pre : BodyOk pre

/-- the split of a `route_url` result by the standard parser: scheme and authority are those of the application
URL, the path is prefix + route path + element suffix, query and fragment are the encoded `_query` / `_anchor`. -/
theorem route_url_split (e : Env) (o : Ovr) (sch auth pre : Text) (hc : UrlCtx e o sch auth pre)
    (routes : Routes) (name : Text) (pieces : List Piece) (hr : routes.lookup name = some pieces)
    (hw : RouteWF pieces) (elems : List Text) (kw : Kw) (u : Text)
    (hu : routeUrl e routes name elems kw o = .ok u) :
    ∃ path, routeGenerate kw pieces = .ok path ∧
      urlsplit u = some ⟨sch.map lowerC, auth, pre ++ path ++ routeSuffix path elems,
                         (qsOpt o.query).getD [], (fragOpt o.anchor o.anchorTruthy).getD []⟩ := by
  unfold routeUrl at hu
  rw [hr] at hu
  simp only at hu
  split at hu
  · simp at hu
  · rename_i path hp
    simp only [Except.ok.injEq] at hu
    subst hu
    refine ⟨path, hp, ?_⟩
    rw [hc.app]
    exact assembled_split gen_facts sch auth pre path _ o.query o.anchor o.anchorTruthy hc.origin hc.pre
      (routeGenerate_lead gen_facts kw pieces path hw hp) (routeGenerate_wf gen_facts kw pieces path hp)
      (routeSuffix_wf gen_facts path elems)

/-- **rfc3986_chars** (route_url): the whole result obeys `( RFC-3986-character | "%" HEX HEX )*`; in
particular every character is unreserved, reserved, or `%`. -/
theorem rfc3986_chars (e : Env) (o : Ovr) (sch auth pre : Text) (hc : UrlCtx e o sch auth pre)
    (routes : Routes) (name : Text) (elems : List Text) (kw : Kw) (u : Text)
    (hu : routeUrl e routes name elems kw o = .ok u) :
    pctWF isUrlC u = true ∧ ∀ c ∈ u, isUrlC c = true := by
  have hwf : pctWF isUrlC u = true := by
    unfold routeUrl at hu
    split at hu
    · simp at hu
    · rename_i pieces hr
      split at hu
      · simp at hu
      · rename_i path hp
        simp only [Except.ok.injEq] at hu
        subst hu
        rw [hc.app]
        exact assembled_wf gen_facts sch auth pre path _ o.query o.anchor o.anchorTruthy hc.origin.schemeChars hc.authWF hc.pre.wf
          (routeGenerate_wf gen_facts kw pieces path hp) (routeSuffix_wf gen_facts path elems)
  exact ⟨hwf, urlC_of_wf u hwf⟩

/-- **elements_roundtrip**: the last `len(elements)` segments of the path component, percent-decoded, are the
supplied elements — whatever they contain (`/`, `?`, `#`, `%`, spaces, any Unicode, empty strings). -/
theorem elements_roundtrip (e : Env) (o : Ovr) (sch auth pre : Text) (hc : UrlCtx e o sch auth pre)
    (routes : Routes) (name : Text) (pieces : List Piece) (hr : routes.lookup name = some pieces)
    (hw : RouteWF pieces) (elems : List Text) (hne : elems ≠ []) (kw : Kw) (u : Text)
    (hu : routeUrl e routes name elems kw o = .ok u) :
    ∃ s, urlsplit u = some s ∧ lastSegments s.path elems.length = some elems := by
  obtain ⟨path, _, hs⟩ := route_url_split e o sch auth pre hc routes name pieces hr hw elems kw u hu
  refine ⟨_, hs, ?_⟩
  simp only
  have g := gen_facts
  have hsafe := safeOk_of_within _ _ g.element
  unfold routeSuffix
  simp only [hne, if_false]
  split
  · rename_i hsl
    obtain ⟨a, ha⟩ := endsWithSlash_iff path hsl
    have : pre ++ path ++ joinElements elems = (pre ++ a) ++ '/' :: joinElements elems := by
      rw [ha]; simp
    rw [this]
    exact lastSegments_joined _ hsafe g.elementNoSlash _ elems hne
  · have : pre ++ path ++ '/' :: joinElements elems = (pre ++ path) ++ '/' :: joinElements elems := by simp
    rw [this]
    exact lastSegments_joined _ hsafe g.elementNoSlash _ elems hne

/-- **query_roundtrip at URL level** (mapping / pair list): the query component parses back to `expand(q)`. -/
theorem url_query_roundtrip (e : Env) (o : Ovr) (sch auth pre : Text) (hc : UrlCtx e o sch auth pre)
    (routes : Routes) (name : Text) (pieces : List Piece) (hr : routes.lookup name = some pieces)
    (hw : RouteWF pieces) (elems : List Text) (kw : Kw) (u : Text)
    (hu : routeUrl e routes name elems kw o = .ok u)
    (ps : List (Text × QVal)) (truthy : Bool) (hq : o.query = .pairs ps truthy) :
    ∃ s, urlsplit u = some s ∧ parseQsl s.query = some (expand ps) := by
  obtain ⟨path, _, hs⟩ := route_url_split e o sch auth pre hc routes name pieces hr hw elems kw u hu
  refine ⟨_, hs, ?_⟩
  simp only [hq, qsOpt]
  split
  · rename_i h
    have : ps = [] := by
      simp only [Bool.and_eq_true, Bool.not_eq_true'] at h
      simpa using h.1
    subst this
    rfl
  · exact query_roundtrip ps

/-- a `str` query is quoted as a whole and decodes to the supplied string. -/
theorem url_query_str_roundtrip (e : Env) (o : Ovr) (sch auth pre : Text) (hc : UrlCtx e o sch auth pre)
    (routes : Routes) (name : Text) (pieces : List Piece) (hr : routes.lookup name = some pieces)
    (hw : RouteWF pieces) (elems : List Text) (kw : Kw) (u : Text)
    (hu : routeUrl e routes name elems kw o = .ok u) (q : Text) (hq : o.query = .str q) :
    ∃ s, urlsplit u = some s ∧ unquote s.query = some q := by
  obtain ⟨path, _, hs⟩ := route_url_split e o sch auth pre hc routes name pieces hr hw elems kw u hu
  refine ⟨_, hs, ?_⟩
  simp only [hq, qsOpt]
  split
  · rename_i h; subst h; exact unquote_nil
  · exact quote_roundtrip _ (safeOk_of_within _ _ gen_facts.query) q

/-- **anchor_roundtrip**: the fragment component decodes to the supplied anchor (no anchor ⇒ no fragment). -/
theorem anchor_roundtrip (e : Env) (o : Ovr) (sch auth pre : Text) (hc : UrlCtx e o sch auth pre)
    (routes : Routes) (name : Text) (pieces : List Piece) (hr : routes.lookup name = some pieces)
    (hw : RouteWF pieces) (elems : List Text) (kw : Kw) (u : Text)
    (hu : routeUrl e routes name elems kw o = .ok u) :
    ∃ s, urlsplit u = some s ∧ unquote s.fragment = some o.anchor := by
  obtain ⟨path, _, hs⟩ := route_url_split e o sch auth pre hc routes name pieces hr hw elems kw u hu
  refine ⟨_, hs, ?_⟩
  simp only [fragOpt]
  split
  · rename_i h
    have : o.anchor = [] := by
      simp only [Bool.and_eq_true, Bool.not_eq_true'] at h
      simpa using h.1
    rw [this]; exact unquote_nil
  · exact quote_roundtrip _ (safeOk_of_within _ _ gen_facts.anchor) o.anchor

/-! ## 4. scheme / host / port overrides, default ports, `_app_url` -/

/-- **overrides honoured**: with `_scheme` / `_host` / `_port` (and no `_app_url`) the application URL is
`scheme://host[:port]` + quoted script name, where scheme, host and port follow the declarative priority list
`wanted` (`_port`, else the default port of an explicit `_scheme`, else the port written in the host text, else
`SERVER_PORT`; host from `_host`, else `Host`, else `SERVER_NAME`, without its port).  "Host without its port" is
`splitHostPort`, whose meaning on well-formed host texts is `split_host_port_spec` below: a bracketed literal
stays whole. -/
theorem overrides_honoured (e : Env) (o : Ovr) (hno : o.appUrl = none)
    (hov : (o.scheme.isSome || o.host.isSome || o.port.isSome) = true) :
    appUrlOf e o = originText (wanted e o.scheme o.host o.port) ++ quotedScriptName e := by
  rw [appUrlOf_eq gen_facts e o hno]
  simp only [originOf, hov, if_true]

/-- **default_ports_elided**: the port is left out of the authority exactly when it is the default port of the
scheme in force (443 for https, 80 for http), or empty. -/
theorem default_ports_elided (e : Env) (scheme host port : Option Text) :
    authText (wanted e scheme host port) =
      (splitHostPort (effHostText e host)).1 ++
        (if defaultPort (scheme.getD e.scheme) = some (effPort e scheme host port) ∨ effPort e scheme host port = []
         then [] else ':' :: effPort e scheme host port) := by
  simp only [authText, wanted]
  generalize effPort e scheme host port = p
  generalize defaultPort (scheme.getD e.scheme) = d
  by_cases h : d = some p
  · simp [h]
  · by_cases h2 : p = []
    · subst h2; simp [h]
    · simp [h, h2]

example : defaultPort sHttps = some p443 ∧ defaultPort sHttp = some p80 ∧ defaultPort ['f', 't', 'p'] = none := by decide

/-- without `_app_url`, under well-formed scheme / host / port texts (override branch: the `wanted` ones; no
override: the request's own, as WebOb's `host_url` reads them), the application URL has the shape the URL-level
theorems need: `UrlCtx` is then a theorem, not an assumption.
`OriginTextsOk`: the scheme is a scheme; the host is a reg-name or a bracketed IP literal `[…]` accepted by
`_check_bracketed_host` (`hostOk`); the port text has only unreserved / sub-delim / `:` characters.  Bracketed IPv6
hosts are covered (F-C17b, fixed by a63b542).  Outside: a `[` without its `]` (`unbalanced_bracket_outside`). -/
theorem app_url_shape (e : Env) (o : Ovr) (hno : o.appUrl = none)
    (htx : OriginTextsOk (originOf e o)) (hsn : ScriptOk e) :
    UrlCtx e o (originOf e o).1 (authText (originOf e o)) (quotedScriptName e) :=
  ⟨by rw [appUrlOf_eq gen_facts e o hno, originText_eq], originOk_of_texts _ htx, authText_wf _ htx,
   bodyOk_script gen_facts e hsn⟩

theorem app_url_shape_override (e : Env) (o : Ovr) (hno : o.appUrl = none)
    (hov : (o.scheme.isSome || o.host.isSome || o.port.isSome) = true)
    (htx : OriginTextsOk (wanted e o.scheme o.host o.port)) (hsn : ScriptOk e) :
    UrlCtx e o (wanted e o.scheme o.host o.port).1 (authText (wanted e o.scheme o.host o.port)) (quotedScriptName e) := by
  have h : originOf e o = wanted e o.scheme o.host o.port := by simp only [originOf, hov, if_true]
  have := app_url_shape e o hno (by rw [h]; exact htx) hsn
  rwa [h] at this

/-- non-vacuity: `Host: ex.com:8080`, `_scheme='https'`, `SCRIPT_NAME='/a b'` satisfy the hypotheses … -/
example : OriginTextsOk (wanted ⟨sHttp, some ['e', 'x', '.', 'c', 'o', 'm', ':', '8', '0', '8', '0'], ['l'], p80, ['/', 'a', ' ', 'b']⟩
    (some sHttps) none none) ∧ ScriptOk ⟨sHttp, some ['e', 'x', '.', 'c', 'o', 'm', ':', '8', '0', '8', '0'], ['l'], p80, ['/', 'a', ' ', 'b']⟩ :=
  ⟨⟨by decide, by decide, by
      intro p h
      have : (wanted ⟨sHttp, some ['e', 'x', '.', 'c', 'o', 'm', ':', '8', '0', '8', '0'], ['l'], p80, ['/', 'a', ' ', 'b']⟩
        (some sHttps) none none).2.2 = none := by decide
      rw [this] at h; cases h⟩, .inr ⟨_, rfl⟩⟩

/-- … so does `Host: [2001:db8::1]:8443` with `_port='81'` (a bracketed IPv6 literal) … -/
example : OriginTextsOk (wanted ⟨sHttp, some "[2001:db8::1]:8443".toList, ['l'], p80, []⟩ none none (some ['8', '1'])) := by
  have hw : wanted ⟨sHttp, some "[2001:db8::1]:8443".toList, ['l'], p80, []⟩ none none (some ['8', '1'])
      = (sHttp, "[2001:db8::1]".toList, some ['8', '1']) := by decide
  rw [hw]
  exact ⟨by decide, by decide, by intro p h; cases h; decide⟩

/-- … and so does an explicit `_app_url = 'http://x/y'` (the caller's promise, checked here for a concrete one),
with a route pattern `/s/{v}`. -/
example : UrlCtx ⟨sHttp, none, ['l'], p80, []⟩ { appUrl := some ['h', 't', 't', 'p', ':', '/', '/', 'x', '/', 'y'] }
    ['h', 't', 't', 'p'] ['x'] ['/', 'y'] ∧ RouteWF [.lit ['/', 's', '/'], .ph ['v']] :=
  ⟨⟨rfl, ⟨by decide, by decide, by decide, by decide⟩, by decide, ⟨.inr ⟨_, rfl⟩, by decide⟩⟩, by decide⟩

/-- scheme, host and port read back by the parser from a `route_url` result are the wanted ones — for reg-name
hosts and for bracketed IPv6 / IPvFuture hosts alike. -/
theorem overrides_read_back (e : Env) (o : Ovr) (hno : o.appUrl = none)
    (hov : (o.scheme.isSome || o.host.isSome || o.port.isSome) = true)
    (htx : OriginTextsOk (wanted e o.scheme o.host o.port)) (hsn : ScriptOk e)
    (routes : Routes) (name : Text) (pieces : List Piece) (hr : routes.lookup name = some pieces)
    (hw : RouteWF pieces) (elems : List Text) (kw : Kw) (u : Text)
    (hu : routeUrl e routes name elems kw o = .ok u) :
    ∃ s, urlsplit u = some s ∧ s.scheme = (wanted e o.scheme o.host o.port).1.map lowerC ∧
      s.netloc = authText (wanted e o.scheme o.host o.port) := by
  obtain ⟨path, _, hs⟩ := route_url_split e o _ _ _ (app_url_shape_override e o hno hov htx hsn)
    routes name pieces hr hw elems kw u hu
  exact ⟨_, hs, rfl, rfl⟩

/-- non-vacuity of the hypotheses: `Host: example.com:8080`, `_scheme='https'` ⇒ `https://example.com` -/
example :
    authText (wanted ⟨sHttp, some ['e', 'x', '.', 'c', 'o', 'm', ':', '8', '0', '8', '0'], ['l'], p80, ['/', 'a', ' ', 'b']⟩
      (some sHttps) none none) = ['e', 'x', '.', 'c', 'o', 'm'] ∧
    schemeOk (wanted ⟨sHttp, some ['e', 'x', '.', 'c', 'o', 'm', ':', '8', '0', '8', '0'], ['l'], p80, ['/', 'a', ' ', 'b']⟩
      (some sHttps) none none).1 = true := by decide

/-- what "the host without its optional port" means on well-formed host texts: `name:port` ⇒ (`name`, `port`);
`name` ⇒ (`name`, none); `[lit]:port` ⇒ (`[lit]`, `port`); `[lit]` ⇒ (`[lit]`, none) — for every name without
`:` that does not start with `[`, every literal without `]`, every port text. -/
theorem split_host_port_spec (name lit port : Text) (hn : ':' ∉ name) (hb : name.head? ≠ some '[') (hl : ']' ∉ lit) :
    splitHostPort (name ++ ':' :: port) = (name, some port) ∧ splitHostPort name = (name, none) ∧
    splitHostPort ('[' :: lit ++ ']' :: ':' :: port) = ('[' :: lit ++ [']'], some port) ∧
    splitHostPort ('[' :: lit ++ [']']) = ('[' :: lit ++ [']'], none) := by
  have hne : ']' ≠ '[' := by decide
  have hl' : ']' ∉ '[' :: lit := by
    intro m
    rcases List.mem_cons.mp m with e | m
    · exact hne e
    · exact hl m
  refine ⟨?_, ?_, ?_, ?_⟩
  · cases name with
    | nil => simp [splitHostPort, cut]
    | cons c r =>
      have hc : c ≠ '[' := fun e => hb (by simp [e])
      have := cut_append_sep ':' (c :: r) port hn
      unfold splitHostPort
      split
      · rename_i heq; simp only [List.cons_append, List.cons.injEq] at heq; exact absurd heq.1 hc
      · exact this
  · cases name with
    | nil => rfl
    | cons c r =>
      have hc : c ≠ '[' := fun e => hb (by simp [e])
      unfold splitHostPort
      split
      · rename_i heq; simp only [List.cons.injEq] at heq; exact absurd heq.1 hc
      · exact cut_no_sep ':' _ hn
  · have := cut_append_sep ']' ('[' :: lit) (':' :: port) hl'
    simp only [List.cons_append] at this
    simp only [splitHostPort, List.cons_append, this]
  · have := cut_append_sep ']' ('[' :: lit) [] hl'
    simp only [List.cons_append] at this
    simp only [splitHostPort, List.cons_append, this]

/-- **F-C17b** (fixed by a63b542) regression witness: `Host: [::1]:8080` with `_scheme='https'` gives
`https://[::1]/s` — host kept, Host's port replaced by the scheme's default and elided — and the parser accepts it. -/
theorem ipv6_override_kept :
    (routeUrl ⟨sHttp, some ['[', ':', ':', '1', ']', ':', '8', '0', '8', '0'], ['l'], p80, []⟩
      [(['s'], [.lit ['/', 's']])] ['s'] [] [] { scheme := some sHttps }).toOption
      = some ['h', 't', 't', 'p', 's', ':', '/', '/', '[', ':', ':', '1', ']', '/', 's'] ∧
    (urlsplit ['h', 't', 't', 'p', 's', ':', '/', '/', '[', ':', ':', '1', ']', '/', 's']).map (·.netloc)
      = some ['[', ':', ':', '1', ']'] ∧
    hostOk ['[', ':', ':', '1', ']'] = true := by decide

/-- the excluded point of `hostOk`: a `[` without `]` (`Host: [::1`) is copied as it is and the result is refused
by the parser — a malformed `Host` header is outside the property's domain. -/
theorem unbalanced_bracket_outside :
    (routeUrl ⟨sHttp, some ['[', ':', ':', '1'], ['l'], p80, []⟩
      [(['s'], [.lit ['/', 's']])] ['s'] [] [] { scheme := some sHttps }).toOption
      = some ['h', 't', 't', 'p', 's', ':', '/', '/', '[', ':', ':', '1', '/', 's'] ∧
    urlsplit ['h', 't', 't', 'p', 's', ':', '/', '/', '[', ':', ':', '1', '/', 's'] = none ∧
    hostOk ['[', ':', ':', '1'] = false := by decide

/-- **app_url_precedence**: with an explicit `_app_url` the result starts with it and does not depend on
`_scheme`, `_host`, `_port`, nor on the request's scheme / Host / server name / port / script name. -/
theorem app_url_precedence (e e' : Env) (o : Ovr) (a : Text) (ha : o.appUrl = some a) (s h p : Option Text)
    (routes : Routes) (name : Text) (elems : List Text) (kw : Kw) :
    routeUrl e routes name elems kw o = routeUrl e' routes name elems kw { o with scheme := s, host := h, port := p } ∧
    ∀ u, routeUrl e routes name elems kw o = .ok u → a <+: u := by
  constructor
  · simp only [routeUrl, appUrlOf, ha]
  · intro u hu
    simp only [routeUrl, appUrlOf, ha] at hu
    split at hu
    · simp at hu
    · split at hu
      · simp at hu
      · simp only [Except.ok.injEq] at hu
        rw [← hu]
        simp only [List.append_assoc]
        exact List.prefix_append _ _

/-! ## 5. `*_path` = `*_url` minus scheme and authority -/

/-- **path_variant_eq_url_minus_authority** (string form): without `_app_url`, `route_url(…)` is
`scheme://authority` followed by `route_path(…)` — same arguments, whatever `_scheme/_host/_port` were given to
either (`route_path` ignores them).  Holds for every input, including the ones that need quoting in
`SCRIPT_NAME` (F-C17a, fixed). -/
theorem path_variant_eq_url_minus_authority (e : Env) (o o' : Ovr) (hno : o.appUrl = none)
    (hq : o'.query = o.query) (ha : o'.anchor = o.anchor) (hat : o'.anchorTruthy = o.anchorTruthy)
    (routes : Routes) (name : Text) (elems : List Text) (kw : Kw) :
    (∀ u, routeUrl e routes name elems kw o = .ok u →
      ∃ p, routePath e routes name elems kw o' = .ok p ∧ u = originText (originOf e o) ++ p) ∧
    (∀ er, routeUrl e routes name elems kw o = .error er → routePath e routes name elems kw o' = .error er) := by
  have happ := appUrlOf_eq gen_facts e o hno
  constructor
  · intro u hu
    simp only [routePath, routeUrl, appUrlOf, hq, ha, hat] at hu ⊢
    split at hu
    · simp at hu
    · split at hu
      · simp at hu
      · simp only [Except.ok.injEq] at hu
        refine ⟨_, rfl, ?_⟩
        rw [← hu]
        simp only [appUrlOf] at happ
        rw [happ]
        simp only [List.append_assoc]
  · intro er hu
    simp only [routePath, routeUrl] at hu ⊢
    split at hu
    · exact hu
    · split at hu
      · exact hu
      · simp at hu

/-- the same through the standard parser: dropping `scheme://netloc`, as found by `urlsplit`, from the
`route_url` result gives the `route_path` result (well-formed origin texts, bracketed IPv6 hosts included). -/
theorem path_variant_by_parser (e : Env) (o o' : Ovr) (hno : o.appUrl = none)
    (hq : o'.query = o.query) (ha : o'.anchor = o.anchor) (hat : o'.anchorTruthy = o.anchorTruthy)
    (htx : OriginTextsOk (originOf e o)) (hsn : ScriptOk e)
    (routes : Routes) (name : Text) (pieces : List Piece) (hr : routes.lookup name = some pieces)
    (hw : RouteWF pieces) (elems : List Text) (kw : Kw) (u : Text)
    (hu : routeUrl e routes name elems kw o = .ok u) :
    ∃ p, routePath e routes name elems kw o' = .ok p ∧ minusAuthority u = some p := by
  obtain ⟨p, hp, hup⟩ := (path_variant_eq_url_minus_authority e o o' hno hq ha hat routes name elems kw).1 u hu
  refine ⟨p, hp, ?_⟩
  have hctx := app_url_shape e o hno htx hsn
  obtain ⟨path, _, hs⟩ := route_url_split e o _ _ _ hctx routes name pieces hr hw elems kw u hu
  unfold minusAuthority
  rw [hs]
  simp only [List.length_map]
  rw [hup, originText_eq]
  have : ((originOf e o).1 ++ colonSlashSlash ++ authText (originOf e o) ++ p) =
      ((originOf e o).1 ++ colonSlashSlash ++ authText (originOf e o)) ++ p := by simp
  rw [this, List.drop_left' (by simp [colonSlashSlash]; omega)]

/-- **F-C17a** witness (fixed in the source): `SCRIPT_NAME = '/a b'` — `route_path` quotes it exactly like
`route_url`. -/
theorem script_name_quoted_in_path_variant :
    (routePath ⟨sHttp, some ['h'], ['l'], p80, ['/', 'a', ' ', 'b']⟩ [(['s'], [.lit ['/', 's']])] ['s'] [] [] {}).toOption
      = some ['/', 'a', '%', '2', '0', 'b', '/', 's'] ∧
    (routeUrl ⟨sHttp, some ['h'], ['l'], p80, ['/', 'a', ' ', 'b']⟩ [(['s'], [.lit ['/', 's']])] ['s'] [] [] {}).toOption
      = some (['h', 't', 't', 'p', ':', '/', '/', 'h'] ++ ['/', 'a', '%', '2', '0', 'b', '/', 's']) := by decide

/-- **F-C17d** (recorded finding): with an empty `SCRIPT_NAME`, the route `/` and an empty first element,
`route_path` returns `//x`, which the standard parser reads as a reference to the *host* `x` with an empty path:
the elements are not recovered.  (The URL-level theorems above are about results with `scheme://authority` in
front, where this cannot happen; `path_variant_eq_url_minus_authority` holds here too.) -/
theorem path_only_double_slash :
    (routePath ⟨sHttp, some ['h'], ['l'], p80, []⟩ [(['r'], [.lit ['/']])] ['r'] [[], ['x']] [] {}).toOption
      = some ['/', '/', 'x'] ∧
    urlsplit ['/', '/', 'x'] = some ⟨[], ['x'], [], [], []⟩ := by decide

/-! ## 6. the other helpers -/

/-- `resource_url` (no `route_name`): split, elements, query and anchor as for `route_url`; the path is the
prefix + the resource's quoted path + the joined elements. -/
theorem resource_url_split (e : Env) (o : Ovr) (sch auth pre : Text) (hc : UrlCtx e o sch auth pre)
    (routes : Routes) (names elems : List Text) (u : Text)
    (hu : resourceUrl e routes names elems o none = .ok u) :
    urlsplit u = some ⟨sch.map lowerC, auth, pre ++ virtualPath names ++ (if elems = [] then [] else joinElements elems),
                       (qsOpt o.query).getD [], (fragOpt o.anchor o.anchorTruthy).getD []⟩ ∧
    pctWF isUrlC u = true := by
  simp only [resourceUrl, Except.ok.injEq] at hu
  subst hu
  rw [hc.app]
  obtain ⟨a, ha, _⟩ := virtualPath_shape names
  have hsuf : pctWF isPathC (if elems = [] then [] else joinElements elems) = true := by
    split
    · rfl
    · exact joinElements_wf gen_facts elems
  exact ⟨assembled_split gen_facts sch auth pre _ _ o.query o.anchor o.anchorTruthy hc.origin hc.pre ⟨a, ha⟩
      (virtualPath_wf gen_facts names) hsuf,
    assembled_wf gen_facts sch auth pre _ _ o.query o.anchor o.anchorTruthy hc.origin.schemeChars hc.authWF hc.pre.wf
      (virtualPath_wf gen_facts names) hsuf⟩

/-- elements appended to a resource URL decode back -/
theorem resource_elements_roundtrip (e : Env) (o : Ovr) (sch auth pre : Text) (hc : UrlCtx e o sch auth pre)
    (routes : Routes) (names elems : List Text) (hne : elems ≠ []) (u : Text)
    (hu : resourceUrl e routes names elems o none = .ok u) :
    ∃ s, urlsplit u = some s ∧ lastSegments s.path elems.length = some elems := by
  have hs := (resource_url_split e o sch auth pre hc routes names elems u hu).1
  refine ⟨_, hs, ?_⟩
  simp only [hne, if_false]
  obtain ⟨_, _, b, hb⟩ := virtualPath_shape names
  have : pre ++ virtualPath names ++ joinElements elems = (pre ++ b) ++ '/' :: joinElements elems := by
    rw [hb]; simp
  rw [this]
  exact lastSegments_joined _ (safeOk_of_within _ _ gen_facts.element) gen_facts.elementNoSlash _ elems hne

/-- `resource_path` = `resource_url` minus `scheme://authority` -/
theorem resource_path_variant (e : Env) (o o' : Ovr) (hno : o.appUrl = none)
    (hq : o'.query = o.query) (ha : o'.anchor = o.anchor) (hat : o'.anchorTruthy = o.anchorTruthy) (routes : Routes) (names elems : List Text) (u : Text)
    (hu : resourceUrl e routes names elems o none = .ok u) :
    ∃ p, resourcePath e routes names elems o' none = .ok p ∧ u = originText (originOf e o) ++ p := by
  simp only [resourceUrl, resourcePath, Except.ok.injEq, appUrlOf, hq, ha, hat] at hu ⊢
  refine ⟨_, rfl, ?_⟩
  rw [← hu]
  have happ := appUrlOf_eq gen_facts e o hno
  simp only [appUrlOf] at happ
  rw [happ]
  simp only [List.append_assoc]

/-- `current_route_url` is `route_url` of the matched (or named) route with the match dictionary under the
keyword arguments and, when no `_query` is passed, the request's own GET pairs as query: all `route_url`
theorems apply to it through this equation. -/
theorem current_route_url_eq (e : Env) (routes : Routes) (cur : Cur) (rn : Option Text) (n : Text)
    (hn : curRouteName cur rn = some n) (elems : List Text) (kw : Kw) (o : Ovr) :
    currentRouteUrl e routes cur rn elems kw o =
      routeUrl e routes n elems (kw ++ cur.matchdict) { o with query := curQuery cur o.query } ∧
    (o.query = .absent → curQuery cur o.query = .pairs (cur.get.map fun kv => (kv.1, QVal.one kv.2))) := by
  refine ⟨?_, fun h => by rw [h]; rfl⟩
  unfold currentRouteUrl
  simp only [hn]

/-- with no `_query`, the query component of `current_route_url` parses back to the request's GET pairs -/
theorem current_route_query_default (get : List (Text × Text)) :
    parseQsl (urlencode (get.map fun kv => (kv.1, QVal.one kv.2))) = some get := by
  rw [query_roundtrip]
  congr 1
  induction get with
  | nil => rfl
  | cons kv r ih => obtain ⟨k, v⟩ := kv; simp [expand, ih]

/-- a route-backed `static_url` is `route_url` of the static view's route with the asset's subpath as the
`*subpath` value: all `route_url` theorems apply to it through this equation. -/
theorem static_url_eq (e : Env) (routes : Routes) (regs : List StaticReg) (path : Text) (o : Ovr) (r : StaticReg)
    (hf : regs.find? (fun r => r.spec.isPrefixOf path) = some r) (hu : r.url = none) :
    staticUrl e routes regs path o =
      routeUrl e routes r.routeName [] [(subpathName, .one (path.drop r.spec.length))] o := by
  unfold staticUrl
  simp only [hf, hu]

/-- the `*_path` variants of the other helpers are their `*_url` variants called with the quoted script name as
`_app_url` — by definition in the source and in the model — so the `route_url` / `resource_url` theorems above
transfer. -/
theorem path_variants_def (e : Env) (routes : Routes) (regs : List StaticReg) (cur : Cur) (rn : Option Text)
    (path : Text) (elems : List Text) (kw : Kw) (o : Ovr) :
    staticPath e routes regs path o = staticUrl e routes regs path { o with appUrl := some (quotedScriptName e) } ∧
    currentRoutePath e routes cur rn elems kw o =
      currentRouteUrl e routes cur rn elems kw { o with appUrl := some (quotedScriptName e) } := ⟨rfl, rfl⟩

/-! ## 7. static views registered under an external base URL: `urljoin(base, quote(subpath))` -/

/-- the lemma behind the external branch: a subpath quoted with urllib's default safe set holds none of
`: ? # ;`, obeys the path grammar, starts with `/` only if the subpath does, and decodes back to the subpath —
so the parser reads it as a bare relative path (no scheme, no authority, no query, no fragment, no params). -/
theorem quoted_subpath_is_a_bare_path (sub : Text) (h0 : sub.head? ≠ some '/') :
    (':' ∉ quote [47] sub ∧ '?' ∉ quote [47] sub ∧ '#' ∉ quote [47] sub ∧ ';' ∉ quote [47] sub) ∧
    (quote [47] sub).head? ≠ some '/' ∧
    urlsplit (quote [47] sub) = some ⟨[], [], quote [47] sub, [], []⟩ ∧
    unquote (quote [47] sub) = some sub :=
  ⟨quoted_subpath_chars sub, quote_head_ne_slash [47] sub h0,
   urlsplit_relative _ (quoted_subpath_wf sub) (quoted_subpath_chars sub).1 (quote_head_ne_slash [47] sub h0),
   quote_roundtrip [47] (by decide) sub⟩

/-- **urljoin appends**: for a base `scheme://authority` + directory path `x/` whose segments need no resolution
and a bare relative path `q` (path grammar, no `:` `;`, not starting with `/`, segments that need no resolution),
`urljoin(base, q)` is the base followed by `q` — scheme (lower-cased), authority and base path intact. -/
theorem urljoin_appends (sch auth x q : Text) (ho : OriginOk sch auth) (hb : BodyOk (x ++ ['/']))
    (hrel : relativeSchemes.contains (sch.map lowerC) = true) (hauth : auth ≠ []) (hsemi : ';' ∉ x)
    (hx : (splitOn '/' x).tail.all (fun s => !s.isEmpty) = true) (hxd : (splitOn '/' x).all notDot = true)
    (hq : pctWF isPathC q = true) (hqne : q ≠ []) (hqc : ':' ∉ q) (hqs : ';' ∉ q) (hq0 : q.head? ≠ some '/')
    (hqn : normalSegs (splitOn '/' q) = true) :
    urljoin (sch ++ colonSlashSlash ++ auth ++ (x ++ ['/'])) q
      = .ok (sch.map lowerC ++ colonSlashSlash ++ auth ++ (x ++ ['/']) ++ q) := by
  have hbase := urlsplit_assembled sch auth (x ++ ['/']) none none ho hb (by intro t h; cases h) (by intro t h; cases h)
  simp only [optPre, List.append_nil, Option.getD_none] at hbase
  have hrelq := urlsplit_relative q hq hqc hq0
  have hsne : sch ≠ [] := by
    intro e; have := ho.first; rw [e] at this; simp [startsAlpha] at this
  have hbne : sch ++ colonSlashSlash ++ auth ++ (x ++ ['/']) ≠ [] := by simp [hsne]
  have hsemi' : (x ++ ['/']).contains ';' = false := by
    cases hc : (x ++ ['/']).contains ';' with
    | false => rfl
    | true =>
      have : ';' ∈ x ++ ['/'] := by simpa using hc
      rcases List.mem_append.mp this with m | m
      · exact absurd m hsemi
      · simp at m
  have hqs' : q.contains ';' = false := by
    cases hc : q.contains ';' with
    | false => rfl
    | true => exact absurd (by simpa using hc) hqs
  have hlne : sch.map lowerC ≠ [] := by simpa using hsne
  unfold urljoin
  simp only [hbne, if_false, hqne, hbase, hrelq, hsemi', hqs', Bool.or_self, Bool.false_eq_true, if_true, ne_eq,
    not_true_eq_false, hrel, Bool.not_true, joinPaths_normal x q hq0 hx hxd hqn]
  -- urlunsplit
  have hp2 : x ++ '/' :: q ≠ [] := by simp
  have hhead : (x ++ '/' :: q).head? = some '/' := by
    rcases hb.lead with e | ⟨r, e⟩
    · simp at e
    · cases x with
      | nil => rfl
      | cons c r' => simp only [List.cons_append, List.cons.injEq] at e; simp [e.1]
  simp only [urlunsplit, hauth, hlne, ne_eq, not_false_eq_true, decide_true, Bool.true_or, if_true, hp2, hhead,
    bne_self_eq_false, Bool.and_false, Bool.false_eq_true, if_false, not_true_eq_false, decide_false]
  simp [colonSlashSlash, List.append_assoc]

/-- **external static URL**: for a registration under `scheme://authority/dir/` (lower-case scheme, directory path
in normal form) and an asset whose subpath is non-empty, does not start with `/` and whose quoted form has segments
that need no resolution, `static_url` returns the registered base URL followed by the quoted subpath, the query
string and the fragment; the standard parser gives back the base's scheme and authority, a path that is the base
path followed by a text that decodes to the subpath, and the encoded query / fragment. -/
theorem static_external_url (e : Env) (routes : Routes) (regs : List StaticReg) (path : Text) (o : Ovr) (r : StaticReg)
    (sch auth x : Text) (hf : regs.find? (fun r => r.spec.isPrefixOf path) = some r)
    (hu : r.url = some (sch ++ colonSlashSlash ++ auth ++ (x ++ ['/'])))
    (ho : OriginOk sch auth) (hlow : sch.map lowerC = sch) (hb : BodyOk (x ++ ['/']))
    (hrel : relativeSchemes.contains sch = true) (hauth : auth ≠ []) (hsemi : ';' ∉ x)
    (hx : (splitOn '/' x).tail.all (fun s => !s.isEmpty) = true) (hxd : (splitOn '/' x).all notDot = true)
    (hsub : path.drop r.spec.length ≠ []) (hs0 : (path.drop r.spec.length).head? ≠ some '/')
    (hn : normalSegs (splitOn '/' (quote [47] (path.drop r.spec.length))) = true) :
    staticUrl e routes regs path o =
      .ok (sch ++ colonSlashSlash ++ auth ++ (x ++ ['/']) ++ quote [47] (path.drop r.spec.length)
            ++ qsOf o.query ++ fragOf o.anchor o.anchorTruthy) ∧
    urlsplit (sch ++ colonSlashSlash ++ auth ++ (x ++ ['/']) ++ quote [47] (path.drop r.spec.length)
            ++ qsOf o.query ++ fragOf o.anchor o.anchorTruthy)
      = some ⟨sch, auth, (x ++ ['/']) ++ quote [47] (path.drop r.spec.length),
              (qsOpt o.query).getD [], (fragOpt o.anchor o.anchorTruthy).getD []⟩ ∧
    unquote (quote [47] (path.drop r.spec.length)) = some (path.drop r.spec.length) := by
  obtain ⟨⟨hc1, _, _, hc4⟩, hq0, _, hdec⟩ := quoted_subpath_is_a_bare_path (path.drop r.spec.length) hs0
  have hqne : quote [47] (path.drop r.spec.length) ≠ [] := by
    cases hs : path.drop r.spec.length with
    | nil => exact absurd hs hsub
    | cons c t =>
      intro hq
      have : utf8Enc (c :: t) ≠ [] := by
        simp only [utf8Enc, List.flatMap_cons, ne_eq, List.append_eq_nil_iff, not_and]
        intro h; exact absurd h (utf8EncodeChar_ne_nil c)
      unfold quote at hq
      cases hb' : utf8Enc (c :: t) with
      | nil => exact this hb'
      | cons b bs =>
        rw [hb'] at hq
        unfold quoteBytes at hq
        split at hq <;> simp at hq
  have hj := urljoin_appends sch auth x _ ho hb (by rw [hlow]; exact hrel) hauth hsemi hx hxd
    (quoted_subpath_wf _) hqne hc1 hc4 hq0 hn
  rw [hlow] at hj
  have hsne : sch ≠ [] := by
    intro e'; have := ho.first; rw [e'] at this; simp [startsAlpha] at this
  refine ⟨?_, ?_, hdec⟩
  · unfold staticUrl
    simp only [hf, hu]
    have hbase : staticBase e (sch ++ colonSlashSlash ++ auth ++ (x ++ ['/'])) = sch ++ colonSlashSlash ++ auth ++ (x ++ ['/']) := by
      unfold staticBase
      cases sch with
      | nil => exact absurd rfl hsne
      | cons c t =>
        have hc : c ≠ '/' := by
          intro e'; have := ho.first; rw [e'] at this; simp [startsAlpha] at this; exact absurd this (by decide)
        simp only [List.cons_append]
        split
        · rename_i heq; simp only [List.cons.injEq] at heq; exact absurd heq.1 hc
        · rfl
    simp only [hbase, hj]
  · have hpath : pctWF isPathC ((x ++ ['/']) ++ quote [47] (path.drop r.spec.length)) = true :=
      pctWF_append _ _ _ hb.wf (quoted_subpath_wf _)
    have hlead : ∃ t, (x ++ ['/']) ++ quote [47] (path.drop r.spec.length) = '/' :: t := by
      rcases hb.lead with e' | ⟨t, e'⟩
      · simp at e'
      · exact ⟨t ++ quote [47] (path.drop r.spec.length), by rw [e']; simp⟩
    have := assembled_split gen_facts sch auth [] ((x ++ ['/']) ++ quote [47] (path.drop r.spec.length)) []
      o.query o.anchor o.anchorTruthy ho ⟨.inl rfl, rfl⟩ hlead hpath rfl
    simp only [List.append_nil, List.nil_append, hlow] at this
    rw [← this]
    simp only [List.append_assoc]

/-- non-vacuity, and the regression witness for a too generous safe set in this branch: under the base
`http://c/a/`, the asset subpath `i:h` (a scheme-like first segment) gives `http://c/a/i%3Ah` — the base is kept —
and the hypotheses of `static_external_url` hold for it. -/
theorem scheme_like_subpath_keeps_base :
    (staticUrl ⟨sHttp, some ['h'], ['l'], p80, []⟩ []
      [⟨some ['h', 't', 't', 'p', ':', '/', '/', 'c', '/', 'a', '/'], ['p', ':'], []⟩] ['p', ':', 'i', ':', 'h'] {}).toOption
      = some ['h', 't', 't', 'p', ':', '/', '/', 'c', '/', 'a', '/', 'i', '%', '3', 'A', 'h'] ∧
    normalSegs (splitOn '/' (quote [47] ['i', ':', 'h'])) = true ∧
    (splitOn '/' ['/', 'a']).tail.all (fun s => !s.isEmpty) = true ∧ (splitOn '/' ['/', 'a']).all notDot = true ∧
    relativeSchemes.contains sHttp = true := by decide

example : OriginOk sHttp ['c'] ∧ BodyOk (['/', 'a'] ++ ['/']) :=
  ⟨⟨by decide, by decide, by decide, by decide⟩, ⟨.inr ⟨_, rfl⟩, by decide⟩⟩

/-- **F-C17c** (recorded finding): for a static view registered under an external URL, `static_path` returns the
absolute URL — it is not `static_url` minus scheme and authority — and `_scheme` is ignored. -/
theorem external_static_path_is_absolute :
    (staticPath ⟨sHttp, some ['h'], ['l'], p80, []⟩ [] [⟨some ['h', 't', 't', 'p', ':', '/', '/', 'c', '/'], ['p', ':'], []⟩]
      ['p', ':', 'a'] {}).toOption = some ['h', 't', 't', 'p', ':', '/', '/', 'c', '/', 'a'] ∧
    (staticUrl ⟨sHttp, some ['h'], ['l'], p80, []⟩ [] [⟨some ['h', 't', 't', 'p', ':', '/', '/', 'c', '/'], ['p', ':'], []⟩]
      ['p', ':', 'a'] { scheme := some sHttps }).toOption = some ['h', 't', 't', 'p', ':', '/', '/', 'c', '/', 'a'] := by
  decide

end Pyr.Url.Props
