import PyramidModel.Lemmas.SettingsProbe
import PyramidModel.Lemmas.SettingsStr
import PyramidModel.Lemmas.CsrfProofs
/-!
X02 — configuration settings and small pure helpers (extra coverage target; statement in notes/X02.md).

§0  what the probe of the running code reports (Gen/X02.lean) is what the model / the declarative table say — `decide`
§1  `Settings`: the statement-list model equals the declarative table reading for EVERY dictionary, keyword set and
    environment (via the symbolic description of the statement list, Lemmas/SettingsSym.lean), and its corollaries
    for every row of the table
§2  `asbool`, `aslist`
§3  `strings_differ`, `is_same_domain`, the coercions, `as_sorted_tuple`
-/
namespace Pyr.Settings

/-! ## §0 generated obligations -/

/-- the probe ran on the tree under test and nothing in it was inconsistent -/
theorem probe_ok : Gen.probeStatus = s "ok" := by decide

/-- the settings the running `Settings` manages — name, environment variable, kind, default, precedence order of the three
sources, implied-by switches, both spellings written — are exactly the rows of the declarative table (as sets, same size) -/
theorem table_as_probed :
    Gen.rows.all (table.map probeView).contains = true ∧ (table.map probeView).all Gen.rows.contains = true ∧
    Gen.rows.length = table.length := by decide

/-- over all 2^11 assignments every bool setting is its own value OR its switches; stray keys come back unchanged -/
theorem interactions_as_probed : Gen.orClosed = true ∧ Gen.strayKept = true := by decide

/-- the words `asbool` accepts (all strings ≤ 3 over a-z0-9, a word list) and the exported constants are the model's sets -/
theorem truthy_as_probed :
    Gen.truthyProbed.all truthy.contains = true ∧ truthy.all Gen.truthyProbed.contains = true ∧
    Gen.truthyConst.all truthy.contains = true ∧ truthy.all Gen.truthyConst.contains = true ∧
    Gen.falseyConst.all falsey.contains = true ∧ falsey.all Gen.falseyConst.contains = true := by decide

/-- the characters stripped around a truthy word, separating list items, separating lines (all 1 112 064 code points probed) -/
theorem whitespace_as_probed :
    Gen.stripCodes = spaceCodes ∧ Gen.splitCodes = spaceCodes ∧ Gen.lineCodes = lineBreakCodes := by decide

theorem asbool_atoms_as_probed : Gen.asboolAtoms = atomsView := by decide

/-! ## §1 Settings -/

/-- the statement list (21 statements) has a symbolic description, and it is the declarative table's: same keys, and under
every key the same source row / the same SET of or-ed rows -/
theorem program_described : ∃ st, symRun program [] = some st ∧ describes st table = true :=
  ⟨(symRun program []).getD [], by decide, by decide⟩

theorem table_facts : tableFacts = true := by decide

/-- CENTRAL: for every mapping, keyword set and environment, what `Settings` returns under ANY key is what the declarative
reading gives: the effective value (highest-precedence source present — environment variable, `pyramid.`-prefixed key, bare
key, default — converted by the setting's kind, or-ed with its switches) under both spellings of a documented setting,
the caller's value under every other key. -/
theorem settings_eq_spec (d kw : Dict) (env : Env) (d' : Dict) (h : settings d kw env = .ok d') (k : Text) :
    get d' k = specGet table (update d kw) env k := by
  obtain ⟨st, hs, hd⟩ := program_described
  have hr := run_sound (d := update d kw) (env := env) program [] st (update d kw) (rel_nil _ _) hs
  unfold settings at h
  rw [h] at hr
  rw [hr.1 k, den_of_describes hd]

/-- `Settings` raises exactly when the reading says so (a list-valued setting whose highest-precedence source is not
iterable), and then it is a `TypeError` -/
theorem settings_raises_iff (d kw : Dict) (env : Env) :
    (∃ e, settings d kw env = .error e) ↔ specRaises table (update d kw) env = true := by
  obtain ⟨st, hs, _⟩ := program_described
  have hr := run_sound (d := update d kw) (env := env) program [] st (update d kw) (rel_nil _ _) hs
  have tf := table_facts
  simp only [tableFacts, Bool.and_eq_true, List.all_eq_true] at tf
  obtain ⟨⟨⟨⟨tf1, tf2⟩, _⟩, _⟩, _⟩ := tf
  unfold settings
  constructor
  · rintro ⟨e, he⟩
    rw [he] at hr
    obtain ⟨r, hr1, hr2⟩ := hr
    have := tf1 _ hr1
    simp only [List.any_eq_true, beq_iff_eq] at this
    obtain ⟨en, hen, hrow⟩ := this
    simp only [specRaises, List.any_eq_true]
    refine ⟨en, hen, ?_⟩
    have hk := (conv_error hr2).2
    rw [hk] at hr2
    simp only [effective, valueFrom, hrow, hk]
    rw [hr2]
  · intro hsp
    simp only [specRaises, List.any_eq_true] at hsp
    obtain ⟨en, hen, herr⟩ := hsp
    cases hrun : run env program (update d kw) with
    | error e => exact ⟨e, rfl⟩
    | ok d' =>
      exfalso
      rw [hrun] at hr
      have hin := tf2 en hen
      obtain ⟨v, hv⟩ := hr.2 en.row (by simpa using hin)
      simp only [effective, valueFrom] at herr
      cases hk : en.row.kind with
      | bool => simp [hk] at herr
      | str => simp [hk, conv] at herr
      | list =>
        rw [hk] at hv
        simp [hk, hv] at herr

theorem settings_error_is_type_error (d kw : Dict) (env : Env) (e : Err) (h : settings d kw env = .error e) :
    e = .typeError := by
  obtain ⟨st, hs, _⟩ := program_described
  have hr := run_sound (d := update d kw) (env := env) program [] st (update d kw) (rel_nil _ _) hs
  unfold settings at h
  rw [h] at hr
  obtain ⟨r, _, hr2⟩ := hr
  exact (conv_error hr2).1

/-- EVERY documented setting: the result holds its effective value under BOTH spellings -/
theorem both_spellings_hold_effective (d kw : Dict) (env : Env) (d' : Dict) (h : settings d kw env = .ok d')
    (e : Entry) (he : e ∈ table) :
    ∃ v, effective table e (update d kw) env = .ok v ∧
      get d' e.row.name = some v ∧ get d' (pfx ++ e.row.name) = some v := by
  have tf := table_facts
  simp only [tableFacts, Bool.and_eq_true, List.all_eq_true, beq_iff_eq] at tf
  obtain ⟨⟨⟨_, tf3⟩, _⟩, _⟩ := tf
  obtain ⟨h1, h2⟩ := tf3 e he
  have hnr : specRaises table (update d kw) env ≠ true := by
    intro hsp
    obtain ⟨err, herr⟩ := (settings_raises_iff d kw env).mpr hsp
    rw [h] at herr
    cases herr
  cases hv : effective table e (update d kw) env with
  | error err =>
    exfalso
    apply hnr
    simp only [specRaises, List.any_eq_true]
    exact ⟨e, he, by simp [hv]⟩
  | ok v =>
    refine ⟨v, rfl, ?_, ?_⟩
    · rw [settings_eq_spec d kw env d' h, specGet, h1]; simp [hv]
    · rw [settings_eq_spec d kw env d' h, specGet, h2]; simp [hv]

/-- nothing else is altered: a key that spells no documented setting keeps the caller's value (or stays absent) -/
theorem others_untouched (d kw : Dict) (env : Env) (d' : Dict) (h : settings d kw env = .ok d')
    (k : Text) (hk : k ∉ allKeys table) : get d' k = get (update d kw) k := by
  rw [settings_eq_spec d kw env d' h, specGet, entryOf_none table k hk]

/-- precedence 1, EVERY setting: an environment variable that is present decides, whatever the mapping says -/
theorem env_var_wins (d kw : Dict) (env : Env) (d' : Dict) (h : settings d kw env = .ok d')
    (e : Entry) (he : e ∈ table) (t : Text) (hpres : eget env e.row.env = some t) :
    ∃ v, valueFrom e (.str t) (e.impliedBy.any (switchOn table (update d kw) env)) = .ok v ∧
      get d' e.row.name = some v ∧ get d' (pfx ++ e.row.name) = some v := by
  obtain ⟨v, hv, h1, h2⟩ := both_spellings_hold_effective d kw env d' h e he
  refine ⟨v, ?_, h1, h2⟩
  simpa [effective, specSource, hpres] using hv

/-- precedence 2, EVERY setting: without the environment variable the `pyramid.`-prefixed key decides, whatever the bare key says -/
theorem prefixed_key_wins_over_bare (d kw : Dict) (env : Env) (d' : Dict) (h : settings d kw env = .ok d')
    (e : Entry) (he : e ∈ table) (x : Val) (hno : eget env e.row.env = none)
    (hpres : get (update d kw) (pfx ++ e.row.name) = some x) :
    ∃ v, valueFrom e x (e.impliedBy.any (switchOn table (update d kw) env)) = .ok v ∧
      get d' e.row.name = some v ∧ get d' (pfx ++ e.row.name) = some v := by
  obtain ⟨v, hv, h1, h2⟩ := both_spellings_hold_effective d kw env d' h e he
  refine ⟨v, ?_, h1, h2⟩
  simpa [effective, specSource, hno, hpres] using hv

/-- precedence 3, EVERY setting: the bare (legacy) key is used when neither of the other two is present -/
theorem bare_key_used_last (d kw : Dict) (env : Env) (d' : Dict) (h : settings d kw env = .ok d')
    (e : Entry) (he : e ∈ table) (x : Val) (hno : eget env e.row.env = none)
    (hno2 : get (update d kw) (pfx ++ e.row.name) = none) (hpres : get (update d kw) e.row.name = some x) :
    ∃ v, valueFrom e x (e.impliedBy.any (switchOn table (update d kw) env)) = .ok v ∧
      get d' e.row.name = some v ∧ get d' (pfx ++ e.row.name) = some v := by
  obtain ⟨v, hv, h1, h2⟩ := both_spellings_hold_effective d kw env d' h e he
  refine ⟨v, ?_, h1, h2⟩
  simpa [effective, specSource, hno, hno2, hpres] using hv

/-- precedence 4, EVERY setting: the default when no source is present -/
theorem default_when_absent (d kw : Dict) (env : Env) (d' : Dict) (h : settings d kw env = .ok d')
    (e : Entry) (he : e ∈ table) (hno : eget env e.row.env = none)
    (hno2 : get (update d kw) (pfx ++ e.row.name) = none) (hno3 : get (update d kw) e.row.name = none) :
    ∃ v, valueFrom e e.row.default (e.impliedBy.any (switchOn table (update d kw) env)) = .ok v ∧
      get d' e.row.name = some v ∧ get d' (pfx ++ e.row.name) = some v := by
  obtain ⟨v, hv, h1, h2⟩ := both_spellings_hold_effective d kw env d' h e he
  refine ⟨v, ?_, h1, h2⟩
  simpa [effective, specSource, hno, hno2, hno3] using hv

/-- `*_all` (and the assets/resources alias): a switch that is on by its own sources turns on every setting it implies,
whatever that setting's own sources say -/
theorem switch_implies_family (d kw : Dict) (env : Env) (d' : Dict) (h : settings d kw env = .ok d')
    (e : Entry) (he : e ∈ table) (n : Text) (hn : n ∈ e.impliedBy) (hon : switchOn table (update d kw) env n = true) :
    get d' e.row.name = some (.bool true) ∧ get d' (pfx ++ e.row.name) = some (.bool true) := by
  obtain ⟨v, hv, h1, h2⟩ := both_spellings_hold_effective d kw env d' h e he
  have tf := table_facts
  simp only [tableFacts, Bool.and_eq_true, List.all_eq_true, beq_iff_eq] at tf
  obtain ⟨_, tf5⟩ := tf
  have hk : e.row.kind = .bool := (tf5 e he n hn).2
  have hany : e.impliedBy.any (switchOn table (update d kw) env) = true := List.any_eq_true.mpr ⟨n, hn, hon⟩
  simp only [effective, valueFrom, hk, hany, Bool.or_true, Except.ok.injEq] at hv
  subst hv
  exact ⟨h1, h2⟩

/-- a bool setting without switches that are on is exactly `asbool` of its highest-precedence source -/
theorem no_switch_own_value (d kw : Dict) (env : Env) (d' : Dict) (h : settings d kw env = .ok d')
    (e : Entry) (he : e ∈ table) (hk : e.row.kind = .bool)
    (hoff : ∀ n ∈ e.impliedBy, switchOn table (update d kw) env n = false) :
    get d' e.row.name = some (.bool (asbool (specSource e.row (update d kw) env))) := by
  obtain ⟨v, hv, h1, _⟩ := both_spellings_hold_effective d kw env d' h e he
  have hany : e.impliedBy.any (switchOn table (update d kw) env) = false := by
    rw [List.any_eq_false]
    intro n hn
    simp [hoff n hn]
  simp only [effective, valueFrom, hk, hany, Bool.or_false, Except.ok.injEq] at hv
  subst hv
  exact h1

/-- conversions are idempotent: a value that `Settings` wrote converts to itself (the value-level half of
`Settings(Settings(d)) = Settings(d)`; the whole statement is checked on the implementation by the harness) -/
theorem conv_idempotent_partial (k : Kind) (v w : Val) (h : conv k v = .ok w) : conv k w = .ok w := by
  cases k with
  | bool =>
    simp only [conv, Except.ok.injEq] at h
    subst h
    simp [conv, asbool]
  | str =>
    simp only [conv, Except.ok.injEq] at h
    subst h
    simp [conv, pyStr]
  | list =>
    have flat : ∀ xs : List Atom, flattenAtoms (flattenAtoms xs) = flattenAtoms xs := by
      intro xs
      induction xs with
      | nil => rfl
      | cons a rest ih =>
        have words : ∀ ws : List Text, (∀ w ∈ ws, IsWord w) → ∀ tail, flattenAtoms (ws.map Atom.str ++ tail) = ws.map Atom.str ++ flattenAtoms tail := by
          intro ws
          induction ws with
          | nil => intro _ tail; rfl
          | cons w ws ihw =>
            intro hw tail
            simp only [List.map_cons, List.cons_append, flattenAtoms, splitWs_word w (hw w (by simp)), List.map_nil, List.nil_append]
            rw [ihw (fun x hx => hw x (by simp [hx]))]
        cases a with
        | str t => simp only [flattenAtoms]; rw [words _ (splitWs_words t), ih]
        | none => simp only [flattenAtoms, ih]
        | bool b => simp only [flattenAtoms, ih]
        | int i => simp only [flattenAtoms, ih]
    simp only [conv, aslist] at h ⊢
    cases hv : aslistCronly v with
    | error e => simp [hv] at h
    | ok xs =>
      simp only [hv, if_true, Except.ok.injEq] at h
      subst h
      simp [aslistCronly, flat]

/-! ## §2 asbool, aslist -/

/-- total, and exactly the truthy set: a text is true iff, stripped and lower-cased, it is one of the six words -/
theorem asbool_exactly_truthy (t : Text) :
    asbool (.str t) = true ↔ lower (strip t) ∈ [s "t", s "true", s "y", s "yes", s "on", s "1"] := by
  simp [asbool, truthy]

/-- every truthy word, in any letter case, with any whitespace around it, is true -/
theorem asbool_padded_any_case (w p1 p2 : Text) (hw : lower w ∈ truthy) (hword : IsWord w)
    (h1 : ∀ c ∈ p1, isSpace c = true) (h2 : ∀ c ∈ p2, isSpace c = true) :
    asbool (.str (p1 ++ w ++ p2)) = true := by
  simp only [asbool, strip_padded p1 w p2 h1 hword h2]
  simpa using hw

/-- `None` is false, booleans are themselves, an int is true only when it is 1, no list is true -/
theorem asbool_non_text :
    asbool .none = false ∧ (∀ b, asbool (.bool b) = b) ∧ (∀ i, asbool (.int i) = true ↔ i = 1) ∧ (∀ xs, asbool (.list xs) = false) := by
  refine ⟨rfl, fun _ => rfl, fun i => by simp [asbool], fun _ => rfl⟩

/-- the falsey words are not truthy (the two exported sets are disjoint) -/
theorem falsey_not_truthy : ∀ w ∈ falsey, asbool (.str w) = false := by decide

/-- FLATTEN LAW: on a text `aslist` is `str.split()` — newline structure does not matter once items are split on whitespace
(every line boundary is whitespace, `lineBreak_isSpace`) -/
theorem aslist_text_is_split (t : Text) : aslist (.str t) = .ok ((splitWs t).map Atom.str) := by
  have key : ∀ ls : List Text, flattenAtoms (((ls.map strip).filter (· ≠ [])).map Atom.str) = (ls.flatMap splitWs).map Atom.str := by
    intro ls
    induction ls with
    | nil => rfl
    | cons l ls ih =>
      by_cases hl : strip l = []
      · have : splitWs l = [] := by rw [← splitWs_strip, hl]; rfl
        simp only [List.map_cons, List.flatMap_cons, this, List.nil_append]
        rw [List.filter_cons, if_neg (by simp [hl])]
        exact ih
      · simp only [List.map_cons, List.flatMap_cons, List.map_append]
        rw [List.filter_cons, if_pos (by simp [hl])]
        simp only [List.map_cons, flattenAtoms, splitWs_strip]
        rw [ih]
  have hsplit : (lines t).flatMap splitWs = splitWs t := by
    have := splitAll_refine isLineBreak isSpace lineBreak_isSpace t
    unfold lines splitWs
    rw [← this]
    simp only [List.filter_flatMap]
  simp only [aslist, aslistCronly, if_true, key, hsplit]

/-- every item of `aslist(text)` is a word: non-empty, free of whitespace -/
theorem aslist_items_are_words (t : Text) (xs : List Atom) (h : aslist (.str t) = .ok xs) :
    ∀ a ∈ xs, ∃ w, a = .str w ∧ IsWord w := by
  rw [aslist_text_is_split] at h
  simp only [Except.ok.injEq] at h
  subst h
  intro a ha
  simp only [List.mem_map] at ha
  obtain ⟨w, hw, rfl⟩ := ha
  exact ⟨w, rfl, splitWs_words t w hw⟩

/-- ROUND TRIP: joining words with any one whitespace character (space, newline, tab, …) and reading the text back gives the words -/
theorem aslist_join_round_trip (c : Char) (hc : isSpace c = true) (ws : List Text) (h : ∀ w ∈ ws, IsWord w) :
    aslist (.str (joinWith c ws)) = .ok (ws.map Atom.str) := by
  rw [aslist_text_is_split, splitWs_joinWith c hc ws h]

/-- the round trip fails (as it must) for an item that contains whitespace: it comes back as two items -/
theorem aslist_join_needs_words :
    aslist (.str (joinWith '\n' [s "a b", s "c"])) = .ok [.str (s "a"), .str (s "b"), .str (s "c")] := by decide

/-- a list is flattened one level: texts are split, other elements kept, order preserved -/
theorem aslist_list (xs : List Atom) : aslist (.list xs) = .ok (flattenAtoms xs) ∧ aslist (.list xs) false = .ok xs := by
  simp [aslist, aslistCronly]

/-- `aslist` is total on texts and lists and a `TypeError` on `None`, booleans and ints (`list(value)` of a non-iterable) -/
theorem aslist_total (v : Val) (fl : Bool) :
    (∃ xs, aslist v fl = .ok xs) ↔ (∃ t, v = .str t) ∨ (∃ xs, v = .list xs) := by
  cases v <;> cases fl <;> simp [aslist, aslistCronly]

/-- without flattening: the stripped non-empty lines, inner spacing kept -/
theorem aslist_cronly_lines (t : Text) :
    aslist (.str t) false = .ok ((((lines t).map strip).filter (· ≠ [])).map Atom.str) := by
  simp [aslist, aslistCronly]

/-! ## §3 util.py helpers -/

/-- `strings_differ a b = (a ≠ b)` for all byte strings (the constant-time structure does not change the answer) -/
theorem strings_differ_iff (a b : List UInt8) : Csrf.stringsDiffer a b = true ↔ a ≠ b := by
  rw [Csrf.stringsDiffer_eq]
  simp

/-- LABEL BOUNDARY (through C12's `isSameDomain_eq`, `matchesPattern_iff`): a host matches a pattern iff it IS the
lower-cased pattern, or the pattern is `.d` and the host is `d` or ends in `.d` — never a bare string suffix
(`badexample.com` does not match `.example.com`), and the empty pattern matches nothing -/
theorem is_same_domain_label_boundary (host pattern : Text) :
    Csrf.isSameDomain host pattern = true ↔ Csrf.DomainMatches host pattern := by
  rw [Csrf.isSameDomain_eq, Csrf.matchesPattern_iff]

theorem is_same_domain_examples :
    Csrf.isSameDomain (s "foo.example.com") (s ".example.com") = true ∧
    Csrf.isSameDomain (s "example.com") (s ".Example.COM") = true ∧
    Csrf.isSameDomain (s "badexample.com") (s ".example.com") = false ∧
    Csrf.isSameDomain (s "example.com") [] = false := by decide

/-- `text_`, `bytes_` leave everything else alone; `ascii_` answers only for pure-ASCII input and then with the same characters -/
theorem coercions_pass_through (n : Nat) (t : Text) :
    text_ (.other n) = .other n ∧ text_ (.str t) = .str t ∧ bytes_ (.other n) = .ok (.other n) ∧
    (∀ r, ascii_ (.str t) = .ok r → r = t ∧ t.all (fun c => c.toNat < 128) = true) := by
  refine ⟨rfl, rfl, rfl, ?_⟩
  intro r hr
  simp only [ascii_] at hr
  split at hr
  · next h => exact ⟨by simpa using hr.symm, h⟩
  · simp at hr

/-- `as_sorted_tuple`: a single text becomes a one-element tuple; a list comes back as a permutation of itself -/
theorem as_sorted_tuple_perm (ts : List Text) (t : Text) :
    asSortedTuple (.inl t) = [t] ∧ (asSortedTuple (.inr ts)).Perm ts := by
  exact ⟨rfl, List.mergeSort_perm ts leText⟩

/-! ## non-vacuity -/

example : settings [(s "debug_all", .str (s " Yes ")), (s "pyramid.debug_notfound", .str (s "false")), (s "foo", .int 3)] []
    [(s "PYRAMID_RELOAD_ASSETS", s "1"), (s "PYRAMID_DEBUG_ALL", s "0")] ≠ .error .typeError := by decide
example : (⟨⟨s "reload_assets", s "PYRAMID_RELOAD_ASSETS", .bool, .bool false⟩, [s "reload_all", s "reload_resources"]⟩ : Entry) ∈ table := by decide
example : switchOn table [(s "reload_resources", .str (s "on"))] [] (s "reload_resources") = true := by decide
example : s "foo" ∉ allKeys table := by decide
example : IsWord (s "example.com") ∧ lower (s "YeS") ∈ truthy ∧ IsWord (s "YeS") := by decide
example : specRaises table [(s "csrf_trusted_origins", .none)] [] = true := by decide
example : ∃ v, conv .list (.str (s "a b\nc")) = .ok v := ⟨_, rfl⟩

end Pyr.Settings
