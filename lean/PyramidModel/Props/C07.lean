import PyramidModel.Lemmas.ResourceUrlVroot
/-!
# C07 — Resource paths and URLs resolve back to the resource they were generated for

Model: `PyramidModel/ResourceUrl.lean` on the C02 tree/traversal model; spec: `Lemmas/ResourceUrlSpec.lean`.
A resource is its position `p` (names from the root); it *exists* when `Walkable root p` (every node on the way has
`__getitem__` and the next name); its names are *admissible* (`AdmissibleName`: non-empty, no `/`, not `.`/`..`, no
leading `@@` — the property's own restriction, decidable).  All theorems are for every tree, every position of any
depth, every admissible name over arbitrary Unicode (`Char` = Unicode scalar value), every start resource.
Only property theorems and non-vacuity examples live here.
-/
namespace Pyr.ResUrl
open Pyr.Trav

/-! ## 0. admissible names -/

/-- The property's restriction is exactly what normalisation (`Clean`), splitting (no `/`) and the walk (not a view
selector) need of a name. FULL. -/
theorem admissible_iff (n : Seg) : AdmissibleName n ↔ (Clean n ∧ '/' ∉ n ∧ isSel n = false) := by
  constructor
  · intro h; exact ⟨h.clean, h.noSlash, h.notSel⟩
  · rintro ⟨⟨h1, h2, h3⟩, h4, h5⟩
    refine ⟨h1, h4, h2, h3, ?_⟩
    intro e
    simp [isSel, e] at h5

example : AdmissibleName "La Peña".toList ∧ AdmissibleName "%41".toList ∧ AdmissibleName "a b?#;=%".toList ∧
    AdmissibleName "@x".toList ∧ AdmissibleName "...".toList ∧ AdmissibleName "http:x".toList := by decide
/-- the excluded points -/
example : ¬ AdmissibleName [] ∧ ¬ AdmissibleName "a/b".toList ∧ ¬ AdmissibleName ".".toList ∧
    ¬ AdmissibleName "..".toList ∧ ¬ AdmissibleName "@@x".toList ∧ ¬ AdmissibleName "@@".toList := by decide

/-! ## 1. the generated path -/

/-- `resource_path_tuple(r, *elements)` (the lineage loop: collect `__name__ or ''`, reverse, extend) is `''`, the
names of the position, then the elements. FULL. -/
theorem resource_path_tuple_is_position (p els : List Seg) : resourcePathTuple p els = [] :: p ++ els :=
  resourcePathList_eq p els

/-- `resource_path(r, *elements)` is `/` followed by the quoted names and elements joined by `/` (`/` alone for the
root); it is ASCII, free of `?`, and its only slashes are the separators. FULL. -/
theorem resource_path_is_quoted_join (p els : List Seg) :
    resourcePath p els = '/' :: joinWith '/' ((p ++ els).map quoteSegment) ∧
      (∀ c ∈ resourcePath p els, c.toNat < 128 ∧ c ≠ '?') ∧ ∀ s ∈ p ++ els, '/' ∉ quoteSegment s := by
  have e : resourcePath p els = '/' :: joinWith '/' ((p ++ els).map quoteSegment) := by
    simp only [resourcePath, resourcePathTuple, resourcePathList_eq]
    exact joinPathTuple_abs (p ++ els)
  refine ⟨e, ?_, fun s _ => slash_not_mem_quoteSegment s⟩
  intro c hc
  rw [e] at hc
  rcases List.mem_cons.mp hc with h | h
  · subst h; decide
  · exact joined_quoted_chars _ c h

/-- Quoting a segment and decoding it again — ASCII-encode, percent-decode (urllib's `unquote_to_bytes` as a server
does, or WebOb's `unquote` as `Request.blank` does), strict UTF-8 decode — gives the segment back, for every text
over all of Unicode (multi-byte included); the quoted form contains no `/`; quoting is injective. FULL. -/
theorem quote_unquote_roundtrip (s : Seg) :
    (∃ b, asciiEncode (quoteSegment s) = some b ∧ utf8Dec (unquoteToBytes b) = some s ∧ utf8Dec (unquoteWebob b) = some s) ∧
      '/' ∉ quoteSegment s ∧ ∀ t, quoteSegment s = quoteSegment t → s = t := by
  obtain ⟨h1, _, h3⟩ := quoteSegment_roundtrip unquoteToBytes_isUnquoter s
  obtain ⟨_, _, h3'⟩ := quoteSegment_roundtrip unquoteWebob_isUnquoter s
  exact ⟨⟨_, h1, h3, h3'⟩, slash_not_mem_quoteSegment s, fun t => quoteSegment_injective s t⟩

/-! ## 2. find_resource inverts resource_path / resource_path_tuple -/

/-- `find_resource(start, resource_path(r)) = r` and `find_resource(start, resource_path_tuple(r)) = r`, from any
start resource, for every existing resource with admissible names. FULL. -/
theorem find_path_roundtrip (root : Tree) (start p : List Seg) (hadm : ∀ n ∈ p, AdmissibleName n)
    (hw : Walkable root p = true) :
    findResource root start (.str (resourcePath p [])) = .ok p ∧
      findResource root start (.tup (resourcePathTuple p [])) = .ok p := by
  have e := (resource_path_is_quoted_join p []).1
  simp only [List.append_nil] at e
  have h := findResource_abs root start p hadm
  simp only [hw, if_true] at h
  refine ⟨by rw [e]; exact h, ?_⟩
  rw [findResource_tup, resource_path_tuple_is_position]
  simp only [List.append_nil, reduceCtorEq, if_false, joinPathTuple_abs]
  exact h

example :
    let root : Tree := .mk true [("La Peña".toList, .mk true [("%41".toList, .mk false [])])]
    (∀ n ∈ ["La Peña".toList, "%41".toList], AdmissibleName n) ∧
      Walkable root ["La Peña".toList, "%41".toList] = true := by decide

/-- Relative and absolute lookups agree: for an existing resource at `a ++ q`, looking up the relative tuple `q` or
the relative string `q1/…/qn` (quoted) from the resource at `a` gives the same resource as the absolute forms.
PARTIAL: requires that the relative path text does not start like a URL scheme (`[A-Za-z]+:`); otherwise WebOb's
`Request.blank` parses it as a URL (F-C07c, `relative_scheme_counterexample`). -/
theorem relative_absolute_agree_partial (root : Tree) (a q : List Seg) (hadm : ∀ n ∈ a ++ q, AdmissibleName n)
    (hw : Walkable root (a ++ q) = true)
    (hs : looksLikeScheme (joinWith '/' (q.map quoteSegment)) = false) :
    findResource root a (.tup q) = .ok (a ++ q) ∧
      findResource root a (.str (joinWith '/' (q.map quoteSegment))) = .ok (a ++ q) ∧
      findResource root a (.tup ([] :: a ++ q)) = .ok (a ++ q) ∧
      findResource root a (.str (resourcePath (a ++ q) [])) = .ok (a ++ q) := by
  obtain ⟨_, c, hc, hwq⟩ := (walkable_append root a q).mp hw
  have hq : ∀ n ∈ q, AdmissibleName n := fun n hn => hadm n (by simp [hn])
  have hrel := findResource_rel root a q c hq hc hs
  simp only [hwq, if_true] at hrel
  have habs := find_path_roundtrip root a (a ++ q) hadm hw
  refine ⟨?_, hrel, ?_, habs.1⟩
  · rw [findResource_tup]
    by_cases hq0 : q = []
    · subst hq0; simpa [joinWith] using hrel
    · simp only [hq0, if_false, (joinPathTuple_rel q hq0 (fun n hn => (hq n hn).1)).1]
      exact hrel
  · have := habs.2
    rwa [resource_path_tuple_is_position, List.append_nil] at this

example :
    let root : Tree := .mk true [("La Peña".toList, .mk true [("http:".toList, .mk true [("x y".toList, .mk false [])])])]
    let a := ["La Peña".toList]; let q := ["http:".toList, "x y".toList]
    (∀ n ∈ a ++ q, AdmissibleName n) ∧ Walkable root (a ++ q) = true := by decide
example : looksLikeScheme (joinWith '/' (["x y".toList, "http:".toList].map quoteSegment)) = false := by decide
example : looksLikeScheme (joinWith '/' (["a:b".toList, "c".toList].map quoteSegment)) = true := by decide
example : looksLikeScheme (joinWith '/' (["La Peña".toList, "http:".toList].map quoteSegment)) = false := by decide

/-- F-C07c at a concrete point: the resource `/http:x/b` exists and the absolute lookups find it, but the relative
tuple `('http:x', 'b')` (and the string `http:x/b`) looked up from the root leaves the traversal machinery for
WebOb's URL parser (on the real code: `KeyError: … has no subelement x`; with `foo:x`: `TypeError: Unknown scheme`). -/
theorem relative_scheme_counterexample :
    let root : Tree := .mk true [("http:x".toList, .mk true [("b".toList, .mk true [])])]
    let q := ["http:x".toList, "b".toList]
    (∀ n ∈ q, AdmissibleName n) ∧ Walkable root q = true ∧
      findResource root [] (.tup q) = .error .outsideModel ∧
      findResource root [] (.str (joinWith '/' (q.map quoteSegment))) = .error .outsideModel := by
  decide

/-- A missing name raises `KeyError`: if the admissible names cannot all be looked up (a name is absent, or a
resource on the way has no `__getitem__`), `find_resource` raises `KeyError` — absolute forms from anywhere (FULL),
relative forms from an existing start resource unless the text is scheme-like (PARTIAL, F-C07c). -/
theorem missing_name_keyerror (root : Tree) (start names : List Seg) (hadm : ∀ n ∈ names, AdmissibleName n) :
    (Walkable root names = false →
      findResource root start (.tup ([] :: names)) = .error .keyError ∧
      findResource root start (.str ('/' :: joinWith '/' (names.map quoteSegment))) = .error .keyError) ∧
    (∀ t, root.resolve start = some t → Walkable t names = false →
      looksLikeScheme (joinWith '/' (names.map quoteSegment)) = false →
      findResource root start (.tup names) = .error .keyError ∧
      findResource root start (.str (joinWith '/' (names.map quoteSegment))) = .error .keyError) := by
  refine ⟨?_, ?_⟩
  · intro hw
    have h := findResource_abs root start names hadm
    simp only [hw, Bool.false_eq_true, if_false] at h
    refine ⟨?_, h⟩
    rw [findResource_tup]
    simp only [reduceCtorEq, if_false, joinPathTuple_abs]
    exact h
  · intro t ht hw hs
    have h := findResource_rel root start names t hadm ht hs
    simp only [hw, Bool.false_eq_true, if_false] at h
    refine ⟨?_, h⟩
    rw [findResource_tup]
    have hne : names ≠ [] := by
      intro e; subst e; simp [Walkable] at hw
    simp only [hne, if_false, (joinPathTuple_rel names hne (fun n hn => (hadm n hn).1)).1]
    exact h

example :
    let root : Tree := .mk true [("a b".toList, .mk false [])]
    (∀ n ∈ ["a b".toList, "c".toList, "zz".toList], AdmissibleName n) ∧
    Walkable root ["a b".toList, "c".toList] = false ∧ Walkable root ["zz".toList] = false ∧
    (∃ t, root.resolve ["a b".toList] = some t ∧ Walkable t ["c".toList] = false) := by
  refine ⟨by decide, by decide, by decide, .mk false [], rfl, by decide⟩

/-! ## 3. the resource URL -/

/-- The resource URL is the application URL, plus the resource's path with a trailing slash (`/` alone for the
root; that path is `resource_path(r)` + `/`), plus the extra elements quoted and joined by `/`. FULL. -/
theorem resource_url_shape (app : Text) (p els : List Seg) :
    resourceUrl app p none els = app ++ pathOf p ++ joinWith '/' (els.map quoteSegment) ∧
      pathOf p = resourcePath p [] ++ (if p = [] then [] else ['/']) ∧
      resourceUrl app p none els = specUrl app p none els := by
  have e1 : resourceUrl app p none els = app ++ pathOf p ++ joinWith '/' (els.map quoteSegment) := by
    simp only [resourceUrl, resourceURL_none, joinElements]
    by_cases h : els = []
    · subst h; simp [joinWith]
    · simp [h]
  refine ⟨e1, ?_, by rw [e1]; rfl⟩
  have e := (resource_path_is_quoted_join p []).1
  simp only [List.append_nil] at e
  rw [e, pathOf_eq]
  cases p with
  | nil => simp [joinWith, slashed]
  | cons x r =>
    have : (x :: r).map quoteSegment ≠ [] := by simp
    simp only [reduceCtorEq, if_false, List.cons_append]
    rw [joinWith_slash _ this]

/-- Requesting the generated URL's path from the application (the server percent-decodes it into `PATH_INFO`; no
virtual root) traverses to that very resource with an empty view name, empty subpath, `traversed` = its names. FULL. -/
theorem url_traverses_back (root : Tree) (app : Text) (p : List Seg) (hadm : ∀ n ∈ p, AdmissibleName n)
    (hw : Walkable root p = true) :
    resourceUrl app p none [] = app ++ (resourceURL p none).virtualPath ∧
      requestBack root (resourceURL p none).virtualPath none = .ok (specBack p []) := by
  refine ⟨by simp [resourceUrl], ?_⟩
  rw [resourceURL_none]
  simp only [pathOf_eq]
  rw [requestBack_slashed, traverser_plain, split_slashed p hadm, (walk_admissible root p hadm).1 hw]
  rfl

/-! ## 4. virtual roots -/

/-- The trimming decision, exactly: for a header whose text is `/h1/…/hn` (n ≥ 1, non-empty slash-free segments) plus
any number of trailing slashes, the virtual path omits the prefix iff `h1 … hn` is a *whole-segment* prefix of the
resource's quoted names (never on a mere string prefix — the repaired F-C07a), and then it is the path of the
remaining names; a header of slashes only (the root) trims nothing.  FULL (any names, any header bytes of that shape);
note that the comparison is between the *raw* header segments and the *quoted* names. -/
theorem vroot_trim_iff_segment_prefix (p : List Seg) (hs : List Text) (hdr : Bytes) (k : Nat)
    (hseg : ∀ s ∈ hs, s ≠ [] ∧ '/' ∉ s) (hhdr : latin1 hdr = '/' :: joinWith '/' hs ++ List.replicate k '/') :
    (resourceURL p (some hdr)).physicalPath = pathOf p ∧
    (resourceURL p (some hdr)).virtualPath =
      if hs ≠ [] ∧ hs.isPrefixOf (p.map quoteSegment) = true
      then '/' :: slashed ((p.map quoteSegment).drop hs.length) else pathOf p := by
  refine ⟨by rw [resourceURL_some]; split <;> rfl, ?_⟩
  by_cases hne : hs = []
  · subst hne
    have : latin1 hdr = List.replicate (k + 1) '/' := by rw [hhdr]; simp [joinWith, List.replicate_succ]
    rw [resourceURL_some, this, rstrip_all_slash]
    simp
  · have h1 : EndsNoSlash ('/' :: joinWith '/' hs) := endsNoSlash_append ['/'] _ (endsNoSlash_joinWith hs hne hseg)
    have hv : rstripSlash (latin1 hdr) = '/' :: joinWith '/' hs := by
      rw [hhdr]; exact rstrip_endsNoSlash _ k h1
    rw [virtualPath_trim p hs hdr hne (fun s h => (hseg s h).2) hv]
    simp [hne]

/-- a header `/one//` (bytes) has the shape the theorem asks for, with `hs = ['one']`, `k = 2` -/
example :
    let hdr : Bytes := "/one//".toList.map (fun c => UInt8.ofNat c.toNat)
    (∀ s ∈ ["one".toList], s ≠ [] ∧ '/' ∉ s) ∧ latin1 hdr = '/' :: joinWith '/' ["one".toList] ++ List.replicate 2 '/' := by
  decide

/-- the old witness of F-C07a: virtual root `/one`, resource `/one2/x` — not trimmed -/
example : (resourceURL ["one2".toList, "x".toList] (some ("/one".toList.map (fun c => UInt8.ofNat c.toNat)))).virtualPath
    = "/one2/x/".toList := by decide +kernel

/-- Under a virtual root given by its canonical header (`/` + names joined by `/`, UTF-8, trailing slashes allowed)
the traverser reads the header as that virtual root, and the URL path omits the virtual-root prefix exactly when the
resource lies inside the virtual root (`specVirtualPath`).  PARTIAL: requires that the virtual root's names need no
percent-quoting; otherwise the raw header is compared with the quoted physical path (F-C07b,
`vroot_quoting_counterexample`). -/
theorem vroot_trim_iff_inside_partial (p vt : List Seg) (k : Nat) (hadm : ∀ n ∈ vt, AdmissibleName n)
    (hnq : ∀ n ∈ vt, NoQuoteNeeded n) :
    headerVroot (vrootHeader vt k) = some vt ∧
    (resourceURL p (some (vrootHeader vt k))).virtualPath = specVirtualPath p (some vt) ∧
    (specVirtualPath p (some vt) = if inside vt p = true then pathOf (p.drop vt.length) else pathOf p) := by
  refine ⟨?_, virtualPath_canonical p vt k hadm hnq, rfl⟩
  simp only [headerVroot, decode_vrootHeader, Option.map_some]
  rw [(split_header_path vt [] k hadm (by simp)).1]

example : (∀ n ∈ ["one".toList, "~a.b-c_(1)".toList], AdmissibleName n ∧ NoQuoteNeeded n) := by decide
example : ¬ NoQuoteNeeded "a b".toList ∧ ¬ NoQuoteNeeded "%41".toList ∧ ¬ NoQuoteNeeded "é".toList := by decide

/-- F-C07b at two concrete points.  (1) virtual root `/a b`, resource `/a b/c` (inside): the URL path stays
`/a%20b/c/` instead of `/c/`.  (2) virtual root `/%2541` (some other resource), resource `/%41/x` (not inside): the
prefix is trimmed, `/x/`, although the property demands `/%2541/x/`. -/
theorem vroot_quoting_counterexample :
    (let p := ["a b".toList, "c".toList]; let vt := ["a b".toList]
     inside vt p = true ∧ (resourceURL p (some (vrootHeader vt 0))).virtualPath = "/a%20b/c/".toList ∧
       specVirtualPath p (some vt) = "/c/".toList) ∧
    (let p := ["%41".toList, "x".toList]; let vt := ["%2541".toList]
     inside vt p = false ∧ (resourceURL p (some (vrootHeader vt 0))).virtualPath = "/x/".toList ∧
       specVirtualPath p (some vt) = "/%2541/x/".toList) := by
  decide +kernel

/-- For a resource inside the virtual root, the generated URL's path requested with the same virtual-root header
traverses back to that resource: empty view name, empty subpath, virtual root = the header's.  PARTIAL: same
restriction as above (names of the virtual root need no quoting, F-C07b). -/
theorem vroot_url_traverses_back_partial (root : Tree) (p vt : List Seg) (k : Nat)
    (hp : ∀ n ∈ p, AdmissibleName n) (hnq : ∀ n ∈ vt, NoQuoteNeeded n) (hin : inside vt p = true)
    (hw : Walkable root p = true) :
    requestBack root (resourceURL p (some (vrootHeader vt k))).virtualPath (some (vrootHeader vt k)) =
      .ok (specBack p vt) := by
  obtain ⟨rest, hr⟩ := List.isPrefixOf_iff_prefix.mp hin
  have hv : ∀ n ∈ vt, AdmissibleName n := fun n hn => hp n (by rw [← hr]; simp [hn])
  have hrest : ∀ n ∈ rest, AdmissibleName n := fun n hn => hp n (by rw [← hr]; simp [hn])
  rw [virtualPath_canonical p vt k hv hnq]
  simp only [specVirtualPath, hin, if_true, pathOf_eq]
  have hd : p.drop vt.length = rest := by rw [← hr]; simp
  rw [hd, requestBack_slashed, traverser_vroot root vt rest k hv hrest (by rw [hr]; exact hw), hr]

example :
    let root : Tree := .mk true [("one".toList, .mk true [("La Peña".toList, .mk false [])]), ("one2".toList, .mk true [])]
    let p := ["one".toList, "La Peña".toList]
    (∀ n ∈ p, AdmissibleName n) ∧ (∀ n ∈ ["one".toList], NoQuoteNeeded n) ∧ inside ["one".toList] p = true ∧
      Walkable root p = true := by decide

/-- `virtual_root(resource, request)` inverts the trimming: under a canonical header it returns the virtual root
when the resource lies inside it and the physical root otherwise.  PARTIAL: same restriction (F-C07b). -/
theorem virtual_root_inverts_trim_partial (root : Tree) (p vt : List Seg) (k : Nat) (hp : ∀ n ∈ p, AdmissibleName n)
    (hadm : ∀ n ∈ vt, AdmissibleName n) (hnq : ∀ n ∈ vt, NoQuoteNeeded n) (hw : Walkable root p = true) :
    virtualRoot root p (some (vrootHeader vt k)) = .ok (if inside vt p = true then vt else []) :=
  virtualRoot_canonical root p vt k hp hadm hnq hw

end Pyr.ResUrl
