import PyramidModel.Lemmas.ResourceUrlVroot
/-!
# C07 — Resource paths and URLs resolve back to the resource they were generated for

Model: `PyramidModel/ResourceUrl.lean` on the C02 tree/traversal model; spec: `Lemmas/ResourceUrlSpec.lean`.
A resource is its position `p` (names from the root); it *exists* when `Walkable root p` (every node on the way has
`__getitem__` and the next name); its names are *admissible* (`AdmissibleName`: non-empty, no `/`, not `.`/`..`, no
leading `@@` — the property's own restriction, decidable).  All theorems are for every tree, every position of any
depth, every admissible name over arbitrary Unicode (`Char` = Unicode scalar value), every start resource.
Virtual roots are given by the raw `HTTP_X_VHM_ROOT` header bytes and read as the traverser reads them (`headerVroot`).
Only property theorems and non-vacuity examples live here.
-/
namespace Pyr.ResUrl
open Pyr.Trav

/-! ## 0. admissible names -/

/-- The property's restriction is exactly what normalisation (`Clean`), splitting (no `/`) and the walk (not a view
selector) need of a name. FULL. -/
theorem admissible_iff (n : Seg) : AdmissibleName n ↔ (Clean n ∧ '/' ∉ n ∧ isSel n = false) := by
  constructor
  · intro h; exact ⟨h.clean, h.noSlash, h.notSel⟩
  · rintro ⟨⟨h1, h2, h3⟩, h4, h5⟩
    refine ⟨h1, h4, h2, h3, ?_⟩
    intro e
    simp [isSel, e] at h5

example : AdmissibleName "La Peña".toList ∧ AdmissibleName "%41".toList ∧ AdmissibleName "a b?#;=%".toList ∧
    AdmissibleName "@x".toList ∧ AdmissibleName "...".toList ∧ AdmissibleName "http:x".toList := by decide
/-- the excluded points -/
example : ¬ AdmissibleName [] ∧ ¬ AdmissibleName "a/b".toList ∧ ¬ AdmissibleName ".".toList ∧
    ¬ AdmissibleName "..".toList ∧ ¬ AdmissibleName "@@x".toList ∧ ¬ AdmissibleName "@@".toList := by decide

/-! ## 1. the generated path -/

/-- `resource_path_tuple(r, *elements)` (the lineage loop: collect `__name__ or ''`, reverse, extend) is `''`, the
names of the position, then the elements. FULL. -/
theorem resource_path_tuple_is_position (p els : List Seg) : resourcePathTuple p els = [] :: p ++ els :=
  resourcePathList_eq p els

/-- `resource_path(r, *elements)` is `/` followed by the quoted names and elements joined by `/` (`/` alone for the
root); it is ASCII, free of `?`, and its only slashes are the separators. FULL. -/
theorem resource_path_is_quoted_join (p els : List Seg) :
    resourcePath p els = '/' :: joinWith '/' ((p ++ els).map quoteSegment) ∧
      (∀ c ∈ resourcePath p els, c.toNat < 128 ∧ c ≠ '?') ∧ ∀ s ∈ p ++ els, '/' ∉ quoteSegment s := by
  have e : resourcePath p els = '/' :: joinWith '/' ((p ++ els).map quoteSegment) := by
    simp only [resourcePath, resourcePathTuple, resourcePathList_eq]
    exact joinPathTuple_abs (p ++ els)
  refine ⟨e, ?_, fun s _ => slash_not_mem_quoteSegment s⟩
  intro c hc
  rw [e] at hc
  rcases List.mem_cons.mp hc with h | h
  · subst h; decide
  · exact joined_quoted_chars _ c h

/-- Quoting a segment and decoding it again — ASCII-encode, percent-decode (urllib's `unquote_to_bytes` as a server
does, or WebOb's `unquote` as `Request.blank` does), strict UTF-8 decode — gives the segment back, for every text
over all of Unicode (multi-byte included); the quoted form contains no `/`; quoting is injective. FULL. -/
theorem quote_unquote_roundtrip (s : Seg) :
    (∃ b, asciiEncode (quoteSegment s) = some b ∧ utf8Dec (unquoteToBytes b) = some s ∧ utf8Dec (unquoteWebob b) = some s) ∧
      '/' ∉ quoteSegment s ∧ ∀ t, quoteSegment s = quoteSegment t → s = t := by
  obtain ⟨h1, _, h3⟩ := quoteSegment_roundtrip unquoteToBytes_isUnquoter s
  obtain ⟨_, _, h3'⟩ := quoteSegment_roundtrip unquoteWebob_isUnquoter s
  exact ⟨⟨_, h1, h3, h3'⟩, slash_not_mem_quoteSegment s, fun t => quoteSegment_injective s t⟩

/-! ## 2. find_resource inverts resource_path / resource_path_tuple -/

/-- `find_resource(start, resource_path(r)) = r` and `find_resource(start, resource_path_tuple(r)) = r`, from any
start resource, for every existing resource with admissible names. FULL. -/
theorem find_path_roundtrip (root : Tree) (start p : List Seg) (hadm : ∀ n ∈ p, AdmissibleName n)
    (hw : Walkable root p = true) :
    findResource root start (.str (resourcePath p [])) = .ok p ∧
      findResource root start (.tup (resourcePathTuple p [])) = .ok p := by
  have e := (resource_path_is_quoted_join p []).1
  simp only [List.append_nil] at e
  have h := findResource_abs root start p hadm
  simp only [hw, if_true] at h
  refine ⟨by rw [e]; exact h, ?_⟩
  rw [findResource_tup, resource_path_tuple_is_position]
  simp only [List.append_nil, reduceCtorEq, if_false, joinPathTuple_abs]
  exact h

example :
    let root : Tree := .mk true [("La Peña".toList, .mk true [("%41".toList, .mk false [])])]
    (∀ n ∈ ["La Peña".toList, "%41".toList], AdmissibleName n) ∧
      Walkable root ["La Peña".toList, "%41".toList] = true := by decide

/-- Relative and absolute lookups agree: for an existing resource at `a ++ q`, looking up the relative tuple `q` or
the relative string `q1/…/qn` (quoted) from the resource at `a` gives the same resource as the absolute forms.
PARTIAL: requires that the relative path text does not start like a URL scheme (`[A-Za-z]+:`); otherwise WebOb's
`Request.blank` parses it as a URL (F-C07c, `relative_scheme_counterexample`). -/
theorem relative_absolute_agree_partial (root : Tree) (a q : List Seg) (hadm : ∀ n ∈ a ++ q, AdmissibleName n)
    (hw : Walkable root (a ++ q) = true)
    (hs : looksLikeScheme (joinWith '/' (q.map quoteSegment)) = false) :
    findResource root a (.tup q) = .ok (a ++ q) ∧
      findResource root a (.str (joinWith '/' (q.map quoteSegment))) = .ok (a ++ q) ∧
      findResource root a (.tup ([] :: a ++ q)) = .ok (a ++ q) ∧
      findResource root a (.str (resourcePath (a ++ q) [])) = .ok (a ++ q) := by
  obtain ⟨_, c, hc, hwq⟩ := (walkable_append root a q).mp hw
  have hq : ∀ n ∈ q, AdmissibleName n := fun n hn => hadm n (by simp [hn])
  have hrel := findResource_rel root a q c hq hc hs
  simp only [hwq, if_true] at hrel
  have habs := find_path_roundtrip root a (a ++ q) hadm hw
  refine ⟨?_, hrel, ?_, habs.1⟩
  · rw [findResource_tup]
    by_cases hq0 : q = []
    · subst hq0; simpa [joinWith] using hrel
    · simp only [hq0, if_false, (joinPathTuple_rel q hq0 (fun n hn => (hq n hn).1)).1]
      exact hrel
  · have := habs.2
    rwa [resource_path_tuple_is_position, List.append_nil] at this

example :
    let root : Tree := .mk true [("La Peña".toList, .mk true [("http:".toList, .mk true [("x y".toList, .mk false [])])])]
    let a := ["La Peña".toList]; let q := ["http:".toList, "x y".toList]
    (∀ n ∈ a ++ q, AdmissibleName n) ∧ Walkable root (a ++ q) = true := by decide
example : looksLikeScheme (joinWith '/' (["x y".toList, "http:".toList].map quoteSegment)) = false := by decide
example : looksLikeScheme (joinWith '/' (["a:b".toList, "c".toList].map quoteSegment)) = true := by decide
example : looksLikeScheme (joinWith '/' (["La Peña".toList, "http:".toList].map quoteSegment)) = false := by decide

/-- F-C07c at a concrete point: the resource `/http:x/b` exists and the absolute lookups find it, but the relative
tuple `('http:x', 'b')` (and the string `http:x/b`) looked up from the root leaves the traversal machinery for
WebOb's URL parser (on the real code: `KeyError: … has no subelement x`; with `foo:x`: `TypeError: Unknown scheme`). -/
theorem relative_scheme_counterexample :
    let root : Tree := .mk true [("http:x".toList, .mk true [("b".toList, .mk true [])])]
    let q := ["http:x".toList, "b".toList]
    (∀ n ∈ q, AdmissibleName n) ∧ Walkable root q = true ∧
      findResource root [] (.tup q) = .error .outsideModel ∧
      findResource root [] (.str (joinWith '/' (q.map quoteSegment))) = .error .outsideModel := by
  decide

/-- A missing name raises `KeyError`: if the admissible names cannot all be looked up (a name is absent, or a
resource on the way has no `__getitem__`), `find_resource` raises `KeyError` — absolute forms from anywhere (FULL),
relative forms from an existing start resource unless the text is scheme-like (PARTIAL, F-C07c). -/
theorem missing_name_keyerror (root : Tree) (start names : List Seg) (hadm : ∀ n ∈ names, AdmissibleName n) :
    (Walkable root names = false →
      findResource root start (.tup ([] :: names)) = .error .keyError ∧
      findResource root start (.str ('/' :: joinWith '/' (names.map quoteSegment))) = .error .keyError) ∧
    (∀ t, root.resolve start = some t → Walkable t names = false →
      looksLikeScheme (joinWith '/' (names.map quoteSegment)) = false →
      findResource root start (.tup names) = .error .keyError ∧
      findResource root start (.str (joinWith '/' (names.map quoteSegment))) = .error .keyError) := by
  refine ⟨?_, ?_⟩
  · intro hw
    have h := findResource_abs root start names hadm
    simp only [hw, Bool.false_eq_true, if_false] at h
    refine ⟨?_, h⟩
    rw [findResource_tup]
    simp only [reduceCtorEq, if_false, joinPathTuple_abs]
    exact h
  · intro t ht hw hs
    have h := findResource_rel root start names t hadm ht hs
    simp only [hw, Bool.false_eq_true, if_false] at h
    refine ⟨?_, h⟩
    rw [findResource_tup]
    have hne : names ≠ [] := by
      intro e; subst e; simp [Walkable] at hw
    simp only [hne, if_false, (joinPathTuple_rel names hne (fun n hn => (hadm n hn).1)).1]
    exact h

example :
    let root : Tree := .mk true [("a b".toList, .mk false [])]
    (∀ n ∈ ["a b".toList, "c".toList, "zz".toList], AdmissibleName n) ∧
    Walkable root ["a b".toList, "c".toList] = false ∧ Walkable root ["zz".toList] = false ∧
    (∃ t, root.resolve ["a b".toList] = some t ∧ Walkable t ["c".toList] = false) := by
  refine ⟨by decide, by decide, by decide, .mk false [], rfl, by decide⟩

/-! ## 3. the resource URL -/

/-- The resource URL is the application URL, plus the resource's path with a trailing slash (`/` alone for the
root; that path is `resource_path(r)` + `/`), plus the extra elements quoted and joined by `/`. FULL. -/
theorem resource_url_shape (app : Text) (p els : List Seg) :
    resourceUrl app p none els = .ok (app ++ pathOf p ++ joinWith '/' (els.map quoteSegment)) ∧
      pathOf p = resourcePath p [] ++ (if p = [] then [] else ['/']) ∧
      resourceUrl app p none els = .ok (specUrl app p none els) := by
  have e1 : resourceUrl app p none els = .ok (app ++ pathOf p ++ joinWith '/' (els.map quoteSegment)) := by
    simp only [resourceUrl, resourceURL_none, joinElements]
    by_cases h : els = []
    · subst h; simp [joinWith]
    · simp [h]
  refine ⟨e1, ?_, by rw [e1]; rfl⟩
  have e := (resource_path_is_quoted_join p []).1
  simp only [List.append_nil] at e
  rw [e, pathOf_eq]
  cases p with
  | nil => simp [joinWith, slashed]
  | cons x r =>
    have : (x :: r).map quoteSegment ≠ [] := by simp
    simp only [reduceCtorEq, if_false, List.cons_append]
    rw [joinWith_slash _ this]

/-- Requesting the generated URL's path from the application (the server percent-decodes it into `PATH_INFO`; no
virtual root) traverses to that very resource with an empty view name, empty subpath, `traversed` = its names. FULL. -/
theorem url_traverses_back (root : Tree) (app : Text) (p : List Seg) (hadm : ∀ n ∈ p, AdmissibleName n)
    (hw : Walkable root p = true) :
    resourceUrl app p none [] = .ok (app ++ pathOf p) ∧
      requestBack root (pathOf p) none = .ok (specBack p []) := by
  refine ⟨by simp [resourceUrl, resourceURL_none], ?_⟩
  simp only [pathOf_eq]
  rw [requestBack_slashed, traverser_plain, split_slashed p hadm, (walk_admissible root p hadm).1 hw]
  rfl

/-! ## 4. virtual roots

The virtual root a header designates is what the traverser reads out of it: `headerVroot hdr` =
`split_path_info(decode_path_info(hdr))` (C02) — whatever the spelling (no leading slash, `//`, `.`, `..`, trailing
slashes), whatever the names (raw UTF-8, never percent-quoted). -/

/-- Under any virtual-root header that is UTF-8, designating the virtual root `vt`: the URL path omits the
virtual-root prefix exactly when the resource lies inside the virtual root (`vt` is a prefix of its position — the
virtual root itself included), and is then the path of the remaining names; otherwise it is the full path; the
physical path is never affected; the URL is the application URL + that path + the quoted elements.  FULL: every
position, every header, every name (names that need quoting, siblings sharing a name prefix, … — the repaired
F-C07a and F-C07b). -/
theorem vroot_trim_iff_inside (p : List Seg) (hdr : Bytes) (vt : List Seg) (hv : headerVroot hdr = some vt) :
    ∃ u, resourceURL p (some hdr) = .ok u ∧ u.physicalPath = pathOf p ∧
      u.virtualPath = (if inside vt p = true then pathOf (p.drop vt.length) else pathOf p) ∧
      u.virtualPath = specVirtualPath p (some vt) ∧
      ∀ app els, resourceUrl app p (some hdr) els = .ok (specUrl app p (some vt) els) := by
  simp only [headerVroot] at hv
  cases hd : decodePathInfo hdr with
  | none => simp [hd] at hv
  | some V =>
    have s1 : splitPathInfo V = vt := by simpa [hd] using hv
    obtain ⟨u, hu, h1, _, h3, _⟩ := resourceURL_vroot p hdr V hd
    rw [s1] at h3
    refine ⟨u, hu, h1, h3, h3, ?_⟩
    intro app els
    simp only [resourceUrl, hu, h3, specUrl, joinElements]
    by_cases h : els = []
    · subst h; simp [joinWith]
    · simp [h]

/-- A header that is not UTF-8 designates nothing: `ResourceURL` raises `UnicodeDecodeError` (as the traverser
does for the same request, C02). FULL. -/
theorem vroot_header_undecodable (p : List Seg) (hdr : Bytes) (h : headerVroot hdr = none) :
    resourceURL p (some hdr) = .error .unicodeDecode ∧ ∀ app els, resourceUrl app p (some hdr) els = .error .unicodeDecode := by
  have hd : decodePathInfo hdr = none := by
    cases hd : decodePathInfo hdr with
    | none => rfl
    | some v => simp [headerVroot, hd] at h
  have := resourceURL_undecodable p hdr hd
  exact ⟨this, fun app els => by simp [resourceUrl, this]⟩

/-- Which virtual root a header designates: the canonical header of `vt` (`/` + names joined by `/`, UTF-8 — any
Unicode names — plus any number of trailing slashes) designates `vt`; an ASCII header text designates its
normalised segments. FULL. -/
theorem vroot_header_designates :
    (∀ (vt : List Seg) (k : Nat), (∀ n ∈ vt, AdmissibleName n) → headerVroot (vrootHeader vt k) = some vt) ∧
    (∀ t : Text, (∀ c ∈ t, c.toNat < 128) → headerVroot (enc t) = some (splitPathInfo t)) := by
  refine ⟨?_, headerVroot_ascii⟩
  intro vt k hadm
  simp only [headerVroot, decode_vrootHeader, Option.map_some]
  rw [(split_header_path vt [] k hadm (by simp)).1]

example : (∀ n ∈ ["a b".toList, "La Peña".toList], AdmissibleName n) := by decide
example : (∀ c ∈ "one//./x/../".toList, c.toNat < 128) ∧ splitPathInfo "one//./x/../".toList = ["one".toList] := by decide

/-- The old witnesses, now regression cases: F-C07a (`/one` over `/one2/x`: not trimmed), F-C07b (`/a b` over
`/a b/c`: trimmed to `/c/`; `/%2541` over `/%41/x`: not trimmed), and a non-canonical spelling (`one//./x/../` over
`/one/y`: trimmed to `/y/`). -/
theorem vroot_regressions :
    (∃ u, resourceURL ["one2".toList, "x".toList] (some (vrootHeader ["one".toList] 0)) = .ok u ∧ u.virtualPath = "/one2/x/".toList) ∧
    (∃ u, resourceURL ["a b".toList, "c".toList] (some (vrootHeader ["a b".toList] 0)) = .ok u ∧ u.virtualPath = "/c/".toList) ∧
    (∃ u, resourceURL ["%41".toList, "x".toList] (some (vrootHeader ["%2541".toList] 0)) = .ok u ∧ u.virtualPath = "/%2541/x/".toList) ∧
    (∃ u, resourceURL ["one".toList, "y".toList] (some (enc "one//./x/../".toList)) = .ok u ∧ u.virtualPath = "/y/".toList) := by
  refine ⟨?_, ?_, ?_, ?_⟩
  · obtain ⟨u, h1, _, _, h4, _⟩ := vroot_trim_iff_inside ["one2".toList, "x".toList] _ _
      (vroot_header_designates.1 ["one".toList] 0 (by decide))
    exact ⟨u, h1, by rw [h4]; decide +kernel⟩
  · obtain ⟨u, h1, _, _, h4, _⟩ := vroot_trim_iff_inside ["a b".toList, "c".toList] _ _
      (vroot_header_designates.1 ["a b".toList] 0 (by decide))
    exact ⟨u, h1, by rw [h4]; decide +kernel⟩
  · obtain ⟨u, h1, _, _, h4, _⟩ := vroot_trim_iff_inside ["%41".toList, "x".toList] _ _
      (vroot_header_designates.1 ["%2541".toList] 0 (by decide))
    exact ⟨u, h1, by rw [h4]; decide +kernel⟩
  · have hh := vroot_header_designates.2 "one//./x/../".toList (by decide)
    have hs : splitPathInfo "one//./x/../".toList = ["one".toList] := by decide
    rw [hs] at hh
    obtain ⟨u, h1, _, _, h4, _⟩ := vroot_trim_iff_inside ["one".toList, "y".toList] _ _ hh
    exact ⟨u, h1, by rw [h4]; decide +kernel⟩

/-- For a resource inside the virtual root, the generated URL's path requested with the same virtual-root header
traverses back to that resource: empty view name, empty subpath, `traversed` = its names, virtual root = the
header's.  FULL: any UTF-8 header (any spelling), any admissible names. -/
theorem vroot_url_traverses_back (root : Tree) (p vt : List Seg) (hdr : Bytes) (hv : headerVroot hdr = some vt)
    (hp : ∀ n ∈ p, AdmissibleName n) (hin : inside vt p = true) (hw : Walkable root p = true) :
    ∃ u, resourceURL p (some hdr) = .ok u ∧ requestBack root u.virtualPath (some hdr) = .ok (specBack p vt) := by
  obtain ⟨u, hu, _, h3, _, _⟩ := vroot_trim_iff_inside p hdr vt hv
  refine ⟨u, hu, ?_⟩
  obtain ⟨rest, hr⟩ := List.isPrefixOf_iff_prefix.mp hin
  have hrest : ∀ n ∈ rest, AdmissibleName n := fun n hn => hp n (by rw [← hr]; simp [hn])
  have hd : p.drop vt.length = rest := by rw [← hr]; simp
  rw [h3]
  simp only [hin, if_true, hd, pathOf_eq]
  rw [requestBack_slashed, traverser_vroot root hdr vt rest hv hrest (by rw [hr]; exact hw), hr]

example :
    let root : Tree := .mk true [("a b".toList, .mk true [("La Peña".toList, .mk false [])]), ("a".toList, .mk true [])]
    let p := ["a b".toList, "La Peña".toList]
    (∀ n ∈ p, AdmissibleName n) ∧ inside ["a b".toList] p = true ∧ Walkable root p = true ∧
      (∀ n ∈ ["a b".toList], AdmissibleName n) := by decide

/-- `virtual_root(resource, request)` inverts the trimming: it returns the virtual root the header designates when
the resource lies inside it and the physical root otherwise.  FULL. -/
theorem virtual_root_inverts_trim (root : Tree) (p vt : List Seg) (hdr : Bytes) (hv : headerVroot hdr = some vt)
    (hp : ∀ n ∈ p, AdmissibleName n) (hw : Walkable root p = true) :
    virtualRoot root p (some hdr) = .ok (if inside vt p = true then vt else []) :=
  virtualRoot_vroot root p vt hdr hv hp hw

end Pyr.ResUrl
