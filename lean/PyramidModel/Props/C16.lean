import PyramidModel.Lemmas.Static
import PyramidModel.Lemmas.StaticUrl
import PyramidModel.Lemmas.StaticOv
import PyramidModel.Gen.C16
/-!
# C16 — static views serve only files inside their root

Property theorems only (model: `Static.lean`; spec: `Lemmas/StaticSpec.lean`; helper lemmas: `Lemmas/Static.lean`;
generated tables: `Gen/C16.lean`).  All statements quantify over every tuple / every raw `PATH_INFO` byte string,
every abstract file system, every `Accept-Encoding` outcome.

Reading guide
* §0 what the tree under test DOES (`_secure_path`, `get_resource_name`, `find_resource_path`, probed over finite
  domains by `extract/c16.py`) is what the model (and hence every proof below) says.
* §1 `_secure_path` accepts exactly the tuples of proper components (non-empty, not `.`/`..`, no `/`, no NUL).
* §2 `resolved_under_root`: for such a tuple of ANY length, `normpath(join(root, '/'.join(tuple)))` is literally
  `root/s₁/…/sₙ` — strictly inside the root; the same for package-relative roots through `os.path.join(base, *name.split('/'))`.
* §3 the view: everything it opens lies strictly inside the root — for an arbitrary subpath tuple, for every raw
  `PATH_INFO` through the `*subpath` route, for every raw `PATH_INFO` through traversal + `use_subpath=False`;
  the view *is* the declarative spec (`specView`) on every tuple, both mountings answer every raw path by what its
  normalised form designates, and the view never opens anything but a regular file; the witnesses of the two repaired
  defects (F-C16a, F-C16b) are proved to behave as the property demands.
* §5 (second half: configuration and URL side, `StaticUrl.lean`) registrations, `static_url`, cache busters and the
  way back through the serving model of §3.
* §4 encoded variants: what is served is a configured variant of the target, accepted by the client, labelled
  with its encoding, smallest among the acceptable ones; without `Accept-Encoding` only the identity file.
-/
namespace Pyr.Static

open Pyr.Trav (Seg Bytes splitOn joinWith splitPathInfo decodePathInfo)

/-! ## 0. generated obligations (regenerated on every run by PROBING the code of src/pyramid/static.py) -/

/-- the probe of the tree under test ran to the end, on that tree, without a surprise -/
theorem gen_probe_trusted : Gen.probeStatus = "ok" := by decide

/-- the characters and elements `_secure_path` refuses (probed over every BMP code point, resp. every string of
length ≤ 3 over five characters, at every position) are, as sets, the ones the model uses -/
theorem gen_tables_are_the_models :
    (∀ c ∈ Gen.invalidElementChars, c ∈ invalidElementChars) ∧ (∀ c ∈ invalidElementChars, c ∈ Gen.invalidElementChars) ∧
    (∀ e ∈ Gen.insecureElements, e ∈ insecureElements) ∧ (∀ e ∈ insecureElements, e ∈ Gen.insecureElements) := by decide

/-- … and they contain what the containment proof needs -/
theorem gen_tables_cover :
    ['.', '.'] ∈ Gen.insecureElements ∧ ['.'] ∈ Gen.insecureElements ∧ ([] : List Char) ∈ Gen.insecureElements ∧
      '/' ∈ Gen.invalidElementChars ∧ '\x00' ∈ Gen.invalidElementChars := by decide

/-- `_secure_path` of the tree under test and the model agree on every tuple of the probe domain -/
theorem gen_secure_path_probe :
    Gen.securePathProbe.length ≥ 100 ∧ ∀ e ∈ Gen.securePathProbe, securePath e.1 = e.2 := by decide

/-- `get_resource_name` (arbitrary `request.subpath`; filesystem and package root) and the model agree on the probe
domain: refused exactly when `_secure_path` refuses, otherwise the name is `normpath(join(root, …))` resp.
`docroot.rstrip('/') + '/' + …` of the checked value and nothing else -/
theorem gen_resource_name_probe :
    Gen.resourceNameProbe.length ≥ 200 ∧
    ∀ e ∈ Gen.resourceNameProbe,
      nameOutcomeTag (resourceName (probeFs e.1) (probeView e.1 Gen.probeRoot) false e.2.1) = e.2.2 := by decide +kernel

/-- `get_resource_name` without `use_subpath` decodes the raw PATH_INFO once, normalises it and checks it, as the
model does (ASCII, two- and three-byte UTF-8, `..`, `//`, `%2e%2e`, backslash, NUL, overlong and truncated UTF-8) -/
theorem gen_path_info_probe :
    Gen.pathInfoProbe.length ≥ 16 ∧ ∀ e ∈ Gen.pathInfoProbe, pathInfoTag Gen.probeRoot e.1 = e.2 := by decide

/-- `find_resource_path` finds regular files only, and returns the OS path of the name, as the model does -/
theorem gen_find_resource_probe :
    Gen.findResourceProbe.length = 6 ∧
    ∀ e ∈ Gen.findResourceProbe,
      e.2.2.2 ≠ "other" ∧
      (findResourcePath { isDir := fun _ => e.2.2.1, isThere := fun _ => e.2.1, size := fun _ => 0 }
        (probeView e.1 Gen.probeRoot) ['n']).isSome = (e.2.2.2 == "path") := by decide

/-! ## 1. `_secure_path` -/

/-- An accepted tuple consists of proper components only, and the result is their join. -/
theorem secure_path_clean (t : List Seg) (p : Text) (h : securePath t = some p) :
    (∀ s ∈ t, s ≠ [] ∧ s ≠ ['.'] ∧ s ≠ ['.', '.'] ∧ '/' ∉ s ∧ '\x00' ∉ s) ∧ p = joinWith '/' t :=
  (securePath_eq_some_iff t p).mp h

/-- … and nothing else is refused: `_secure_path` is exactly the test "every component is proper". -/
theorem secure_path_exact (t : List Seg) :
    (securePath t = some (joinWith '/' t) ↔ ∀ s ∈ t, Proper s) ∧ (securePath t = none ↔ ∃ s ∈ t, ¬ Proper s) :=
  ⟨⟨fun h => ((securePath_eq_some_iff t _).mp h).1, fun h => (securePath_eq_some_iff t _).mpr ⟨h, rfl⟩⟩,
   securePath_eq_none_iff t⟩

example : securePath [['a'], ['.', '.', '.'], ['b', '\\', 'c']] = some ['a', '/', '.', '.', '.', '/', 'b', '\\', 'c'] := by decide
example : securePath [['a'], ['.', '.']] = none ∧ securePath [['a', '/', 'b']] = none ∧ securePath [['a', '\x00']] = none ∧
    securePath [[]] = none ∧ securePath [['.']] = none := by decide

/-- On what traversal / the route remainder deliver (`split_path_info` of any text) the only refusal left is NUL:
the belt-and-braces checks for `''`, `.`, `..`, `/` never fire. -/
theorem secure_path_on_request (t : Text) :
    securePath (splitPathInfo t) = none ↔ ∃ s ∈ splitPathInfo t, '\x00' ∈ s := by
  rw [securePath_eq_none_iff]
  have clean : ∀ s ∈ splitPathInfo t, s ≠ [] ∧ s ≠ ['.'] ∧ s ≠ ['.', '.'] ∧ '/' ∉ s := by
    intro s h
    rw [Pyr.Trav.splitPathInfo_eq] at h
    obtain ⟨⟨h1, h2, h3⟩, h4⟩ := Pyr.Trav.normSegs_clean_out _ s h
    exact ⟨h1, h2, h3, Pyr.Trav.mem_splitOn_no_sep '/' t s h4⟩
  constructor
  · rintro ⟨s, m, hp⟩
    refine ⟨s, m, Classical.byContradiction fun hn => hp ?_⟩
    obtain ⟨a, b, c, d⟩ := clean s m
    exact ⟨a, b, c, d, hn⟩
  · rintro ⟨s, m, hn⟩
    exact ⟨s, m, fun hp => hp.2.2.2.2 hn⟩

/-! ## 2. resolution below the root -/

/-- **resolved_under_root.**  `root` is what `static_view.__init__` stores: a fixed point of `normpath` (other
than `/`, `//`, `.`).  For every tuple, of any length, that `_secure_path` accepts,
`normpath(join(root, secure_path(tuple)))` is `root/s₁/…/sₙ` — the root, a slash, the joined tuple. -/
theorem resolved_under_root (root : Text) (segs : List Seg) (p : Text) (hroot : FsRootWf root)
    (h : securePath segs = some p) :
    normpath (pjoin root p) = below root segs ∧
    (segs ≠ [] → normpath (pjoin root p) = root ++ '/' :: p ∧ Under root (normpath (pjoin root p))) := by
  obtain ⟨hs, hp⟩ := (securePath_eq_some_iff segs p).mp h
  obtain ⟨hn, h1, h2, h3⟩ := hroot
  subst hp
  have e := normpath_join_below root segs hn h1 h2 h3 hs
  refine ⟨e, fun hne => ⟨?_, ?_⟩⟩
  · rw [e, below_eq root segs hne]
  · rw [e]; exact ⟨segs, hne, hs, rfl⟩

/-- non-vacuity: real roots satisfy the hypothesis; a three-component tuple resolves as stated -/
example : FsRootWf "/srv/www".toList ∧ FsRootWf "//host/share".toList ∧ FsRootWf "../rel/root".toList := by decide
example : normpath (pjoin "/srv/www".toList "a/b.c/...".toList) = "/srv/www/a/b.c/...".toList := by decide

/-- the excluded roots: below `/` (and `//`) names are formed without a separating slash, and a non-normalised
root is not a prefix of what it resolves to -/
theorem resolved_under_root_excluded_points :
    normpath (pjoin ['/'] ['a']) = ['/', 'a'] ∧ normpath (pjoin "/srv/../www".toList ['a']) = "/www/a".toList := by decide

/-- what the refusals are for: without them the join leaves the root -/
theorem unchecked_tuples_escape :
    normpath (pjoin "/srv/www".toList (joinWith '/' [['.', '.'], "secret".toList])) = "/srv/secret".toList ∧
    normpath (pjoin "/srv/www".toList (joinWith '/' ["/etc/passwd".toList])) = "/etc/passwd".toList ∧
    normpath (pjoin "/srv/www".toList (joinWith '/' ["a/../../x".toList])) = "/srv/x".toList := by decide

/-- The empty tuple resolves to the root itself. -/
theorem resolved_root_itself (root : Text) (hroot : FsRootWf root) :
    securePath [] = some [] ∧ normpath (pjoin root []) = root := by
  refine ⟨by decide, ?_⟩
  have := (resolved_under_root root [] [] hroot (by decide)).1
  simpa [below] using this

/-- Package-relative roots: the resource name `docroot.rstrip('/') + '/' + path` is turned into the file name
`os.path.join(base, *name.split('/'))` by pkg_resources; for an accepted non-empty tuple that is
`base/docroot/s₁/…/sₙ`. -/
theorem pkg_resolved_under_root (base docroot : Text) (segs : List Seg) (p : Text) (hw : PkgRootWf base docroot)
    (h : securePath segs = some p) (hne : segs ≠ []) :
    resourceFilename base (rstripSlash docroot ++ '/' :: p) = below (base ++ '/' :: rstripSlash docroot) segs ∧
    Under (base ++ '/' :: rstripSlash docroot) (resourceFilename base (rstripSlash docroot ++ '/' :: p)) := by
  obtain ⟨hs, hp⟩ := (securePath_eq_some_iff segs p).mp h
  subst hp
  let v : View := { pkg := true, base := base, docroot := docroot, index := [], encs := [] }
  have e := osPath_pkg v rfl hw segs hne (fun c hc => proper_comp (hs c hc))
  have e' : resourceFilename base (rstripSlash docroot ++ '/' :: joinWith '/' segs) =
      below (base ++ '/' :: rstripSlash docroot) segs := by
    simpa [osPath, nameOf, rootOf, v] using e
  exact ⟨e', by rw [e']; exact ⟨segs, hne, hs, rfl⟩⟩

example : PkgRootWf "/opt/app/pkg".toList "static/".toList ∧ PkgRootWf "/opt/app/pkg".toList "a/b".toList := by decide

/-- `Under` is decidable: it is the string test the driver applies to every path the model serves. -/
theorem under_iff (root name : Text) : Under root name ↔ underB root name = true := by
  unfold underB
  constructor
  · rintro ⟨comps, hne, hp, rfl⟩
    rw [below_eq root comps hne]
    have hpre : (root ++ ['/']).isPrefixOf (root ++ '/' :: joinWith '/' comps) = true := by
      have : root ++ '/' :: joinWith '/' comps = (root ++ ['/']) ++ joinWith '/' comps := by simp
      rw [this]; simp
    have hdrop : (root ++ '/' :: joinWith '/' comps).drop (root.length + 1) = joinWith '/' comps := by
      have : root ++ '/' :: joinWith '/' comps = (root ++ ['/']) ++ joinWith '/' comps := by simp
      rw [this, List.drop_left' (by simp)]
    rw [hpre, hdrop, Pyr.Trav.splitOn_joinWith '/' comps hne (fun s m => (hp s m).2.2.2.1)]
    simpa [List.all_eq_true] using hp
  · intro h
    simp only [Bool.and_eq_true, List.all_eq_true, decide_eq_true_eq] at h
    obtain ⟨hpre, hall⟩ := h
    obtain ⟨rest, hrest⟩ := List.isPrefixOf_iff_prefix.mp hpre
    have hdrop : name.drop (root.length + 1) = rest := by
      rw [← hrest, List.drop_left' (by simp)]
    rw [hdrop] at hall
    refine ⟨splitOn '/' rest, Pyr.Trav.splitOn_ne_nil _ _, hall, ?_⟩
    rw [below_eq _ _ (Pyr.Trav.splitOn_ne_nil _ _), joinWith_splitOn, ← hrest]
    simp

/-! ## 3. the view -/

/-- **Containment, for an arbitrary subpath tuple** (`static_view(..., use_subpath=True)` called with any
`request.subpath`): whatever the view opens — to serve it, or failing because it is a directory — lies strictly
inside the root. -/
theorem static_view_contained (fs : Fs) (v : View) (hw : WfView v) (hr : RootIsDir fs v) (ae : Option (List Enc))
    (slash : Bool) (segs : List Seg) (p : Text)
    (h : (∃ e b, serveDirect fs v ae slash segs = .file p e b) ∨ serveDirect fs v ae slash segs = .isADirectory p) :
    Under (rootOf v) p :=
  staticView_under fs v hw hr ae slash segs p h

/-- **Containment through `add_static_view`**: for every raw `PATH_INFO` (any bytes: `..`, `%2e%2e`, `\`, NUL,
doubled and absolute segments, overlong UTF-8, …) and every mount prefix. -/
theorem sub_mount_contained (fs : Fs) (v : View) (hw : WfView v) (hr : RootIsDir fs v) (ae : Option (List Enc))
    (pfx : Text) (wsgi : Bytes) (p : Text)
    (h : (∃ e b, serveSub fs v ae pfx wsgi = .file p e b) ∨ serveSub fs v ae pfx wsgi = .isADirectory p) :
    Under (rootOf v) p := by
  unfold serveSub at h
  cases hd : decodePathInfo wsgi with
  | none => simp [hd] at h
  | some t =>
    simp only [hd] at h
    cases hm : routeRemainder pfx (if t = [] then ['/'] else t) with
    | none => simp [hm] at h
    | some rest =>
      simp only [hm] at h
      exact staticView_under fs v hw hr ae _ _ p h

/-- **Containment through traversal + `use_subpath=False`**: for every raw `PATH_INFO`. -/
theorem plain_mount_contained (fs : Fs) (v : View) (hw : WfView v) (hr : RootIsDir fs v) (ae : Option (List Enc))
    (wsgi : Bytes) (p : Text)
    (h : (∃ e b, servePlain fs v ae wsgi = .file p e b) ∨ servePlain fs v ae wsgi = .isADirectory p) :
    Under (rootOf v) p := by
  unfold servePlain at h
  cases hd : decodePathInfo wsgi with
  | none => simp [hd] at h
  | some t =>
    simp only [hd] at h
    by_cases hreach : traversalReaches (splitPathInfo (if t = [] then ['/'] else t)) = true
    · simp only [hreach, if_true] at h
      exact staticView_under fs v hw hr ae _ _ p h
    · simp [hreach] at h

/-- a concrete configuration and tree used by the examples and witnesses below -/
def exView : View :=
  { pkg := false, base := [], docroot := "/srv/www".toList, index := "index.html".toList,
    encs := [("gzip", [".gz".toList])] }

def exPkgView : View :=
  { pkg := true, base := "/opt/pkg".toList, docroot := "static/".toList, index := "index.html".toList,
    encs := [("gzip", [".gz".toList])] }

def exDirs : List Text :=
  ["/srv/www".toList, "/srv/www/sub".toList, "/srv/www/d".toList, "/srv/www/d/index.html".toList,
   "/opt/pkg/static".toList, "/opt/pkg/static/sub".toList]

def exFiles : List (Text × Nat) :=
  [("/srv/www/a.txt".toList, 300), ("/srv/www/a.txt.gz".toList, 90), ("/srv/www/sub/index.html".toList, 50),
   ("/srv/secret".toList, 7), ("/opt/pkg/static/sub/index.html".toList, 50), ("/opt/pkg/secret".toList, 7)]

/-- trailing slashes are ignored for directories (what `os.stat` does) -/
def exFs : Fs :=
  { isDir := fun p => exDirs.contains (rstripSlash p)
    isThere := fun p => exDirs.contains (rstripSlash p) || (exFiles.lookup p).isSome
    size := fun p => (exFiles.lookup p).getD 4096 }

example : WfView exView ∧ WfView exPkgView := by decide
example : RootIsDir exFs exView ∧ RootIsDir exFs exPkgView := by decide

/-- the bytes of an ASCII string -/
def ascii (s : String) : Bytes := s.toList.map fun c => UInt8.ofNat c.toNat

/-- non-vacuity of the containment theorems: requests that are served, with and without traversal pieces -/
example : serveSub exFs exView (some ["gzip"]) "/static/".toList (ascii "/static/sub/../a.txt")
    = .file "/srv/www/a.txt.gz".toList (some "gzip") true := by decide
example : servePlain exFs exView none (ascii "//sub/./")
    = .file "/srv/www/sub/index.html".toList none false := by decide
example : serveSub exFs exPkgView none "/static/".toList (ascii "/static/sub/")
    = .file "/opt/pkg/static/sub/index.html".toList none false := by decide
example : serveSub exFs exView none "/static/".toList (ascii "/static/../../secret") = .notFound ∧
    serveSub exFs exView none "/static/".toList (ascii "/static/sub") = .redirect ∧
    serveSub exFs exView none "/static/".toList [47, 115, 116, 97, 116, 105, 99, 47, 0xc0, 0xae, 0xc0, 0xae, 47, 115] = .urlDecodeError := by
  decide

/-- **The view is the spec.**  For a well-formed configuration whose root is a directory,
`static_view.__call__` on ANY tuple is the declarative `specView`: 404 for a tuple with an improper component;
otherwise `root/s₁/…/sₙ` — a redirect for a directory without trailing slash, its index file with one, the file
itself otherwise — served as the smallest existing regular file among the variants the client accepts. -/
theorem static_view_eq_spec (fs : Fs) (v : View) (hw : WfView v) (hr : RootIsDir fs v)
    (ae : Option (List Enc)) (slash : Bool) (segs : List Seg) :
    staticView fs v ae slash segs = specView fs v ae slash segs :=
  staticView_eq_specView fs v hw hr ae slash segs

/-- Through `add_static_view`, every raw request path is answered by what its normalised remainder designates. -/
theorem sub_mount_serves_designated (fs : Fs) (v : View) (hw : WfView v) (hr : RootIsDir fs v)
    (ae : Option (List Enc)) (pfx : Text) (wsgi : Bytes) :
    serveSub fs v ae pfx wsgi =
      match decodePathInfo wsgi with
      | none => .urlDecodeError
      | some t =>
        match routeRemainder pfx (if t = [] then ['/'] else t) with
        | none => .notFound
        | some rest => specView fs v ae (endsWithSlash t) (splitPathInfo rest) := by
  unfold serveSub
  cases decodePathInfo wsgi with
  | none => rfl
  | some t =>
    simp only
    cases routeRemainder pfx (if t = [] then ['/'] else t) with
    | none => rfl
    | some rest => exact staticView_eq_specView fs v hw hr ae _ _

/-- Through traversal + `use_subpath=False`, every raw request path — ASCII or not — is answered by what its
normalised form designates (unless traversal dispatches it to another view: an `@@name` segment). -/
theorem plain_mount_serves_designated (fs : Fs) (v : View) (hw : WfView v) (hr : RootIsDir fs v)
    (ae : Option (List Enc)) (wsgi : Bytes) :
    servePlain fs v ae wsgi =
      match decodePathInfo wsgi with
      | none => .urlDecodeError
      | some t =>
        if traversalReaches (splitPathInfo (if t = [] then ['/'] else t)) then
          specView fs v ae (endsWithSlash t) (splitPathInfo t)
        else .notFound := by
  unfold servePlain
  cases decodePathInfo wsgi with
  | none => rfl
  | some t =>
    simp only [staticView_eq_specView fs v hw hr ae]

/-- the witness of the repaired F-C16b: `/ü` and `/日` name existing files and are served (decoded once) -/
theorem plain_mount_non_ascii_served :
    let fs : Fs := { exFs with isThere := fun p => p = "/srv/www/ü".toList || p = "/srv/www/日".toList || exFs.isThere p }
    servePlain fs exView none [47, 0xc3, 0xbc] = .file "/srv/www/ü".toList none false ∧
    servePlain fs exView none [47, 0xe6, 0x97, 0xa5] = .file "/srv/www/日".toList none false := by decide

/-- **The outcomes of the view**: 404, a redirect, or a file strictly inside the root — never anything else. -/
theorem static_view_outcomes (fs : Fs) (v : View) (hw : WfView v) (hr : RootIsDir fs v)
    (ae : Option (List Enc)) (slash : Bool) (segs : List Seg) :
    staticView fs v ae slash segs = .notFound ∨ staticView fs v ae slash segs = .redirect ∨
      ∃ p e b, staticView fs v ae slash segs = .file p e b ∧ Under (rootOf v) p ∧ fs.isRegular p = true := by
  have hspec := staticView_eq_specView fs v hw hr ae slash segs
  rcases specView_cases fs v ae slash segs with h | h | ⟨p, e, b, h⟩
  · exact .inl (hspec.trans h)
  · exact .inr (.inl (hspec.trans h))
  · have ho := hspec.trans h
    refine .inr (.inr ⟨p, e, b, ho, staticView_under fs v hw hr ae slash segs p (.inl ⟨e, b, ho⟩), ?_⟩)
    exact staticView_file_regular fs v ae slash segs p e b ho

/-- With no assumption on the configuration at all: the view never hands a directory to `open()`. -/
theorem static_view_opens_regular_files_only (fs : Fs) (v : View) (ae : Option (List Enc)) (slash : Bool)
    (segs : List Seg) (p : Text) : staticView fs v ae slash segs ≠ .isADirectory p := by
  intro h
  exact staticView_not_isADirectory fs v ae slash segs p h

/-- the witness of the repaired F-C16a: a directory named like the index file is treated as missing -/
theorem index_directory_is_missing :
    staticView exFs exView none true ["d".toList] = .notFound ∧
    specView exFs exView none true ["d".toList] = .notFound := by decide

/-! ## 4. encoded variants -/

/-- `get_possible_files` returns exactly the existing candidates, in ascending size. -/
theorem possible_files_sorted_candidates (fs : Fs) (v : View) (n : Text) :
    (∀ c, c ∈ possibleFiles fs v n ↔ c ∈ candidates fs v n) ∧
    (possibleFiles fs v n).Pairwise fun a b => fs.size a.path ≤ fs.size b.path :=
  ⟨fun c => mem_sortBySize _ c _, sortBySize_sorted _ _⟩

/-- **An encoded variant that is served is one the client accepts, and is labelled with its encoding**: it is
the file `name + ext` for an extension `ext` of a configured encoding `e`, the `Accept-Encoding` header is present
and accepts `e`, and `e` is what the response is labelled with. -/
theorem encoded_variant_acceptable_and_labelled (fs : Fs) (v : View) (ae : Option (List Enc)) (n : Text)
    (c : Cand) (e : Enc) (h : findBestMatch ae (possibleFiles fs v n) = some c) (he : c.enc = some e) :
    (∃ acc, ae = some acc ∧ e ∈ acc) ∧
    ∃ exts x, (e, exts) ∈ v.encs ∧ x ∈ exts ∧ findResourcePath fs v (n ++ x) = some c.path := by
  rw [findBestMatch_eq_find] at h
  have hacc := List.find?_some h
  have hm : c ∈ candidates fs v n := (mem_sortBySize _ _ _).mp (List.mem_of_find?_eq_some h)
  constructor
  · cases ae with
    | none => simp [accepts, he] at hacc
    | some acc => exact ⟨acc, rfl, by simpa [accepts, he] using hacc⟩
  · rcases mem_candidates fs v n c hm with ⟨h0, _⟩ | ⟨e', exts, x, h1, h2, h3, h4⟩
    · rw [h0] at he; cases he
    · rw [h3] at he
      cases he
      exact ⟨exts, x, h1, h2, h4⟩

/-- the label of the response is the encoding of the chosen candidate -/
theorem served_label_is_candidate_encoding (fs : Fs) (v : View) (ae : Option (List Enc)) (slash : Bool)
    (segs : List Seg) (p : Text) (e : Enc) (b : Bool) (h : staticView fs v ae slash segs = .file p (some e) b) :
    ∃ acc, ae = some acc ∧ e ∈ acc := by
  unfold staticView at h
  cases hn : resourceName fs v slash segs with
  | notFound => simp [hn] at h
  | redirect => simp [hn] at h
  | name n =>
    simp only [hn] at h
    cases hf : findBestMatch ae (possibleFiles fs v n) with
    | none => simp [hf] at h
    | some c =>
      simp only [hf] at h
      split at h
      · simp at h
      · simp only [Outcome.file.injEq] at h
        exact (encoded_variant_acceptable_and_labelled fs v ae n c e hf h.2.1).1

/-- **Without an (acceptable) `Accept-Encoding` header only the identity file is served.** -/
theorem no_accept_encoding_identity_only (fs : Fs) (v : View) (n : Text) (c : Cand)
    (h : findBestMatch none (possibleFiles fs v n) = some c) :
    c.enc = none ∧ findResourcePath fs v n = some c.path := by
  rw [findBestMatch_eq_find] at h
  have hacc := List.find?_some h
  have hm : c ∈ candidates fs v n := (mem_sortBySize _ _ _).mp (List.mem_of_find?_eq_some h)
  have hnone : c.enc = none := by
    cases he : c.enc with
    | none => rfl
    | some e => simp [accepts, he] at hacc
  rcases mem_candidates fs v n c hm with ⟨_, h1⟩ | ⟨e', _, _, _, _, h3, _⟩
  · exact ⟨hnone, h1⟩
  · rw [hnone] at h3; cases h3

/-- The candidate chosen is a smallest one among those the client accepts, and one is chosen whenever the
client accepts any (so an existing identity file is never answered with 404). -/
theorem best_match_is_smallest_acceptable (fs : Fs) (v : View) (ae : Option (List Enc)) (n : Text) :
    (∀ c, findBestMatch ae (possibleFiles fs v n) = some c →
      c ∈ candidates fs v n ∧ accepts ae c = true ∧
      ∀ c' ∈ candidates fs v n, accepts ae c' = true → fs.size c.path ≤ fs.size c'.path) ∧
    (findBestMatch ae (possibleFiles fs v n) = none ↔ ∀ c ∈ candidates fs v n, accepts ae c = false) := by
  rw [findBestMatch_eq_find]
  constructor
  · intro c h
    refine ⟨(mem_sortBySize _ _ _).mp (List.mem_of_find?_eq_some h), List.find?_some h, ?_⟩
    intro c' hc' ha
    exact find?_sorted_min (fun a b : Cand => fs.size a.path ≤ fs.size b.path) (fun _ => Nat.le_refl _) _
      (sortBySize_sorted _ _) _ c h c' ((mem_sortBySize _ _ _).mpr hc') ha
  · rw [List.find?_eq_none]
    constructor
    · intro h c hc
      have := h c ((mem_sortBySize _ _ _).mpr hc)
      simpa using this
    · intro h c hc
      have := h c ((mem_sortBySize _ _ _).mp hc)
      simp [this]

example : findBestMatch (some ["gzip"]) (possibleFiles exFs exView "/srv/www/a.txt".toList)
    = some ⟨"/srv/www/a.txt.gz".toList, some "gzip"⟩ ∧
  findBestMatch (some ["br"]) (possibleFiles exFs exView "/srv/www/a.txt".toList) = some ⟨"/srv/www/a.txt".toList, none⟩ ∧
  findBestMatch none (possibleFiles exFs exView "/srv/www/a.txt".toList) = some ⟨"/srv/www/a.txt".toList, none⟩ := by decide

/-! ## 6. package roots of every shape and asset overrides (`config.override_asset`)

A package-relative static view asks `pkg_resources`, and `pkg_resources` asks the overrides declared for the package
first (`OverrideProvider`): most recent first, the first source in which the resource exists answers, otherwise the
package itself.  `staticViewOv` is the view with that layer and with the package-ROOT spec `pkg:` (empty docroot,
3e07f6a); without overrides and with a non-empty docroot it is the `staticView` of §3 (tied by the correspondence
run: the driver serves every request through `staticViewOv`). -/

/-- generated obligation: `get_resource_name` of the tree under test for the package-ROOT spec `pkg:` (empty
docroot: names stay relative; the root itself redirects / takes the index name `/index.html`) is the model's -/
theorem gen_pkg_root_name_probe :
    Gen.pkgRootNameProbe.length ≥ 200 ∧
    ∀ e ∈ Gen.pkgRootNameProbe,
      nameOutcomeTag (resourceName
        { isDir := fun p => p = "/probe-base".toList, isThere := fun p => p = "/probe-base".toList, size := fun _ => 0 }
        { probeView true [] with docroot := [] } e.1 e.2.1) = e.2.2 := by decide +kernel

/-- generated obligation (fbf36b3): a resource name that pkg_resources refuses as absolute (leading backslash, drive and
root) is answered 404 by `get_resource_name` itself; the others are named as before -/
theorem gen_guard_probe :
    Gen.guardProbe.length = 9 ∧
    ∀ e ∈ Gen.guardProbe,
      nameOutcomeTag (resourceNameOv
        { isDir := fun p => p = "/probe-base".toList, isThere := fun p => p = "/probe-base".toList, size := fun _ => 0 }
        { v := { probeView true [] with docroot := [] }, ovs := [] } false e.1) = e.2 := by decide +kernel

/-- generated obligation: `FSAssetSource.get_path` (leading slashes of the name stripped before the join, the bare
prefix for the empty name) and `PackageAssetSource.get_path` (prefix + name) are the model's `Source.osPath` -/
theorem gen_source_path_probe :
    Gen.sourcePathProbe.length ≥ 60 ∧
    ∀ e ∈ Gen.sourcePathProbe,
      (if e.1 then e.2.1 ++ e.2.2.1 else (Source.fs e.2.1).osPath e.2.2.1) = e.2.2.2 := by decide +kernel

/-- generated obligation: which names an override matches and what it hands on (`DirectoryOverride` for an empty
path or one ending in `/`, `FileOverride` otherwise) is the model's `Override.apply` -/
theorem gen_override_apply_probe :
    Gen.overrideApplyProbe.length ≥ 60 ∧
    ∀ e ∈ Gen.overrideApplyProbe,
      ((Override.mk e.1 (.fs [])).apply e.2.1).map (·.2) = e.2.2 := by decide +kernel

/-- **Extended containment.**  For every package-relative configuration (`pkg:`, `pkg:dir`, `pkg:dir/`, nested
directories), every list of well-formed overrides (whole package / directory / single file; package sources and
filesystem sources with or without trailing slash; any number, any order) and every subpath tuple: whatever the view
opens lies strictly inside the static root, or is the file / lies strictly inside the directory that one of the
DECLARED overrides was declared with — never anywhere else. -/
theorem override_containment (fs : Fs) (w : OvView) (hw : OvWf w)
    (hroot : pkgIsDir fs w (pkgResourcePath w.v.docroot []) = true) (ae : Option (List Enc)) (slash : Bool)
    (segs : List Seg) (p : Text)
    (h : (∃ e b, staticViewOv fs w ae slash segs = .file p e b) ∨ staticViewOv fs w ae slash segs = .isADirectory p) :
    Under (pkgRoot w.v) p ∨ ∃ o ∈ w.ovs, InOverride o p :=
  staticViewOv_where fs w hw hroot ae slash segs p h

/-- … for every raw `PATH_INFO` through the `*subpath` route -/
theorem sub_mount_contained_with_overrides (fs : Fs) (w : OvView) (hw : OvWf w)
    (hroot : pkgIsDir fs w (pkgResourcePath w.v.docroot []) = true) (ae : Option (List Enc)) (pfx : Text)
    (wsgi : Bytes) (p : Text)
    (h : (∃ e b, serveSubOv fs w ae pfx wsgi = .file p e b) ∨ serveSubOv fs w ae pfx wsgi = .isADirectory p) :
    Under (pkgRoot w.v) p ∨ ∃ o ∈ w.ovs, InOverride o p := by
  unfold serveSubOv at h
  cases hd : decodePathInfo wsgi with
  | none => simp [hd] at h
  | some t =>
    simp only [hd] at h
    cases hm : routeRemainder pfx (if t = [] then ['/'] else t) with
    | none => simp [hm] at h
    | some rest =>
      simp only [hm] at h
      exact staticViewOv_where fs w hw hroot ae _ _ p h

/-- … and through traversal + `use_subpath=False` -/
theorem plain_mount_contained_with_overrides (fs : Fs) (w : OvView) (hw : OvWf w)
    (hroot : pkgIsDir fs w (pkgResourcePath w.v.docroot []) = true) (ae : Option (List Enc)) (wsgi : Bytes) (p : Text)
    (h : (∃ e b, servePlainOv fs w ae wsgi = .file p e b) ∨ servePlainOv fs w ae wsgi = .isADirectory p) :
    Under (pkgRoot w.v) p ∨ ∃ o ∈ w.ovs, InOverride o p := by
  unfold servePlainOv at h
  cases hd : decodePathInfo wsgi with
  | none => simp [hd] at h
  | some t =>
    simp only [hd] at h
    by_cases hreach : traversalReaches (splitPathInfo (if t = [] then ['/'] else t)) = true
    · simp only [hreach, if_true] at h
      exact staticViewOv_where fs w hw hroot ae _ _ p h
    · simp [hreach] at h

/-- a package-root view (`pkg:`) whose whole package is overridden from an absolute directory, and a nested
directory override from another package on top of it: the F-C16f configuration and more -/
def exOvView : OvView :=
  { v := { pkg := true, base := "/opt/pkg".toList, docroot := [], index := "index.html".toList, encs := [("gzip", [".gz".toList])] }
    ovs := [{ path := "static/".toList, src := .pkg "/opt/two".toList "alt/".toList },
            { path := [], src := .fs "/srv/ov/".toList },
            { path := "static/one.css".toList, src := .fs "/srv/single.css".toList }] }

def exOvFs : Fs :=
  let dirs : List Text := ["/opt/pkg".toList, "/opt/pkg/static".toList, "/srv/ov".toList, "/opt/two/alt".toList]
  let files : List Text := ["/opt/pkg/static/a.css".toList, "/srv/ov/static/a.css".toList, "/srv/ov/index.html".toList,
    "/opt/two/alt/b.css".toList, "/srv/single.css".toList, "/etc/passwd".toList, "/srv/secret".toList]
  { isDir := fun p => dirs.contains (rstripSlash p)
    isThere := fun p => dirs.contains (rstripSlash p) || files.contains p
    size := fun _ => 10 }

example : OvWf exOvView ∧ pkgIsDir exOvFs exOvView (pkgResourcePath exOvView.v.docroot []) = true := by decide

/-- non-vacuity, and the regression witness of the repaired F-C16f: the override sources answer in their order, the
package answers when they do not have the file, the root index comes from the whole-package override (resource name
`/index.html`, leading slash stripped by the source), and an absolute path spelled by the request stays inside -/
theorem override_examples :
    staticViewOv exOvFs exOvView none false ["static".toList, "b.css".toList] = .file "/opt/two/alt/b.css".toList none false ∧
    staticViewOv exOvFs exOvView none false ["static".toList, "a.css".toList] = .file "/srv/ov/static/a.css".toList none false ∧
    staticViewOv exOvFs exOvView none true [] = .file "/srv/ov/index.html".toList none false ∧
    staticViewOv exOvFs exOvView none false ["etc".toList, "passwd".toList] = .notFound ∧
    staticViewOv exOvFs exOvView none false ["srv".toList, "secret".toList] = .notFound := by decide

/-- what 3e07f6a repaired, on the model's own functions: with the resource name `/etc/passwd` (leading slash, as the
old `'{}/{}'.format('', path)` produced it) an `os.path.join(prefix, name)` WITHOUT `lstrip('/')` discards the prefix -/
theorem unstripped_join_escapes :
    pjoin "/srv/ov/".toList "/etc/passwd".toList = "/etc/passwd".toList ∧
    (Source.fs "/srv/ov/".toList).osPath "/etc/passwd".toList = "/srv/ov/etc/passwd".toList ∧
    pkgResourcePath [] "etc/passwd".toList = "etc/passwd".toList := by decide

/-- the regression witness of the repaired F-C16g (fbf36b3): a resource name that is absolute for Windows but not
for POSIX (`\x`, `C:/x` below a package-root spec) is refused by the guarded first call and answered 404 -/
theorem windows_absolute_name_refused :
    staticViewOv exOvFs { exOvView with ovs := [] } none false ["\\x".toList] = .notFound ∧
    staticViewOv exOvFs { exOvView with ovs := [] } none false ["C:".toList, "x".toList] = .notFound ∧
    staticViewOv exOvFs { exOvView with ovs := [] } none false ["x".toList] = .notFound := by decide

/-- the regression witnesses of the repaired F-C16h (cb07c73): the later pkg_resources calls (`find_resource_path`)
treat a refused name as missing — (A) a directory named like a drive at the root of a package-root view, requested
with a slash (index name `c:/index.html`): 404; (B) a whole-package filesystem override that has `\x` while the
variant `\x.gz` would fall through to the package: the plain file is served, with or without encodings. -/
theorem refused_names_are_missing :
    let fsA : Fs := { exOvFs with isDir := fun p => p = "/opt/pkg/c:".toList || exOvFs.isDir p,
                                  isThere := fun p => p = "/opt/pkg/c:".toList || exOvFs.isThere p }
    let fsB : Fs := { exOvFs with isThere := fun p => p = "/srv/ov/\\x".toList || exOvFs.isThere p }
    staticViewOv fsA { exOvView with ovs := [] } none true ["c:".toList] = .notFound ∧
    staticViewOv fsB { exOvView with ovs := [{ path := [], src := .fs "/srv/ov/".toList }] } none false ["\\x".toList]
      = .file "/srv/ov/\\x".toList none false ∧
    staticViewOv fsB { v := { exOvView.v with encs := [] }, ovs := [{ path := [], src := .fs "/srv/ov/".toList }] } none false
      ["\\x".toList] = .file "/srv/ov/\\x".toList none false := by decide

/-- **The outcomes of a package-relative view with overrides** (full; no exception is left): 404, a redirect, or a
regular file that lies strictly inside the static root or inside what a declared override was declared with. -/
theorem override_outcomes (fs : Fs) (w : OvView) (hw : OvWf w)
    (hroot : pkgIsDir fs w (pkgResourcePath w.v.docroot []) = true) (ae : Option (List Enc)) (slash : Bool)
    (segs : List Seg) :
    staticViewOv fs w ae slash segs = .notFound ∨ staticViewOv fs w ae slash segs = .redirect ∨
      ∃ p e b, staticViewOv fs w ae slash segs = .file p e b ∧ fs.isDir p = false ∧
        (Under (pkgRoot w.v) p ∨ ∃ o ∈ w.ovs, InOverride o p) := by
  rcases staticViewOv_cases fs w hw.1 ae slash segs with h | h | ⟨p, e, b, h⟩
  · exact .inl h
  · exact .inr (.inl h)
  · refine .inr (.inr ⟨p, e, b, h, ?_, staticViewOv_where fs w hw hroot ae slash segs p (.inl ⟨e, b, h⟩)⟩)
    -- the file served was a candidate, and candidates are not directories
    have hnd := staticViewOv_file_not_dir fs w hw.1 ae slash segs p e b h
    exact hnd

end Pyr.Static

/-! ## 5. configuration and URL side: registrations, `static_url`, cache busters, and the way back

Property (stated in notes/C16.md in the style of properties.jsonl): for every list of static registrations and every
asset spec under one of them, `static_url` yields a URL that, requested from the same application, is served by that
static view with the file the spec designates; it picks the first matching registration at a path boundary; a cache
buster only alters the URL in its documented place. -/
namespace Pyr.StaticUrl

open Pyr Pyr.Url Pyr.Pct
open Pyr.Trav (Seg Bytes splitOn joinWith utf8Enc splitPathInfo)
open Pyr.Static (Fs View WfView RootIsDir Enc specView serveSub rootOf below Proper)

/-- generated obligation: `StaticURLInfo.registrations` after the probed `add_static_view` sequences (every name
shape × every spec shape, and re-adds) is what `registerAll` says -/
theorem gen_register_probe :
    Pyr.Static.Gen.registerProbe.length ≥ 25 ∧
    ∀ e ∈ Pyr.Static.Gen.registerProbe, regTuples (registerAll none e.1) = e.2 := by decide +kernel

/-- generated obligation: `StaticURLInfo.cache_busters` after EVERY sequence of at most three `add_cache_buster`
calls over three specs × {implicit, explicit} (259 sequences) is what `addCacheBuster` says -/
theorem gen_buster_order_probe :
    Pyr.Static.Gen.busterOrderProbe.length = 259 ∧
    ∀ e ∈ Pyr.Static.Gen.busterOrderProbe, bustersOf e.1 = e.2 := by decide +kernel

/-- generated obligation: `request.static_path` on the probed configurations × assets × `_query` arguments (local and
external names, re-added name, query-string and manifest busters, explicit flag, boundary sibling) is what
`generate` says -/
theorem gen_generate_probe :
    Pyr.Static.Gen.generateProbe.length ≥ 90 ∧
    ∀ e ∈ Pyr.Static.Gen.generateProbe, probeGenerate e.1 e.2.1 e.2.2.1 e.2.2.2.1 = e.2.2.2.2 := by decide +kernel

/-- Whatever the sequence of `add_static_view` calls: every registration's spec ends with a separator (`/`, or the
`:` of a whole-package spec) and every external base URL with `/`. -/
theorem registrations_terminated (pfx : Option Text) (adds : List (Text × Text)) :
    ∀ r ∈ registerAll pfx adds, Terminated r.spec ∧ ∀ u, r.url = some u → endsWithC u '/' = true :=
  registerAll_ok pfx adds

/-- **First match, at a path boundary.**  `generate` answers from the FIRST registration whose spec is a prefix of
the asset spec (ValueError exactly when there is none); the asset spec is then that spec followed by the subpath. -/
theorem generate_picks_first (e : Env) (routes : Routes) (regs : List StaticReg) (bs : List BusterReg)
    (rawOf : Text → Option Text) (path : Text) (o : Ovr) (d : Bool) :
    (generate e routes regs bs rawOf path o d = .error .noStatic → ∀ r ∈ regs, r.spec.isPrefixOf path = false ∨
      ∃ r' ∈ regs, r'.spec.isPrefixOf path = true) ∧
    ((∀ r ∈ regs, r.spec.isPrefixOf path = false) → generate e routes regs bs rawOf path o d = .error .noStatic) ∧
    (∀ r, regs.find? (fun r => r.spec.isPrefixOf path) = some r →
      ∃ pre post, regs = pre ++ r :: post ∧ (∀ x ∈ pre, x.spec.isPrefixOf path = false) ∧
        path = r.spec ++ path.drop r.spec.length) := by
  refine ⟨fun _ r hr => ?_, fun h => ?_, fun r hr => ?_⟩
  · by_cases hp : r.spec.isPrefixOf path = true
    · exact .inr ⟨r, hr, hp⟩
    · exact .inl (Bool.eq_false_iff.mpr hp)
  · unfold generate
    have : regs.find? (fun r => r.spec.isPrefixOf path) = none := by
      rw [List.find?_eq_none]; intro x hx; simp [h x hx]
    rw [this]
  · obtain ⟨hp, pre, post, e1, hno⟩ := List.find?_eq_some_iff_append.mp hr
    refine ⟨pre, post, e1, fun x hx => by simpa using hno x hx, ?_⟩
    obtain ⟨t, ht⟩ := List.isPrefixOf_iff_prefix.mp hp
    rw [← ht, List.drop_left' rfl]

/-- A registered directory never claims its siblings: `…/static/` is not a prefix of `…/static2/x`, `…/static.gz`. -/
theorem boundary_safe (d rest : Text) (c : Char) (hc : c ≠ '/') :
    (normSpec (d ++ ['/'])).isPrefixOf (d ++ c :: rest) = false ∧ (d ++ ['/']).isPrefixOf (d ++ c :: rest) = false := by
  have h2 : (d ++ ['/']).isPrefixOf (d ++ c :: rest) = false := by
    apply Bool.eq_false_iff.mpr
    intro h
    have := List.isPrefixOf_iff_prefix.mp h
    rw [List.prefix_append_right_inj] at this
    obtain ⟨t, ht⟩ := this
    simp only [List.cons_append, List.nil_append, List.cons.injEq] at ht
    exact hc ht.1.symm
  have h1 : normSpec (d ++ ['/']) = d ++ ['/'] := by simp [normSpec, endsWithC]
  exact ⟨by rw [h1]; exact h2, h2⟩

example : (normSpec "pkg:static".toList).isPrefixOf "pkg:static2/x".toList = false ∧
    (normSpec "pkg:static".toList).isPrefixOf "pkg:static/x".toList = true := by decide

/-- **Re-adding an external name replaces it**: the URL column of the new list contains the name exactly once
(whatever duplicates there were, one is removed and one is added), at the end, with the new spec; the other
external registrations are untouched in number. -/
theorem register_replaces_external (pfx : Option Text) (regs : List StaticReg) (name spec : Text)
    (hu : isUrlName (normName name) = some true) :
    countUrl (normName name) (register pfx regs name spec) = countUrl (normName name) regs - 1 + 1 ∧
    (register pfx regs name spec).getLast? = some ⟨some (normName name), normSpec spec, []⟩ ∧
    ∀ w, w ≠ normName name → countUrl w (register pfx regs name spec) = countUrl w regs := by
  unfold register
  simp only [hu, Option.getD_some, if_true]
  refine ⟨?_, by simp, fun w hw => ?_⟩
  · unfold countUrl
    rw [List.countP_append]
    have := countUrl_eraseFirst (normName name) regs
    unfold countUrl at this
    rw [this]; simp
  · unfold countUrl
    rw [List.countP_append]
    have := countUrl_eraseFirst_ne (normName name) w hw regs
    unfold countUrl at this
    rw [this]
    simp [hw.symm]

/-- As built; outside C16's statement (observation O-C16c).  "Re-adding the same name replaces" holds for external
names only: for a LOCAL name the URL column is `None`, the comparison `name in names` never succeeds and both
registrations stay — the asset of the superseded spec still gets a URL, of the route that now serves the new
directory. -/
theorem register_local_name_accumulates :
    let adds : List (Text × Text) := [("static".toList, "pkg:old".toList), ("static".toList, "pkg:new".toList)]
    (registerAll none adds).length = 2 ∧ (routesOf none adds).length = 1 ∧
    (generate ⟨"http".toList, none, "h".toList, "80".toList, []⟩ (routesOf none adds) (registerAll none adds) []
      (fun _ => none) "pkg:old/x.css".toList { appUrl := some [] } false).toOption = some "/static/x.css".toList := by decide

/-- Without cache busters `generate` is C17's `staticUrl` (so C17's grammar and query round-trip theorems apply). -/
theorem generate_without_busters (e : Env) (routes : Routes) (regs : List StaticReg) (rawOf : Text → Option Text)
    (path : Text) (o : Ovr) (d : Bool) :
    generate e routes regs [] rawOf path o d = Pyr.Url.staticUrl e routes regs path o := by
  unfold generate urlOf
  conv => rhs; unfold Pyr.Url.staticUrl
  cases regs.find? (fun r => r.spec.isPrefixOf path) with
  | none => rfl
  | some r => simp [Pyr.Url.staticUrl]

/-- **A cache buster alters the URL only in its documented place.**  With the registration `r` that is picked and
`sub` the remainder: no matching buster ⇒ the URL of `(r, sub)` with the caller's query; a manifest buster ⇒ the
URL of `(r, manifest[sub] or sub)` with the caller's query untouched; a query-string buster ⇒ the URL of the
untouched `(r, sub)` with the token set in the caller's query (appended; for a dict: assigned).  Scheme, host,
route, anchor are those of the unbusted call in every case. -/
theorem cache_buster_documented_place (e : Env) (routes : Routes) (regs : List StaticReg) (bs : List BusterReg)
    (rawOf : Text → Option Text) (path : Text) (o : Ovr) (d : Bool) (r : StaticReg)
    (hr : regs.find? (fun r => r.spec.isPrefixOf path) = some r) (hbs : bs ≠ []) :
    let sub := path.drop r.spec.length
    let chosen := bs.reverse.find? fun b =>
      if b.explicit then b.spec.isPrefixOf ((rawOf path).getD path) else b.spec.isPrefixOf path
    generate e routes regs bs rawOf path o d =
      match chosen with
      | none => urlOf e routes r sub o
      | some b =>
        match b.cb with
        | .manifest m => urlOf e routes r ((m.lookup sub).getD sub) o
        | .query p t =>
          match o.query with
          | .absent => urlOf e routes r sub { o with query := .pairs [(p, .one t)] }
          | .pairs ps truthy =>
            urlOf e routes r sub { o with query := .pairs (if d then dictSet ps p (.one t) else ps ++ [(p, .one t)]) truthy }
          | _ => .error .outside := by
  intro sub chosen
  unfold generate
  simp only [hr, hbs, if_false]
  unfold bustAssetPath
  simp only
  cases hc : bs.reverse.find? (fun b =>
      if b.explicit then b.spec.isPrefixOf ((rawOf path).getD path) else b.spec.isPrefixOf path) with
  | none => simp [chosen, hc, sub]
  | some b =>
    simp only [chosen, hc]
    unfold applyBuster
    cases b.cb with
    | manifest m => simp [sub]
    | query p t =>
      cases hq : o.query with
      | absent => simp [sub]
      | pairs ps truthy => simp [sub]
      | null => simp
      | str q => simp

/-- Which buster: the LAST matching one of the list (explicit ones matched on the overriding asset's spec). -/
theorem buster_choice (bs : List BusterReg) (match_ : BusterReg → Bool) (b : BusterReg)
    (h : bs.reverse.find? match_ = some b) :
    match_ b = true ∧ ∃ pre post, bs = pre ++ b :: post ∧ ∀ x ∈ post, match_ x = false :=
  find?_reverse_split match_ bs b h

/-- … and the list is kept with the non-explicit busters first and, within each kind, shorter specs first, so the
last matching one is the most specific explicit one if any, else the most specific non-explicit one (checked here
on the insertion orders of three busters; the general invariant is tied by the correspondence run). -/
theorem buster_order_examples :
    let q := Buster.query ['x'] ['t']
    let specs := fun (bs : List BusterReg) => bs.map fun b => (b.spec, b.explicit)
    specs (addCacheBuster (addCacheBuster (addCacheBuster [] "p:a/b".toList q false) "p:a".toList q true) "p:a".toList q false)
      = [("p:a/".toList, false), ("p:a/b/".toList, false), ("p:a/".toList, true)] ∧
    specs (addCacheBuster (addCacheBuster (addCacheBuster [] "p:a".toList q true) "p:a/b".toList q true) "p:a".toList q false)
      = [("p:a/".toList, false), ("p:a/".toList, true), ("p:a/b/".toList, true)] ∧
    specs (addCacheBuster (addCacheBuster [] "p:a".toList q false) "p:a/".toList (Buster.manifest []) false)
      = [("p:a/".toList, false)] := by decide

/-- **The way back.**  For a route-backed registration whose route is `<lit>*subpath`: the generated path is the
quoted literal followed by the quoted subpath; a WSGI server receives it as the UTF-8 bytes of `lit ++ sub`; the
application answers that request with what the serving model's spec gives for the normalised subpath — under the
view mounted at `lit`. -/
theorem static_url_way_back (fs : Fs) (v : View) (hw : WfView v) (hr : RootIsDir fs v) (ae : Option (List Enc))
    (lit sub : Text) :
    routeGenerate [(subpathName, .one sub)] [.lit lit, .star subpathName]
      = .ok (quote Gen.routeLitSafe lit ++ quote Gen.routeValSafe sub) ∧
    requestBytes (quote Gen.routeLitSafe lit ++ quote Gen.routeValSafe sub) = some (utf8Enc (lit ++ sub)) ∧
    serveSub fs v ae lit (utf8Enc (lit ++ sub)) =
      (if lit ++ sub = [] then specView fs v ae false (splitPathInfo ['/'])    -- cannot happen for a real route
       else specView fs v ae (Pyr.Static.endsWithSlash (lit ++ sub)) (splitPathInfo sub)) := by
  refine ⟨?_, requestBytes_quote_quote _ _ (by decide) (by decide) lit sub, ?_⟩
  · simp [routeGenerate, genPiece, List.lookup]
  · rw [Pyr.Static.sub_mount_serves_designated fs v hw hr ae lit]
    have hd : Pyr.Trav.decodePathInfo (utf8Enc (lit ++ sub)) = some (lit ++ sub) := Pyr.Pct.utf8_roundtrip _
    rw [hd]
    by_cases hne : lit ++ sub = []
    · have hl : lit = [] := (List.append_eq_nil_iff.mp hne).1
      have hs : sub = [] := (List.append_eq_nil_iff.mp hne).2
      subst hl; subst hs
      simp [Pyr.Static.routeRemainder, Pyr.Static.endsWithSlash]
    · simp only [hne, if_false]
      rw [routeRemainder_append]

/-- … and when every segment of the subpath is a proper file-name component (no empty, `.`, `..`, NUL), what is
designated is literally `root/<subpath>`: the file the asset spec names. -/
theorem static_url_designates_spec_file (fs : Fs) (v : View) (hw : WfView v) (hr : RootIsDir fs v)
    (ae : Option (List Enc)) (lit sub : Text) (hl : lit ≠ []) (hp : ∀ s ∈ splitOn '/' sub, Proper s) :
    serveSub fs v ae lit (utf8Enc (lit ++ sub)) =
      specView fs v ae (Pyr.Static.endsWithSlash (lit ++ sub)) (splitOn '/' sub) ∧
    below (rootOf v) (splitOn '/' sub) = rootOf v ++ '/' :: sub := by
  have h := (static_url_way_back fs v hw hr ae lit sub).2.2
  have hne : lit ++ sub ≠ [] := by simp [hl]
  simp only [hne, if_false] at h
  rw [h, splitPathInfo_proper sub hp]
  refine ⟨rfl, ?_⟩
  rw [Pyr.Static.below_eq _ _ (Pyr.Trav.splitOn_ne_nil _ _), Pyr.Static.joinWith_splitOn]

/-- As built; outside C16's statement (observation O-C16d).  The way back assumes that the request reaches the view
mounted at `lit`; when an EARLIER static view is mounted at a prefix of `lit` its route matches first: -/
theorem earlier_prefix_route_captures :
    let adds : List (Text × Text) := [("a".toList, "/srv/one".toList), ("a/b".toList, "/srv/two".toList)]
    (generate ⟨"http".toList, none, "h".toList, "80".toList, []⟩ (routesOf none adds) (registerAll none adds) []
      (fun _ => none) "/srv/two/x.css".toList { appUrl := some [] } false).toOption = some "/a/b/x.css".toList ∧
    Pyr.Static.routeRemainder "/a/".toList "/a/b/x.css".toList = some "b/x.css".toList := by decide

/-- As built; outside C16's statement (observation O-C16e).  The excluded point of `cache_buster_documented_place`: a
string `_query` is outside what a query-string buster can extend -/
theorem string_query_with_query_buster_outside :
    (match applyBuster (.query ['x'] ['t']) "f.css".toList (.str "a=1".toList) false with
     | .error .outside => true
     | _ => false) = true := by decide

end Pyr.StaticUrl

