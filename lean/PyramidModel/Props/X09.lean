import PyramidModel.Dotted
import PyramidModel.Lemmas.Dotted
import PyramidModel.Lemmas.DottedIdem
import PyramidModel.Gen.X09
/-! X09 — dotted-name resolution: property theorems (see notes/X09.md for the statement).
`U` is any module universe, `st` any interpreter state (loaded modules + traces), names are arbitrary texts. -/
namespace Pyr.Dotted

/-- a package path as `__name__.split('.')` gives it: non-empty, segments non-empty without `.` / `:` -/
def WfPath (p : Path) : Prop := p ≠ [] ∧ ∀ s ∈ p, s ≠ [] ∧ '.' ∉ s ∧ ':' ∉ s

instance (p : Path) : Decidable (WfPath p) := by unfold WfPath; exact inferInstance

/-- the example universe: package `qa` (whose body binds `m`, an object with attribute `z`, shadowing the submodule
`qa/m.py`), `qa.sub` (package), `qa.sub.k` (module binding `w`), `qa.bad` (raises ImportError), top-level module `qtop` -/
def exU : Univ :=
  { mods := [(["qa".toList], .pkg), (["qa".toList, "m".toList], .module), (["qa".toList, "sub".toList], .pkg),
             (["qa".toList, "sub".toList, "k".toList], .module), (["qa".toList, "bad".toList], .bad), (["qtop".toList], .module)],
    attrs := [(.mod ["qa".toList], "m".toList, 1), (.att 1, "z".toList, 2),
              (.mod ["qa".toList, "sub".toList, "k".toList], "w".toList, 4)] }

def exSub : Path := ["qa".toList, "sub".toList]

-- ------------------------------------------------------------------------------------------------------------------
-- (1) which style

/-- a colon anywhere in the name selects the pkg_resources style … -/
theorem colon_pkg_style (U : Univ) (pkg : Option Path) (v : Text) (st : St) (h : ':' ∈ v) :
    resolveStr U pkg v st = pkgStyle U pkg v st := by simp [resolveStr, h]

/-- … and no colon the zope.dottedname style -/
theorem no_colon_zope_style (U : Univ) (pkg : Option Path) (v : Text) (st : St) (h : ':' ∉ v) :
    resolveStr U pkg v st = zopeStyle U pkg v st := by simp [resolveStr, h]

example : ':' ∈ "qa.sub:k".toList ∧ ':' ∉ "qa.sub.k".toList := by decide +kernel

-- ------------------------------------------------------------------------------------------------------------------
-- (2) absolute names do not depend on the package; (3) relative names need one

theorem zopeName_absolute (pkg : Option Path) (x : Char) (t : Text) (hx : x ≠ '.') :
    zopeName pkg (x :: t) = .ok (splitOn '.' (x :: t)) := by
  obtain ⟨hd, tl, h2⟩ := splitOn_head_ne '.' x t hx
  have h1 : (x :: t) ≠ ['.'] := by
    intro e; simp only [List.cons.injEq] at e; exact hx e.1
  simp [zopeName, h1, h2]

/-- an absolute name (not empty, first character neither `.` nor — in a name with a colon — `:`) resolves to the same
outcome, with the same imports, whatever package the resolver was constructed with -/
theorem absolute_indep_pkg (U : Univ) (p1 p2 : Option Path) (v : Text) (st : St) (h : isRelative v = false) :
    resolveStr U p1 v st = resolveStr U p2 v st := by
  unfold isRelative at h
  by_cases hc : ':' ∈ v
  · rw [if_pos hc] at h
    have : ∀ p, pkgAbs p v = .ok v := by intro p; simp [pkgAbs, h]
    simp [resolveStr, hc, pkgStyle, this]
  · rw [if_neg hc] at h
    cases v with
    | nil => simp at h
    | cons x t =>
      have hx : x ≠ '.' := by intro e; simp [e] at h
      simp only [resolveStr, hc, if_false, zopeStyle, zopeName_absolute _ x t hx]

example : isRelative "qa.sub.k".toList = false ∧ isRelative "qa.sub:k.w".toList = false ∧ isRelative "é".toList = false := by
  decide +kernel

/-- a relative name (first character `.` / `:`, or the empty name) on a resolver without package: ValueError('relative name …
irresolveable without package'); the state is untouched — nothing is imported, path.py calls nothing -/
theorem relative_no_package (U : Univ) (v : Text) (st : St) (h : isRelative v = true) :
    resolveStr U none v st = (.error .relValueError, st) := by
  unfold isRelative at h
  by_cases hc : ':' ∈ v
  · rw [if_pos hc] at h
    simp [resolveStr, hc, pkgStyle, pkgAbs, h]
  · rw [if_neg hc] at h
    cases v with
    | nil => simp [resolveStr, zopeStyle, zopeName, splitOn]
    | cons x t =>
      have hx : x = '.' := by simpa using h
      subst hx
      by_cases ht : t = []
      · subst ht; simp [resolveStr, zopeStyle, zopeName]
      · have : ('.' :: t) ≠ ['.'] := by simpa using ht
        simp [resolveStr, hc, zopeStyle, zopeName, this, splitOn_cons_sep]

example : isRelative ".m".toList = true ∧ isRelative "..m".toList = true ∧ isRelative ":m".toList = true ∧
    isRelative ".sub:k".toList = true ∧ isRelative [] = true ∧ isRelative ".".toList = true := by decide +kernel

-- ------------------------------------------------------------------------------------------------------------------
-- (4) relative names, zope style: what the leading dots mean

theorem popDots_empties (m : Path) (j : Nat) : popDots m (List.replicate j []) = .error .indexError := by
  induction j generalizing m with
  | zero => rfl
  | succ n ih =>
    simp only [List.replicate_succ, popDots]
    by_cases hm : m = []
    · simp [hm]
    · simp [hm, ih]

theorem popDots_replicate (m : Path) (k : Nat) (n : Seg) (ns : Path) (hn : n ≠ []) :
    popDots m (List.replicate k [] ++ n :: ns) =
      if k ≤ m.length then .ok (m.take (m.length - k) ++ n :: ns) else .error .indexError := by
  induction k generalizing m with
  | zero => simp [popDots, hn]
  | succ j ih =>
    simp only [List.replicate_succ, List.cons_append, popDots]
    by_cases hm : m = []
    · simp [hm]
    · have hl : 0 < m.length := List.length_pos_iff.mpr hm
      simp only [hm, ne_eq, not_true_eq_false, if_false, ih]
      rw [List.length_dropLast, List.dropLast_eq_take, List.take_take]
      by_cases hk : j + 1 ≤ m.length
      · have h1 : j ≤ m.length - 1 := by omega
        have h2 : min (m.length - 1 - j) (m.length - 1) = m.length - (j + 1) := by omega
        simp [hk, h1, h2]
      · have h1 : ¬ j ≤ m.length - 1 := by omega
        simp [hk, h1]

/-- EXACTLY what leading dots do: `k+1` dots followed by a non-empty rest that does not start with a dot name the
package's ancestor `k` levels up (one dot: the package itself) followed by the rest; more dots than the package has levels
(+1) is an IndexError (observation O1), not a ValueError. -/
theorem zopeName_relative (m : Path) (k : Nat) (x : Char) (r : Text) (hx : x ≠ '.') :
    zopeName (some m) (List.replicate (k + 1) '.' ++ x :: r) =
      if k ≤ m.length then .ok (m.take (m.length - k) ++ splitOn '.' (x :: r)) else .error .indexError := by
  obtain ⟨hd, tl, h2⟩ := splitOn_head_ne '.' x r hx
  have h1 : (List.replicate (k + 1) '.' ++ x :: r) ≠ ['.'] := by
    intro e
    have := congrArg List.length e
    simp at this
    omega
  unfold zopeName
  rw [if_neg h1, splitOn_dots, h2]
  simp only [List.replicate_succ, List.cons_append, ne_eq, not_true_eq_false, if_false]
  exact popDots_replicate m k (x :: hd) tl (by simp)

/-- an absolute dotted name: the package path, a dot, the rest -/
theorem zopeName_joined (pkg : Option Path) (q : Path) (hq : WfPath q) (x : Char) (r : Text) :
    zopeName pkg (joinDots q ++ '.' :: x :: r) = .ok (q ++ splitOn '.' (x :: r)) := by
  have h1 : (joinDots q ++ '.' :: x :: r) ≠ ['.'] := by
    intro e
    have := congrArg List.length e
    simp at this
    omega
  unfold zopeName
  rw [if_neg h1, splitOn_append_sep, splitOn_joinDots q hq.1 (fun s hs => (hq.2 s hs).2.1)]
  cases q with
  | nil => exact absurd rfl hq.1
  | cons s t =>
    have : s ≠ [] := (hq.2 s (by simp)).1
    simp [this]

theorem wfPath_take (m : Path) (hm : WfPath m) (j : Nat) (hj : 0 < j) : WfPath (m.take j) := by
  refine ⟨?_, fun s hs => hm.2 s (List.mem_of_mem_take hs)⟩
  intro e
  rcases List.take_eq_nil_iff.mp e with h | h
  · omega
  · exact hm.1 h

/-- THE EQUATION, zope style: `.`*(k+1) + rest against package `m` (k < depth of m) resolves exactly as the absolute name
`'.'.join(m[:len(m)-k]) + '.' + rest` does on any resolver — same object or error, same imports, same calls -/
theorem zope_relative_eq_absolute (U : Univ) (m : Path) (hm : WfPath m) (k : Nat) (hk : k < m.length) (x : Char) (r : Text)
    (hx : x ≠ '.') (pkg' : Option Path) (st : St) :
    zopeStyle U (some m) (List.replicate (k + 1) '.' ++ x :: r) st =
      zopeStyle U pkg' (joinDots (m.take (m.length - k)) ++ '.' :: x :: r) st := by
  unfold zopeStyle
  rw [zopeName_relative m k x r hx, zopeName_joined pkg' _ (wfPath_take m hm _ (by omega)) x r, if_pos (by omega)]

/-- … and with as many extra dots as the package has levels, the rest is resolved as an absolute name -/
theorem zope_relative_to_top (U : Univ) (m : Path) (x : Char) (r : Text) (hx : x ≠ '.') (pkg' : Option Path) (st : St) :
    zopeStyle U (some m) (List.replicate (m.length + 1) '.' ++ x :: r) st = zopeStyle U pkg' (x :: r) st := by
  unfold zopeStyle
  rw [zopeName_relative m m.length x r hx, zopeName_absolute pkg' x r hx]
  simp

/-- the name `.` is the package itself: resolved as the package's own dotted name -/
theorem zope_dot_is_package (U : Univ) (m : Path) (hm : WfPath m) (pkg' : Option Path) (st : St) :
    zopeStyle U (some m) ['.'] st = zopeStyle U pkg' (joinDots m) st := by
  have hsplit := splitOn_joinDots m hm.1 (fun s hs => (hm.2 s hs).2.1)
  have hne : joinDots m ≠ ['.'] := by
    intro e
    rw [e] at hsplit
    have : m = [[], []] := by rw [← hsplit]; decide
    have h0 := (hm.2 [] (by rw [this]; simp)).1
    exact h0 rfl
  cases m with
  | nil => exact absurd rfl hm.1
  | cons s t =>
    have hs : s ≠ [] := (hm.2 s (by simp)).1
    simp only [zopeStyle, zopeName, if_neg hne, hsplit]
    simp [hs]

/-- observation O1: a name of two or more dots only is an IndexError for EVERY package (never the grandparent) … -/
theorem zope_only_dots_indexError (U : Univ) (m : Path) (k : Nat) (st : St) :
    zopeStyle U (some m) (List.replicate (k + 2) '.') st = (.error .indexError, st) := by
  have h1 : List.replicate (k + 2) '.' ≠ ['.'] := by
    intro e
    have := congrArg List.length e
    simp at this
  have h2 : splitOn '.' (List.replicate (k + 2) '.') = [] :: List.replicate (k + 2) [] := by
    have := splitOn_dots (k + 2) []
    simp only [List.append_nil] at this
    rw [this]
    show List.replicate (k + 2) [] ++ [[]] = _
    rw [← List.replicate_succ', List.replicate_succ]
  simp only [zopeStyle, zopeName, if_neg h1, h2]
  simp [popDots_empties]

/-- … and so is the empty name on a resolver with a package (without one it is the relative-name ValueError) -/
theorem zope_empty_indexError (U : Univ) (m : Path) (st : St) :
    zopeStyle U (some m) [] st = (.error .indexError, st) := by
  simp [zopeStyle, zopeName, splitOn, popDots]

example : WfPath exSub ∧ zopeName (some exSub) ".k.w".toList = .ok (exSub ++ ["k".toList, "w".toList]) ∧
    zopeName (some exSub) "..m".toList = .ok ["qa".toList, "m".toList] ∧ zopeName (some exSub) "...qtop".toList = .ok ["qtop".toList] ∧
    zopeName (some exSub) "....x".toList = .error .indexError ∧ zopeName (some exSub) ".".toList = .ok exSub := by decide +kernel

-- ------------------------------------------------------------------------------------------------------------------
-- (4) relative names, pkg_resources style

/-- THE EQUATION, pkg_resources style: a relative name other than `.` / `:` resolves exactly as `package.__name__ + name` -/
theorem pkg_relative_eq_absolute (U : Univ) (m : Path) (v : Text) (st : St) (pkg' : Option Path)
    (hrel : isRelPkg v = true) (hv : v ≠ ['.'] ∧ v ≠ [':'])
    (hm : joinDots m ≠ [] ∧ isRelPkg (joinDots m) = false) :
    pkgStyle U (some m) v st = pkgStyle U pkg' (joinDots m ++ v) st := by
  have h2 : isRelPkg (joinDots m ++ v) = false := by
    cases hj : joinDots m with
    | nil => exact absurd hj hm.1
    | cons c t => have := hm.2; rw [hj] at this; simpa [isRelPkg] using this
  simp [pkgStyle, pkgAbs, hrel, hv.1, hv.2, h2]

/-- the name `:` alone is the package: `import_module(package.__name__)`, nothing else -/
theorem pkg_colon_is_package (U : Univ) (m : Path) (hm : WfPath m) (st : St) :
    pkgStyle U (some m) [':'] st =
      match callImport U m st with
      | (some e, st1) => (.error e, st1)
      | (none, st1) => (.ok (.mod m), st1) := by
  have hc := splitColon_no_colon (joinDots m) (joinDots_no_colon m (fun s hs => (hm.2 s hs).2.2))
  have hs := splitOn_joinDots m hm.1 (fun s hs => (hm.2 s hs).2.1)
  have hab : pkgAbs (some m) [':'] = .ok (joinDots m) := by simp [pkgAbs, isRelPkg]
  simp only [pkgStyle, hab, hc, hs, getattrs]
  cases callImport U m st with
  | mk r s1 => cases r <;> rfl

example : isRelPkg ".k:w".toList = true ∧ joinDots exSub = "qa.sub".toList ∧ isRelPkg (joinDots exSub) = false ∧
    pkgStyle exU (some exSub) ".k:w".toList {} = pkgStyle exU none "qa.sub.k:w".toList {} ∧
    (pkgStyle exU (some exSub) ".k:w".toList {}).1 = .ok (.att 4) := by decide +kernel

-- ------------------------------------------------------------------------------------------------------------------
-- (5) non-strings

/-- `maybe_resolve` (hence `Configurator.maybe_dotted`) is the identity on non-strings: no import, no call -/
theorem maybe_identity (U : Univ) (sel : Sel) (n : Nat) (st : St) :
    runOp U sel .maybe (.other n) st = (.same n, st) := rfl

/-- `resolve` refuses a non-string with ValueError, importing nothing -/
theorem resolve_nonstring (U : Univ) (sel : Sel) (n : Nat) (st : St) :
    runOp U sel .resolve (.other n) st = (.err .valueError, st) := rfl

/-- on strings `resolve` and `maybe_resolve` are the same function -/
theorem maybe_eq_resolve_on_strings (U : Univ) (sel : Sel) (t : Text) (st : St) :
    runOp U sel .maybe (.str t) st = runOp U sel .resolve (.str t) st := rfl

-- ------------------------------------------------------------------------------------------------------------------
-- (6) zope style: getattr first, import exactly when getattr fails

/-- every segment reachable by getattr in the current state ⇒ the object at the end of the getattr chain, and NOTHING is
imported or even asked of the import system (state unchanged) -/
theorem walk_all_attrs (U : Univ) (found : Obj) (used ns : Path) (st : St) (o : Obj)
    (h : getattrs U st.loaded found ns = some o) : walk U found used ns st = (.ok o, st) := by
  induction ns generalizing found used with
  | nil => simp only [getattrs, Option.some.injEq] at h; simp [walk, h]
  | cons n ns ih =>
    simp only [getattrs] at h
    cases hg : getattr U st.loaded found n with
    | none => simp [hg] at h
    | some o' =>
      simp only [hg] at h
      simp only [walk, hg]
      exact ih o' _ h

/-- a segment getattr finds is taken without any import -/
theorem walk_step_attr (U : Univ) (found o : Obj) (used ns : Path) (n : Seg) (st : St)
    (h : getattr U st.loaded found n = some o) : walk U found used (n :: ns) st = walk U o (used ++ [n]) ns st := by
  simp [walk, h]

/-- a segment getattr does not find: `__import__(used + '.' + n)` is called; if that fails, ITS error is the outcome and the
remaining segments are never looked at -/
theorem walk_first_failure (U : Univ) (found : Obj) (used ns : Path) (n : Seg) (st st1 : St) (e : Err)
    (hg : getattr U st.loaded found n = none) (hi : callImport U (used ++ [n]) st = (some e, st1)) :
    walk U found used (n :: ns) st = (.error e, st1) := by
  simp [walk, hg, hi]

/-- … if the import succeeds, getattr is tried once more on the SAME object (no second import); failing again is AttributeError -/
theorem walk_step_import (U : Univ) (found : Obj) (used ns : Path) (n : Seg) (st st1 : St)
    (hg : getattr U st.loaded found n = none) (hi : callImport U (used ++ [n]) st = (none, st1)) :
    walk U found used (n :: ns) st =
      match getattr U st1.loaded found n with
      | some o => walk U o (used ++ [n]) ns st1
      | none => (.error .attributeError, st1) := by
  simp only [walk, hg, hi]
  first | rfl | (split <;> rfl)

theorem callImport_calls (U : Univ) (p : Path) (st : St) : (callImport U p st).2.calls = st.calls ++ [p] := by
  simp [callImport, importPath_calls]

/-- path.py calls `__import__` at most once per segment after the first, and only ever with a prefix of the name -/
theorem walk_calls (U : Univ) (found : Obj) (used ns : Path) (st : St) :
    ∃ extra, (walk U found used ns st).2.calls = st.calls ++ extra ∧ extra.length ≤ ns.length ∧
      ∀ c ∈ extra, ∃ i, i < ns.length ∧ c = used ++ ns.take (i + 1) := by
  induction ns generalizing found used st with
  | nil => exact ⟨[], by simp [walk]⟩
  | cons n ns ih =>
    have lift : ∀ (o : Obj) (s : St) (pre : List Path), s.calls = st.calls ++ pre → pre.length ≤ 1 →
        (∀ c ∈ pre, c = used ++ [n]) →
        ∃ extra, (walk U o (used ++ [n]) ns s).2.calls = st.calls ++ extra ∧ extra.length ≤ (n :: ns).length ∧
          ∀ c ∈ extra, ∃ i, i < (n :: ns).length ∧ c = used ++ (n :: ns).take (i + 1) := by
      intro o s pre hs hl hp
      obtain ⟨ex, h1, h2, h3⟩ := ih o (used ++ [n]) s
      refine ⟨pre ++ ex, by rw [h1, hs, List.append_assoc], by simp; omega, ?_⟩
      intro c hc
      rcases List.mem_append.mp hc with hc | hc
      · exact ⟨0, by simp, by simp [hp c hc]⟩
      · obtain ⟨i, hi, he⟩ := h3 c hc
        exact ⟨i + 1, by simp; omega, by simp [he]⟩
    cases hg : getattr U st.loaded found n with
    | some o =>
      rw [walk_step_attr U found o used ns n st hg]
      exact lift o st [] (by simp) (by simp) (by simp)
    | none =>
      have hc := callImport_calls U (used ++ [n]) st
      cases hi : callImport U (used ++ [n]) st with
      | mk r st1 =>
        rw [hi] at hc
        cases r with
        | some e =>
          rw [walk_first_failure U found used ns n st st1 e hg hi]
          exact ⟨[used ++ [n]], hc, by simp, fun c hc => ⟨0, by simp, by simpa using hc⟩⟩
        | none =>
          rw [walk_step_import U found used ns n st st1 hg hi]
          cases hg2 : getattr U st1.loaded found n with
          | some o => exact lift o st1 [used ++ [n]] hc (by simp) (by simp)
          | none => exact ⟨[used ++ [n]], hc, by simp, fun c hc => ⟨0, by simp, by simpa using hc⟩⟩

/-- the shadowing case, decided: `qa/__init__.py` binds `m`, so `qa.m` is that object and `qa/m.py` is NOT imported … -/
example : (resolveStr exU none "qa.m.z".toList {}).1 = .ok (.att 2) ∧
    (resolveStr exU none "qa.m.z".toList {}).2.loaded = [["qa".toList]] ∧
    (resolveStr exU none "qa.m.z".toList {}).2.calls = [["qa".toList]] := by decide +kernel

/-- … unless the submodule was imported before: then the binding on the package is the module -/
example : (resolveStr exU none "qa.m".toList { loaded := [["qa".toList], ["qa".toList, "m".toList]] }).1 =
    .ok (.mod ["qa".toList, "m".toList]) := by decide +kernel

/-- progressive import: `qa.sub.k.w` imports `qa`, then `qa.sub`, then `qa.sub.k` (each only after getattr failed), and `w`
is found by getattr alone -/
example : (resolveStr exU none "qa.sub.k.w".toList {}).1 = .ok (.att 4) ∧
    (resolveStr exU none "qa.sub.k.w".toList {}).2.calls = [["qa".toList], exSub, exSub ++ ["k".toList]] ∧
    (resolveStr exU none "qa.sub.k.w".toList {}).2.finds = [["qa".toList], exSub, exSub ++ ["k".toList]] := by decide +kernel

/-- the first failing segment decides: `qa.bad.x.y` is the ImportError of `qa.bad`, `qa.sub.k.w.q` an ImportError
(`qa.sub.k` is not a package), `qa.m.z.q` too -/
example : (resolveStr exU none "qa.bad.x.y".toList {}).1 = .error .importError ∧
    (resolveStr exU none "qa.sub.k.w.q".toList {}).1 = .error .importError ∧
    (resolveStr exU none "qa.m.z.q".toList {}).1 = .error .importError := by decide +kernel

-- ------------------------------------------------------------------------------------------------------------------
-- (7) pkg_resources style: one import of the whole module part, getattr only after the colon

theorem importFrom_err (U : Univ) (done rest : Path) (st st1 : St) (e : Err)
    (h : importFrom U done rest st = (some e, st1)) : e = .importError := by
  induction rest generalizing done st with
  | nil => simp [importFrom] at h
  | cons s rest ih =>
    unfold importFrom at h
    split at h
    · exact ih _ _ h
    · split at h
      · simp only [Prod.mk.injEq, Option.some.injEq] at h; exact h.1.symm
      · split at h
        · exact ih _ _ h
        · exact ih _ _ h
        · simp only [Prod.mk.injEq, Option.some.injEq] at h; exact h.1.symm

theorem callImport_err (U : Univ) (p : Path) (st st1 : St) (e : Err) (h : callImport U p st = (some e, st1)) :
    e = .importError ∨ e = .valueError := by
  unfold callImport importPath at h
  split at h
  · simp only [Prod.mk.injEq, Option.some.injEq] at h; exact Or.inr h.1.symm
  · exact Or.inl (importFrom_err U _ _ _ _ _ h)

/-- the interpreter state after a pkg_resources-style resolution is EXACTLY the state after the one
`import_module(module part)`: whatever follows the colon is walked by getattr and imports nothing -/
theorem pkg_imports_once (U : Univ) (pkg : Option Path) (v v' : Text) (st : St) (h : pkgAbs pkg v = .ok v') :
    (pkgStyle U pkg v st).2 = (callImport U (splitOn '.' (splitColon v').1) st).2 := by
  simp only [pkgStyle, h]
  cases hi : callImport U (splitOn '.' (splitColon v').1) st with
  | mk r st1 =>
    cases r with
    | some e => rfl
    | none => simp only; split <;> rfl

theorem pkg_one_call (U : Univ) (pkg : Option Path) (v v' : Text) (st : St) (h : pkgAbs pkg v = .ok v') :
    (pkgStyle U pkg v st).2.calls = st.calls ++ [splitOn '.' (splitColon v').1] := by
  rw [pkg_imports_once U pkg v v' st h, callImport_calls]

/-- a missing attribute after the colon is reported as ImportError: AttributeError never leaves `_pkg_resources_style` -/
theorem pkg_never_attributeError (U : Univ) (pkg : Option Path) (v : Text) (st : St) :
    (pkgStyle U pkg v st).1 ≠ .error .attributeError := by
  unfold pkgStyle
  split
  · rename_i e he
    intro h
    simp only [Except.error.injEq] at h
    subst h
    unfold pkgAbs at he
    split at he
    · split at he
      · simp at he
      · split at he <;> simp at he
    · simp at he
  · rename_i v' _
    cases hi : callImport U (splitOn '.' (splitColon v').1) st with
    | mk r st1 =>
      cases r with
      | some e =>
        rcases callImport_err U _ _ _ _ hi with h | h <;> simp [h]
      | none => simp only; split <;> simp

/-- the colon decides where modules end: `qa.sub:k.w` does NOT import `qa.sub.k` (ImportError: module 'qa.sub' has no
attribute 'k'), `qa.sub.k:w` does; and an attribute that shadows a submodule is what `qa:m.z` walks -/
example : (resolveStr exU none "qa.sub:k.w".toList {}).1 = .error .importError ∧
    (resolveStr exU none "qa.sub:k.w".toList {}).2.loaded = [["qa".toList], exSub] ∧
    (resolveStr exU none "qa.sub.k:w".toList {}).1 = .ok (.att 4) ∧
    (resolveStr exU none "qa:m.z".toList {}).1 = .ok (.att 2) ∧
    (resolveStr exU none "qa:m.z".toList {}).2.calls = [["qa".toList]] := by decide +kernel

-- ------------------------------------------------------------------------------------------------------------------
-- (8) idempotence

/-- pkg_resources style: resolving again in the state the first resolution left gives the same object; no module is
loaded, none is even looked for -/
theorem pkg_idempotent (U : Univ) (pkg : Option Path) (v : Text) (st st1 : St) (o : Obj)
    (h : pkgStyle U pkg v st = (.ok o, st1)) :
    (pkgStyle U pkg v st1).1 = .ok o ∧ (pkgStyle U pkg v st1).2.loaded = st1.loaded ∧
      (pkgStyle U pkg v st1).2.finds = st1.finds := by
  unfold pkgStyle at h
  split at h
  · simp at h
  · rename_i v' ha
    split at h
    · simp at h
    · rename_i sA hi
      split at h
      · rename_i o' hg
        simp only [Prod.mk.injEq, Except.ok.injEq] at h
        obtain ⟨ho, hs⟩ := h
        subst ho hs
        unfold callImport at hi
        have hidem := importPath_idem U (splitOn '.' (splitColon v').1) _ sA hi
          { sA with calls := sA.calls ++ [splitOn '.' (splitColon v').1] } (fun x hx => hx)
        simp [pkgStyle, ha, callImport, hidem, hg]
      · simp at h

/-- zope style, full strength: a successful resolution repeated in the state it left gives the same object; nothing is loaded,
the import system is not even asked (`finds` unchanged); path.py makes exactly one call, the `__import__` of the first segment —
every further segment is found by getattr -/
theorem zope_idempotent (U : Univ) (pkg : Option Path) (v : Text) (st st1 : St) (o : Obj)
    (h : zopeStyle U pkg v st = (.ok o, st1)) :
    (zopeStyle U pkg v st1).1 = .ok o ∧ (zopeStyle U pkg v st1).2.loaded = st1.loaded ∧
      (zopeStyle U pkg v st1).2.finds = st1.finds ∧ (zopeStyle U pkg v st1).2.calls.length = st1.calls.length + 1 := by
  unfold zopeStyle at h
  split at h
  · simp at h
  · simp at h
  · rename_i u ns hz
    split at h
    · simp at h
    · rename_i sA hi
      unfold callImport at hi
      have hmono : ∀ x, x ∈ sA.loaded → x ∈ st1.loaded := by
        intro x hx
        have := walk_loaded_mono U (.mod [u]) [u] ns sA x hx
        rw [h] at this; exact this
      have hidem := importPath_idem U [u] _ sA hi { st1 with calls := st1.calls ++ [[u]] } hmono
      have hw := walk_idem U (.mod [u]) [u] ns sA st1 o h { st1 with calls := st1.calls ++ [[u]] } rfl
      simp [zopeStyle, hz, callImport, hidem, hw]

/-- (8) for `resolve` itself, whichever style the name selects -/
theorem resolve_idempotent (U : Univ) (pkg : Option Path) (v : Text) (st st1 : St) (o : Obj)
    (h : resolveStr U pkg v st = (.ok o, st1)) :
    (resolveStr U pkg v st1).1 = .ok o ∧ (resolveStr U pkg v st1).2.loaded = st1.loaded ∧
      (resolveStr U pkg v st1).2.finds = st1.finds := by
  unfold resolveStr at h ⊢
  split
  · rename_i hc
    rw [if_pos hc] at h
    exact pkg_idempotent U pkg v st st1 o h
  · rename_i hc
    rw [if_neg hc] at h
    have := zope_idempotent U pkg v st st1 o h
    exact ⟨this.1, this.2.1, this.2.2.1⟩

/-- (6) a successful zope-style resolution returns the object reached by getattr along the segments of the absolute name, read
in the interpreter state the resolution leaves; the first segment is an imported top-level module -/
theorem zope_result_is_getattr_chain (U : Univ) (pkg : Option Path) (v : Text) (st st1 : St) (o : Obj)
    (h : zopeStyle U pkg v st = (.ok o, st1)) :
    ∃ u ns, zopeName pkg v = .ok (u :: ns) ∧ [u] ∈ st1.loaded ∧ getattrs U st1.loaded (.mod [u]) ns = some o := by
  unfold zopeStyle at h
  split at h
  · simp at h
  · simp at h
  · rename_i u ns hz
    split at h
    · simp at h
    · rename_i sA hi
      unfold callImport at hi
      refine ⟨u, ns, hz, ?_, walk_ok_getattrs U _ _ _ sA st1 o h st1 rfl⟩
      have := walk_loaded_mono U (.mod [u]) [u] ns sA [u] (importPath_single_loaded U u _ sA hi)
      rw [h] at this; exact this

/-- a successful import, repeated, finds everything in `sys.modules` -/
theorem import_idempotent (U : Univ) (p : Path) (st st1 : St) (h : importPath U p st = (none, st1)) :
    importPath U p st1 = (none, st1) := importPath_idem U p st st1 h st1 (fun _ hx => hx)

example : (resolveStr exU none "qa.sub.k.w".toList (resolveStr exU none "qa.sub.k.w".toList {}).2).1 = .ok (.att 4) ∧
    (resolveStr exU none "qa.sub.k.w".toList (resolveStr exU none "qa.sub.k.w".toList {}).2).2.finds =
      (resolveStr exU none "qa.sub.k.w".toList {}).2.finds := by decide +kernel

-- ------------------------------------------------------------------------------------------------------------------
-- (9) the package argument

theorem packageOf_package (U : Univ) (p : Path) (h : U.kind p = some .pkg) : packageOf U p = p := by simp [packageOf, h]

theorem packageOf_module (U : Univ) (p : Path) (h : U.kind p ≠ some .pkg) (hl : 2 ≤ p.length) : packageOf U p = p.dropLast := by
  have : ¬ p.length ≤ 1 := by omega
  simp [packageOf, h, this]

theorem packageOf_top (U : Univ) (s : Seg) : packageOf U [s] = [s] := by simp [packageOf]

/-- CALLER_PACKAGE: relative names are resolved against the package of the module whose code called the method -/
theorem caller_package_resolution (U : Univ) (caller : Path) (m : Meth) (a : Arg) (st : St) :
    runOp U (.caller caller) m a st = runOp U (.pkg (packageOf U caller)) m a st := by
  cases m <;> cases a <;> rfl

/-- a package argument given as a dotted string: imported (failure ⇒ ValueError), replaced by its package -/
theorem init_name (U : Univ) (p : Path) (st : St) :
    (∀ e st1, callImport U p st = (some e, st1) → initResolver U (.name p) st = (.error .valueError, st1)) ∧
    (∀ sel st2, initResolver U (.name p) st = (.ok sel, st2) → sel = .pkg (packageOf U p)) := by
  constructor
  · intro e st1 h; simp [initResolver, h]
  · intro sel st2 h
    simp only [initResolver] at h
    cases hi : callImport U p st with
    | mk r s1 =>
      rw [hi] at h
      cases r with
      | some e => simp at h
      | none =>
        simp only [packageOfCall] at h
        split at h <;> simp_all

example : packageOf exU exSub = exSub ∧ packageOf exU (exSub ++ ["k".toList]) = exSub ∧ packageOf exU ["qtop".toList] = ["qtop".toList] ∧
    (initResolver exU (.name ["qa".toList, "bad".toList]) {}).1 = .error .valueError ∧
    (initResolver exU (.name (exSub ++ ["k".toList])) {}).1 = .ok (.pkg exSub) := by decide +kernel

-- ------------------------------------------------------------------------------------------------------------------
-- generated obligations: the probe table of the tree under test

open Gen in
/-- the probe ran on the tree under test and answered in full -/
theorem gen_probe_trusted : probeStatus = "ok".toList ∧ probeRows.length ≥ 700 := by decide +kernel

open Gen in
/-- every probed (pre-imports, constructor argument, name): constructor outcome + imports, outcome of `resolve`, path.py's
import calls, the import system's lookups and `sys.modules` afterwards are exactly what the model computes -/
theorem gen_probe_cube : probeRows.all (probeRun probeUniv) = true := by decide +kernel

end Pyr.Dotted
