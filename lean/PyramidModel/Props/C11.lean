import PyramidModel.Lemmas.Acl
/-!
# C11 — ACL authorization follows first-match-wins over the lineage with default deny

Property theorems only (helper lemmas: `Lemmas/Acl.lean`; model: `Acl.lean`).
All statements quantify over lineages and ACLs of any length, any principal list, any permission.
-/
namespace Pyr.Acl

/-- The decision is that of the first entry — scanning the context's ACL in order, then each
ancestor's — whose principal is among the given principals and whose permission set contains the
permission: `Allow` grants, anything else refuses; no such entry refuses. -/
theorem permits_first_match (pr : List Nat) (perm : Nat) (l : Lineage) :
    permits pr perm l =
      match firstHit pr perm l with
      | some a => a.action == .allow
      | none => false := by
  have h := decideAt_find pr perm l 0
  simp only [permits]
  cases hd : decideAt pr perm l 0 with
  | none => rw [hd] at h; simp at h; simp [← h]
  | some t => rw [hd] at h; simp at h; simp [← h]

/-- `Allow` grants. -/
theorem allow_grants (pr : List Nat) (perm : Nat) (l : Lineage) (a : Ace)
    (h : firstHit pr perm l = some a) (ha : a.action = .allow) : permits pr perm l = true := by
  rw [permits_first_match, h]; simp [ha]

/-- `Deny` (indeed every non-`Allow` action) refuses. -/
theorem non_allow_refuses (pr : List Nat) (perm : Nat) (l : Lineage) (a : Ace)
    (h : firstHit pr perm l = some a) (ha : a.action ≠ .allow) : permits pr perm l = false := by
  rw [permits_first_match, h]; simpa using ha

/-- If no entry matches — in particular if no ACL exists anywhere — access is refused. -/
theorem default_deny (pr : List Nat) (perm : Nat) (l : Lineage)
    (h : ∀ a ∈ flat l, a.hits pr perm = false) : permits pr perm l = false := by
  rw [permits_first_match]
  have : firstHit pr perm l = none := by
    simp only [firstHit, List.find?_eq_none]
    intro a ha; simp [h a ha]
  rw [this]

theorem no_acl_deny (pr : List Nat) (perm : Nat) (n : Nat) :
    permits pr perm (List.replicate n none) = false := by
  apply default_deny
  have : flat (List.replicate n none) = [] := by
    induction n with
    | zero => rfl
    | succ n ih => simpa [List.replicate_succ, flat] using ih
  simp [this]

/-- The all-permissions marker contains everything. -/
theorem all_permissions_contains_everything (perm : Nat) : Perms.all.has perm = true := rfl

/-- The deciding entry reported (`.ace`, and the location whose ACL holds it) really is entry `i`
of the ACL of lineage element `k`, and it is a hit. -/
theorem deciding_entry_position (pr : List Nat) (perm : Nat) (l : Lineage) (k0 k i : Nat) (a : Ace)
    (h : decideAt pr perm l k0 = some (k, i, a)) :
    k0 ≤ k ∧ ∃ acl, l[k - k0]? = some (some acl) ∧ acl[i]? = some a ∧ a.hits pr perm = true := by
  induction l generalizing k0 with
  | nil => simp [decideAt] at h
  | cons node up ih =>
    cases node with
    | none =>
      simp only [decideAt] at h
      obtain ⟨h1, acl, h2, h3⟩ := ih (k0 + 1) h
      refine ⟨by omega, acl, ?_, h3⟩
      have : k - k0 = (k - (k0 + 1)) + 1 := by omega
      rw [this]; simpa using h2
    | some acl =>
      simp only [decideAt] at h
      cases hs : scanAclAt pr perm acl 0 with
      | some p =>
        obtain ⟨j, b⟩ := p
        rw [hs] at h
        simp only [Option.some.injEq, Prod.mk.injEq] at h
        obtain ⟨rfl, rfl, rfl⟩ := h
        have := scanAclAt_idx pr perm acl 0 j b hs
        exact ⟨Nat.le_refl _, acl, by simp, by simpa using this.2.1, this.2.2.1⟩
      | none =>
        rw [hs] at h
        obtain ⟨h1, acl', h2, h3⟩ := ih (k0 + 1) h
        refine ⟨by omega, acl', ?_, h3⟩
        have : k - k0 = (k - (k0 + 1)) + 1 := by omega
        rw [this]; simpa using h2

/-- The principals reported as allowed for a permission are consistent with `permits`: each
reported principal, presented together with Everyone, is granted the permission.
Domain: every ACE action is `Allow` or `Deny` (`LineageWF`). -/
theorem allowed_sound (perm : Nat) (l : Lineage) (wf : LineageWF l) (p : Nat)
    (hp : p ∈ principalsAllowed perm l) : permits [p, everyone] perm l = true := by
  have := allowedFrom_sound perm l.reverse [] []
    (by intro acl ha; exact wf acl (by simpa using ha)) (by simp) p hp
  simpa using this

/-- The hypothesis of `allowed_sound` is needed: an ACE whose action is neither `Allow` nor `Deny`
is skipped by `principals_allowed_by_permission` but refuses in `permits`.  (Outside the property's
domain — ACLs over {Allow, Deny}; the harness replays this point on the real code and records it
in the evidence as the excluded point.) -/
theorem allowed_sound_needs_wf :
    let l : Lineage := [some [⟨.other, 1, .one 7⟩, ⟨.allow, 1, .one 7⟩]]
    1 ∈ principalsAllowed 7 l ∧ permits [1, everyone] 7 l = false := by decide

/-! Non-vacuity: the four-node fixture in the style of the test-suite satisfies the hypotheses. -/
example :
    let l : Lineage := [some [⟨.deny, 2, .one 7⟩, ⟨.allow, 1, .many [7, 8]⟩], none,
                        some [⟨.allow, 2, .all⟩, ⟨.deny, everyone, .all⟩]]
    LineageWF l ∧ principalsAllowed 7 l = [1] ∧ permits [1, everyone] 7 l = true ∧
      permits [2, everyone] 7 l = false ∧ firstHit [2] 8 l = some ⟨.allow, 2, .all⟩ := by
  refine ⟨(lineageWF_iff _).mp (by decide), by decide, by decide, by decide, by decide⟩

end Pyr.Acl
