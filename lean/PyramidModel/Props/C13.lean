/-
C13 — Request handling restores thread-local state and runs callbacks on every path.

(a) Skeletons (`Pyr.Skel`, `Gen/C13Skeleton.lean` regenerated from the source on every run):
    `balanced_sound` / `opens_sound` / `closes_sound` hold for EVERY statement term, oracle and entry
    configuration; the generated entry points are then decided as whole tables.
(b) Pipeline (`Pyr.Pipeline`): for EVERY fault schedule, request tree and entry stack.

Property theorems only; helper lemmas are in `Lemmas/Skeleton.lean`, `Lemmas/Pipeline.lean`.
-/
import PyramidModel.Lemmas.Skeleton
import PyramidModel.Lemmas.SkeletonMonitor
import PyramidModel.Lemmas.Pipeline
import PyramidModel.Lemmas.PipelineMonitor
import PyramidModel.Gen.C13Skeleton

namespace Pyr.Props.C13

/-! ## (a) control-flow skeletons -/
section Skeleton
open Pyr.Skel Pyr.Gen.C13

/-- If the analysis calls a statement balanced then, whatever the oracle decides (which call sites raise, which
branches are taken, how often loops run — except that quiet sites do not raise) and from whatever depth, the
thread-local stack is back at the entry depth when the statement ends, however it ends. -/
theorem balanced_sound (q : Nat → Bool) (s : Stmt) (h : balanced q s = true) :
    ∀ (o : Oracle), o.respects q → ∀ c : Cfg, (exec o s c).1.depth = c.depth := by
  intro o ho c
  simp only [balanced] at h
  split at h
  · simp at h
  · next σ hσ =>
    simp only [Bool.and_eq_true] at h
    obtain ⟨k, hk, hd⟩ := analyze_sound ho s 0 σ hσ c.depth c.trace
    have hc : (⟨c.depth + 0, c.trace⟩ : Cfg) = c := by cases c; rfl
    rw [hc] at hk hd
    rw [hd]
    cases hoc : (exec o s c).2 with
    | normal => rw [hoc] at hk; have := optIs_get h.1.1 hk; omega
    | returned => rw [hoc] at hk; have := optIs_get h.1.2 hk; omega
    | raised => rw [hoc] at hk; have := optIs_get h.2 hk; omega

/-- An opener (`begin`, `__enter__`, `prepare`, `get_root`): one frame more when it succeeds, none when it fails. -/
theorem opens_sound (q : Nat → Bool) (s : Stmt) (h : opens q s = true) :
    ∀ (o : Oracle), o.respects q → ∀ c : Cfg,
      (exec o s c).1.depth = (if (exec o s c).2 = .raised then c.depth else c.depth + 1) := by
  intro o ho c
  simp only [opens] at h
  split at h
  · simp at h
  · next σ hσ =>
    simp only [Bool.and_eq_true] at h
    obtain ⟨k, hk, hd⟩ := analyze_sound ho s 0 σ hσ c.depth c.trace
    have hc : (⟨c.depth + 0, c.trace⟩ : Cfg) = c := by cases c; rfl
    rw [hc] at hk hd
    rw [hd]
    cases hoc : (exec o s c).2 with
    | normal => rw [hoc] at hk; have := optIs_get h.1.1 hk; simp; omega
    | returned => rw [hoc] at hk; have := optIs_get h.1.2 hk; simp; omega
    | raised => rw [hoc] at hk; have := optIs_get h.2 hk; simp; omega

/-- A closer (`end`, `__exit__`, the closer of `get_root`): run one frame above the caller's depth, it ends at the
caller's depth however it ends. -/
theorem closes_sound (q : Nat → Bool) (s : Stmt) (h : closes q s = true) :
    ∀ (o : Oracle), o.respects q → ∀ (d : Nat) (tr : List Visit), (exec o s ⟨d + 1, tr⟩).1.depth = d := by
  intro o ho d tr
  simp only [closes] at h
  split at h
  · simp at h
  · next σ hσ =>
    simp only [Bool.and_eq_true] at h
    obtain ⟨k, hk, hd⟩ := analyze_sound ho s 1 σ hσ d tr
    rw [hd]
    cases hoc : (exec o s ⟨d + 1, tr⟩).2 with
    | normal => rw [hoc] at hk; have := optIs_get h.1.1 hk; omega
    | returned => rw [hoc] at hk; have := optIs_get h.1.2 hk; omega
    | raised => rw [hoc] at hk; have := optIs_get h.2 hk; omega

/-! The generated obligations below are stated for the skeletons the translator RECOGNISED completely
(`Stmt.hasUnknown = false`).  A skeleton with an `unknown` in it (a source shape the translator does not follow) makes
its obligation vacuous instead of false: that entry point is then judged by the behavioural obligation alone (the
fault-injection cube of the harness: real runs against the pipeline model and the oracle, which must agree on every
case); the harness reports which entry points that is.  A skeleton that is recognised and NOT balanced fails as before. -/

/-- Every function of the package that touches the manager's stack (whole-package scan) is one whose skeleton is
translated and decided below — a listed function, or a module-level `@contextmanager` helper that a listed function
enters (such helpers are themselves entry points: balanced around any balanced body) — or one of
`pyramid.testing.setUp/tearDown`, which reset the stack on purpose.  (Stated when the translator followed every
construct it met: an owner reached only through a construct it does not follow cannot be told from an unmodelled one;
then the behavioural cube decides.) -/
theorem push_pop_owners_covered : unknowns = [] → ∀ f ∈ pushPopOwners,
    f ∈ modelledOwners ++ ["testing.py:setUp", "testing.py:tearDown"] := by decide

/-- Generated obligation: every entry point of the current source (Router.__call__, default_execution_policy,
invoke_request, invoke_subrequest, handle_request, finish_request, request_context, the callback loops,
excview_tween, _error_handler, invoke_exception_view, hide_attrs, Configurator.commit / action / include /
make_wsgi_app / `with Configurator()` / route_prefix_context / begin…end, RequestContext, get_root…closer) is
balanced. -/
theorem entry_points_balanced : ∀ f ∈ entryPoints, f.2.hasUnknown = false → balanced (quietList noRaise) f.2 = true := by
  decide

theorem openers_open : ∀ f ∈ openers, f.2.hasUnknown = false → opens (quietList noRaise) f.2 = true := by decide

theorem closers_close : ∀ f ∈ closers, f.2.hasUnknown = false → closes (quietList noRaise) f.2 = true := by decide

/-- The semantic reading of the three tables: for every oracle (that does not raise inside the listed total
constructors) and every entry configuration. -/
theorem entry_points_restore_depth : ∀ f ∈ entryPoints, f.2.hasUnknown = false →
    ∀ (o : Oracle), o.respects (quietList noRaise) → ∀ c : Cfg, (exec o f.2 c).1.depth = c.depth :=
  fun f hf hu => balanced_sound _ f.2 (entry_points_balanced f hf hu)

theorem openers_push_once_or_not_at_all : ∀ f ∈ openers, f.2.hasUnknown = false →
    ∀ (o : Oracle), o.respects (quietList noRaise) →
    ∀ c : Cfg, (exec o f.2 c).1.depth = (if (exec o f.2 c).2 = .raised then c.depth else c.depth + 1) :=
  fun f hf hu => opens_sound _ f.2 (openers_open f hf hu)

theorem closers_pop_on_every_path : ∀ f ∈ closers, f.2.hasUnknown = false →
    ∀ (o : Oracle), o.respects (quietList noRaise) →
    ∀ (d : Nat) (tr : List Visit), (exec o f.2 ⟨d + 1, tr⟩).1.depth = d :=
  fun f hf hu => closes_sound _ f.2 (closers_close f hf hu)

/-- The scripting environment of `prepare` (`with prepare() as env: …`, `prepare()` … `closer()`) is balanced for
every oracle — in particular when a finished callback run by the closer raises (F-C13b, repaired by 87e9fa7: the
closer now ends the request context in a `finally`). -/
theorem scripting_env_checked : ∀ f ∈ scriptingEnv, f.2.hasUnknown = false → balanced (quietList noRaise) f.2 = true := by
  decide

theorem scripting_env_balanced : ∀ f ∈ scriptingEnv, f.2.hasUnknown = false → ∀ (o : Oracle),
    o.respects (quietList noRaise) → ∀ c : Cfg, (exec o f.2 c).1.depth = c.depth :=
  fun f hf hu => balanced_sound _ f.2 (scripting_env_checked f hf hu)

/-- the schedule of F-C13b: everything in `prepare` succeeds, the closer finds one finished callback, it raises -/
def closerLeakOracle : Oracle :=
  { raises := fun s k => s == siteFinCallback && k == 0,
    takes := fun s _ => s == siteCloserIf,
    iters := fun s _ => if s == siteFinWhile then 1 else 0 }

/-- the closer as it was before 87e9fa7: finished callbacks, then `ctx.end()`, no `finally` -/
def oldPrepareCloser : Stmt :=
  .seq (.ite siteCloserIf (.scope process_finished_callbacks) .skip) (.scope RequestContext_end)

/-- Regression fact (F-C13b; stated when the translator recognised the closer and found its three sites): on its schedule the current `prepare` … `closer` raises and is back at the entry depth,
while the same scope with the OLD closer ended one frame up, and the analysis rejects the old closer. -/
theorem scripting_closer_pops_when_a_finished_callback_raises :
    (closerSitesKnown && !prepare_then_closer.hasUnknown && !oldPrepareCloser.hasUnknown) = true →
    (exec closerLeakOracle prepare_then_closer ⟨0, []⟩).1.depth = 0 ∧
    (exec closerLeakOracle prepare_then_closer ⟨0, []⟩).2 = .raised ∧
    (exec closerLeakOracle (.seq (.scope prepare) (.tryFinally .skip (.scope oldPrepareCloser))) ⟨0, []⟩).1.depth = 1 ∧
    closes (quietList noRaise) oldPrepareCloser = false ∧
    (∀ s ∈ noRaise, ∀ k < 4, closerLeakOracle.raises s k = false) := by decide

/-- non-vacuity: an oracle respecting the quiet list exists and does raise elsewhere; balanced statements with a
push exist; an unbalanced one is rejected and really leaks -/
example : (closerLeakOracle.respects (quietList noRaise)) := by
  intro s k hs
  have hne : quietList noRaise siteFinCallback = false := by decide
  simp only [closerLeakOracle]
  by_cases h : s = siteFinCallback
  · subst h; rw [hne] at hs; cases hs
  · simp [h]
example : balanced noQuiet (.seq .push (.tryFinally (.call 0) .pop)) = true := by decide
example : balanced noQuiet (.seq .push (.seq (.call 0) .pop)) = false := by decide
example : (exec ⟨fun _ _ => true, fun _ _ => false, fun _ _ => 0⟩ (.seq .push (.seq (.call 0) .pop)) ⟨3, []⟩).1.depth = 4 := by
  decide

/-- Generated obligation (PROBED, not pattern-matched: `extract/c13.py` runs the two functions of the tree under test):
`_process_response_callbacks` and `_process_finished_callbacks` drain their deque until it is EMPTY, FIFO — a
callback registered by a callback of the same pass runs in that pass, after everything registered before it (a, d, e,
then b registered by a, then c registered by b), the other deque is left alone, nothing is left; a failing callback
stops the pass and leaves the rest (e, and b registered by a) in the deque.  A loop bounded by the initial length of
the deque (`for _ in range(len(callbacks))`) gives ["a","d","e"] with 1 left and fails this. -/
theorem callback_loops_drain_the_deque : drainProbe =
    [("response", ["a", "d", "e", "b", "c"], 0, false),
     ("response with a failing callback", ["a", "d"], 2, true),
     ("finished", ["a", "d", "e", "b", "c"], 0, false),
     ("finished with a failing callback", ["a", "d"], 2, true)] := by decide

/-! ### the request path of the generated skeletons against the callback-order and stage-order monitors -/

/-- General: when `post` accepts a statement from the initial monitor state, then for EVERY oracle the monitor
accepts the whole observation sequence of the execution (`run … = some q`), and the final (monitor state, height,
outcome) is one of those `post` listed. -/
theorem monitor_sound (m : Monitor) (qt : Nat → Bool) (s : Stmt) (q0 : Nat) (R : List ARes)
    (h : post m qt s (q0, 0) = some R) (o : Oracle) (ho : o.respects qt) (d : Nat) :
    ∃ q h', m.run d q0 (exec o s ⟨d, []⟩).1.trace = some q ∧ (exec o s ⟨d, []⟩).1.depth = d + h' ∧
      ((q, h'), (exec o s ⟨d, []⟩).2) ∈ R := by
  obtain ⟨a', hd, hm⟩ := post_sound (m := m) ho s (q0, 0) R h d q0 ⟨d, []⟩ ⟨rfl, rfl⟩
  exact ⟨a'.1, a'.2, hd.2, hd.1, hm⟩

/-- the request path is recognised: the generated observation map (call site ↦ role) is a function, names each of the
12 roles exactly once, its sites occur in `Router.__call__` (roles 0–3, 11) / `Router.handle_request` (roles 4–10), and
none of the four skeletons contains a construct the translator does not follow -/
def requestPathRecognised : Bool :=
  rolesWellFormed siteRoles Router_call Router_handle_request && !Router_call.hasUnknown &&
  !Router_invoke_subrequest.hasUnknown && !Router_invoke_request.hasUnknown && !Router_handle_request.hasUnknown

/-- Generated obligations (for a recognised request path; otherwise vacuous and the behavioural cube decides): `post`
accepts the three request-path entry points against the callback-order monitor (events at height 1 inside the
RequestContext of `Router.__call__` / `invoke_subrequest`, height 0 for `invoke_request` itself) and `handle_request`
against the stage-order monitor. -/
theorem request_path_checked : requestPathRecognised = true →
    checkCb siteRoles (quietList noRaise) 1 Router_call = true ∧
    checkCb siteRoles (quietList noRaise) 1 Router_invoke_subrequest = true ∧
    checkCb siteRoles (quietList noRaise) 0 Router_invoke_request = true ∧
    checkStages siteRoles (quietList noRaise) Router_handle_request = true := by decide +kernel

theorem checkCb_sound (table : List (Nat × Nat)) (qt : Nat → Bool) (H : Nat) (s : Stmt)
    (h : checkCb table qt H s = true) (o : Oracle) (ho : o.respects qt) (d : Nat) :
    ∃ q, (cbOrder table H).run d 0 (exec o s ⟨d, []⟩).1.trace = some q ∧ (exec o s ⟨d, []⟩).1.depth = d ∧
      (10 ≤ q ∨ q = 0) ∧ ((exec o s ⟨d, []⟩).2 ≠ .raised → q ∈ [11, 12, 13]) ∧ (q ∈ [14, 15, 16] → (exec o s ⟨d, []⟩).2 = .raised) := by
  simp only [checkCb] at h
  split at h
  · next R hR =>
    obtain ⟨q, h', hrun, hdep, hmem⟩ := monitor_sound _ qt s 0 R hR o ho d
    have := (List.all_eq_true.mp h) _ hmem
    simp only [Bool.and_eq_true, beq_iff_eq, Bool.or_eq_true, Bool.not_eq_true', decide_eq_true_eq] at this
    obtain ⟨⟨⟨h0, h10⟩, h1⟩, h2⟩ := this
    refine ⟨q, hrun, by omega, h10, ?_, ?_⟩
    · intro hne
      rcases h1 with h1 | h1
      · exact absurd h1 hne
      · exact List.contains_iff_mem.mp h1
    · intro hq
      rcases h2 with h2 | h2
      · have := List.contains_iff_mem.mpr hq
        rw [h2] at this; cases this
      · exact h2
  · simp at h

/-- **Callback order follows the source.**  For every oracle (which call sites raise, which branches are taken, how
many callbacks the deques hold) and every entry depth, the execution of the generated `Router.__call__`,
`Router.invoke_subrequest` and `Router.invoke_request` skeletons is accepted by the callback-order monitor: the chain
is called at most once and first; response callbacks run only after it returned, NewResponse only after them and
only if none of them raised; once a finished callback has run nothing but finished callbacks follows, and nothing
follows a failing one; every such event happens exactly one frame above the caller (`H = 1`; inside the request's
own RequestContext), the depth is restored, EVERY execution that entered the pipeline reaches `finish_request` (state
≥ 10: also when the chain or a callback raised; state 0 = it failed before, with no event at all), one that does not raise has seen the chain respond, and one in which an observed event raised
raises. -/
theorem request_path_obeys_callback_order (hrec : requestPathRecognised = true) (o : Oracle)
    (ho : o.respects (quietList noRaise)) (d : Nat) :
    ∀ e ∈ [(Router_call, 1), (Router_invoke_subrequest, 1), (Router_invoke_request, 0)],
    ∃ q, (cbOrder siteRoles e.2).run d 0 (exec o e.1 ⟨d, []⟩).1.trace = some q ∧ (exec o e.1 ⟨d, []⟩).1.depth = d ∧
      (10 ≤ q ∨ q = 0) ∧ ((exec o e.1 ⟨d, []⟩).2 ≠ .raised → q ∈ [11, 12, 13]) ∧ (q ∈ [14, 15, 16] → (exec o e.1 ⟨d, []⟩).2 = .raised) := by
  intro e he
  simp only [List.mem_cons, List.mem_nil_iff, or_false] at he
  rcases he with he | he | he <;> subst he
  · exact checkCb_sound _ _ _ _ (request_path_checked hrec).1 o ho d
  · exact checkCb_sound _ _ _ _ (request_path_checked hrec).2.1 o ho d
  · exact checkCb_sound _ _ _ _ (request_path_checked hrec).2.2.1 o ho d

/-- **Stage order follows the source.**  For every oracle, `Router.handle_request` notifies NewRequest, calls the
routes mapper, notifies BeforeTraversal, calls the root (or route) factory, the traverser, notifies ContextFound and
calls the view, in that order, each at most once, all at the caller's height, and nothing of it after one failed. -/
theorem handle_request_obeys_stage_order (hrec : requestPathRecognised = true) (o : Oracle)
    (ho : o.respects (quietList noRaise)) (d : Nat) :
    ∃ q, (stageOrder siteRoles).run d 3 (exec o Router_handle_request ⟨d, []⟩).1.trace = some q := by
  have h := (request_path_checked hrec).2.2.2
  simp only [checkStages] at h
  cases hp : post (stageOrder siteRoles) (quietList noRaise) Router_handle_request (3, 0) with
  | none => rw [hp] at h; cases h
  | some R =>
    obtain ⟨q, _, hrun, _, _⟩ := monitor_sound _ _ _ 3 R hp o ho d
    exact ⟨q, hrun⟩

/-- non-vacuity of the monitors: they reject what the property forbids -/
example : checkCb [(0, 0), (1, 1), (2, 2), (3, 3), (7, 11)] noQuiet 0
    (.tryFinally (.seq (.call 0) (.seq (.loop 9 (.call 1)) (.call 2))) (.ite 7 (.loop 8 (.call 3)) .skip)) = true := by decide
example : checkCb [(0, 0), (1, 1), (2, 2), (3, 3), (7, 11)] noQuiet 0        -- NewResponse before the response callbacks
    (.tryFinally (.seq (.call 0) (.seq (.call 2) (.loop 9 (.call 1)))) (.ite 7 (.loop 8 (.call 3)) .skip)) = false := by decide
example : checkCb [(0, 0), (1, 1), (2, 2), (3, 3), (7, 11)] noQuiet 0        -- finish_request not in a finally
    (.seq (.call 0) (.seq (.loop 9 (.call 1)) (.seq (.call 2) (.ite 7 (.loop 8 (.call 3)) .skip)))) = false := by decide

end Skeleton

/-! ## (b) the request pipeline, for every fault schedule -/
section Pipeline
open Pyr.Pipeline

/-- the own log of request `r` run with `self` as identity on top of `stack0` (`top` = the WSGI call) -/
abbrev ownLog (xv top : Bool) (r : Req) (self : Path) (stack0 : List Path) : List Ev :=
  (runReq xv top r self stack0).1.own

/-- The WSGI call and every subrequest, at any nesting depth, with any schedule of failures in itself and in the
requests below it, gives the thread-local stack back exactly as it found it (same frames, hence same depth). -/
theorem subrequest_balanced (xv top : Bool) (r : Req) (self : Path) (stack0 : List Path) :
    (runReq xv top r self stack0).2.2 = stack0 :=
  (runReq_props xv top r self stack0).1

theorem wsgi_call_balanced (xv : Bool) (r : Req) (stack0 : List Path) :
    (runTop xv r stack0).2.2 = stack0 :=
  subrequest_balanced xv true r [] stack0

/-- **Custom execution policies** (`config.set_execution_policy`): under the retrying policy (a fresh request per
attempt, each run as `with router.request_context(environ) as request: router.invoke_request(request)`) the stack is
given back unchanged whatever the attempts do — and every attempt is a `runReq`, so all theorems below about a
request (finished callbacks drain, response callbacks then NewResponse, current request) hold for every attempt; under
the `IExecutionPolicy` docstring policy (an escaping exception is rendered once more by the policy) likewise. -/
theorem execution_policies_balanced (xv : Bool) :
    (∀ (rs : List Req) (i : Nat) (stack0 : List Path), (runRetry xv rs i stack0).2.2 = stack0) ∧
    (∀ (r : Req) (stack0 : List Path), (runSimple xv r stack0).2.2.2 = stack0) := by
  constructor
  · intro rs
    induction rs with
    | nil => intro i stack0; rfl
    | cons r rest ih =>
      intro i stack0
      simp only [runRetry]
      have h := subrequest_balanced xv true r [i] stack0
      generalize runReq xv true r [i] stack0 = res at h
      obtain ⟨tr, out, st1⟩ := res
      simp only at h
      subst h
      split
      · next =>
        have := ih (i + 1) st1
        generalize runRetry xv _ (i + 1) st1 = res2 at this
        obtain ⟨trs, out', st2⟩ := res2
        exact this
      · rfl
  · intro r stack0
    cases r with
    | mk cfg subs =>
      have hsub := runSubs_inv xv subs [] 0
      have h := (invokeRequest_shape (xv := xv) (cfg := cfg) (useTw := true) hsub { stack := [] :: stack0 }
        (by simp) rfl rfl rfl).1
      simp only [runSimple]
      generalize invokeRequest xv cfg [] true (runSubs xv subs [] 0) { stack := [] :: stack0 } = res at h
      cases res with
      | ok u s => simp only [R.st] at h; simp [h]
      | err e s =>
        simp only [R.st] at h
        obtain ⟨evs, hst⟩ := invokeExcView_step xv cfg [] e { stack := s.stack }
        simp only
        rw [hst.stack]
        simp [h]

/-- Every observation of the current request made while the request is served — in the view body, when the view
body resumes after a subrequest or an explicit exception-view invocation, in the exception view, in every other
hook and in every callback (also those registered by callbacks) — sees the request itself. -/
theorem current_request_is_self_in_view (xv top : Bool) (r : Req) (self : Path) (stack0 : List Path) :
    ∀ e ∈ ownLog xv top r self stack0, e.curOk = true := by
  obtain ⟨pre, b, rp, np, tail, heq, hpre, hrp, hnp, _, _, htail, _⟩ := (runReq_props xv top r self stack0).2.1
  intro e he
  simp only [ownLog] at he
  rw [heq] at he
  rcases List.mem_append.mp he with h | h
  · exact (hpre e h).2
  · rcases List.mem_cons.mp h with h | h
    · subst h; rfl
    · rcases List.mem_append.mp h with h | h
      · rcases List.mem_append.mp h with h | h
        · exact (hrp e h).2
        · rcases hnp with h0 | ⟨d, regEvs, h0, hreg⟩
          · subst h0; cases h
          · subst h0
            rcases List.mem_cons.mp h with h | h
            · subst h; rfl
            · exact (isReg_good (hreg e h)).2
      · exact (htail e h).2

/-- **Explicit `request.invoke_exception_view(exc_info, request=other)`**: whatever the stack looks like when it is
called (in particular with the calling request on top), for every exception kind, every failure scheduled in the
exception view and with or without a custom exception view, every observation made while the exception view of `other`
runs sees `other` as the current request (the frame view.py pushes is the request ARGUMENT, not the receiver), and the
stack is given back unchanged.  (`invokeOther`, the view-body step of the model, is this computation run on the
caller's stack with `other = self ++ [otherId]`; the caller's own log only gets the marker and a resumption that
sees the caller current again — `current_request_is_self_in_view` covers those.)  The skeleton `exec` is depth-only
and says nothing about identities. -/
theorem explicit_excview_current_request_is_argument (xv : Bool) (cfgT : Cfg) (other : Path) (e : Exc)
    (stack : List Path) :
    (∀ ev ∈ (invokeExcView xv cfgT other e { stack := stack }).st.log, ev.curOk = true) ∧
    (invokeExcView xv cfgT other e { stack := stack }).st.stack = stack := by
  obtain ⟨evs, h⟩ := invokeExcView_step xv cfgT other e { stack := stack }
  refine ⟨?_, h.stack⟩
  intro ev hev
  rw [h.log] at hev
  simp only [List.nil_append] at hev
  exact (h.good ev hev).2

/-- the reading the statement gives literally -/
theorem view_body_sees_itself (xv top : Bool) (r : Req) (self : Path) (stack0 : List Path) (c : Bool) (d : Nat)
    (h : Ev.hook .viewBody c d ∈ ownLog xv top r self stack0) : c = true :=
  current_request_is_self_in_view xv top r self stack0 _ h

/-- **Finished callbacks drain** (`while callbacks: callbacks.popleft()(request)` — a FIFO work-list).  For every
request tree, schedule and entry stack (own log shorter than `drainFuel`, so the model's loop ended by itself): the
own log splits into a body without finished callbacks and a tail that consists only of finished-callback runs and the
registrations those callbacks make; the finished callbacks run are EVERY finished callback registered anywhere in
the log — by a hook before or after whatever failed, by a response callback, or by a finished callback while the deque
is being drained — in registration order (FIFO), each once, through the first one that itself fails; and when none of
them fails nothing is left in the deque afterwards. -/
theorem finished_callbacks_drain (xv top : Bool) (r : Req) (self : Path) (stack0 : List Path)
    (hfuel : (ownLog xv top r self stack0).length < drainFuel) :
    (∃ body tail, ownLog xv top r self stack0 = body ++ tail ∧
      (∀ e ∈ body, e.isFinCb = false) ∧ (∀ e ∈ tail, e.isCbOrReg .fin = true)) ∧
    finIds (ownLog xv top r self stack0) = throughFault r.cfg (regsOf .fin (ownLog xv top r self stack0)) ∧
    (allOk r.cfg (regsOf .fin (ownLog xv top r self stack0)) = true →
      finIds (ownLog xv top r self stack0) = regsOf .fin (ownLog xv top r self stack0) ∧
      (runReq xv top r self stack0).1.left.2 = 0) := by
  obtain ⟨_, ⟨pre, b, rp, np, tail, heq, hpre, hrp, hnp, _, _, htail, hfin⟩, hleft⟩ := runReq_props xv top r self stack0
  simp only [ownLog] at hfuel ⊢
  have hnofin : ∀ e ∈ pre ++ Ev.chain b :: (rp ++ np), e.isFinCb = false := by
    intro e he
    rcases List.mem_append.mp he with h | h
    · have := (hpre e h).1
      cases e <;> simp_all [Ev.isStage, Ev.isFinCb]
    · rcases List.mem_cons.mp h with h | h
      · subst h; rfl
      · rcases List.mem_append.mp h with h | h
        · have := (hrp e h).1
          cases e with
          | cb k i c d => cases k <;> simp_all [Ev.isCbOrReg, Ev.isFinCb]
          | _ => simp [Ev.isFinCb]
        · rcases hnp with h0 | ⟨d, regEvs, h0, hreg⟩
          · subst h0; cases h
          · subst h0
            rcases List.mem_cons.mp h with h | h
            · subst h; rfl
            · have := hreg e h
              cases e <;> simp_all [Ev.isReg, Ev.isFinCb]
  have hids0 : cbIds .fin (pre ++ Ev.chain b :: (rp ++ np)) = [] := by
    simp only [cbIds]
    refine List.filterMap_eq_nil_iff.mpr fun e he => ?_
    have := hnofin e he
    cases e with
    | cb k i c d => cases k <;> simp_all [Ev.isFinCb, cbId]
    | _ => simp [cbId]
  have hsplit : (runReq xv top r self stack0).1.own = (pre ++ Ev.chain b :: (rp ++ np)) ++ tail := by
    rw [heq]; simp
  have hregs : regsOf .fin (runReq xv top r self stack0).1.own = regsOf .fin (pre ++ (rp ++ np) ++ tail) := by
    rw [heq]
    simp only [regsOf, List.filterMap_append]
    rw [List.filterMap_cons_none (by rfl)]
    simp
  have hlen : (cbIds .fin tail).length < drainFuel := by
    refine Nat.lt_of_le_of_lt (Nat.le_trans (cbIds_length_le .fin tail) ?_) hfuel
    rw [hsplit]; simp; omega
  have hidsall : finIds (runReq xv top r self stack0).1.own = cbIds .fin tail := by
    rw [finIds_eq_cbIds, hsplit, cbIds_append, hids0]; rfl
  have hmain : finIds (runReq xv top r self stack0).1.own =
      throughFault r.cfg (regsOf .fin (runReq xv top r self stack0).1.own) := by
    rw [hidsall, hregs]; exact hfin hlen
  refine ⟨⟨_, tail, hsplit, hnofin, fun e he => (htail e he).1⟩, hmain, fun hall => ⟨?_, ?_⟩⟩
  · rw [hmain]
    exact throughFault_of_none _ _ ((allOk_iff _ _).mp hall)
  · refine hleft ?_ hall
    rw [← finIds_eq_cbIds, hidsall]; exact hlen

/-- **Finished callbacks** (the statement): when no registered finished callback is itself scheduled to fail, every
finished callback registered during the request — before or after whatever failure the schedule injects, at whatever
stage, also by callbacks while the deques are drained — runs exactly once, in registration order, after everything
else the request does, and the deque is empty afterwards. -/
theorem finished_once_in_order_last (xv top : Bool) (r : Req) (self : Path) (stack0 : List Path)
    (hfuel : (ownLog xv top r self stack0).length < drainFuel)
    (hok : ∀ i ∈ regsOf .fin (ownLog xv top r self stack0), cbFaulty r.cfg i = false) :
    finIds (ownLog xv top r self stack0) = regsOf .fin (ownLog xv top r self stack0) ∧
    (runReq xv top r self stack0).1.left.2 = 0 ∧
    ∃ body tail, ownLog xv top r self stack0 = body ++ tail ∧
      (∀ e ∈ body, e.isFinCb = false) ∧ (∀ e ∈ tail, e.isCbOrReg .fin = true) := by
  obtain ⟨hs, _, h3⟩ := finished_callbacks_drain xv top r self stack0 hfuel
  obtain ⟨a, b⟩ := h3 ((allOk_iff _ _).mpr hok)
  exact ⟨a, b, hs⟩

/-- **Response callbacks drain, then NewResponse** (the statement): the own log has exactly one chain marker; nothing
of the response phase happens before it; if an exception came out of the tween chain nothing of it happens at all;
if a response came out, the response-callback deque is drained (`rp`: runs of response callbacks and the
registrations they make): the callbacks run are every response callback registered before the marker or during the
drain, FIFO, each once, through the first failing one; then — iff none failed — the NewResponse event occurs, once
(response callbacks registered later, by NewResponse subscribers or finished callbacks, stay in the deque). -/
theorem response_callbacks_then_newresponse_iff_response (xv top : Bool) (r : Req) (self : Path)
    (stack0 : List Path) (hfuel : (ownLog xv top r self stack0).length < drainFuel) :
    ∃ pre b rp rest, ownLog xv top r self stack0 = pre ++ Ev.chain b :: (rp ++ rest) ∧
      (∀ e ∈ pre, e.isChain = false) ∧ (∀ e ∈ rp ++ rest, e.isChain = false) ∧
      respTrace pre = [] ∧ (∀ e ∈ rp, e.isCbOrReg .resp = true) ∧
      respTrace (rp ++ rest) = (if b = true then expectedResp r.cfg (regsOf .resp (pre ++ rp)) else []) := by
  obtain ⟨pre, b, rp, np, tail, heq, hpre, hrp, hnp, hb, hresp, htail, _⟩ := (runReq_props xv top r self stack0).2.1
  simp only [ownLog] at hfuel ⊢
  have htailresp : respTrace tail = [] := by
    simp only [respTrace]
    refine List.filterMap_eq_nil_iff.mpr fun e he => ?_
    have := (htail e he).1
    cases e with
    | cb k i c d => cases k <;> simp_all [Ev.isCbOrReg, respItem]
    | reg k i => rfl
    | _ => simp [Ev.isCbOrReg] at this
  have hlen : (cbIds .resp rp).length < drainFuel := by
    refine Nat.lt_of_le_of_lt (Nat.le_trans (cbIds_length_le .resp rp) ?_) hfuel
    rw [heq]; simp; omega
  refine ⟨pre, b, rp, np ++ tail, by rw [heq]; simp, ?_, ?_, respTrace_of_stage hpre, fun e he => (hrp e he).1, ?_⟩
  · intro e he
    have := (hpre e he).1
    cases e <;> simp_all [Ev.isStage, Ev.isChain]
  · intro e he
    rcases List.mem_append.mp he with h | h
    · have := (hrp e h).1
      cases e <;> simp_all [Ev.isCbOrReg, Ev.isChain]
    · rcases List.mem_append.mp h with h | h
      · rcases hnp with h0 | ⟨d, regEvs, h0, hreg⟩
        · subst h0; cases h
        · subst h0
          rcases List.mem_cons.mp h with h | h
          · subst h; rfl
          · have := hreg e h
            cases e <;> simp_all [Ev.isReg, Ev.isChain]
      · have := (htail e h).1
        cases e <;> simp_all [Ev.isCbOrReg, Ev.isChain]
  · have : respTrace (rp ++ (np ++ tail)) = respTrace (rp ++ np) := by
      simp only [respTrace, List.filterMap_append] at htailresp ⊢
      rw [htailresp]; simp
    rw [this]
    cases b with
    | true => simp only [↓reduceIte]; exact hresp rfl hlen
    | false =>
      obtain ⟨h1, h2⟩ := hb rfl
      subst h1; subst h2; rfl

/-- one half of the "iff", spelled out -/
theorem no_response_no_callbacks (xv top : Bool) (r : Req) (self : Path) (stack0 : List Path)
    (hfuel : (ownLog xv top r self stack0).length < drainFuel)
    (h : Ev.chain false ∈ ownLog xv top r self stack0) : respTrace (ownLog xv top r self stack0) = [] := by
  obtain ⟨pre, b, rp, rest, heq, hpre, hpost, hr1, _, hr2⟩ :=
    response_callbacks_then_newresponse_iff_response xv top r self stack0 hfuel
  rw [heq] at h ⊢
  have hb : b = false := by
    rcases List.mem_append.mp h with h | h
    · have := hpre _ h; simp [Ev.isChain] at this
    · rcases List.mem_cons.mp h with h | h
      · injection h with h; exact h.symm
      · have := hpost _ h; simp [Ev.isChain] at this
  subst hb
  simp only [respTrace, List.filterMap_append] at hr1 hr2 ⊢
  rw [hr1, List.filterMap_cons_none (by rfl)]
  simpa using hr2

/-- PARTIAL link between the two models (`pipeline_refines_skeleton`).  Proved: the own log of the hand-written
pipeline model, for every request tree, schedule and entry stack, projected to the skeleton's observation alphabet
(chain called / response callback / NewResponse / finished callback, each with "it raised", plus "finish_request is
reached" before the first finished callback or at the end), is accepted by the very monitor (`Skel.cbOrderStep`) that
accepts every execution of the generated `Router.__call__` / `invoke_subrequest` / `invoke_request` skeletons for every
oracle (`request_path_obeys_callback_order`), and finish_request is reached.  So the order and multiplicity-class of
response callbacks / NewResponse / finished callbacks claimed by the model are those the regenerated source allows.
Missing for the full refinement: that each model log is the observation of `exec` under a corresponding oracle
(trace equality, incl. the stage events inside `handle_request` and the exception view); that direction is checked per
case by the harness (`find_oracle` + Lean `exec`), not proved. -/
theorem pipeline_refines_skeleton_partial (xv top : Bool) (r : Req) (self : Path) (stack0 : List Path)
    (hfuel : (ownLog xv top r self stack0).length < drainFuel) :
    ∃ q, accepts 0 (withFinish (proj r.cfg (ownLog xv top r self stack0))) = some q ∧ 10 ≤ q :=
  pipeline_accepted xv top r self stack0 hfuel

/-! ### non-vacuity: concrete schedules -/

/-- no custom exception view; a finished callback registered by the NewRequest subscriber, a response callback by the
view body; the view's subrequest fails in its root factory with a plain exception, which reaches the server -/
def demoReq : Req :=
  .mk { useTweens := true, route := false, faults := [(.renderer, .plain)],
        regs := [⟨.hook .newRequest, .fin, none⟩, ⟨.hook .viewBody, .resp, none⟩, ⟨.hook .excView, .fin, none⟩],
        explicitXv := none }
    (.cons (.mk { useTweens := false, route := false, faults := [(.rootFactory, .plain)], regs := [], explicitXv := none } .nil) .nil)

example : (runTop false demoReq []).2.1 = .raised .plain := by decide +kernel
example : finIds (runTop false demoReq []).1.own = [0] := by decide +kernel
example : Ev.chain false ∈ (runTop false demoReq []).1.own := by decide +kernel

/-- the same request without the subrequest: the renderer fails, the exception view answers -/
def demoReq2 : Req :=
  .mk { useTweens := true, route := true, faults := [(.renderer, .plain)],
        regs := [⟨.hook .newRequest, .fin, none⟩, ⟨.hook .viewBody, .resp, none⟩, ⟨.hook .excView, .fin, none⟩],
        explicitXv := some .plain } .nil

example : (runTop true demoReq2 [[7]]).2.1 = .resp := by decide +kernel
example : finIds (runTop true demoReq2 [[7]]).1.own = [0, 2, 2] := by decide +kernel
example : respTrace (runTop true demoReq2 [[7]]).1.own = [some 1, none] := by decide +kernel
example : ∀ i ∈ regsOf .fin (ownLog true true demoReq2 [] [[7]]), cbFaulty demoReq2.cfg i = false := by decide +kernel
example : Ev.hook .viewBody true 2 ∈ (runTop true demoReq2 [[7]]).1.own := by decide +kernel
example : withFinish (proj demoReq2.cfg (runTop true demoReq2 [[7]]).1.own) =
    [(0, false), (1, false), (2, false), (11, false), (3, false), (3, false), (3, false)] := by decide +kernel

/-- the outer view hands another request to `invoke_exception_view`: that request is current in its exception view
(depth 3: entry frame, the outer request, the pushed frame), the outer request is current again afterwards -/
def demoReq4 : Req :=
  .mk { useTweens := true, route := false, faults := [], regs := [], explicitXv := none,
        explicitOther := some (.plain, none, false) } .nil

example : (runTop true demoReq4 [[7]]).1.kids.map Tr.own = [[Ev.hook .excView true 3]] := by decide +kernel
example : Ev.resume true 2 ∈ (runTop true demoReq4 [[7]]).1.own := by decide +kernel

/-- callbacks registering callbacks while the deques are drained: the view registers finished callback 0 and
response callback 3; 0 registers finished callback 1, which registers finished callback 2; 3 registers response
callback 4 and finished callback 5 -/
def demoReq5 : Req :=
  .mk { useTweens := true, route := false, faults := [],
        regs := [⟨.hook .viewBody, .fin, none⟩, ⟨.cb 0, .fin, none⟩, ⟨.cb 1, .fin, none⟩,
                 ⟨.hook .viewBody, .resp, none⟩, ⟨.cb 3, .resp, none⟩, ⟨.cb 3, .fin, none⟩],
        explicitXv := none } .nil

example : finIds (runTop false demoReq5 []).1.own = [0, 5, 1, 2] ∧ respTrace (runTop false demoReq5 []).1.own = [some 3, some 4, none] ∧
    (runTop false demoReq5 []).1.left = (0, 0) ∧ (runTop false demoReq5 []).1.own.length < drainFuel := by decide +kernel

/-- excluded point of `finished_once_in_order_last` (outside the statement's fault list): a finished callback that
fails keeps the later ones from running -/
def demoReq3 : Req :=
  .mk { useTweens := true, route := false, faults := [],
        regs := [⟨.hook .newRequest, .fin, some .plain⟩, ⟨.hook .viewBody, .fin, none⟩], explicitXv := none } .nil

example : finIds (runTop false demoReq3 []).1.own = [0] ∧ regsOf .fin (runTop false demoReq3 []).1.own = [0, 1] ∧
    (runTop false demoReq3 []).2.2 = [] := by decide +kernel

end Pipeline

end Pyr.Props.C13
