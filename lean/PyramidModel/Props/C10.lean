import PyramidModel.Lemmas.SessionPersist
import PyramidModel.Lemmas.SessionSigned
import PyramidModel.Lemmas.SessionTable
/-!
# C10 — Signed cookie sessions persist exactly what was stored and reject all else

Property theorems only.  Model: `Session.lean`; spec: `Lemmas/SessionSpec.lean`; helper lemmas:
`Lemmas/SessionOps.lean` (one call, one view), `Lemmas/SessionNormal.lean` (JSON-normality is invariant),
`Lemmas/SessionHist.lean` (loading, one request, refinement of histories), `Lemmas/SessionPersist.lean`
(persistence over histories), `Lemmas/SessionSigned.lean` (WebOb's `SignedSerializer` over abstract parts),
`Lemmas/SessionTable.lean` + `Gen/C10Wrap.lean` (behavioural tables obtained by running the code under test).

All statements quantify over every codec satisfying the named hypotheses, every factory configuration, every clock,
every list of operations with arbitrary clock advances, and histories of any length.  Time is in quarter seconds.

Hypotheses, each by name and each with an inhabitant below:
* `RoundTrip C` — `loads (dumps p) = p` for JSON-normal payloads (the serialiser is injective on its domain);
* `SignedOK P dom ofP` — digest length, base64 `dec ∘ enc = id`, inner serialiser round-trips on `dom`;
* `Unforgeable P k signed t`, `MacSeparates P k k'` — the assumptions about HMAC; never proved, only assumed.
-/
namespace Pyr.Session
open Spec

/-! ## 1. Loading (`CookieSession.__init__`) -/

/-- `load_total`: constructing the session never raises, whatever `serializer.loads` returned: a missing cookie, any text
the serialiser refuses, any deserialised value that does not unpack, any non-numeric time field, any state that is not a
mapping — all give a session.  (Unconditional since fix f6dc9a1.) -/
theorem load_total (cfg : Cfg) (now : Q) (w : Option Wire) : (load cfg now w).isSome = true := by
  rcases cfg with ⟨to, re, soe⟩
  cases w with
  | none => cases to <;> simp [load]
  | some x =>
    cases x with
    | notTriple => cases to <;> simp [load]
    | triple r c s =>
      cases s with
      | none => cases to <;> simp [load]
      | some d =>
        cases r with
        | bad => cases to <;> simp [load]
        | num rq =>
          cases c with
          | bad => cases to <;> simp [load]
          | num cq =>
            cases to with
            | none => simp [load]
            | some t => by_cases ho : olderThan now rq t = true <;> simp [load, ho]

/-- no cookie, a cookie the serialiser refuses (`ValueError`), or a verified value that does not unpack into three:
a NEW, EMPTY session created NOW. -/
theorem rejected_cookie_is_new_empty (cfg : Cfg) (now : Q) :
    load cfg now none = some (freshSess now) ∧ load cfg now (some .notTriple) = some (freshSess now) ∧
    (freshSess now).new = true ∧ (freshSess now).data = [] ∧ (freshSess now).created = now :=
  ⟨load_none cfg now, load_notTriple cfg now, rfl, rfl, rfl⟩

/-- `timeout_boundary`, the near side: at any clock up to AND INCLUDING `stamp + timeout` the session holds exactly
the cookie's data, its creation time, and is not new. -/
theorem timeout_boundary_within (cfg : Cfg) (now : Q) (c : ACookie) (T : Nat) (hT : cfg.timeout = some T)
    (h : now ≤ c.stamp + 4 * T) :
    ∃ s, load cfg now (some (Wire.ofPayload c.payload)) = some s ∧ s.data = c.data ∧ s.created = c.created ∧
      s.new = false ∧ s.renewed = c.stamp := by
  refine ⟨_, load_payload cfg now c, ?_, rfl, rfl, rfl⟩
  have : expired cfg now c = false := by
    simp only [expired, hT, olderThan]
    exact decide_eq_false (Nat.not_lt.mpr h)
  simp [loadedSess, this]

/-- `timeout_boundary`, the far side: one quarter second later the session is EMPTY (not new: creation time kept). -/
theorem timeout_boundary_past (cfg : Cfg) (now : Q) (c : ACookie) (T : Nat) (hT : cfg.timeout = some T)
    (h : now > c.stamp + 4 * T) :
    ∃ s, load cfg now (some (Wire.ofPayload c.payload)) = some s ∧ s.data = [] ∧ s.created = c.created ∧
      s.new = false := by
  refine ⟨_, load_payload cfg now c, ?_, rfl, rfl⟩
  have : expired cfg now c = true := by
    simp only [expired, hT, olderThan]
    exact decide_eq_true h
  simp [loadedSess, this]

/-- without a timeout nothing ever expires -/
theorem no_timeout_never_expires (cfg : Cfg) (now : Q) (c : ACookie) (hT : cfg.timeout = none) :
    ∃ s, load cfg now (some (Wire.ofPayload c.payload)) = some s ∧ s.data = c.data ∧ s.created = c.created := by
  refine ⟨_, load_payload cfg now c, ?_, rfl⟩
  simp [loadedSess, expired, hT]

/-! ### any deserialised payload value (well-signed but malformed, or read by an unsigned serialiser) -/

/-- `malformed_is_new_empty` (FULL since fix f6dc9a1).  For EVERY JSON value `v` the serialiser may hand to `__init__`
(whatever signed it) that is not a well-formed payload — it does not unpack into three fields, or `float()` refuses one of
its stamps, or its state is not a mapping — the session is NEW and EMPTY, created now, and construction does not raise; no
key of the value's state is visible, even when the third field is a non-empty mapping and only a stamp is bad. -/
theorem malformed_is_new_empty (strNum : String → Option Nat) (cfg : Cfg) (now : Q) (v : JV)
    (hwf : v.wellFormed strNum = false) :
    ∃ s, load cfg now (some (v.toWire strNum)) = some s ∧ s.new = true ∧ s.data = [] ∧ s.created = now := by
  rcases cfg with ⟨to, re, soe⟩
  simp only [JV.toWire, JV.wellFormed] at *
  cases hu : v.unpack3 with
  | none => cases to <;> simp [load]
  | some t =>
    rcases t with ⟨a, b, c⟩
    rw [hu] at hwf
    cases hc : c.toState with
    | none => cases to <;> simp [load, hc]
    | some d =>
      have hco : c = .obj d := by cases c <;> simp_all [JV.toState]
      subst hco
      cases ha : a.toFld strNum with
      | bad => cases to <;> simp [load, ha, JV.toState]
      | num rq =>
        cases hb : b.toFld strNum with
        | bad =>
          cases to with
          | none => simp [load, ha, hb, JV.toState]
          | some t => by_cases ho : olderThan now rq t = true <;> simp [load, ha, hb, ho, JV.toState]
        | num cq => simp_all

/-- the class of the repaired defect F-C10c as a regression fact: stamps that convert and a state that is not a mapping
(`[1, 1, 3]`, a list of pairs, the empty string) now give a new empty session created now. -/
theorem non_mapping_state_is_new_empty :
    [JV.arr [.int 1, .int 1, .int 3], JV.arr [.int 1, .int 1, .arr [.arr [.str "k", .int 1]]], JV.arr [.int 1, .int 1, .str ""],
     JV.arr [.int 1, .int 1, .null]].all
      (fun v => (load ⟨none, none, true⟩ 400 (some (v.toWire (fun _ => none)))).map
        (fun s => (s.data.length, s.new, s.created)) == some (0, true, 400)) = true := by decide

/-- a well-formed value is loaded exactly: its mapping (unless older than the timeout), its creation time, not new -/
theorem wellformed_loads_exactly (strNum : String → Option Nat) (cfg : Cfg) (now : Q) (v : JV)
    (hwf : v.wellFormed strNum = true) :
    ∃ a b d rq cq, v.unpack3 = some (a, b, .obj d) ∧ a.toFld strNum = .num rq ∧ b.toFld strNum = .num cq ∧
      load cfg now (some (v.toWire strNum)) = some (loadedSess cfg now ⟨rq, false, cq, d⟩) := by
  simp only [JV.wellFormed] at hwf
  cases hu : v.unpack3 with
  | none => simp [hu] at hwf
  | some t =>
    rcases t with ⟨a, b, c⟩
    rw [hu] at hwf
    cases c with
    | obj d =>
      simp only [Bool.and_eq_true, bne_iff_ne, ne_eq] at hwf
      cases ha : a.toFld strNum with
      | bad => exact absurd ha hwf.1
      | num rq =>
        cases hb : b.toFld strNum with
        | bad => exact absurd hb hwf.2
        | num cq =>
          refine ⟨a, b, d, rq, cq, rfl, ha, hb, ?_⟩
          have := load_payload cfg now ⟨rq, false, cq, d⟩
          simpa [JV.toWire, hu, ha, hb, JV.toState, Wire.ofPayload, ACookie.payload] using this
    | _ => simp at hwf

/-! ## 2. One call, one view: refinement to the finite-map spec -/

/-- every `ISession` call of the model (with its wrapper and the nested wrapped calls of `flash`, `pop_flash`,
`peek_flash`, `new_csrf_token`, `get_csrf_token`, `invalidate`) has exactly the spec's effect on the map, returns
what the spec says, and does exactly the predicted bookkeeping: dirty iff it was dirty, or the call modifies, or it
is wrapped and made after the reissue time; `accessed` = whole seconds of `now` iff wrapped; a callback is
registered only on the first marking; `created`/`renewed`/`new` never change. -/
theorem op_refines_spec (cfg : Cfg) (now : Q) (op : Op) (s : Sess) :
    (runOp cfg now op s).1.data = Spec.apply op s.data ∧
    (runOp cfg now op s).2 = Spec.result op s.data ∧
    (runOp cfg now op s).1.book = s.book.after cfg now op s.data :=
  runOp_char cfg now op s

/-- the same for a view's whole list of timed calls -/
theorem view_refines_spec (cfg : Cfg) (clock : Q) (s : Sess) (ops : List (Nat × Op)) :
    (runOps cfg clock s ops).1 = endClock clock ops ∧
    (runOps cfg clock s ops).2.1.data = endData s.data ops ∧
    (runOps cfg clock s ops).2.2 = results s.data ops ∧
    (runOps cfg clock s ops).2.1.book = Book.afterOps cfg clock s.data s.book ops :=
  runOps_char cfg clock s ops

/-- `cookie_iff_dirty_or_reissue`: after any view on a freshly loaded session, `Set-Cookie` is sent iff (some call
modified, or some wrapped call happened at a whole second later than `renewed + reissue_time`) and it is not
withheld by `set_on_exception=False` and the serialised value does not exceed 4064 characters; and the cookie that
is sent carries (whole seconds of the last wrapped call, the creation time the session was loaded with, the map
exactly as the view left it). -/
theorem cookie_iff_dirty_or_reissue {κ : Type} (C : Codec κ) (cfg : Cfg) (raised : Bool) (clock : Q) (s0 : Sess)
    (ops : List (Nat × Op)) (h0 : s0.pristine) (c : κ) :
    finish C cfg raised (runOps cfg clock s0 ops).2.1 = .cookie c ↔
      (needsCookie cfg s0.renewed clock s0.data ops = true ∧ (!cfg.setOnExc && raised) = false ∧
       c = C.dumps ⟨(lastStamp clock (s0.renewed, false) ops).1, (lastStamp clock (s0.renewed, false) ops).2,
                    s0.created, endData s0.data ops⟩ ∧
       C.size c ≤ cookieLimit) := by
  rw [(view_refines C cfg raised clock s0 ops h0).2.2.2.2.2.2.1]
  simp only [specFinish]
  cases needsCookie cfg s0.renewed clock s0.data ops with
  | false => simp
  | true =>
    cases (!cfg.setOnExc && raised) with
    | true => simp
    | false =>
      simp only [if_true, Bool.false_eq_true, if_false, true_and]
      constructor
      · intro h
        split at h
        · exact absurd h (by simp)
        · rename_i hsz
          have hc := (Outcome.cookie.injEq _ _).mp h
          exact ⟨hc.symm, by rw [← hc]; omega⟩
      · rintro ⟨hc, hsz⟩
        subst hc
        rw [if_neg (by omega)]

/-- "a cookie is set whenever the session was modified": if the map at the end of the view differs from the map at
its start, the session is dirty (so the callback is registered and runs `_set_cookie`). -/
theorem modified_sets_cookie (cfg : Cfg) (clock : Q) (s0 : Sess) (ops : List (Nat × Op)) (h0 : s0.pristine)
    (hmod : (runOps cfg clock s0 ops).2.1.data ≠ s0.data) : (runOps cfg clock s0 ops).2.1.dirty = true := by
  have hv := view_refines (κ := Unit) ⟨fun _ => (), fun _ => none, fun _ => 0⟩ cfg false clock s0 ops h0
  rw [hv.2.2.2.2.1]
  rw [hv.2.1] at hmod
  exact endData_ne_needsCookie cfg _ _ _ ops hmod

/-- "…or accessed after the reissue time": a wrapped call at a whole second later than `renewed + reissue_time`
makes the session dirty, whatever else the view does. -/
theorem reissue_sets_cookie (cfg : Cfg) (clock : Q) (s0 : Sess) (pre post : List (Nat × Op)) (dq : Nat) (op : Op)
    (R : Nat) (hR : cfg.reissue = some R) (h0 : s0.pristine) (hw : Spec.wrapped op = true)
    (hlate : floorSec (endClock clock pre + dq) > s0.renewed + 4 * R) :
    (runOps cfg clock s0 (pre ++ (dq, op) :: post)).2.1.dirty = true := by
  have hv := view_refines (κ := Unit) ⟨fun _ => (), fun _ => none, fun _ => 0⟩ cfg false clock s0
    (pre ++ (dq, op) :: post) h0
  rw [hv.2.2.2.2.1]
  clear hv
  generalize s0.data = d
  induction pre generalizing clock d with
  | nil =>
    simp only [List.nil_append, needsCookie, Bool.or_eq_true]
    left; right
    simp only [endClock] at hlate
    simp [hw, reissueDue, hR, olderThan, hlate]
  | cons p rest ih =>
    rcases p with ⟨dq', op'⟩
    simp only [List.cons_append, needsCookie, Bool.or_eq_true]
    right
    exact ih (clock + dq') (by simpa [endClock] using hlate) (Spec.apply op' d)

/-- `pop` (with or without a default, whatever the default and whether or not the key is present — in particular when
the stored value IS the default) marks the session dirty and removes the key. -/
theorem pop_marks_dirty (cfg : Cfg) (now : Q) (k : String) (dflt : Option JV) (s : Sess) :
    (runOp cfg now (.pop k dflt) s).1.dirty = true ∧ (runOp cfg now (.pop k dflt) s).1.data = ddel s.data k := by
  obtain ⟨h1, _, h3⟩ := runOp_char cfg now (.pop k dflt) s
  refine ⟨?_, by simpa [Spec.apply] using h1⟩
  have := congrArg Book.dirty h3
  simpa [Sess.book, Book.after, Spec.modifies, Spec.wrapOf, Spec.Wrap.isChanged] using this

/-- `changed()` registers exactly one response callback however often the session is marked -/
theorem one_callback (cfg : Cfg) (clock : Q) (s0 : Sess) (ops : List (Nat × Op)) (h0 : s0.pristine) :
    (runOps cfg clock s0 ops).2.1.callbacks = if (runOps cfg clock s0 ops).2.1.dirty then 1 else 0 :=
  (view_refines (κ := Unit) ⟨fun _ => (), fun _ => none, fun _ => 0⟩ cfg false clock s0 ops h0).2.2.2.2.2.1

/-- `created_preserved` within a request: no call changes the creation time -/
theorem created_preserved_in_view (cfg : Cfg) (clock : Q) (s0 : Sess) (ops : List (Nat × Op)) :
    (runOps cfg clock s0 ops).2.1.created = s0.created := by
  have h := (runOps_char cfg clock s0 ops).2.2.2
  have := (Book.afterOps_fixed cfg clock s0.data s0.book ops).1
  rw [← h] at this
  exact this

/-- the dictionary stays in the domain the serialiser round-trips (`JsonNormal`: distinct keys at every depth) as
long as the stored values are -/
theorem stays_json_normal (cfg : Cfg) (clock : Q) (s0 : Sess) (ops : List (Nat × Op))
    (hd : DataNormal s0.data = true) (ho : OpsNormal ops = true) :
    DataNormal (runOps cfg clock s0 ops).2.1.data = true := by
  rw [(runOps_char cfg clock s0 ops).2.1]
  exact endData_normal s0.data ops hd ho

/-- `oversize_refused`: when a cookie is due and its serialised length exceeds 4064, the callback raises
(`Outcome.oversize`): no cookie is set — in particular no truncated one — and the jar is left as it was. -/
theorem oversize_refused {κ : Type} (C : Codec κ) (cfg : Cfg) (w : World κ) (r : Req κ) (ops : List (Nat × Op))
    (s0 : Sess) (hops : r.ops = some ops)
    (hload : load cfg (w.clock + r.dq) ((resolve w r.present).bind C.loads) = some s0)
    (hdirty : (runOps cfg (w.clock + r.dq) s0 ops).2.1.dirty = true)
    (hsup : (!cfg.setOnExc && r.raised) = false)
    (hbig : C.size (C.dumps (runOps cfg (w.clock + r.dq) s0 ops).2.1.payload) > cookieLimit) :
    (stepReq C cfg w r).2.outcome = .oversize ∧ (stepReq C cfg w r).1.issued = w.issued := by
  simp only [stepReq, hops, hload, finish, hdirty, hsup]
  simp [hbig, pushCookie]

/-- the size test is exactly `> 4064`: a value of 4064 characters is accepted -/
theorem size_limit_is_inclusive {κ : Type} (C : Codec κ) (cfg : Cfg) (s : Sess) (hd : s.dirty = true)
    (hsz : C.size (C.dumps s.payload) = 4064) : finish C cfg false s = .cookie (C.dumps s.payload) := by
  simp [finish, hd, hsz, cookieLimit]

/-- `set_on_exception=False`: a view that raised sets no cookie even when the session is dirty; with the default
`True` the exception makes no difference. -/
theorem set_on_exception {κ : Type} (C : Codec κ) (cfg : Cfg) (s : Sess) (hd : s.dirty = true) :
    (cfg.setOnExc = false → finish C cfg true s = .suppressed) ∧
    (cfg.setOnExc = true → finish C cfg true s = finish C cfg false s) := by
  constructor <;> intro h <;> simp [finish, hd, h]

/-! ## 3. Histories -/

/-- CENTRAL THEOREM (refinement): for every codec that round-trips, every configuration and every history of
requests — each presenting the latest cookie, no cookie, an older cookie or anything the serialiser refuses, each
with any list of timed calls whose stored values are JSON-normal, raising or not — the model (dirty flag, stamps,
wrappers, callback, signed cookie jar) shows exactly what the declarative spec (a finite map carried across
requests by abstract cookies) shows: same start data / creation time / newness, same results, same end data, same
outcome, and the jars stay related. -/
theorem history_refines_spec {κ : Type} (C : Codec κ) (hrt : RoundTrip C) (cfg : Cfg) (clock0 : Q)
    (rs : List (Req κ)) (srs : List SReq) (hh : HistRel C rs srs) :
    ObsListRel C (runHistory C cfg ⟨clock0, []⟩ rs).2
      (specRun (fun p => C.size (C.dumps p)) cfg ⟨clock0, []⟩ srs).2 :=
  (history_refines C hrt cfg ⟨clock0, []⟩ ⟨clock0, []⟩ rs srs ⟨rfl, rfl, by simp⟩ hh).2

/-- `persistence` (+ `created_preserved` across requests): over ANY history in which every request presents the
cookie most recently set, the session at the start of each request that touches it holds exactly the data the last
committed request ended with — unless the cookie in the jar is older than the timeout, then it is empty —, is new
(empty, created now) only while no cookie was ever set, and otherwise carries the creation time of the session that
first set a cookie; requests that do not touch the session change nothing; a request whose cookie was refused for
size or withheld by `set_on_exception=False` commits nothing. -/
theorem persistence {κ : Type} (C : Codec κ) (hrt : RoundTrip C) (cfg : Cfg) (clock0 : Q) (rs : List (Req κ))
    (hlatest : ∀ r ∈ rs, r.present = .latest)
    (hnorm : ∀ r ∈ rs, ∀ ops, r.ops = some ops → OpsNormal ops = true) :
    persistFrom cfg ⟨none, []⟩ (runHistory C cfg ⟨clock0, []⟩ rs).2 :=
  persist_from C hrt cfg ⟨clock0, []⟩ ⟨none, []⟩ rs hlatest hnorm (by simp [JarInv])

/-! ## 4. The signed serialiser (WebOb `SignedSerializer`; HMAC and base64 abstract) -/

/-- what `SignedSerializer.dumps` produced, `loads` with the same key returns -/
theorem signed_roundtrip {K τ : Type} (P : SignedParts K τ Payload Wire)
    (h : SignedOK P (fun p => DataNormal p.data = true) Wire.ofPayload) (k : K) : RoundTrip (signedCodec P k) :=
  signed_roundtrip_codec P h k

/-- `tampered_is_new_empty`, PARTIAL.  Under the unforgeability hypothesis, a cookie text whose decoded bytes are
not byte-for-byte those of a cookie the application issued yields a new empty session, without raising.
MISSING for the full statement ("altered in ANY way"): texts that differ from an issued cookie but DECODE to the same
bytes (base64-transparent edits) — see `transparent_edit_is_accepted`, finding F-C10a. -/
theorem tampered_is_new_empty_partial {K τ : Type} (P : SignedParts K τ Payload Wire) (k : K)
    (signed : List (List UInt8)) (t : τ) (cfg : Cfg) (now : Q)
    (hunf : Unforgeable P k signed t)
    (hnew : ∀ c ∈ signed, P.dec t ≠ some (P.mac k c ++ c)) :
    load cfg now ((some t).bind (signedCodec P k).loads) = some (freshSess now) := by
  have : (signedCodec P k).loads t = none := loads_none_of_unforgeable P k signed t hunf hnew
  simp [this, load_none]

/-- the negation of the full tamper statement, in general: ANY text that decodes to the bytes of a valid cookie is
accepted with that cookie's data (the model has no other choice: `loads` only sees the decoded bytes). -/
theorem transparent_edit_is_accepted {K τ : Type} (P : SignedParts K τ Payload Wire) (k : K) (t t' : τ)
    (hdec : P.dec t' = P.dec t) (cfg : Cfg) (now : Q) :
    load cfg now ((some t').bind (signedCodec P k).loads) = load cfg now ((some t).bind (signedCodec P k).loads) := by
  simp [signedCodec, loads_congr_dec P k t' t hdec]

/-- `other_secret_or_salt_is_new_empty`, PARTIAL.  A cookie signed under another HMAC key is refused (new empty
session), assuming the two keys never agree on a tag.  MISSING for the full statement: the key is the plain
concatenation `salt ++ secret`, so another (salt, secret) pair with the same concatenation IS the same key
— see `salt_secret_boundary_collision`, finding F-C10b. -/
theorem other_secret_or_salt_is_new_empty_partial {K τ : Type} (P : SignedParts K τ Payload Wire)
    (h : SignedOK P (fun p => DataNormal p.data = true) Wire.ofPayload) (k k' : K) (hsep : MacSeparates P k k')
    (p : Payload) (cfg : Cfg) (now : Q) :
    load cfg now ((some (P.dumps k' p)).bind (signedCodec P k).loads) = some (freshSess now) := by
  have : (signedCodec P k).loads (P.dumps k' p) = none := loads_none_of_other_key P _ _ h k k' hsep p
  simp [this, load_none]

/-- the negation at a concrete witness: two different (salt, secret) pairs, one HMAC key — hence one and the same
serialiser (replayed on the real code: salt `pyramid`, secret `.session.s3cret`). -/
theorem salt_secret_boundary_collision :
    saltedKey [112, 121] [46, 115] = saltedKey [112, 121, 46] [115] ∧
    (([112, 121], [46, 115]) : List UInt8 × List UInt8) ≠ ([112, 121, 46], [115]) := by decide

/-! ## 5. Behavioural tables of `CookieSession`, re-derived on every run by running the code under test -/

/-- the class of every probed call (31 probes: every method the statement reaches plus the corner calls — `get_csrf_token`
without a token, `pop` whose default IS the stored value, `pop`/`pop_flash`/`del` of an absent key, `setdefault` of a present
key, `flash` of a duplicate) observed on the real code is the class the MODEL computes for the same call on the same state at
the same three clocks; and no probe raised. -/
theorem behaviour_table_matches_model : Gen.probeOk = true ∧ Gen.behaviour = modelBehaviour := by decide

/-- every operation of the model has, on the real code, the class the spec gives it -/
theorem wrap_table_matches_model (op : Op) : Gen.behaviour.lookup (methodOf op) = some (classOf op) := by
  cases op <;> rfl

/-- every mutating dict method marks the session changed, every reading one marks it accessed, and no probe is unknown -/
theorem mutators_marked_changed :
    (∀ m ∈ dictMutators, Gen.behaviour.lookup m = some "changed") ∧
    (∀ m ∈ dictReaders, Gen.behaviour.lookup m = some "accessed") ∧
    Gen.behaviour.all (fun p => p.2 != "unknown") = true := by decide

/-- the thresholds observed on the real code are the model's: expiry (T ∈ {0,1,10,None}, clocks around `renewed + T`),
reissue (R ∈ {0,1,10}, clocks around `renewed + R`, whole seconds), the size limit (lengths around 4064), the
`set_on_exception` square, one callback after eight calls, and the payload handed to the serialiser (stamp = whole seconds of
the last wrapped call, an `int`; creation time; the data). -/
theorem thresholds_as_modelled :
    Gen.timeoutProbe.length = 20 ∧ Gen.timeoutProbe.all (fun p => modelTimeout p.1 p.2.1 == some p.2.2) = true ∧
    Gen.reissueProbe.length = 22 ∧ Gen.reissueProbe.all (fun p => modelReissue p.1 p.2.1 == p.2.2) = true ∧
    Gen.sizeProbe.length = 18 ∧ Gen.sizeProbe.all (fun p => modelSize p.1 == p.2) = true ∧
    Gen.excProbe.length = 4 ∧ Gen.excProbe.all (fun p => modelExc p.1 p.2.1 == p.2.2) = true ∧
    Gen.callbacksAfterMany = modelCallbacksAfterMany ∧ Gen.payloadProbe = modelPayload := by decide

/-- what `__init__` makes of every value of the payload-shape cube on the real code (all `[stamp, stamp, state]` triples over
8 stamp kinds × 8 state kinds, the convertible ones again under an expired timeout, the other arities and kinds: 678 rows)
is what the model's `load ∘ toWire` makes of it: new/old, creation time, visible keys (no row raises any more). -/
theorem payload_shapes_as_modelled :
    Gen.shapeProbe.length = 678 ∧ Gen.shapeProbe.all (fun p => decide (modelShape p.1 p.2.1 = p.2.2)) = true := by
  decide +kernel

/-! ## 6. Non-vacuity -/

/-- a codec that round-trips (the driver's symbolic codec is of this kind) -/
def idCodec : Codec Payload := ⟨id, fun p => some (Wire.ofPayload p), fun _ => 0⟩
example : RoundTrip idCodec := fun _ _ => rfl

/-- the hypotheses of `SignedOK` are jointly satisfiable (payloads that are their own bytes; a one-byte checksum MAC) -/
def toyParts : SignedParts UInt8 (List UInt8) (List UInt8) (List UInt8) :=
  ⟨id, some, fun k c => [c.foldl (· + ·) k], 1, id, some, List.length⟩
example : SignedOK toyParts (fun _ => True) id := ⟨fun _ _ => rfl, fun _ => rfl, fun _ _ => rfl⟩
example : toyParts.loads 7 (toyParts.dumps 7 [1, 2, 3]) = some [1, 2, 3] := by decide
/-- `MacSeparates` holds between two keys of the toy MAC, and an edited text is refused -/
example : MacSeparates toyParts 7 8 := by
  intro c h
  have h' : (List.foldl (· + ·) (7 : UInt8) c) = List.foldl (· + ·) (8 : UInt8) c := by simpa [toyParts] using h
  have key : ∀ (c : List UInt8) (a b : UInt8), List.foldl (· + ·) a c = List.foldl (· + ·) b c → a = b := by
    intro c
    induction c with
    | nil => intro a b h; simpa using h
    | cons x r ih =>
      intro a b h
      have := ih (a + x) (b + x) (by simpa using h)
      exact (UInt8.add_left_inj x).mp this
  exact absurd (key c 7 8 h') (by decide)
example : toyParts.loads 7 (toyParts.dumps 7 [1, 2, 3] ++ [1]) = none := by decide
/-- a decoder that skips a padding character: the edited text differs, decodes alike — the F-C10a class in miniature -/
def padParts : SignedParts UInt8 (List UInt8) (List UInt8) (List UInt8) :=
  { toyParts with dec := fun t => some (t.filter (· != 61)) }
example : padParts.dumps 7 [1, 2, 3] ++ [61] ≠ padParts.dumps 7 [1, 2, 3] ∧
    padParts.dec (padParts.dumps 7 [1, 2, 3] ++ [61]) = padParts.dec (padParts.dumps 7 [1, 2, 3]) ∧
    padParts.loads 7 (padParts.dumps 7 [1, 2, 3] ++ [61]) = some [1, 2, 3] := by decide

/-- the boundary of the timeout at concrete clocks (timeout 10 s, stamp 100.0 s): 110.0 s keeps, 110.25 s empties -/
example : (load ⟨some 10, none, true⟩ 440 (some (Wire.ofPayload ⟨400, true, 400, [("a", .int 1)]⟩))).map (·.data.length) = some 1 ∧
    (load ⟨some 10, none, true⟩ 441 (some (Wire.ofPayload ⟨400, true, 400, [("a", .int 1)]⟩))).map (·.data.length) = some 0 := by
  decide

/-- a pristine session exists; a view that only reads, before the reissue time, leaves it clean, after it marks it -/
example : (freshSess 400).pristine := freshSess_pristine 400
example : (runOps ⟨none, some 2, true⟩ 400 (freshSess 400) [(0, .get "a" none), (8, .len)]).2.1.dirty = false ∧
    (runOps ⟨none, some 2, true⟩ 400 (freshSess 400) [(0, .get "a" (some (.int 0))), (12, .len)]).2.1.dirty = true := by decide

/-- a two-request history through `idCodec`: flash + csrf token + a key survive into the next request -/
example :
    ((runHistory idCodec ⟨some 10, some 0, true⟩ ⟨400, []⟩
      [⟨0, .latest, some [(0, .set "a" (.int 1)), (0, .flash (.str "m") "" true), (0, .newCsrf "t")], false⟩,
       ⟨40, .latest, some [(0, .keys)], false⟩]).2.map
        (fun o => (o.start.map (fun s => s.data.map (·.1)), o.start.map (·.new), o.start.map (·.created)))) =
      [(some [], some true, some 400), (some ["a", "_f_", "_csrft_"], some false, some 400)] := by decide

/-- `HistRel` (requests related, stored values JSON-normal) is satisfiable -/
example : HistRel idCodec
    [⟨0, .latest, some [(0, .set "a" (.int 1))], false⟩, ⟨40, .absent, some [(0, .keys)], false⟩]
    [⟨0, .latest, some [(0, .set "a" (.int 1))], false⟩, ⟨40, .absent, some [(0, .keys)], false⟩] :=
  ⟨⟨rfl, .latest, rfl, rfl⟩, fun ops h => by cases h; decide,
   ⟨rfl, .absent, rfl, rfl⟩, fun ops h => by cases h; decide, trivial⟩
/-- `Unforgeable` holds of a forged text (its verification fails) and of a genuine one (its message was signed) -/
example : Unforgeable toyParts 7 [[1, 2, 3]] (toyParts.dumps 7 [1, 2, 3] ++ [1]) := by
  intro f hf hm
  have : f = toyParts.dumps 7 [1, 2, 3] ++ [1] := by simpa [toyParts] using hf.symm
  subst this
  revert hm
  decide
example : Unforgeable toyParts 7 [[1, 2, 3]] (toyParts.dumps 7 [1, 2, 3]) := by
  intro f hf _
  have : f = toyParts.dumps 7 [1, 2, 3] := by simpa [toyParts] using hf.symm
  subst this
  decide
/-- popping a key whose stored value equals the default: dirty, key gone, and it stays gone in the next request -/
example :
    ((runHistory idCodec ⟨none, none, true⟩ ⟨400, []⟩
      [⟨0, .latest, some [(0, .set "a" .null)], false⟩,
       ⟨4, .latest, some [(0, .pop "a" (some .null))], false⟩,
       ⟨4, .latest, some [(0, .keys)], false⟩]).2.map
        (fun o => (o.start.map (fun s => s.data.map (·.1)), o.final.map (·.dirty)))) =
      [(some [], some true), (some ["a"], some true), (some [], some false)] := by decide
example : OpsNormal [(0, .set "a" (.obj [("x", .int 1), ("y", .null)])), (1, .flash (.arr [.int 1]) "q" false)] = true := by
  decide
/-- and duplicate keys are what `JsonNormal` excludes -/
example : OpsNormal [(0, .set "a" (.obj [("x", .int 1), ("x", .null)]))] = false := by decide

end Pyr.Session
