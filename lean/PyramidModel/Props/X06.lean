import PyramidModel.Predicates
import PyramidModel.Lemmas.Rx
import PyramidModel.Lemmas.PredicatesSort
import PyramidModel.Lemmas.PredicatesText
import PyramidModel.Lemmas.PredicatesMake
import PyramidModel.Lemmas.PredicatesSpec
import PyramidModel.Gen.X06
/-!
X06 — view / route / subscriber predicates: property theorems (statement in notes/X06.md).
Model: `PyramidModel/Predicates.lean`; helper lemmas: `Lemmas/Predicates*.lean`.
-/
namespace Pyr.Pred
open Pyr Pyr.Rx

/-! ## A. `as_sorted_tuple` and the `request_param` parser -/

/-- … is sorted by code point … -/
theorem sorted_tuple_sorted (v : PVal) : Sorted (asSortedTuple v) := by
  cases v with
  | one t => simp [asSortedTuple, Sorted]
  | many ts => exact sortT_sorted ts

/-- … and does not depend on the order in which a sequence value lists its elements. -/
theorem sorted_tuple_perm_invariant (ts ts' : List Text) (h : ts.Perm ts') : asSortedTuple (.many ts) = asSortedTuple (.many ts') :=
  sortT_eq_of_perm h

/-- Totality and the documented reading of one `request_param` text in a single clause: the `=` is looked for from the
SECOND character on (so a leading `=` belongs to the key); both sides are stripped; without such an `=` the whole text,
unstripped, is a presence-only key. -/
theorem param_parse_reading (p : Text) :
    parseParam p = match p with
      | [] => ([], none)
      | c :: rest =>
        match splitFirst '=' rest with
        | some (a, b) => (strip (c :: a), some (strip b))
        | none => (p, none) := parseParam_unified p

/-- `k=v` round trip with the documented stripping: any white space around a trimmed non-empty key without `=` and a
trimmed value (which may contain `=`) -/
theorem param_parse_roundtrip (w₁ w₂ w₃ w₄ k v : Text) (hw₁ : AllSpace w₁) (hw₂ : AllSpace w₂) (hw₃ : AllSpace w₃)
    (hw₄ : AllSpace w₄) (hk : Trimmed k) (hv : Trimmed v) (hne : k ≠ []) (heq : '=' ∉ k) :
    parseParam (w₁ ++ k ++ w₂ ++ '=' :: (w₃ ++ v ++ w₄)) = (k, some v) :=
  parseParam_roundtrip w₁ w₂ w₃ w₄ k v hw₁ hw₂ hw₃ hw₄ hk hv hne heq

/-- `=` in the first position: the key keeps it -/
theorem param_parse_roundtrip_eqkey (w₂ w₃ w₄ k v : Text) (hw₂ : AllSpace w₂) (hw₃ : AllSpace w₃) (hw₄ : AllSpace w₄)
    (hk : Trimmed ('=' :: k)) (hv : Trimmed v) (heq : '=' ∉ k) :
    parseParam ('=' :: k ++ w₂ ++ '=' :: (w₃ ++ v ++ w₄)) = ('=' :: k, some v) :=
  parseParam_roundtrip_eqkey w₂ w₃ w₄ k v hw₂ hw₃ hw₄ hk hv heq

/-- presence-only form -/
theorem param_parse_presence (c : Char) (rest : Text) (h : '=' ∉ rest) : parseParam (c :: rest) = (c :: rest, none) :=
  parseParam_presence c rest h

/-- whatever the text, a parsed `key=value` has both sides trimmed, and `strip` is idempotent -/
theorem param_parse_trimmed (p k v : Text) (h : parseParam p = (k, some v)) : Trimmed k ∧ Trimmed v ∧ strip k = k ∧ strip v = v := by
  have := parseParam_trimmed p k v h
  exact ⟨this.1, this.2, strip_of_trimmed k this.1, strip_of_trimmed v this.2⟩

example : AllSpace (T " \t") := by
  intro c hc
  simp [T] at hc
  rcases hc with rfl | rfl <;> decide
example : Trimmed (T "a b") := by
  constructor <;> intro c hc <;> simp [T] at hc <;> subst hc <;> decide
example : parseParam (T " a = 1 ") = (T "a", some (T "1")) := by decide
example : parseParam (T "=a=1") = (T "=a", some (T "1")) := by decide
example : parseParam (T "=a") = (T "=a", none) := by decide
example : parseParam (T " =a") = (T "", some (T "a")) := by decide
example : parseParam (T "a=") = (T "a", some []) := by decide

/-! ## B. every predicate decides as its declarative reading says, on every request -/

/-- XHRPredicate: the request is (is not) an XMLHttpRequest; the context is untouched -/
theorem xhr_decision (E : Env) (v : Bool) (c : Ctx) (r : Req) :
    ∃ b, call E (.xhr v) c r = .ok (b, c) ∧
      (b = true ↔ ((envGet r.environ (T "HTTP_X_REQUESTED_WITH") = some (T "XMLHttpRequest")) ↔ v = true)) := by
  refine ⟨isXhr r == v, rfl, ?_⟩
  unfold isXhr
  cases v <;> simp

/-- RequestMethodPredicate: the method is one of those listed, or it is HEAD and GET is listed -/
theorem method_decision (E : Env) (v : PVal) (c : Ctx) (r : Req) :
    ∃ b, call E (.method (mkMethod v)) c r = .ok (b, c) ∧
      (b = true ↔ r.method ∈ elems v ∨ (r.method = HEAD ∧ GET ∈ elems v)) := by
  refine ⟨(mkMethod v).contains r.method, rfl, ?_⟩
  rw [List.contains_iff_mem]
  unfold mkMethod
  simp only
  by_cases hg : (asSortedTuple v).contains GET = true
  · by_cases hh : (asSortedTuple v).contains HEAD = true
    · simp only [hg, hh, Bool.not_true, Bool.and_false, Bool.false_eq_true, if_false]
      rw [List.contains_iff_mem, sorted_tuple_members] at hg hh
      rw [sorted_tuple_members]
      constructor
      · exact Or.inl
      · rintro (h | ⟨h, _⟩)
        · exact h
        · rw [h]; exact hh
    · simp only [hg, hh, Bool.not_false, Bool.and_self, if_true]
      rw [List.contains_iff_mem, sorted_tuple_members] at hg
      rw [mem_sortT, List.mem_append, sorted_tuple_members]
      constructor
      · rintro (h | h)
        · exact Or.inl h
        · exact Or.inr ⟨by simpa using h, hg⟩
      · rintro (h | ⟨h, _⟩)
        · exact Or.inl h
        · exact Or.inr (by simp [h])
  · simp only [hg, Bool.false_and, Bool.false_eq_true, if_false]
    have hg' : GET ∉ elems v := by
      intro h
      exact hg (by rw [List.contains_iff_mem, sorted_tuple_members]; exact h)
    rw [sorted_tuple_members]
    constructor
    · exact Or.inl
    · rintro (h | ⟨_, h⟩)
      · exact h
      · exact absurd h hg'

/-- GET listed ⇒ HEAD accepted -/
theorem get_implies_head (E : Env) (v : PVal) (c : Ctx) (r : Req) (hg : GET ∈ elems v) (hm : r.method = HEAD) :
    call E (.method (mkMethod v)) c r = .ok (true, c) := by
  obtain ⟨b, hc, hb⟩ := method_decision E v c r
  rw [hc, hb.mpr (Or.inr ⟨hm, hg⟩)]

/-- `re.match`: some prefix of the text is in the language of the regex (C01's denotational semantics) -/
theorem rxMatch_iff (u : Ucd) (rx : Rx) (s : Text) (hok : Rx.ok rx = true) :
    rxMatch u rx s = true ↔ ∃ pre rest, s = pre ++ rest ∧ Lang u rx pre := by
  unfold rxMatch
  constructor
  · intro h
    cases hr : run u rx s with
    | nil => simp [hr] at h
    | cons x xs =>
      obtain ⟨pre, rest⟩ := x
      have := run_sound u rx s pre rest (by rw [hr]; exact List.mem_cons_self)
      exact ⟨pre, rest, this.1, this.2⟩
  · rintro ⟨pre, rest, rfl, hl⟩
    have := run_complete u rx hok pre rest hl
    cases hr : run u rx (pre ++ rest) with
    | nil => rw [hr] at this; cases this
    | cons x xs => simp

/-- PathInfoPredicate: a prefix of `upath_info` matches the regex -/
theorem pathinfo_decision (E : Env) (orig : Text) (rx : Rx) (c : Ctx) (r : Req) (hok : Rx.ok rx = true) :
    ∃ b, call E (.pathInfo orig rx) c r = .ok (b, c) ∧ (b = true ↔ ∃ pre rest, r.upath = pre ++ rest ∧ Lang E.ucd rx pre) :=
  ⟨_, rfl, rxMatch_iff E.ucd rx r.upath hok⟩

/-- `MultiDict.get`: the value of the LAST item under the key -/
theorem lastOf_some_iff (k v : Text) : ∀ l : List (Text × Text),
    lastOf k l = some v ↔ ∃ pre post, l = pre ++ (k, v) :: post ∧ ∀ e ∈ post, e.1 ≠ k
  | [] => by simp [lastOf]
  | (k', v') :: r => by
    simp only [lastOf]
    cases hr : lastOf k r with
    | some x =>
      simp only
      obtain ⟨pre, post, e, hp⟩ := (lastOf_some_iff k x r).mp hr
      constructor
      · intro h; cases h
        exact ⟨(k', v') :: pre, post, by rw [e]; rfl, hp⟩
      · rintro ⟨pre', post', e', hp'⟩
        have : lastOf k r = some v := by
          cases pre' with
          | nil =>
            simp at e'
            have : (k, x) ∈ post' := by rw [← e'.2, e]; simp
            exact absurd rfl (hp' _ this)
          | cons y ys =>
            simp at e'
            exact (lastOf_some_iff k v r).mpr ⟨ys, post', e'.2, hp'⟩
        rw [hr] at this; exact this
    | none =>
      simp only
      have hnone : ∀ e ∈ r, e.1 ≠ k := by
        intro e he hk
        obtain ⟨a, b, eq⟩ := List.append_of_mem he
        -- some item under k exists in r, so lastOf cannot be none
        have : ∃ w, lastOf k r = some w := by
          clear hr
          rw [eq]
          clear eq he
          induction a with
          | nil =>
            simp only [List.nil_append, lastOf]
            cases lastOf k b with
            | some x => exact ⟨x, rfl⟩
            | none => exact ⟨e.2, by simp [hk]⟩
          | cons y ys ih =>
            obtain ⟨w, hw⟩ := ih
            exact ⟨w, by simp [lastOf, hw]⟩
        obtain ⟨w, hw⟩ := this
        rw [hr] at hw; cases hw
      by_cases hk : k' = k
      · subst hk
        simp only [if_true]
        constructor
        · intro h; cases h; exact ⟨[], r, rfl, hnone⟩
        · rintro ⟨pre', post', e', hp'⟩
          cases pre' with
          | nil => simp at e'; rw [e'.1]
          | cons y ys =>
            simp at e'
            have : (k', v) ∈ r := by rw [e'.2]; simp
            exact absurd rfl (hnone _ this)
      · simp only [hk, if_false]
        constructor
        · intro h; cases h
        · rintro ⟨pre', post', e', hp'⟩
          cases pre' with
          | nil => simp at e'; exact absurd e'.1.1 hk
          | cons y ys =>
            simp at e'
            have : (k, v) ∈ r := by rw [e'.2]; simp
            exact absurd rfl (hnone _ this)

/-- `request.params.get(k)`: GET wins over POST -/
theorem getParam_reading (r : Req) (k : Text) :
    getParam r k = match lastOf k r.get with
      | some v => some v
      | none => lastOf k r.post := rfl

/-- RequestParamPredicate: every listed key is present, and where a value is listed the (last GET, else last POST) value
equals it -/
theorem reqparam_decision (E : Env) (reqs : List (Text × Option Text)) (c : Ctx) (r : Req) :
    ∃ b, call E (.reqParam reqs) c r = .ok (b, c) ∧
      (b = true ↔ ∀ kv ∈ reqs, ∃ a, getParam r kv.1 = some a ∧ ∀ w, kv.2 = some w → a = w) := by
  refine ⟨paramsOk r reqs, rfl, ?_⟩
  induction reqs with
  | nil => simp [paramsOk]
  | cons kv rest ih =>
    obtain ⟨k, v⟩ := kv
    simp only [paramsOk, List.forall_mem_cons]
    cases hg : getParam r k with
    | none => simp
    | some a =>
      cases v with
      | none => simp [ih]
      | some w =>
        by_cases haw : a = w
        · simp [haw, ih]
        · simp [haw]

/-- HeaderPredicate: every listed header is present, and where a regex is listed a prefix of its value matches -/
theorem header_decision (E : Env) (vals : List (Text × Option (Text × Rx))) (c : Ctx) (r : Req) :
    ∃ b, call E (.header vals) c r = .ok (b, c) ∧
      (b = true ↔ ∀ x ∈ vals, ∃ value, headerGet r x.1 = some value ∧ ∀ vs rx, x.2 = some (vs, rx) → rxMatch E.ucd rx value = true) := by
  refine ⟨headersOk E.ucd r vals, rfl, ?_⟩
  induction vals with
  | nil => simp [headersOk]
  | cons x rest ih =>
    obtain ⟨name, o⟩ := x
    cases o with
    | none =>
      simp only [headersOk, List.forall_mem_cons]
      cases hg : headerGet r name with
      | none => simp
      | some value => simp [ih]
    | some p =>
      obtain ⟨vs, rx⟩ := p
      simp only [headersOk, List.forall_mem_cons]
      cases hg : headerGet r name with
      | none => simp
      | some value =>
        by_cases hm : rxMatch E.ucd rx value = true
        · simp [hm, ih]
        · simp [hm]

/-- header names are looked up case-insensitively with `-` read as `_` (ASCII names) -/
theorem header_name_folding (r : Req) (a b : Text) (h : transName a = transName b) : headerGet r a = headerGet r b := by
  unfold headerGet; rw [h]

example : transName (T "x-foo") = transName (T "X_FOO") := by decide
example : transName (T "Content-Type") = T "CONTENT_TYPE" := by decide
example : transName (T "Content_Type") = T "HTTP_CONTENT_TYPE" := by decide

/-- ContainmentPredicate: some object in the lineage of `request.context` (when the request has one, else of the
context passed) provides the class / interface -/
theorem containment_decision (E : Env) (tag : Nat) (s : Text) (c : Ctx) (r : Req) :
    ∃ b, call E (.containment tag s) c r = .ok (b, c) ∧
      (b = true ↔ ∃ n ∈ (match r.context with | some l => l | none => c.lineage), tag ∈ n.tags) := by
  refine ⟨_, rfl, ?_⟩
  rw [List.any_eq_true]
  constructor <;> rintro ⟨n, hn, ht⟩ <;> exact ⟨n, hn, by simpa using ht⟩

/-- RequestTypePredicate: the request provides the interface -/
theorem reqtype_decision (E : Env) (tag : Nat) (s : Text) (c : Ctx) (r : Req) :
    ∃ b, call E (.reqType tag s) c r = .ok (b, c) ∧ (b = true ↔ tag ∈ r.ifaces) :=
  ⟨_, rfl, by simp [List.contains_iff_mem]⟩

/-- MatchParamPredicate: there is a non-empty matchdict and every listed key has exactly the listed text as its value -/
theorem matchparam_decision (E : Env) (reqs : List (Text × Text)) (c : Ctx) (r : Req) :
    ∃ b, call E (.matchParam reqs) c r = .ok (b, c) ∧
      (b = true ↔ ∃ d, r.matchdict = some d ∧ d ≠ [] ∧ ∀ kv ∈ reqs, dictGet d kv.1 = some (.str kv.2)) := by
  have hm : ∀ d : Dict, matchOk d reqs = true ↔ ∀ kv ∈ reqs, dictGet d kv.1 = some (.str kv.2) := by
    intro d
    induction reqs with
    | nil => simp [matchOk]
    | cons kv rest ih =>
      obtain ⟨k, v⟩ := kv
      simp only [matchOk, List.forall_mem_cons]
      by_cases h : dictGet d k = some (.str v)
      · simp [h, ih]
      · simp [h]
  cases hd : r.matchdict with
  | none => exact ⟨false, by simp [call, hd], by simp⟩
  | some d =>
    cases d with
    | nil => exact ⟨false, by simp [call, hd], by simp⟩
    | cons e es =>
      refine ⟨matchOk (e :: es) reqs, by simp [call, hd], ?_⟩
      rw [hm]
      simp

/-- CustomPredicate: whatever the user's callable says -/
theorem custom_decision (E : Env) (cu : Custom) (c : Ctx) (r : Req) : call E (.custom cu) c r = .ok (E.fns cu.fn c r, c) := rfl

/-- IsAuthenticatedPredicate: `request.is_authenticated == val` (so `1` behaves as `True`, `None` never holds) -/
theorem isauth_decision (E : Env) (v : AuthVal) (c : Ctx) (r : Req) :
    ∃ b, call E (.isAuth v) c r = .ok (b, c) ∧
      (b = true ↔ v = .bool r.isAuth ∨ v = .int (if r.isAuth then 1 else 0)) := by
  refine ⟨_, rfl, ?_⟩
  cases v with
  | bool x => cases x <;> cases h : r.isAuth <;> simp [AuthVal.eqBool, h]
  | int n => cases h : r.isAuth <;> simp [AuthVal.eqBool, h]
  | none => simp [AuthVal.eqBool]

/-- EffectivePrincipalsPredicate: every listed principal is among the request's effective principals -/
theorem effprin_decision (E : Env) (v : PVal) (c : Ctx) (r : Req) :
    ∃ b, call E (.effPrin (mkEffPrin v)) c r = .ok (b, c) ∧ (b = true ↔ ∀ p ∈ elems v, p ∈ r.principals) := by
  refine ⟨_, rfl, ?_⟩
  have hd : ∀ (l : List Text) (x : Text), x ∈ dedup l ↔ x ∈ l := by
    intro l x
    induction l with
    | nil => simp [dedup]
    | cons y ys ih =>
      simp only [dedup]
      by_cases hc : ys.contains y = true
      · simp only [hc, if_true, ih, List.mem_cons]
        constructor
        · exact Or.inr
        · rintro (h | h)
          · rw [h]; exact List.contains_iff_mem.mp hc
          · exact h
      · simp only [hc, Bool.false_eq_true, if_false, List.mem_cons, ih]
  simp only [List.all_eq_true, List.contains_iff_mem]
  cases v with
  | one s => simp [mkEffPrin, elems]
  | many ts =>
    simp only [mkEffPrin, elems]
    constructor
    · intro h p hp; exact h p (mem_sortT.mpr ((hd ts p).mpr hp))
    · intro h p hp; exact h p ((hd ts p).mp (mem_sortT.mp hp))

/-! ### accept, physical path, traverse, Notted -/

/-- no `Accept` header: every offer is acceptable -/
theorem accept_no_header (o : Text) : offerAcceptable none o = true := rfl

/-- AcceptPredicate (parameter-free fragment), PARTIAL.  Proved: without an Accept header every (non-empty) offer list is
accepted; an accepted list has an offer to which a range applies, of the greatest specificity among the ranges (exact >
`type/*` > `*/*`), whose q is not 0; and when every range that applies to each offer has q = 0 (or none applies) the
predicate is False.  Missing: when several ranges share the greatest specificity the FIRST of them decides (webob's
tie-break) — that case is covered by the correspondence run only. -/
theorem accept_decision_partial (E : Env) (vs : List Text) (c : Ctx) (r : Req) (hv : vs.all validOffer = true) :
    ∃ b, call E (.accept vs) c r = .ok (b, c) ∧
      (r.accept = none → (b = true ↔ vs ≠ [])) ∧
      (b = true → ∃ o ∈ vs, r.accept = none ∨
        ∃ rs rg, r.accept = some rs ∧ rg ∈ rs ∧ specificity rg o ≠ 0 ∧ rg.q ≠ 0 ∧ ∀ r' ∈ rs, specificity r' o ≤ specificity rg o) ∧
      ((∃ rs, r.accept = some rs ∧ ∀ o ∈ vs, ∀ rg ∈ rs, specificity rg o ≠ 0 → rg.q = 0) → b = false) := by
  refine ⟨vs.any (offerAcceptable r.accept), by simp [call, hv], ?_, ?_, ?_⟩
  · intro hn
    rw [hn]
    cases vs with
    | nil => simp
    | cons o os => simp [offerAcceptable]
  · rw [List.any_eq_true]
    rintro ⟨o, ho, h⟩
    refine ⟨o, ho, ?_⟩
    cases ha : r.accept with
    | none => exact Or.inl rfl
    | some rs =>
      right
      rw [ha] at h
      simp only [offerAcceptable] at h
      cases hb : bestRange o rs none with
      | none => rw [hb] at h; cases h
      | some p =>
        obtain ⟨q, s⟩ := p
        rw [hb] at h
        obtain ⟨a, b, c', _⟩ := (bestRange_spec o rs none (by simp)).2 q s hb
        rcases b with b | ⟨rg, hrg, e1, e2⟩
        · cases b
        · exact ⟨rs, rg, rfl, hrg, by rw [e1]; exact a, by rw [e2]; simpa using h, by rw [e1]; exact c'⟩
  · rintro ⟨rs, ha, hz⟩
    rw [ha]
    apply Bool.eq_false_iff.mpr
    intro h
    rw [List.any_eq_true] at h
    obtain ⟨o, ho, h⟩ := h
    simp only [offerAcceptable] at h
    cases hb : bestRange o rs none with
    | none => rw [hb] at h; cases h
    | some p =>
      obtain ⟨q, s⟩ := p
      rw [hb] at h
      obtain ⟨a, b, _, _⟩ := (bestRange_spec o rs none (by simp)).2 q s hb
      rcases b with b | ⟨rg, hrg, e1, e2⟩
      · cases b
      · have := hz o ho rg hrg (by rw [e1]; exact a)
        rw [e2] at this
        simp [this] at h

example : call ⟨fun _ => none, Ucd.ascii, fun _ _ _ => false⟩ (.accept [T "text/html"]) ⟨[], false, []⟩
    { method := [], upath := [], get := [], post := [], environ := [], accept := some [⟨T "text", T "*", 0⟩, ⟨T "text", T "html", 1000⟩],
      context := none, ifaces := [], matchdict := none, isAuth := false, principals := [] } = .ok (true, ⟨[], false, []⟩) := by rfl

/-- `resource_path_tuple`: the names from the root down, a `None` name read as `''`; an object without `__name__` in the
lineage is an AttributeError -/
theorem pathTuple_reading : ∀ (lin : List Node),
    pathTuple lin = if lin.all (fun n => n.name != .absent) then
      some (lin.reverse.map fun n => match n.name with | .text t => t | _ => []) else none
  | [] => rfl
  | n :: ns => by
    simp only [pathTuple, pathTuple_reading ns, List.all_cons, List.reverse_cons, List.map_append, List.map_cons, List.map_nil]
    cases hn : n.name with
    | absent => simp
    | none => by_cases h : (ns.all fun n => n.name != .absent) = true <;> simp [h]
    | text t => by_cases h : (ns.all fun n => n.name != .absent) = true <;> simp [h]

/-- PhysicalPathPredicate: the context has a `__name__` and the names from the root down are exactly the configured
tuple; a string value `'/a/b'` stands for `('', 'a', 'b')` (empty segments dropped) -/
theorem physpath_decision (E : Env) (v : List Text) (c : Ctx) (r : Req)
    (hnames : c.lineage.all (fun n => n.name != .absent) = true) :
    ∃ b, call E (.physPath v) c r = .ok (b, c) ∧
      (b = true ↔ c.lineage ≠ [] ∧ (c.lineage.reverse.map fun n => match n.name with | .text t => t | _ => []) = v) := by
  cases hl : c.lineage with
  | nil => exact ⟨false, by simp [call, hl], by simp⟩
  | cons n ns =>
    rw [hl] at hnames
    have hn : n.name ≠ .absent := by
      simp only [List.all_cons, Bool.and_eq_true] at hnames
      simpa using hnames.1
    have hp := pathTuple_reading (n :: ns)
    rw [hnames] at hp
    simp only [if_true] at hp
    refine ⟨_, by simp only [call, hl, hn, if_false, hp]; rfl, ?_⟩
    simp

/-- a context without `__name__` (a route info dict, a bare object) never has a physical path -/
theorem physpath_no_name (E : Env) (v : List Text) (c : Ctx) (r : Req)
    (h : c.lineage = [] ∨ ∃ n ns, c.lineage = n :: ns ∧ n.name = .absent) : call E (.physPath v) c r = .ok (false, c) := by
  rcases h with h | ⟨n, ns, h, hn⟩
  · simp [call, h]
  · simp [call, h, hn]

theorem physpath_string_value (s : Text) : mkPhysPath (.one s) = [] :: (splitAll '/' s).filter (· ≠ []) := rfl

example : mkPhysPath (.one (T "/a//b/")) = [[], T "a", T "b"] := by decide
example : mkPhysPath (.one (T "/")) = [[]] := by decide

/-- TraversePredicate is not a predicate: whenever it returns it says True; an info dict that already has `traverse` is
left alone; otherwise the matchdict gets `traverse` (a tuple of segments) and every other key keeps its value. -/
theorem traverse_always_true (E : Env) (pat : List TTok) (c c' : Ctx) (r : Req) (b : Bool)
    (h : call E (.traverse pat) c r = .ok (b, c')) :
    b = true ∧ (c.hasTraverse = true → c' = c) ∧
      (c.hasTraverse = false → (∃ segs, dictGet c'.match_ (T "traverse") = some (.segs segs)) ∧
        ∀ k, k ≠ T "traverse" → dictGet c'.match_ k = dictGet c.match_ k) := by
  simp only [call] at h
  by_cases ht : c.hasTraverse = true
  · simp only [ht, if_true] at h
    cases h
    exact ⟨rfl, fun _ => rfl, fun hf => by rw [ht] at hf; cases hf⟩
  · simp only [ht] at h
    cases hg : tgenerate c.match_ pat with
    | error e => rw [hg] at h; cases h
    | ok tv =>
      rw [hg] at h
      cases h
      refine ⟨rfl, fun hh => absurd hh ht, fun _ => ⟨⟨travPath [] (splitAll '/' tv), ?_⟩, ?_⟩⟩
      · simp [dictGet_dictSet]
      · intro k hk
        simp [dictGet_dictSet, hk]

/-- the phash text form of `not_(…)`: `'!' + phash`, except that an empty phash stays empty -/
theorem notted_phash (p : Pred) : phash (.notted p) = if phash p = [] then [] else '!' :: phash p := by
  simp only [phash, nottedText]
  cases phash p <;> simp

theorem notted_text (p : Pred) : text (.notted p) = if text p = [] then [] else '!' :: text p := by
  simp only [text, nottedText]
  cases text p <;> simp

/-- Notted(p) decides ¬p — when p has a phash; a phash-less pseudo-predicate (traverse) is passed through -/
theorem notted_decision (E : Env) (p : Pred) (c : Ctx) (r : Req) :
    call E (.notted p) c r = (call E p c r).map fun x => (if phash p = [] then x.1 else !x.1, x.2) := by
  simp only [call]
  cases call E p c r with
  | error e => rfl
  | ok x =>
    obtain ⟨b, c'⟩ := x
    simp only [Except.map, notted_phash]
    cases hp : phash p with
    | nil => simp [nottedText]
    | cons a as => simp [nottedText]

/-- for a real predicate (non-empty phash) Notted negates the decision and nothing else -/
theorem notted_negates (E : Env) (p : Pred) (c c' : Ctx) (r : Req) (b : Bool) (hp : phash p ≠ [])
    (h : call E p c r = .ok (b, c')) : call E (.notted p) c r = .ok (!b, c') := by
  rw [notted_decision, h]
  simp [Except.map, hp]

/-- Notted(Notted p) ≡ p on decisions (and effects, and errors) -/
theorem notted_notted (E : Env) (p : Pred) (c : Ctx) (r : Req) : call E (.notted (.notted p)) c r = call E p c r := by
  rw [notted_decision, notted_decision, notted_phash]
  cases call E p c r with
  | error e => rfl
  | ok x =>
    obtain ⟨b, c'⟩ := x
    simp only [Except.map]
    by_cases hp : phash p = []
    · simp [hp]
    · simp [hp]


/-! ## C. equal phash ⇒ equal decisions on every request (what conflict detection relies on) — and where it fails

The phash of a predicate is a text joined with `,` / `, ` / `=` and nothing is escaped.  The implication is proved for
values whose elements are non-empty and free of the joiner (`JoinFree`), and for `request_param` values whose required
value is not empty; outside these classes it is FALSE (decided witnesses below; findings F-X06a, F-X06b).  It is nowhere
an iff: different phashes may decide alike (`phash_not_iff_*`). -/

def E0 : Env := ⟨fun _ => none, Ucd.ascii, fun _ _ _ => false⟩
def ctx0 : Ctx := ⟨[], false, []⟩
def req0 : Req :=
  { method := T "GET", upath := T "/", get := [], post := [], environ := [], accept := none, context := none, ifaces := [],
    matchdict := none, isAuth := false, principals := [] }

theorem xhr_phash_iff (a b : Bool) : phash (.xhr a) = phash (.xhr b) ↔ a = b := by
  cases a <;> cases b <;> decide

/-- RequestMethodPredicate: equal phash ⇒ the same stored tuple ⇒ equal decisions -/
theorem method_phash_decides (E : Env) (v₁ v₂ : PVal) (h₁ : JoinFree ',' (elems v₁)) (h₂ : JoinFree ',' (elems v₂))
    (h : phash (.method (mkMethod v₁)) = phash (.method (mkMethod v₂))) :
    mkMethod v₁ = mkMethod v₂ ∧ ∀ c r, call E (.method (mkMethod v₁)) c r = call E (.method (mkMethod v₂)) c r := by
  have key : mkMethod v₁ = mkMethod v₂ := by
    simp only [phash, text] at h
    have h' := List.append_cancel_left h
    have jf : ∀ v, JoinFree ',' (elems v) → ∀ x ∈ mkMethod v, x ≠ [] ∧ ',' ∉ x := by
      intro v hv x hx
      rcases mem_mkMethod v x hx with hx | hx
      · exact hv x hx
      · rw [hx]; decide
    exact joinWith_inj ',' [] _ _ (jf v₁ h₁) (jf v₂ h₂) h'
  exact ⟨key, fun c r => by rw [key]⟩

/-- PathInfoPredicate: the phash is the regex text itself, so equal phash ⇒ the same predicate (full strength) -/
theorem pathinfo_phash_decides (E : Env) (t₁ t₂ : Text) (p₁ p₂ : Pred)
    (h₁ : construct E .pathInfo (.txt (.one t₁)) = .ok p₁) (h₂ : construct E .pathInfo (.txt (.one t₂)) = .ok p₂)
    (h : phash p₁ = phash p₂) : p₁ = p₂ := by
  simp only [construct] at h₁ h₂
  cases e₁ : E.re t₁ with
  | none => rw [e₁] at h₁; cases h₁
  | some r₁ =>
    cases e₂ : E.re t₂ with
    | none => rw [e₂] at h₂; cases h₂
    | some r₂ =>
      rw [e₁] at h₁; rw [e₂] at h₂
      cases h₁; cases h₂
      simp only [phash, text] at h
      have := List.append_cancel_left h
      subst this
      rw [e₁] at e₂; cases e₂; rfl

/-- RequestParamPredicate: on well-formed elements equal phash ⇒ the same (key, value) requirements ⇒ equal decisions -/
theorem reqparam_phash_decides (E : Env) (reqs₁ reqs₂ : List (Text × Option Text))
    (h₁ : ∀ kv ∈ reqs₁, ParamWF kv) (h₂ : ∀ kv ∈ reqs₂, ParamWF kv)
    (h : phash (.reqParam reqs₁) = phash (.reqParam reqs₂)) :
    reqs₁ = reqs₂ ∧ ∀ c r, call E (.reqParam reqs₁) c r = call E (.reqParam reqs₂) c r := by
  have key : reqs₁ = reqs₂ := by
    simp only [phash, text] at h
    have h' := List.append_cancel_left h
    have jf : ∀ reqs : List (Text × Option Text), (∀ kv ∈ reqs, ParamWF kv) → ∀ x ∈ reqs.map paramItem, x ≠ [] ∧ ',' ∉ x := by
      intro reqs hw x hx
      obtain ⟨kv, hkv, rfl⟩ := List.mem_map.mp hx
      obtain ⟨k, v⟩ := kv
      have w := hw _ hkv
      cases v with
      | none => exact ⟨w.1, w.2.1⟩
      | some t =>
        cases t with
        | nil => exact ⟨w.1, w.2.1⟩
        | cons y ys =>
          simp only [paramItem]
          refine ⟨by simp, ?_⟩
          have := (w.2.2.2 _ rfl).2
          simp only [List.mem_append, List.mem_cons, not_or] at this ⊢
          exact ⟨w.2.1, by decide, this.1, this.2⟩
    have := joinWith_inj ',' [] _ _ (jf reqs₁ h₁) (jf reqs₂ h₂) h'
    exact map_inj_on paramItem _ _ (fun a ha b hb => paramItem_inj a b (h₁ a ha) (h₂ b hb)) this
  exact ⟨key, fun c r => by rw [key]⟩

/-- F-X06a, decided: `'a='` (present AND empty) and `'a'` (present) have the same phash and decide differently on `?a=1` -/
theorem reqparam_empty_value_collision :
    let p₁ := Pred.reqParam ([T "a="].map parseParam)
    let p₂ := Pred.reqParam ([T "a"].map parseParam)
    let r := { req0 with get := [(T "a", T "1")] }
    phash p₁ = phash p₂ ∧ decides E0 p₁ ctx0 r = some false ∧ decides E0 p₂ ctx0 r = some true := by decide

/-- F-X06b, decided: one key `'a,b'` and the two keys `'a'`, `'b'` have the same phash and decide differently on `?a=1&b=2` -/
theorem reqparam_joiner_collision :
    let p₁ := Pred.reqParam ([T "a,b"].map parseParam)
    let p₂ := Pred.reqParam ([T "a", T "b"].map parseParam)
    let r := { req0 with get := [(T "a", T "1"), (T "b", T "2")] }
    phash p₁ = phash p₂ ∧ decides E0 p₁ ctx0 r = some false ∧ decides E0 p₂ ctx0 r = some true := by decide

/-- MatchParamPredicate -/
theorem matchparam_phash_decides (E : Env) (reqs₁ reqs₂ : List (Text × Text))
    (h₁ : ∀ kv ∈ reqs₁, MatchWF kv) (h₂ : ∀ kv ∈ reqs₂, MatchWF kv)
    (h : phash (.matchParam reqs₁) = phash (.matchParam reqs₂)) :
    reqs₁ = reqs₂ ∧ ∀ c r, call E (.matchParam reqs₁) c r = call E (.matchParam reqs₂) c r := by
  have key : reqs₁ = reqs₂ := by
    simp only [phash, text] at h
    have h' := List.append_cancel_left h
    have jf : ∀ reqs : List (Text × Text), (∀ kv ∈ reqs, MatchWF kv) →
        ∀ x ∈ reqs.map (fun kv => kv.1 ++ '=' :: kv.2), x ≠ [] ∧ ',' ∉ x := by
      intro reqs hw x hx
      obtain ⟨kv, hkv, rfl⟩ := List.mem_map.mp hx
      have w := hw _ hkv
      refine ⟨by simp, ?_⟩
      simp only [List.mem_append, List.mem_cons, not_or]
      exact ⟨w.2.1, by decide, w.2.2⟩
    have := joinWith_inj ',' [] _ _ (jf reqs₁ h₁) (jf reqs₂ h₂) h'
    refine map_inj_on _ _ _ (fun a ha b hb e => ?_) this
    have := append_cons_inj_of_not_mem (h₁ a ha).1 (h₂ b hb).1 e
    exact Prod.ext this.1 this.2
  exact ⟨key, fun c r => by rw [key]⟩

/-- AcceptPredicate -/
theorem accept_phash_decides (E : Env) (vs₁ vs₂ : List Text) (h₁ : JoinFree ',' vs₁) (h₂ : JoinFree ',' vs₂)
    (h : phash (.accept vs₁) = phash (.accept vs₂)) :
    vs₁ = vs₂ ∧ ∀ c r, call E (.accept vs₁) c r = call E (.accept vs₂) c r := by
  have key : vs₁ = vs₂ := by
    simp only [phash, text] at h
    exact joinWith_inj ',' [' '] _ _ h₁ h₂ (List.append_cancel_left h)
  exact ⟨key, fun c r => by rw [key]⟩

/-- HeaderPredicate -/
theorem header_phash_decides (E : Env) (vals₁ vals₂ : List (Text × Option (Text × Rx)))
    (h₁ : ∀ x ∈ vals₁, HeaderWF E x) (h₂ : ∀ x ∈ vals₂, HeaderWF E x)
    (h : phash (.header vals₁) = phash (.header vals₂)) :
    vals₁ = vals₂ ∧ ∀ c r, call E (.header vals₁) c r = call E (.header vals₂) c r := by
  have key : vals₁ = vals₂ := by
    simp only [phash, text] at h
    have h' := List.append_cancel_left h
    have jf : ∀ vals : List (Text × Option (Text × Rx)), (∀ x ∈ vals, HeaderWF E x) → ∀ x ∈ vals.map headerItem, x ≠ [] ∧ ',' ∉ x := by
      intro vals hw x hx
      obtain ⟨kv, hkv, rfl⟩ := List.mem_map.mp hx
      obtain ⟨k, v⟩ := kv
      have w := hw _ hkv
      cases v with
      | none => exact ⟨w.1, w.2.1⟩
      | some t =>
        obtain ⟨vs, rx⟩ := t
        cases vs with
        | nil => exact ⟨w.1, w.2.1⟩
        | cons y ys =>
          simp only [headerItem]
          refine ⟨by simp, ?_⟩
          have := (w.2.2.2 _ rx rfl).2.1
          simp only [List.mem_append, List.mem_cons, not_or] at this ⊢
          exact ⟨w.2.1, by decide, this.1, this.2⟩
    have := joinWith_inj ',' [' '] _ _ (jf vals₁ h₁) (jf vals₂ h₂) h'
    exact map_inj_on headerItem _ _ (fun a ha b hb => headerItem_inj E a b (h₁ a ha) (h₂ b hb)) this
  exact ⟨key, fun c r => by rw [key]⟩

/-- F-X06b, decided: the header named `A=x` and the header `A` matching `x` have the same phash -/
theorem header_eq_collision :
    let rx := Rx.chr 'x'
    let p₁ := Pred.header [(T "A=x", none)]
    let p₂ := Pred.header [(T "A", some (T "x", rx))]
    let r := { req0 with environ := [(T "HTTP_A", T "x")] }
    phash p₁ = phash p₂ ∧ decides E0 p₁ ctx0 r = some false ∧ decides E0 p₂ ctx0 r = some true := by decide

/-- IsAuthenticatedPredicate on `True` / `False` / `None` -/
theorem isauth_phash_bool (a b : Option Bool) (h : phash (.isAuth (match a with | some x => .bool x | none => .none))
      = phash (.isAuth (match b with | some x => .bool x | none => .none))) : a = b := by
  cases a with
  | none => cases b with
    | none => rfl
    | some y => cases y <;> revert h <;> decide
  | some x => cases b with
    | none => cases x <;> revert h <;> decide
    | some y => cases x <;> cases y <;> revert h <;> decide

/-- NOT an iff (1): `is_authenticated=1` and `=True` decide alike on every request, with different phashes -/
theorem phash_not_iff_isauth (E : Env) :
    phash (.isAuth (.int 1)) ≠ phash (.isAuth (.bool true)) ∧
    ∀ c r, call E (.isAuth (.int 1)) c r = call E (.isAuth (.bool true)) c r := by
  refine ⟨by decide, fun c r => ?_⟩
  simp only [call, AuthVal.eqBool]
  cases r.isAuth <;> rfl

/-- NOT an iff (2): `request_param=' a = 1 '` and `'a=1'` are the same predicate, and `('GET',)` is `('GET', 'HEAD')` -/
theorem phash_same_after_normalisation :
    parseParam (T " a = 1 ") = parseParam (T "a=1") ∧ mkMethod (.one GET) = mkMethod (.many [HEAD, GET]) := by decide

/-- the clause lifts through `not_`: Notted phashes are equal exactly when the inner ones are … -/
theorem notted_phash_iff (p q : Pred) : phash (.notted p) = phash (.notted q) ↔ phash p = phash q := by
  rw [notted_phash, notted_phash]
  by_cases hp : phash p = [] <;> by_cases hq : phash q = [] <;> simp [hp, hq]

/-- … and then the negated decisions are equal whenever the inner ones are -/
theorem notted_phash_decides (E : Env) (p q : Pred) (h : phash (.notted p) = phash (.notted q))
    (hpq : phash p = phash q → ∀ c r, call E p c r = call E q c r) :
    ∀ c r, call E (.notted p) c r = call E (.notted q) c r := by
  intro c r
  have e := (notted_phash_iff p q).mp h
  rw [notted_decision, notted_decision, hpq e c r, e]


/-! ## D. `PredicateList.make` -/

/-- The keyword ORDER does not matter: `make(**kw)` on a permutation of the same keyword dict gives the same order,
the same predicates in the same (registration) order, the same phash pre-image — or the same error. -/
theorem make_kw_order_independent (E : Env) (ord : List (Text × Factory)) (kw₁ kw₂ : Kw) (hp : kw₁.Perm kw₂)
    (hn : (keys kw₁).Nodup) : make E ord kw₁ = make E ord kw₂ := by
  have hn₂ : (keys kw₂).Nodup := (hp.map _).nodup_iff.mp hn
  have h := makeLoop_perm E ord 0 kw₁ kw₂ ⟨[], [], []⟩ hp hn
  unfold make
  cases h₁ : makeLoop E 0 ord kw₁ ⟨[], [], []⟩ with
  | error e =>
    cases h₂ : makeLoop E 0 ord kw₂ ⟨[], [], []⟩ with
    | error e' => rw [h₁, h₂] at h; simp only [Except.map] at h; cases h; rfl
    | ok x => rw [h₁, h₂] at h; simp [Except.map] at h
  | ok x =>
    obtain ⟨a, r₁⟩ := x
    cases h₂ : makeLoop E 0 ord kw₂ ⟨[], [], []⟩ with
    | error e' => rw [h₁, h₂] at h; simp [Except.map] at h
    | ok y =>
      obtain ⟨a', r₂⟩ := y
      rw [h₁, h₂] at h
      simp only [Except.map, Except.ok.injEq] at h
      subst h
      have e₁ := makeLoop_rest E ord 0 kw₁ _ a r₁ hn h₁
      have e₂ := makeLoop_rest E ord 0 kw₂ _ a r₂ hn₂ h₂
      have : r₁.isEmpty = r₂.isEmpty := by
        have hperm : r₁.Perm r₂ := by rw [e₁, e₂]; exact hp.filter _
        cases r₁ with
        | nil => rw [List.Perm.nil_eq hperm]
        | cons x xs =>
          cases r₂ with
          | nil => exact absurd hperm.symm.nil_eq (by simp)
          | cons y ys => rfl
      simp only [this]

/-- An unknown predicate name is refused: with a keyword no registered predicate claims, `make` never returns, and if
the factories themselves raise nothing the error is ConfigurationError (even when the keyword's value is None). -/
theorem make_unknown_name (E : Env) (ord : List (Text × Factory)) (kw : Kw) (hn : (keys kw).Nodup)
    (k : Text) (hk : k ∈ keys kw) (hu : k ∉ names ord) :
    (∀ m, make E ord kw ≠ .ok m) ∧
    (∀ a r, makeLoop E 0 ord kw ⟨[], [], []⟩ = .ok (a, r) → make E ord kw = .error .configError) := by
  have key : ∀ a r, makeLoop E 0 ord kw ⟨[], [], []⟩ = .ok (a, r) → r ≠ [] := by
    intro a r h
    have e := makeLoop_rest E ord 0 kw _ a r hn h
    obtain ⟨x, hx, rfl⟩ := List.mem_map.mp hk
    have : x ∈ r := by
      rw [e]
      apply List.mem_filter.mpr
      refine ⟨hx, ?_⟩
      simpa [List.contains_iff_mem] using hu
    intro hr; rw [hr] at this; cases this
  constructor
  · intro m hm
    obtain ⟨a, h, _⟩ := (make_ok_iff E ord kw m).mp hm
    exact key a [] h rfl
  · intro a r h
    have := key a r h
    unfold make
    rw [h]
    cases r with
    | nil => exact absurd rfl this
    | cons x xs => rfl

/-- … and when every keyword is a registered name (and no factory raises) `make` returns. -/
theorem make_known_names (E : Env) (ord : List (Text × Factory)) (kw : Kw) (hn : (keys kw).Nodup)
    (hk : ∀ k ∈ keys kw, k ∈ names ord) (a : Acc) (r : Kw) (h : makeLoop E 0 ord kw ⟨[], [], []⟩ = .ok (a, r)) :
    make E ord kw = .ok ⟨orderOf (score a.weights) a.preds.length, a.preds, a.pre⟩ := by
  have e := makeLoop_rest E ord 0 kw _ a r hn h
  have : r = [] := by
    rw [e]
    apply List.filter_eq_nil_iff.mpr
    intro x hx
    have := hk x.1 (List.mem_map.mpr ⟨x, hx, rfl⟩)
    simpa [List.contains_iff_mem] using this
  subst this
  exact (make_ok_iff E ord kw _).mpr ⟨a, h, rfl⟩

/-- The phash pre-image is the concatenation, in registration order, of the phashes of the predicates made (a
phash-less pseudo-predicate contributes nothing), every one of them latin-1. -/
theorem make_pre_is_concat (E : Env) (ord : List (Text × Factory)) (kw : Kw) (m : Made) (h : make E ord kw = .ok m) :
    m.pre = m.preds.flatMap phash := by
  obtain ⟨a, hl, rfl⟩ := (make_ok_iff E ord kw m).mp h
  exact (makeLoop_inv E ord.length ord 0 kw _ a [] (by simp) (accInv_init _) hl).pre

/-- The phash is sensitive to EACH value: changing one predicate's phash (all others kept) changes the pre-image. -/
theorem pre_sensitive (l r : List Pred) (p p' : Pred) (h : phash p ≠ phash p') :
    (l ++ p :: r).flatMap phash ≠ (l ++ p' :: r).flatMap phash := by
  simp only [List.flatMap_append, List.flatMap_cons]
  intro e
  exact h (List.append_cancel_right (List.append_cancel_left e))

/-- … but two changes at once can cancel: the pre-image has no separators (F-X06b, decided: `path_info='/x'` +
`request_param='y'` against `path_info='/xrequest_param y'`). -/
theorem pre_concatenation_collision :
    let l₁ := [Pred.pathInfo (T "/x") .eps, Pred.reqParam [(T "y", none)]]
    let l₂ := [Pred.pathInfo (T "/xrequest_param y") .eps]
    l₁.map phash ≠ l₂.map phash ∧ l₁.flatMap phash = l₂.flatMap phash := by decide

/-- `order = (MAX_ORDER - score) // (len(preds) + 1)` where the score ORs one bit `1 << n + 1` per predicate, `n` its
position in the registration order: exposed for the two theorems below -/
theorem make_order_formula (E : Env) (ord : List (Text × Factory)) (kw : Kw) (m : Made) (h : make E ord kw = .ok m) :
    ∃ ws : List Nat, ws.length = m.preds.length ∧ (∀ w ∈ ws, w < 2 ^ (ord.length + 1)) ∧
      m.order = orderOf (score ws) m.preds.length := by
  obtain ⟨a, hl, rfl⟩ := (make_ok_iff E ord kw m).mp h
  have inv := makeLoop_inv E ord.length ord 0 kw _ a [] (by simp) (accInv_init _) hl
  exact ⟨a.weights, inv.len, inv.bound, rfl⟩

/-- MORE predicates ⇒ a STRICTLY smaller order (tried earlier) — whatever the predicates are, as long as
`(2^(N+1) + k + 1)·(k + 2) ≤ 2^30` for `N` registered predicate names and `k` the smaller count.  For pyramid's 13 view
predicates that is every `k ≤ 24 000`. -/
theorem make_more_predicates_smaller_order (E : Env) (ord : List (Text × Factory)) (kw kw' : Kw) (m m' : Made)
    (h : make E ord kw = .ok m) (h' : make E ord kw' = .ok m') (hlen : m.preds.length < m'.preds.length)
    (hb : (2 ^ (ord.length + 1) + m.preds.length + 1) * (m.preds.length + 2) ≤ 2 ^ 30) : m'.order < m.order := by
  obtain ⟨ws, _, hw, ho⟩ := make_order_formula E ord kw m h
  obtain ⟨ws', _, hw', ho'⟩ := make_order_formula E ord kw' m' h'
  have s1 := score_lt _ ws hw
  have s2 := score_lt _ ws' hw'
  have hN : 2 ^ (ord.length + 1) ≤ 2 ^ 30 := by
    have : (2 ^ (ord.length + 1) + m.preds.length + 1) * 1 ≤ (2 ^ (ord.length + 1) + m.preds.length + 1) * (m.preds.length + 2) :=
      Nat.mul_le_mul_left _ (by omega)
    omega
  rw [ho, ho', orderOf_nat _ _ (by omega), orderOf_nat _ _ (by omega)]
  exact Int.ofNat_lt.mpr (order_nat_lt (2 ^ 30) (2 ^ (ord.length + 1)) (score ws) (score ws') _ _ hlen (by omega) hb)

example : (2 ^ (13 + 1) + 24000 + 1) * (24000 + 2) ≤ 2 ^ 30 := by decide

/-- Beyond the bound the claim of the source comment ("views with more predicates are always evaluated before views
with fewer") is false: with 29 registered names one predicate at the last position outranks two at the first. -/
theorem order_not_monotone_beyond_bound : orderOf (2 ^ 29) 1 < orderOf (2 ^ 1 ||| 2 ^ 2) 2 := by decide

/-- The order is a function of WHICH predicate names are given (and how many values each has): the values themselves,
negation, and the keyword order play no part. -/
theorem make_order_depends_on_names_only (E : Env) (ord : List (Text × Factory)) (kw₁ kw₂ : Kw) (m₁ m₂ : Made)
    (hn₁ : (keys kw₁).Nodup) (hn₂ : (keys kw₂).Nodup) (hs : ∀ name, shape (kwGet name kw₁) = shape (kwGet name kw₂))
    (h₁ : make E ord kw₁ = .ok m₁) (h₂ : make E ord kw₂ = .ok m₂) : m₁.order = m₂.order := by
  obtain ⟨a₁, hl₁, rfl⟩ := (make_ok_iff E ord kw₁ m₁).mp h₁
  obtain ⟨a₂, hl₂, rfl⟩ := (make_ok_iff E ord kw₂ m₂).mp h₂
  have hw := makeLoop_weights_shape E ord 0 kw₁ kw₂ _ _ a₁ a₂ [] [] hn₁ hn₂ hs rfl hl₁ hl₂
  have i₁ := makeLoop_inv E ord.length ord 0 kw₁ _ a₁ [] (by simp) (accInv_init _) hl₁
  have i₂ := makeLoop_inv E ord.length ord 0 kw₂ _ a₂ [] (by simp) (accInv_init _) hl₂
  simp only
  rw [hw, ← i₁.len, ← i₂.len, hw]

/-- … and the score part depends only on the SET of weights (one bit per predicate NAME given): repeated values under one
name (`custom_predicates`) add to the count, not to the score. -/
theorem score_set_only (ws ws' : List Nat) (h : ∀ x, x ∈ ws ↔ x ∈ ws') : score ws = score ws' := score_congr h

example : score [4, 4, 4, 2] = score [2, 4] := by decide

/-! ## E. evaluating a predicate list = conjunction in registration order with short-circuit -/

/-- an earlier False ends the evaluation: the answer, the context and the number of calls (1) do not depend on what
follows, i.e. no later predicate is called -/
theorem evalAll_short_circuit (E : Env) (p : Pred) (ps ps' : List Pred) (c c' : Ctx) (r : Req)
    (h : call E p c r = .ok (false, c')) :
    evalAll E (p :: ps) c r = .ok (false, c', 1) ∧ evalAll E (p :: ps) c r = evalAll E (p :: ps') c r := by
  simp [evalAll, h]

/-- after a True the rest is evaluated on the context the predicate left (a traverse pseudo-predicate rewrites it) -/
theorem evalAll_continue (E : Env) (p : Pred) (ps : List Pred) (c c' : Ctx) (r : Req) (h : call E p c r = .ok (true, c')) :
    evalAll E (p :: ps) c r = (evalAll E ps c' r).map fun x => (x.1, x.2.1, x.2.2 + 1) := by
  simp only [evalAll, h]
  cases evalAll E ps c' r with
  | error e => rfl
  | ok x => obtain ⟨b, c'', k⟩ := x; rfl

/-- the answer of one predicate on an unchanging context -/
def ans (E : Env) (c : Ctx) (r : Req) (p : Pred) : Bool :=
  match call E p c r with
  | .ok (b, _) => b
  | .error _ => false

/-- For predicates that leave the context alone (all but traverse) and raise nothing: the list answers the conjunction,
and calls exactly the predicates up to and including the first False (all of them when there is none). -/
theorem evalAll_conjunction (E : Env) (c : Ctx) (r : Req) : ∀ (ps : List Pred),
    (∀ p ∈ ps, ∃ b, call E p c r = .ok (b, c)) →
    evalAll E ps c r = .ok (ps.all (ans E c r), c, callsOf (ps.map (ans E c r)))
  | [], _ => rfl
  | p :: ps, h => by
    obtain ⟨b, hb⟩ := h p List.mem_cons_self
    have ih := evalAll_conjunction E c r ps (fun q hq => h q (List.mem_cons_of_mem _ hq))
    have ha : ans E c r p = b := by simp [ans, hb]
    cases b with
    | false => simp [evalAll, hb, ha, callsOf]
    | true => simp [evalAll, hb, ha, callsOf, ih]

/-- the number of calls: everything when the answer is True, the prefix of Trues plus one otherwise -/
theorem evalAll_calls (E : Env) (c : Ctx) (r : Req) (ps : List Pred) (h : ∀ p ∈ ps, ∃ b, call E p c r = .ok (b, c))
    (b : Bool) (c' : Ctx) (k : Nat) (he : evalAll E ps c r = .ok (b, c', k)) :
    k ≤ ps.length ∧ (b = true → k = ps.length) ∧ (b = false → k = ((ps.map (ans E c r)).takeWhile id).length + 1) := by
  rw [evalAll_conjunction E c r ps h] at he
  simp only [Except.ok.injEq, Prod.mk.injEq] at he
  obtain ⟨rfl, _, rfl⟩ := he
  have hall : (ps.map (ans E c r)).all id = ps.all (ans E c r) := by simp [List.all_map]
  refine ⟨by simpa using callsOf_le (ps.map (ans E c r)), ?_, ?_⟩
  · intro hb
    have := callsOf_all (ps.map (ans E c r)) (by rw [hall]; exact hb)
    simpa using this
  · intro hb
    exact callsOf_takeWhile _ (by rw [hall]; exact hb)

/-- a counting custom predicate after a False one is never called; after a True one it is -/
example : evalAll ⟨fun _ => none, Ucd.ascii, fun i _ _ => i == 1⟩ [.custom ⟨0, [], 0⟩, .custom ⟨0, [], 1⟩] ctx0 req0 = .ok (false, ctx0, 1) := by rfl
example : evalAll ⟨fun _ => none, Ucd.ascii, fun i _ _ => i == 1⟩ [.custom ⟨0, [], 1⟩, .custom ⟨0, [], 0⟩] ctx0 req0 = .ok (false, ctx0, 2) := by rfl


/-! ## F. generated obligations: the probe tables of `extract/x06.py` (made by RUNNING the classes of the tree under
test) equal what the model computes — whole tables, `decide` -/

/-- the custom callables of the probes: const True, const False, method == GET, is_xhr -/
def genFns : Nat → Ctx → Req → Bool
  | 0, _, _ => true
  | 1, _, _ => false
  | 2, _, r => r.method == T "GET"
  | 3, _, r => isXhr r
  | _, _, _ => false

/-- the environment of the probes: `re.compile` is the probe's regex library -/
def genE : Env := ⟨fun t => (Gen.rxTable.find? (·.1 == t)).map (·.2), Ucd.ascii, genFns⟩

def textRow (row : Nat × Nat × Option (Text × Text)) : Bool :=
  match Gen.valTable[row.1]? with
  | none => false
  | some (f, v) =>
    match construct genE f v, row.2.2 with
    | .ok p, some (t, h) => text (nest row.2.1 p) == t && phash (nest row.2.1 p) == h
    | .error _, none => true
    | _, _ => false

def decCode : Option Bool → Nat
  | some false => 0
  | some true => 1
  | none => 2

def decRow (n : Nat) : Bool :=
  let d := n % 3
  let qi := n / 3 % 16
  let ci := n / 48 % 16
  let k := n / 768 % 3
  let vi := n / 2304
  match Gen.valTable[vi]?, Gen.ctxs[ci]?, Gen.reqs[qi]? with
  | some (f, v), some c, some r =>
    match construct genE f v with
    | .ok p => decCode (decides genE (nest k p) c r) == d
    | .error _ => false
  | _, _, _ => false

def travRow (row : Val × Nat × Bool × Dict × Dict) : Bool :=
  match construct genE .traverse row.1 with
  | .ok p =>
    match call genE (nest row.2.1 p) ⟨[], row.2.2.1, row.2.2.2.1⟩ req0 with
    | .ok (b, c) => b && c.match_ == row.2.2.2.2
    | .error _ => false
  | .error _ => false

def makeRow (row : List (Text × Factory) × Kw × Option (Int × Text)) : Bool :=
  match make genE row.1 row.2.1, row.2.2 with
  | .ok m, some (o, pre) => m.order == o && m.pre == pre
  | .error _, none => true
  | _, _ => false

def evalRow (row : List Bool × Nat × Bool × List Nat) : Bool :=
  let E : Env := ⟨fun _ => none, Ucd.ascii, fun i _ _ => row.1.getD i false⟩
  match evalAll E [.custom ⟨0, [], 0⟩, .custom ⟨1, [], 1⟩, .custom ⟨2, [], 2⟩] ctx0 req0 with
  | .ok (b, _, k) => b == row.2.2.1 && List.range k == row.2.2.2
  | .error _ => false

theorem gen_probe_trusted : Gen.probeStatus = T "ok" := by decide

theorem gen_space : Gen.spaceCodes = spaceCodes := by decide

theorem gen_parse : Gen.parseTable.length ≥ 20 ∧ Gen.parseTable.all (fun row => parseParam row.1 == (row.2.1, row.2.2)) = true := by
  decide +kernel

theorem gen_sorted : Gen.sortedTable.length ≥ 5 ∧ Gen.sortedTable.all (fun row => sortT row.1 == row.2) = true := by decide +kernel

/-- every regex of the probe library is printed exactly as the text that was compiled, and lies in the fragment -/
theorem gen_rx_printed : Gen.rxTable.length ≥ 5 ∧ Gen.rxTable.all (fun row => Rx.print row.2 == row.1 && Rx.ok row.2) = true := by
  decide +kernel

/-- `text()` and `phash()` of every probed value under 0, 1, 2 `not_` wrappers; constructor errors agree -/
theorem gen_texts : Gen.textTable.length ≥ 200 ∧ Gen.textTable.all textRow = true := by decide +kernel

/-- the decision of every probed predicate on the request × context cube -/
theorem gen_decisions : Gen.decisionRows ≥ 3000 ∧ (Gen.decisionChunks.map List.length).sum = Gen.decisionRows ∧
    Gen.decisionChunks.all (·.all decRow) = true := by decide +kernel

theorem gen_traverse : Gen.traverseTable.length ≥ 16 ∧ Gen.traverseTable.all travRow = true := by decide +kernel

/-- `PredicateList.make`: order and phash pre-image (the probe has checked sha256(pre-image) = phash), errors agree -/
theorem gen_make : Gen.makeTable.length ≥ 12 ∧ Gen.makeTable.all makeRow = true := by decide +kernel

/-- pyramid's default registration orders (what the weights of view and route predicates are) -/
theorem gen_orders :
    Gen.viewOrder = [T "xhr", T "request_method", T "path_info", T "request_param", T "header", T "accept", T "containment",
      T "request_type", T "match_param", T "physical_path", T "is_authenticated", T "effective_principals", T "custom"] ∧
    Gen.routeOrder = [T "xhr", T "request_method", T "path_info", T "request_param", T "header", T "accept", T "is_authenticated",
      T "effective_principals", T "custom", T "traverse"] := by decide +kernel

/-- the three callers (view wrapper, RoutesMapper, subscriber wrapper) evaluate with short-circuit, in order -/
theorem gen_eval : Gen.evalTable.length = 24 ∧ Gen.evalTable.all evalRow = true := by decide +kernel

theorem gen_constants : Gen.maxOrder = MAX_ORDER ∧ Gen.defaultPhashOk = true := by decide


end Pyr.Pred
