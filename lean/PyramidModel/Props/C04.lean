import PyramidModel.Lemmas.ActionsSort
import PyramidModel.Lemmas.ActionsRun
import PyramidModel.Lemmas.ActionsConfig
/-!
# C04 — commit resolves configuration conflicts by include depth, or reports them

Property theorems only.  Model: `Actions.lean` (`resolveConflicts` as a resumable generator, the
re-entrant `execute_actions` loop); declarative specification: `ActionsSpec.lean`; helper lemmas:
`Lemmas/Actions*.lean`.

Vocabulary: `StrictPrefix p q` — include path `p` is a proper initial segment of `q`;
`Heads g d w` — every action of `g` with discriminator `d` other than `w` lies strictly below `w`;
`settled log g d` — `d` is uncontested in phase group `g` given the executed actions `log`;
`contested log g` — the discriminators of `g` that are not settled; `groupRuns log g` — the actions of
`g` that run (no discriminator, or the winner of a discriminator that has not run), in declaration order;
`specRun` — phases in increasing order, each either contested (stop, naming exactly the contested
discriminators) or run.  All statements hold for programs of any size, any include paths, any phases.
-/
namespace Pyr.Actions

/-! ## one phase group, arbitrary history (covers static and re-entrant resolution alike) -/

/-- Soundness of a conflict-free verdict: when the resolver accepts a phase group (given any set of
already executed actions), no discriminator of the group is contested, exactly `groupRuns` is
emitted — every action without discriminator and, for each discriminator that has not run yet, the
one action whose include path is a strict prefix of all others', in declaration order — and the
actions it forgets are exactly the others of the group. -/
theorem group_accept_sound (log g : List Act) (hn : IdsNodup g) (out : List Act) (ov : List Nat)
    (h : resolveGroup log g = .ok (out, ov)) :
    contested log g = [] ∧ out = groupRuns log g ∧
      ∀ i, i ∈ ov ↔ ∃ x ∈ g, x.id = i ∧ x ∉ groupRuns log g :=
  resolveGroup_ok hn h

/-- What "emitted" means, spelled out: an action of the group is emitted iff it has no
discriminator, or its discriminator has not been executed before and every other action of the
group with that discriminator lies strictly below it in the include tree. -/
theorem emitted_iff (log g : List Act) (a : Act) :
    a ∈ groupRuns log g ↔
      a ∈ g ∧ (a.key = none ∨ ∃ d, a.key = some d ∧ prevOf log d = none ∧
        ∀ x ∈ g, x.key = some d → x.id = a.id ∨ StrictPrefix a.path x.path) := by
  rw [groupRuns_mem]
  constructor
  · rintro ⟨ha, h | ⟨d, hk, hp, hw⟩⟩
    · exact ⟨ha, Or.inl h⟩
    · exact ⟨ha, Or.inr ⟨d, hk, hp, fun x hx hxk => (isWinner_iff hk).mp hw x (mem_withKey.mpr ⟨hx, hxk⟩)⟩⟩
  · rintro ⟨ha, h | ⟨d, hk, hp, hw⟩⟩
    · exact ⟨ha, Or.inl h⟩
    · exact ⟨ha, Or.inr ⟨d, hk, hp, (isWinner_iff hk).mpr (fun x hx => hw x (mem_withKey.mp hx).1 (mem_withKey.mp hx).2)⟩⟩

/-- What "contested" means, spelled out. -/
theorem contested_iff (log g : List Act) (d : Nat) :
    d ∈ contested log g ↔
      (∃ x ∈ g, x.key = some d) ∧
      (match prevOf log d with
       | some p => ¬ ∀ x ∈ g, x.key = some d → StrictPrefix p.path x.path
       | none => ¬ ∃ w ∈ g, w.key = some d ∧ ∀ x ∈ g, x.key = some d → x.id = w.id ∨ StrictPrefix w.path x.path) := by
  simp only [contested, List.mem_filter, Bool.not_eq_true']
  have h1 : d ∈ discsOf g ↔ ∃ x ∈ g, x.key = some d := by
    rw [mem_discsOf]
    constructor
    · intro h
      obtain ⟨a, as, hG⟩ := exists_cons_of_ne_nil h
      have : a ∈ withKey g d := by rw [hG]; simp
      exact ⟨a, (mem_withKey.mp this).1, (mem_withKey.mp this).2⟩
    · rintro ⟨x, hx, hk⟩ e
      have : x ∈ withKey g d := mem_withKey.mpr ⟨hx, hk⟩
      rw [e] at this; cases this
  rw [h1]
  apply and_congr_right
  intro _
  cases hp : prevOf log d with
  | some p =>
    simp only
    rw [← Bool.not_eq_true, settled_some hp]
    constructor
    · intro h h'; exact h (fun x hx => h' x (mem_withKey.mp hx).1 (mem_withKey.mp hx).2)
    · intro h h'; exact h (fun x hx hk => h' x (mem_withKey.mpr ⟨hx, hk⟩))
  | none =>
    simp only
    rw [← Bool.not_eq_true, settled_none hp]
    constructor
    · rintro h ⟨w, hw, hk, hh⟩
      exact h ⟨w, mem_withKey.mpr ⟨hw, hk⟩, fun x hx => hh x (mem_withKey.mp hx).1 (mem_withKey.mp hx).2⟩
    · rintro h ⟨w, hw, hh⟩
      exact h ⟨w, (mem_withKey.mp hw).1, (mem_withKey.mp hw).2, fun x hx hk => hh x (mem_withKey.mpr ⟨hx, hk⟩)⟩

/-- A conflict error names at least every contested discriminator, and nothing is emitted. -/
theorem group_conflict_names_contested (log g : List Act) (hn : IdsNodup g) (ks : List Nat)
    (h : resolveGroup log g = .error ks) : ks ≠ [] ∧ ∀ d ∈ contested log g, d ∈ ks :=
  ⟨(resolveGroup_error hn h).1, (resolveGroup_error hn h).2.2.1⟩

/-- `group_conflict_exact` — FULL: for every phase group and every history, a conflict error names
*exactly* the contested discriminators (`contested_iff` spells them out), in first-occurrence order. -/
theorem group_conflict_exact (log g : List Act) (hn : IdsNodup g)
    (ks : List Nat) (h : resolveGroup log g = .error ks) : ks = contested log g :=
  (resolveGroup_error hn h).2.2.2

/-- `group_uncontested_accepted` — FULL: a group without contested discriminators is accepted, and emits
`groupRuns`.  Together with `group_accept_sound`: accepted ⇔ nothing contested. -/
theorem group_uncontested_accepted (log g : List Act) (hn : IdsNodup g)
    (hc : contested log g = []) : ∃ ov, resolveGroup log g = .ok (groupRuns log g, ov) :=
  resolveGroup_ok_of_uncontested hn hc

/-- Regression witness of the repaired defect F-C04b "late siblings" (d8099dc; replayed on the real code by
the harness, corpus/C04/f_c04b_*.json).  Discriminator 1 was executed from include path `[1]`; two later
actions carry it from `[1,2]` and `[1,3]`.  Both lie strictly below the executed action, so the
discriminator is settled: model and specification discard both silently — in a later phase, and when they
are appended by an executing action of the same phase.  (Before the repair `rest` was compared with the
group's first action and the resolver answered `conflict [1]`; `group_conflict_exact` and
`group_uncontested_accepted` were false at this point and carried a hypothesis excluding it.) -/
theorem late_siblings_discarded :
    let log : List Act := [⟨0, .val 1, 0, [1]⟩]
    let g : List Act := [⟨1, .val 1, 10, [1, 2]⟩, ⟨2, .val 1, 10, [1, 3]⟩]
    let kids : Nat → List Act := fun i => if i = 0 then [⟨1, .val 1, 0, [1, 2]⟩, ⟨2, .val 1, 0, [1, 3]⟩, ⟨3, .none, 0, []⟩] else []
    contested log g = [] ∧ (resolveGroup log g).toOption = some ([], [1, 2]) ∧
      run noKids 4 (log ++ g) = (.ok, [0]) ∧ specRun (log ++ g) = (.ok, [0]) ∧
      run kids 4 log = (.ok, [0, 3]) := by
  refine ⟨by decide, by decide, by decide, by decide, by decide⟩

/-! ## clash with an action that has already run (earlier phase, or earlier in a re-entrant commit) -/

/-- An action whose discriminator has already been executed never runs, whatever else is in its group. -/
theorem reentrant_clash_never_runs (log g : List Act) (hn : IdsNodup g) (x p : Act) (d : Nat)
    (hk : x.key = some d) (hp : prevOf log d = some p) (out : List Act) (ov : List Nat)
    (h : resolveGroup log g = .ok (out, ov)) : x ∉ out := by
  rw [(resolveGroup_ok hn h).2.1]
  intro hx
  rcases (groupRuns_mem.mp hx).2 with h' | ⟨d', hk', hp', _⟩
  · rw [hk] at h'; cases h'
  · rw [hk] at hk'; cases hk'; rw [hp] at hp'; cases hp'

/-- … it is dropped silently only if the executed action's include path is a strict prefix of its
own; otherwise a conflict naming that discriminator is raised. -/
theorem reentrant_clash_conflict (log g : List Act) (hn : IdsNodup g) (x p : Act) (d : Nat)
    (hx : x ∈ g) (hk : x.key = some d) (hp : prevOf log d = some p)
    (hns : ¬ StrictPrefix p.path x.path) : ∃ ks, resolveGroup log g = .error ks ∧ d ∈ ks := by
  have hc : d ∈ contested log g := by
    rw [contested_iff]
    refine ⟨⟨x, hx, hk⟩, ?_⟩
    rw [hp]
    exact fun h => hns (h x hx hk)
  cases h : resolveGroup log g with
  | error ks => exact ⟨ks, rfl, (resolveGroup_error hn h).2.2.1 d hc⟩
  | ok r =>
    obtain ⟨out, ov⟩ := r
    rw [(resolveGroup_ok hn h).1] at hc; cases hc

/-- … and if the executed action is a strict prefix and the group is accepted, the action is among
the forgotten ones (it is removed from the remaining actions and never seen again). -/
theorem reentrant_clash_dropped (log g : List Act) (hn : IdsNodup g) (x p : Act) (d : Nat)
    (hx : x ∈ g) (hk : x.key = some d) (hp : prevOf log d = some p) (out : List Act) (ov : List Nat)
    (h : resolveGroup log g = .ok (out, ov)) : x.id ∈ ov ∧ StrictPrefix p.path x.path := by
  have hnr : x ∉ groupRuns log g := by
    have := reentrant_clash_never_runs log g hn x p d hk hp out ov h
    rwa [(resolveGroup_ok hn h).2.1] at this
  refine ⟨((resolveGroup_ok hn h).2.2 x.id).mpr ⟨x, hx, rfl, hnr⟩, ?_⟩
  apply Classical.byContradiction
  intro hns
  obtain ⟨ks, he, _⟩ := reentrant_clash_conflict log g hn x p d hx hk hp hns
  rw [h] at he; cases he

/-! ## whole commits without re-entrancy -/

/-- `static_resolution_phases` — FULL.  For every program whose actions add nothing and carry plain
discriminators, with distinct ids (any number of actions, phases, include paths), the commit is the phase
specification: phases in increasing order; the first phase with contested discriminators stops the
commit with a conflict naming exactly those; every earlier phase ran exactly its `groupRuns` (the
actions without discriminator and the winners of discriminators not executed in an earlier phase, in
declaration order) and silently discarded the rest. -/
theorem static_resolution_phases (top : List Act) (hn : IdsNodup top) (hp : Plain top)
    (fuel : Nat) (hf : top.length < fuel) : run noKids fuel top = specRun top :=
  run_static top hn hp fuel hf

/-- all actions in one phase -/
def SinglePhase (top : List Act) (c : Int) : Prop := ∀ a ∈ top, a.order = c

instance (top : List Act) (c : Int) : Decidable (SinglePhase top c) := by unfold SinglePhase; exact inferInstance

/-- `w` wins discriminator `d` in `top`: its include path is a strict prefix of the include path of
every other action with `d`. -/
def Wins (top : List Act) (d : Nat) (w : Act) : Prop :=
  w ∈ top ∧ w.key = some d ∧ ∀ x ∈ top, x.key = some d → x.id = w.id ∨ StrictPrefix w.path x.path

theorem specRun_singlePhase {top : List Act} {c : Int} (h : SinglePhase top c) :
    specRun top = match contested [] top with
      | [] => (.ok, (groupRuns [] top).map (·.id))
      | k :: ks => (.conflict (k :: ks), []) := by
  cases top with
  | nil => rfl
  | cons a as =>
    have hmin : minOrd (a :: as) = some c := by
      obtain ⟨o, ho⟩ := minOrd_isSome_of_mem (l := a :: as) (a := a) (by simp)
      obtain ⟨⟨y, hy, hyo⟩, _⟩ := minOrd_spec ho
      rw [ho, ← hyo, h y hy]
    have hall : atOrd c (a :: as) = a :: as := by
      rw [atOrd, List.filter_eq_self]; intro x hx; simp [h x hx]
    have hnone : (a :: as).filter (fun x => x.order != c) = [] := by
      rw [List.filter_eq_nil_iff]; intro x hx; simp [h x hx]
    simp only [specRun, List.length_cons]
    rw [specPhases_succ, hmin]
    simp only [hall, hnone]
    cases contested [] (a :: as) with
    | nil => simp [specPhases_succ, minOrd]
    | cons k ks => rfl

/-- `static_resolution`, one phase — FULL.  For every single-phase program without re-entrancy
(any number of actions, any include paths):
* the commit succeeds iff every discriminator has a winner;
* then exactly the actions without discriminator and the winners run, each once, in declaration order;
* otherwise nothing runs and the conflict names exactly the discriminators without a winner. -/
theorem static_resolution (top : List Act) (c : Int) (hn : IdsNodup top) (hp : Plain top)
    (hs : SinglePhase top c) (fuel : Nat) (hf : top.length < fuel) :
    ((run noKids fuel top).1 = .ok ↔ ∀ d, (∃ x ∈ top, x.key = some d) → ∃ w, Wins top d w) ∧
    ((run noKids fuel top).1 = .ok →
        (run noKids fuel top).2 = (top.filter (fun a => a.key.isNone || isWinner top a)).map (·.id)) ∧
    (∀ a ∈ top, ∀ d, a.key = some d → (isWinner top a = true ↔ Wins top d a)) ∧
    (∀ ks, (run noKids fuel top).1 = .conflict ks →
        (run noKids fuel top).2 = [] ∧ ∀ d, d ∈ ks ↔ ((∃ x ∈ top, x.key = some d) ∧ ¬ ∃ w, Wins top d w)) := by
  rw [run_static top hn hp fuel hf, specRun_singlePhase hs]
  have hcont : ∀ d, d ∈ contested [] top ↔ ((∃ x ∈ top, x.key = some d) ∧ ¬ ∃ w, Wins top d w) := by
    intro d
    rw [contested_iff]
    simp only [prevOf, List.find?_nil, Wins]
  have hwin : ∀ a ∈ top, ∀ d, a.key = some d → (isWinner top a = true ↔ Wins top d a) := by
    intro a ha d hk
    rw [isWinner_iff hk]
    constructor
    · intro h; exact ⟨ha, hk, fun x hx hxk => h x (mem_withKey.mpr ⟨hx, hxk⟩)⟩
    · intro h x hx; exact h.2.2 x (mem_withKey.mp hx).1 (mem_withKey.mp hx).2
  have hruns : groupRuns [] top = top.filter (fun a => a.key.isNone || isWinner top a) := by
    simp only [groupRuns]
    apply List.filter_congr
    intro a _
    cases hk : a.key <;> simp [prevOf]
  cases hc : contested [] top with
  | nil =>
    refine ⟨⟨fun _ d hd => ?_, fun _ => rfl⟩, (fun _ => by rw [hruns]), hwin, (fun ks h => by cases h)⟩
    apply Classical.byContradiction
    intro hno
    have := (hcont d).mpr ⟨hd, hno⟩
    rw [hc] at this; cases this
  | cons k ks =>
    refine ⟨⟨(fun h => by cases h), fun h => ?_⟩, (fun h => by cases h), hwin, fun ks' h => ?_⟩
    · exfalso
      have hk : k ∈ contested [] top := by rw [hc]; simp
      obtain ⟨hd, hno⟩ := (hcont k).mp hk
      exact hno (h k hd)
    · simp only [Outcome.conflict.injEq] at h
      subst h
      refine ⟨rfl, fun d => ?_⟩
      rw [← hc]; exact hcont d

/-- `conflict_free_is_sorted` — FULL.  With pairwise distinct discriminators (and no re-entrancy) the
commit executes every action, sorted by (phase, declaration index), whatever the include paths:
`phaseSort` is a permutation of the program (`phaseSort_perm`), non-decreasing in phase
(`phaseSort_sorted`) and keeps the declaration order inside every phase (`phaseSort_stable`).
Used by C08 and C20. -/
theorem conflict_free_is_sorted (top : List Act) (hn : IdsNodup top) (hp : Plain top) (hd : DistinctKeys top)
    (fuel : Nat) (hf : top.length < fuel) :
    run noKids fuel top = (.ok, (phaseSort top).map (·.id)) := by
  rw [run_static top hn hp fuel hf]
  simp only [specRun]
  rw [specPhases_conflict_free _ [] top (by simpa using hd) (by simpa using hn) (Nat.lt_succ_self _)]
  simp [phaseSort]

/-- `order_thm` for commits without re-entrancy — FULL: whatever the outcome, the executed sequence is
non-decreasing in phase, within a phase it is in declaration order (it is a sub-list of the
declaration list), and no action runs twice. -/
theorem order_thm_static (top : List Act) :
    ∀ (n : Nat) (L R : List Act), R.Sublist top → IdsNodup top →
      (∀ x ∈ L, ∀ y ∈ R, x.order < y.order) → L.reverse.Pairwise (fun a b => a.order ≤ b.order) →
      (∀ o, (atOrd o L.reverse).Sublist top) →
      let E := (specPhases n L R).2.reverse
      E.Pairwise (fun a b => a.order ≤ b.order) ∧ ∀ o, (atOrd o E).Sublist top := by
  intro n
  induction n with
  | zero => intro L R _ _ _ hs hsub; exact ⟨hs, hsub⟩
  | succ n ih =>
    intro L R hR hn hlt hs hsub
    rw [specPhases_succ]
    cases ho : minOrd R with
    | none => exact ⟨hs, hsub⟩
    | some o =>
      simp only
      obtain ⟨⟨y, hy, hyo⟩, hmin⟩ := minOrd_spec ho
      cases hc : contested L (atOrd o R) with
      | cons k ks => exact ⟨hs, hsub⟩
      | nil =>
        simp only
        have hrsub : (groupRuns L (atOrd o R)).Sublist (atOrd o R) := List.filter_sublist
        have hro : ∀ x ∈ groupRuns L (atOrd o R), x.order = o := fun x hx => (mem_atOrd.mp (groupRuns_sub hx)).2
        apply ih
        · exact (List.filter_sublist).trans hR
        · exact hn
        · intro x hx y' hy'
          have hy'' := List.mem_filter.mp hy'
          have h1 := hmin y' hy''.1
          have h2 : y'.order ≠ o := by simpa using hy''.2
          rcases List.mem_append.mp hx with hx | hx
          · rw [hro x (List.mem_reverse.mp hx)]; omega
          · exact hlt x hx y' hy''.1
        · rw [List.reverse_append, List.reverse_reverse, List.pairwise_append]
          refine ⟨hs, ?_, ?_⟩
          · apply List.Pairwise.imp_of_mem (R := fun _ _ => True)
            · intro a b ha hb _; rw [hro a ha, hro b hb]; exact Int.le_refl _
            · exact List.pairwise_of_forall (fun _ _ => trivial)
          · intro a ha b hb
            rw [hro b hb, ← hyo]
            exact Int.le_of_lt (hlt a (List.mem_reverse.mp ha) y hy)
        · intro o'
          rw [List.reverse_append, List.reverse_reverse]
          show (List.filter (fun a => a.order == o') (L.reverse ++ groupRuns L (atOrd o R))).Sublist top
          rw [List.filter_append]
          by_cases e : o' = o
          · subst e
            have : List.filter (fun a => a.order == o') L.reverse = [] := by
              rw [List.filter_eq_nil_iff]; intro a ha
              have := hlt a (List.mem_reverse.mp ha) y hy
              simp only [beq_iff_eq]; omega
            rw [this, List.nil_append]
            exact (List.filter_sublist).trans (hrsub.trans ((List.filter_sublist).trans hR))
          · have : List.filter (fun a => a.order == o') (groupRuns L (atOrd o R)) = [] := by
              rw [List.filter_eq_nil_iff]; intro a ha
              simp only [beq_iff_eq, hro a ha]; exact fun h => e h.symm
            rw [this, List.append_nil]
            exact hsub o'

/-! ## refusal of phase regressions -/

/-- `phase_regression_refused` — FULL.  Whenever the execution has reached phase `m` (`min_order`) and
the actions just appended (`pending ≠ []`, so a fresh resolution starts) leave an unexecuted action
of a lower phase, the next step of the commit does not run anything: it refuses with the lowest such
phase `o ≤ x.order < m`.  Holds for every state, every `kids`. -/
theorem phase_regression_refused (kids : Nat → List Act) (f : Nat) (st : St) (m : Int) (x : Act)
    (hp : st.pending ≠ []) (hm : st.minOrder = some m) (hx : x ∈ st.remaining ++ st.pending)
    (hlt : x.order < m) :
    ∃ o, o ≤ x.order ∧ (exec kids (f + 1) st).1 = .regress o m ∧ (exec kids (f + 1) st).2.log = st.log := by
  have habs : absorb st = { st with remaining := st.remaining ++ st.pending, pending := [], queue := [] } := by
    unfold absorb
    cases hpe : st.pending with
    | nil => exact absurd hpe hp
    | cons a as => rfl
  obtain ⟨o, ho⟩ := minOrd_isSome_of_mem hx
  obtain ⟨_, hmin⟩ := minOrd_spec ho
  have hox := hmin x hx
  refine ⟨o, hox, ?_⟩
  have hlt' : o < m := by omega
  simp only [exec, habs, next, advance_succ, ho, hm, regressAt, hlt', if_true]
  trivial

/-! ## re-entrant commits: actions that append actions while they execute (any `kids`, thunks allowed) -/

/-- `order_thm`, phases — FULL, for every program, every function `kids` (what each action appends when it
runs), every discriminator kind and every fuel: whatever the outcome, the executed actions ran in
non-decreasing phase order.  (Declaration order inside a phase: `order_thm_static` for commits without
re-entrancy; for re-entrant commits it is checked on the implementation by the harness oracle only.) -/
theorem order_thm (kids : Nat → List Act) (top : List Act) (fuel : Nat) :
    (exec kids fuel (initSt top)).2.log.reverse.Pairwise (fun a b => a.order ≤ b.order) := by
  obtain ⟨st, hr, hlog, _⟩ := exec_reachable (kids := kids) (top := top) fuel (initSt top) Reachable.init
  rw [hlog, List.pairwise_reverse]
  exact hr.oinv.sorted

/-- `no_spurious_refusal` — FULL: in every state the commit of any program can reach, a refusal
("actions were added to order=o after execution had moved on to order=m") happens only if one of the
actions appended by the action that has just run (`pending`) has phase `o`, below the phase `m` reached.
In particular actions that were overridden earlier never cause it (the defect F-C04a, repaired in
/repo by forgetting overridden actions, made this theorem false). -/
theorem no_spurious_refusal (kids : Nat → List Act) (top : List Act) (st st' : St) (o m : Int)
    (hr : Reachable kids top st) (h : next (absorb st) = (.regress o m, st')) :
    st.minOrder = some m ∧ o < m ∧ ∃ x ∈ st.pending, x.order = o := by
  have hinv := hr.oinv
  unfold absorb at h
  cases hp : st.pending with
  | nil =>
    rw [hp] at h
    simp only at h
    unfold next at h
    cases hq : st.queue with
    | cons b q => rw [hq] at h; simp [yieldHead] at h
    | nil =>
      rw [hq] at h
      obtain ⟨h1, h2, x, hx, hxo⟩ := advance_regress _ _ _ _ _ h
      have := hinv.remGe m h1 x hx
      omega
  | cons p ps =>
    rw [hp] at h
    simp only at h
    unfold next at h
    simp only at h
    obtain ⟨h1, h2, x, hx, hxo⟩ := advance_regress _ _ _ _ _ h
    simp only at h1 hx
    refine ⟨h1, h2, ?_⟩
    rcases List.mem_append.mp hx with hx | hx
    · have := hinv.remGe m h1 x hx
      omega
    · exact ⟨x, hx, hxo⟩

/-! ### whole-run invariants of re-entrant commits

Standing assumption of this block: the actions declared during the commit carry pairwise distinct ids,
`IdsNodup (declared kids top L)` with `declared kids top L` = the top-level actions followed by what each
executed action appended, in execution order.  It is a decidable condition on the result of a run, and
holds for every run of a program that is statically well-formed (`wf_declares_distinct_ids`). -/

/-- A program whose top-level actions and appended actions all carry different ids (`WFProg`: ids of `top`
distinct, ids of each `kids i` distinct, disjoint from `top` and from every other `kids j`) never declares an
id twice, in any state its commit can reach. -/
theorem wf_declares_distinct_ids (kids : Nat → List Act) (top : List Act) (hw : WFProg kids top) (st : St)
    (hr : Reachable kids top st) : IdsNodup (declared kids top st.log) :=
  hr.wf hw

/-- `one_action_per_discriminator` — FULL, re-entrant: whatever the outcome, whatever actions append while
executing (thunk discriminators included), no action ran twice and no two executed actions carry the same
discriminator — across phases, generator restarts and queue leftovers alike. -/
theorem one_action_per_discriminator (kids : Nat → List Act) (top : List Act) (fuel : Nat)
    (hn : IdsNodup (declared kids top (exec kids fuel (initSt top)).2.log)) :
    IdsNodup (exec kids fuel (initSt top)).2.log ∧
    ∀ a ∈ (exec kids fuel (initSt top)).2.log, ∀ b ∈ (exec kids fuel (initSt top)).2.log, ∀ d,
      a.key = some d → b.key = some d → a = b := by
  obtain ⟨st, hr, hlog, _⟩ := exec_reachable (kids := kids) (top := top) fuel (initSt top) Reachable.init
  rw [hlog] at hn ⊢
  have hI := (hr.rinv hn).1
  exact ⟨hI.logNodup, fun a ha b hb d hda hdb => keys_unique hI.logKeys ha hb hda hdb⟩

/-- `order_thm`, declaration order — FULL, re-entrant: the executed sequence is non-decreasing in phase and,
inside every phase, the executed actions ran in the order in which they were declared (their ids form a
sub-sequence of the ids of the declared actions of that phase, appended actions counting as declared when
their parent ran); every executed action is a declared one (same id, phase, include path; discriminator as
declared or the thunk's value). -/
theorem order_thm_reentrant (kids : Nat → List Act) (top : List Act) (fuel : Nat)
    (hn : IdsNodup (declared kids top (exec kids fuel (initSt top)).2.log)) :
    (exec kids fuel (initSt top)).2.log.reverse.Pairwise (fun a b => a.order ≤ b.order) ∧
    (∀ o, (ordIds o (exec kids fuel (initSt top)).2.log.reverse).Sublist
        (ordIds o (declared kids top (exec kids fuel (initSt top)).2.log))) ∧
    ∀ a ∈ (exec kids fuel (initSt top)).2.log, ∃ x ∈ declared kids top (exec kids fuel (initSt top)).2.log, Orig x a := by
  refine ⟨order_thm kids top fuel, ?_⟩
  obtain ⟨st, hr, hlog, _⟩ := exec_reachable (kids := kids) (top := top) fuel (initSt top) Reachable.init
  rw [hlog] at hn ⊢
  have hI := (hr.rinv hn).1
  refine ⟨fun o => ?_, fun a ha => hI.orig a (Or.inl ha)⟩
  exact ((List.sublist_append_left _ _).trans (List.sublist_append_left _ _)).trans (hI.ord o)

/-- `discarded_is_dominated`, any reachable state — FULL: every action declared so far has been executed, or
is still waiting, or lies strictly below (include path) an executed or still waiting action whose
discriminator is its own (for a thunk: one of its two values). -/
theorem discarded_is_dominated_any_state (kids : Nat → List Act) (top : List Act) (st : St)
    (hr : Reachable kids top st) (hn : IdsNodup (declared kids top st.log)) :
    ∀ x ∈ declared kids top st.log,
      (∃ r, (r ∈ st.log ∨ r ∈ st.remaining ∨ r ∈ st.pending) ∧ r.id = x.id) ∨
      ∃ p, (p ∈ st.log ∨ p ∈ st.remaining) ∧ ∃ d, p.key = some d ∧ StrictPrefix p.path x.path ∧
        ∃ done, (x.disc.eval done).key = some d :=
  (hr.rinv hn).1.dom

/-- `discarded_is_dominated` — FULL, re-entrant, for commits that end normally: every declared action was
executed, or it lies strictly below an *executed* action with its discriminator and was silently
discarded; in particular every action without discriminator ran, and with `one_action_per_discriminator`
exactly one action ran for every discriminator that was declared. -/
theorem discarded_is_dominated (kids : Nat → List Act) (top : List Act) (fuel : Nat)
    (hok : (exec kids fuel (initSt top)).1 = .ok)
    (hn : IdsNodup (declared kids top (exec kids fuel (initSt top)).2.log)) :
    ∀ x ∈ declared kids top (exec kids fuel (initSt top)).2.log,
      ((∃ a ∈ (exec kids fuel (initSt top)).2.log, a.id = x.id) ∨
        ∃ p ∈ (exec kids fuel (initSt top)).2.log, ∃ d, p.key = some d ∧ StrictPrefix p.path x.path ∧
          ∃ done, (x.disc.eval done).key = some d) ∧
      (x.disc = .none → ∃ a ∈ (exec kids fuel (initSt top)).2.log, a.id = x.id) := by
  obtain ⟨st, hr, hdone⟩ := exec_ok fuel (initSt top) Reachable.init hok
  generalize (exec kids fuel (initSt top)).2 = stF at hdone hn ⊢
  have hlog : stF.log = st.log := by
    have := next_log st
    rw [hdone] at this; exact this
  rw [hlog] at hn
  obtain ⟨hI, hrem, hpend, _⟩ := next_done hn (hr.rinv hn) hdone
  rw [hlog]
  intro x hx
  have key : (∃ a ∈ st.log, a.id = x.id) ∨ ∃ p ∈ st.log, ∃ d, p.key = some d ∧ StrictPrefix p.path x.path ∧
      ∃ done, (x.disc.eval done).key = some d := by
    rcases hI.dom x hx with ⟨r, hr', hrx⟩ | ⟨p, hp, rest⟩
    · rcases hr' with h | h | h
      · exact Or.inl ⟨r, hlog ▸ h, hrx⟩
      · rw [hrem] at h; cases h
      · rw [hpend] at h; cases h
    · rcases hp with h | h
      · exact Or.inr ⟨p, hlog ▸ h, rest⟩
      · rw [hrem] at h; cases h
  refine ⟨key, fun hnone => ?_⟩
  rcases key with h | ⟨p, _, d, _, _, done, hd⟩
  · exact h
  · rw [hnone] at hd; cases hd

/-- `fuel_suffices` — FULL relative to its bound: if at most `N` actions are ever declared during the commit
(and their ids are distinct), `N + 1` turns of the `execute_actions` loop suffice, and the resolver's own
iteration bound is never hit: the model's outcome is never `fuel`.  (The driver runs with
`fuel = number of nodes of the case + 1`.) -/
theorem fuel_suffices (kids : Nat → List Act) (top : List Act) (N : Nat)
    (hb : ∀ st, Reachable kids top st →
      IdsNodup (declared kids top st.log) ∧ (declared kids top st.log).length ≤ N) :
    (exec kids (N + 1) (initSt top)).1 ≠ .fuel :=
  exec_fuel N hb (N + 1) (initSt top) Reachable.init (by simp [initSt])

/-- F-C04a, the regression witness for `no_spurious_refusal` (corpus/C04/f_c04a_*.json; the unrepaired
code answered `regress 0 10` here): an overridden action in phase 0, then a phase-10 action that
appends another phase-10 action. -/
theorem overridden_action_does_not_linger :
    let kids : Nat → List Act := fun i => if i = 4 then [⟨5, .none, 10, []⟩] else []
    run kids 7 [⟨0, .val 1, 0, []⟩, ⟨1, .val 1, 0, [5]⟩, ⟨2, .none, 0, []⟩, ⟨4, .none, 10, []⟩] = (.ok, [0, 2, 4, 5]) := by
  decide

/-! ## non-vacuity -/

/-- a two-phase program with an override, a contested discriminator in the second phase -/
example :
    let top : List Act := [⟨0, .val 1, 0, []⟩, ⟨1, .val 1, 0, [5]⟩, ⟨2, .none, 0, [5]⟩,
                           ⟨3, .val 2, 10, [5]⟩, ⟨4, .val 2, 10, [6]⟩]
    IdsNodup top ∧ Plain top ∧ run noKids 6 top = (.conflict [2], [0, 2]) ∧
      specRun top = (.conflict [2], [0, 2]) := by
  exact ⟨by decide, by decide, by decide, by decide⟩

/-- single phase: an override chain, an action without discriminator, all accepted -/
example :
    let top : List Act := [⟨0, .val 1, 0, [1, 2]⟩, ⟨1, .none, 0, [1]⟩, ⟨2, .val 1, 0, [1]⟩, ⟨3, .val 1, 0, [1, 2, 3]⟩]
    IdsNodup top ∧ Plain top ∧ SinglePhase top 0 ∧ Wins top 1 ⟨2, .val 1, 0, [1]⟩ ∧
      run noKids 5 top = (.ok, [1, 2]) := by
  refine ⟨by decide, by decide, by decide, ⟨by decide, by decide, by decide⟩, by decide⟩

/-- pairwise distinct discriminators over three phases: everything runs, sorted by (phase, index) -/
example :
    let top : List Act := [⟨0, .val 1, 10, [1]⟩, ⟨1, .none, 0, []⟩, ⟨2, .val 2, -10, [7]⟩, ⟨3, .none, 10, []⟩, ⟨4, .val 3, 0, [1]⟩]
    IdsNodup top ∧ Plain top ∧ DistinctKeys top ∧ run noKids 6 top = (.ok, [2, 1, 4, 0, 3]) := by
  refine ⟨by decide, by decide, by decide, by decide⟩

/-- the hypotheses of the whole-run theorems on a re-entrant program with a thunk: action 1 appends action 2
(same discriminator as the executed action 0, deeper: discarded), action 3 (thunk that evaluates to the same
discriminator because 0 ran: discarded) and action 4 (no discriminator: runs).  The declared ids are
distinct, the commit ends normally, the executed sequence is `[0, 1, 4]`; the program is statically
well-formed and declares at most `2 + 3` actions, so fuel 6 suffices. -/
example :
    let kids : Nat → List Act := fun i =>
      if i = 1 then [⟨2, .val 1, 0, [3]⟩, ⟨3, .deferred 0 (some 1) none, 0, [4]⟩, ⟨4, .none, 0, []⟩] else []
    let top : List Act := [⟨0, .val 1, 0, []⟩, ⟨1, .none, 0, []⟩]
    exec kids 6 (initSt top) = (.ok, { log := [⟨4, .none, 0, []⟩, ⟨1, .none, 0, []⟩, ⟨0, .val 1, 0, []⟩], minOrder := some 0 }) ∧
    IdsNodup (declared kids top (exec kids 6 (initSt top)).2.log) ∧
    (declared kids top (exec kids 6 (initSt top)).2.log).map (·.id) = [0, 1, 2, 3, 4] ∧
    WFProg kids top ∧
    (∀ st, Reachable kids top st →
      IdsNodup (declared kids top st.log) ∧ (declared kids top st.log).length ≤ 5) := by
  intro kids top
  have hw : WFProg kids top := by
    refine ⟨by decide, ?_, ?_, ?_⟩
    · intro i
      by_cases e : i = 1
      · subst e; decide
      · simp only [kids, e, if_false]; decide
    · intro i k hk t ht
      by_cases e : i = 1
      · subst e
        simp only [kids, if_true, List.mem_cons, List.not_mem_nil, or_false] at hk
        simp only [top, List.mem_cons, List.not_mem_nil, or_false] at ht
        rcases hk with rfl | rfl | rfl <;> rcases ht with rfl | rfl <;> decide
      · simp [kids, e] at hk
    · intro i j hij k hk k' hk'
      by_cases e : i = 1
      · have e' : j ≠ 1 := fun h => hij (e.trans h.symm)
        simp [kids, e'] at hk'
      · simp [kids, e] at hk
  refine ⟨by decide, by decide, by decide, hw, ?_⟩
  intro st hr
  exact single_parent_bound (i0 := 1) hw (fun i hi => by simp [kids, hi]) st hr

/-- the hypotheses of `phase_regression_refused`: action 0 (phase 10) appends action 1 (phase 0) -/
example :
    let kids : Nat → List Act := fun i => if i = 0 then [⟨1, .none, 0, []⟩] else []
    run kids 5 [⟨0, .none, 10, []⟩] = (.regress 0 10, [0]) := by decide

/-- re-entrant clash: action 0 runs with discriminator 1 from the root, then appends a deeper action
with the same discriminator (dropped silently) and an equally deep one (conflict) -/
example :
    let kids1 : Nat → List Act := fun i => if i = 2 then [⟨1, .val 1, 0, [4]⟩] else []
    let kids2 : Nat → List Act := fun i => if i = 2 then [⟨1, .val 1, 0, []⟩] else []
    let top : List Act := [⟨0, .val 1, 0, []⟩, ⟨2, .none, 0, []⟩]
    run kids1 5 top = (.ok, [0, 2]) ∧ run kids2 5 top = (.conflict [1], [0, 2]) := by decide

/-! ## when a `Deferred` discriminator is called -/

/-- `thunk_evaluated_when_group_resolved` — FULL, step level: resolving the group of phase `o` calls exactly the
thunks of the actions of phase `o`, each with the ids of the actions executed so far (`st.log`): every action
the group emits is a waiting action of phase `o` whose discriminator was replaced by `eval (ids of st.log)`
(a no-op for plain and already evaluated discriminators, `eval_eval`), and the waiting actions of every other
phase keep their discriminator untouched. -/
theorem thunk_evaluated_when_group_resolved (o : Int) (st st1 : St) (out : List Act)
    (h : groupStep o st = .ok (out, st1)) :
    (∀ a ∈ out, ∃ y ∈ st.remaining, y.order = o ∧ a = { y with disc := y.disc.eval (st.log.map (·.id)) }) ∧
    (∀ r ∈ st1.remaining, r.order ≠ o → r ∈ st.remaining) := by
  simp only [groupStep] at h
  split at h
  · cases h
  · rename_i out' ov hr
    simp only [Except.ok.injEq, Prod.mk.injEq] at h
    obtain ⟨rfl, rfl⟩ := h
    constructor
    · intro a ha
      have hg := resolveGroup_out_sub hr a ha
      obtain ⟨hrem, hao⟩ := List.mem_filter.mp hg
      obtain ⟨y, hy, rfl⟩ := mem_undeferAt.mp hrem
      have hyo : y.order = o := by simpa [udf_order] using hao
      refine ⟨y, hy, hyo, ?_⟩
      simp [udf, hyo]
    · intro r hr' hne
      obtain ⟨y, hy, rfl⟩ := mem_undeferAt.mp (mem_of_filter hr')
      have : y.order ≠ o := by simpa [udf_order] using hne
      have hu : udf (st.log.map (·.id)) o y = y := by simp [udf, this]
      rw [hu]; exact hy

/-- `thunk_timing` — FULL, reachable states: at the moment an action `a` is handed out for execution — hence
at or after the moment its phase group was resolved and its thunk called — every action executed so far
belongs to a phase `≤ a.order`, no waiting action belongs to a lower phase, and (`phase_regression_refused`)
none can be added later: all earlier phases are complete.  Together with the step-level theorem: a thunk is
called when its phase is reached, with the log of the completed earlier phases (and of the part of its own
phase executed before the resolution).  NOT proved as one whole-run statement: which resolution of the group
(the first) fixes the value for an action that waits in the queue across generator restarts (`eval_eval`
makes later calls no-ops); the correspondence test observes the evaluation points `(len(log), value)`. -/
theorem thunk_timing (kids : Nat → List Act) (top : List Act) (st st' : St) (a : Act)
    (hr : Reachable kids top st) (h : next (absorb st) = (.yielded a, st')) :
    (∀ b ∈ st.log, b.order ≤ a.order) ∧ (∀ x ∈ st'.remaining, a.order ≤ x.order) := by
  have hstep := (Reachable.step hr h).oinv
  have hlog : st'.log = st.log := by
    have := next_log st
    rw [h] at this; exact this
  constructor
  · intro b hb
    have := hstep.sorted
    simp only [List.pairwise_cons] at this
    exact this.1 b (hlog ▸ hb)
  · intro x hx
    exact hstep.remGe a.order hstep.minIsHead x hx

/-! ## the Configurator layer: `Configurator.action` / `include` / `commit` (model `ActionsConfig.lean`)

A configuration program is a tree of statements `declare` (a `config.action` whose callable runs further
statements on the same configurator), `include spec` (the included callable runs its statements on the nested
configurator) and `commit`.  `treeDecls {} p` is the purely syntactic reading: every `declare` statement with the
include specs (and route prefixes) on the way from the root to the callable that contains it. -/

/-- `include_paths_are_tree_paths` — FULL, any program, any nesting depth, any number of commits, re-includes,
callables that declare and include while a commit runs: every action ever declared carries as include path
exactly the chain of include specs from the root to its declaring callable (and was declared under exactly
that chain of route prefixes); so do the actions still pending and everything declared during a commit. -/
theorem include_paths_are_tree_paths (p : Stmts) :
    (∀ d ∈ (runProgram p).core.declared, d ∈ treeDecls {} p) ∧
    (∀ a ∈ (runProgram p).core.actions, ∃ d ∈ treeDecls {} p, d.id = a.id ∧ d.path = a.path) ∧
    (∀ r ∈ (runProgram p).commits, ∀ e ∈ r.trace, ∀ a ∈ e.2, ∃ d ∈ treeDecls {} p, d.id = a.id ∧ d.path = a.path) := by
  have h := runStmts_inv (treeDecls {} p) {} p {} (fun e he => he)
    ⟨⟨fun cl h => (by cases h), fun d h => (by cases h), fun a h => (by cases h)⟩, fun r h => (by cases h)⟩
  exact ⟨h.1.decl, h.1.acts, h.2⟩

/-- what the syntactic reading says at a concrete three-level nesting: the action declared inside
`include 7 (include 8 (include 9 …))` carries `[7, 8, 9]`, the one its callable declares when it runs too; a
re-included spec (the second `include 7`) contributes nothing. -/
example :
    let p : Stmts := .cons (.include 7 (some 1) (.cons (.include 8 none (.cons (.include 9 (some 2)
        (.cons (.declare 0 (.val 1) 0 (.cons (.declare 1 .none 0 .nil) .nil)) .nil)) .nil)) .nil))
      (.cons (.include 7 none (.cons (.declare 2 .none 0 .nil) .nil)) (.cons .commit .nil))
    treeDecls {} p = [⟨0, [7, 8, 9], [1, 2]⟩, ⟨1, [7, 8, 9], [1, 2]⟩, ⟨2, [7], []⟩] ∧
    (runProgram p).core.declared = [⟨0, [7, 8, 9], [1, 2]⟩, ⟨1, [7, 8, 9], [1, 2]⟩] ∧
    (runProgram p).commits.map (fun r => (r.outcome, r.log.map (·.id))) = [(.ok, [0, 1])] := by
  refine ⟨by decide, by decide, by decide⟩

/-- `reinclude_is_noop` — FULL (`processSpec`): an `include` of a spec that was processed already does nothing,
whatever its body and route prefix; and after an `include spec` every later `include spec` — on any
configurator, after any further commit-free statements — is such a no-op. -/
theorem reinclude_is_noop (c c1 c2 : Cfg) (spec : Nat) (rp rp' : Option Nat) (body body' : Stmts) (q : Stmts) (k : Core) :
    (spec ∈ k.seen → walkStmt c (.include spec rp body) k = k) ∧
    walkStmt c2 (.include spec rp' body') (walkStmts c1 q (walkStmt c (.include spec rp body) k)) =
      walkStmts c1 q (walkStmt c (.include spec rp body) k) := by
  have h1 : ∀ k' : Core, spec ∈ k'.seen → ∀ c' r b, walkStmt c' (.include spec r b) k' = k' := by
    intro k' h c' r b
    simp only [walkStmt, List.contains_iff_mem.mpr h, if_true]
  exact ⟨fun h => h1 k h c rp body, h1 _ (walkStmts_seen c1 q _ spec (include_marks c spec rp body k)) c2 rp' body'⟩

/-- `commit_sequence` — FULL: running `p; commit; q` is running `p`, then the commit, then `q` on what the
commit leaves — and a commit leaves *nothing* but its result: no pending action, no processed spec, no
callable, and (the resolver state being created inside `execute_actions`) no memory of what was executed.
So the commits of a program are independent batches run one after another; a commit that raises ends the
program. -/
theorem commit_sequence (c : Cfg) (p q : Stmts) (w : World) (h : (runStmts c p w).aborted = false) :
    runStmts c (p.append (.cons .commit q)) w = runStmts c q (runStmt c .commit (runStmts c p w)) ∧
    (runStmt c .commit (runStmts c p w)).core.seen = [] ∧
    (runStmt c .commit (runStmts c p w)).core.actions = [] ∧
    (runStmt c .commit (runStmts c p w)).core.closures = [] ∧
    (runStmt c .commit (runStmts c p w)).commits = (runStmts c p w).commits ++ [(commitCore (runStmts c p w).core).1] ∧
    ((commitCore (runStmts c p w).core).1.outcome ≠ .ok →
      runStmts c (p.append (.cons .commit q)) w = runStmt c .commit (runStmts c p w)) := by
  have h0 : runStmts c (p.append (.cons .commit q)) w = runStmts c q (runStmt c .commit (runStmts c p w)) := by
    rw [runStmts_append]
    simp only [runStmts, h, Bool.false_eq_true, if_false]
  refine ⟨h0, rfl, rfl, rfl, rfl, ?_⟩
  intro hne
  rw [h0]
  apply runStmts_aborted
  simp only [runStmt]
  simpa using hne

/-- `config_commit_is_exec` — FULL: what `Configurator.commit` does to the pending actions `k.actions` is
`exec K` from a fresh resolver state (`initSt`), where `K i` = the actions the callable of `i` declared while
it ran (read off the commit's trace) — provided no action id was executed twice.  Hence every theorem about
`exec` for arbitrary `kids` above applies to what a Configurator produces. -/
theorem config_commit_is_exec (k : Core) (hn : ((commitCore k).1.trace.map (·.1)).Nodup) :
    (exec (kidsOf (commitCore k).1.trace) (closuresSize k.closures + 1) (initSt k.actions)).1 = (commitCore k).1.outcome ∧
    (exec (kidsOf (commitCore k).1.trace) (closuresSize k.closures + 1) (initSt k.actions)).2.log.reverse = (commitCore k).1.log := by
  have := execW_eq_exec (closuresSize k.closures + 1) (initSt k.actions) { k with actions := [] } [] hn
  simp only [commitCore]
  rw [this]
  exact ⟨rfl, rfl⟩

/-- corollary (composition with `one_action_per_discriminator` and `order_thm_reentrant`): in a commit of a
Configurator program in which the declared action ids are distinct, no action runs twice, at most one action
runs per discriminator, phases never decrease and inside a phase the actions run in declaration order. -/
theorem config_commit_invariants (k : Core) (hn : ((commitCore k).1.trace.map (·.1)).Nodup)
    (hd : IdsNodup (declared (kidsOf (commitCore k).1.trace) k.actions (commitCore k).1.log.reverse)) :
    IdsNodup (commitCore k).1.log ∧
    (∀ a ∈ (commitCore k).1.log, ∀ b ∈ (commitCore k).1.log, ∀ d, a.key = some d → b.key = some d → a = b) ∧
    (commitCore k).1.log.Pairwise (fun a b => a.order ≤ b.order) ∧
    ∀ o, (ordIds o (commitCore k).1.log).Sublist
      (ordIds o (declared (kidsOf (commitCore k).1.trace) k.actions (commitCore k).1.log.reverse)) := by
  obtain ⟨_, hlog⟩ := config_commit_is_exec k hn
  have hlog' : (exec (kidsOf (commitCore k).1.trace) (closuresSize k.closures + 1) (initSt k.actions)).2.log =
      (commitCore k).1.log.reverse := by rw [← hlog, List.reverse_reverse]
  have h1 := one_action_per_discriminator (kidsOf (commitCore k).1.trace) k.actions (closuresSize k.closures + 1)
    (by rw [hlog']; exact hd)
  have h2 := order_thm_reentrant (kidsOf (commitCore k).1.trace) k.actions (closuresSize k.closures + 1)
    (by rw [hlog']; exact hd)
  rw [hlog'] at h1 h2
  simp only [List.reverse_reverse] at h2
  refine ⟨?_, ?_, h2.1, h2.2.1⟩
  · have := h1.1
    unfold IdsNodup at this ⊢
    rw [List.map_reverse] at this
    exact (List.reverse_perm _).nodup_iff.mp this
  · intro a ha b hb d hda hdb
    exact h1.2 a (List.mem_reverse.mpr ha) b (List.mem_reverse.mpr hb) d hda hdb

/-- corollary (composition with `static_resolution_phases`): when no pending callable declares anything, the
commit of a Configurator program is the declarative phase specification of its pending actions. -/
theorem config_commit_static (k : Core) (hb : ∀ cl ∈ k.closures, cl.body = .nil) (hn : IdsNodup k.actions)
    (hp : Plain k.actions) (hl : k.actions.length ≤ closuresSize k.closures) :
    ((commitCore k).1.outcome, (commitCore k).1.log.map (·.id)) = specRun k.actions := by
  have hst := execW_static (closuresSize k.closures + 1) (initSt k.actions) { k with actions := [] } [] hb rfl
    (fun e he => by cases he)
  have := execW_eq_exec_of (closuresSize k.closures + 1) (initSt k.actions) { k with actions := [] } [] noKids
    (fun e he => by rw [hst e he]; rfl)
  rw [← static_resolution_phases k.actions hn hp (closuresSize k.closures + 1) (by omega)]
  simp only [run, commitCore, this]

/-- the hypotheses of the three bridge theorems on a concrete program: two includes declare the same
discriminator at different depths (the shallower one wins), the winner's callable declares a further action
through a nested include while the commit runs; the first commit's trace has distinct ids, the declared ids are
distinct; a second batch after the commit re-includes spec 5 (processed again: the first commit forgot it). -/
example :
    let p : Stmts :=
      .cons (.include 5 none (.cons (.declare 0 (.val 1) 0 (.cons (.include 6 none (.cons (.declare 3 .none 0 .nil) .nil)) .nil)) .nil))
      (.cons (.include 5 none (.cons (.declare 9 .none 0 .nil) .nil))
      (.cons (.include 4 none (.cons (.include 6 none (.cons (.declare 1 (.val 1) 0 .nil) .nil)) .nil))
      (.cons (.declare 2 .none 10 .nil) .nil)))
    let k := (runStmts {} p {}).core
    k.actions.map (fun a => (a.id, a.path)) = [(0, [5]), (1, [4, 6]), (2, [])] ∧
    ((commitCore k).1.outcome, (commitCore k).1.log.map (·.id)) = (.conflict [1], []) ∧
    (let k2 := (runStmts {} (.cons (.include 4 none (.cons (.declare 0 (.val 1) 0 (.cons (.include 6 none
        (.cons (.declare 3 .none 0 .nil) .nil)) .nil)) (.cons (.include 6 none (.cons (.declare 1 (.val 1) 0 .nil) .nil)) .nil)))
        (.cons (.declare 2 .none 10 .nil) .nil)) {}).core
     k2.actions.map (fun a => (a.id, a.path)) = [(0, [4]), (1, [4, 6]), (2, [])] ∧
     ((commitCore k2).1.outcome, (commitCore k2).1.log.map (·.id)) = (.ok, [0, 2]) ∧
     (commitCore k2).1.trace.map (fun e => (e.1, e.2.map (·.id))) = [(0, []), (2, [])] ∧
     ((commitCore k2).1.trace.map (·.1)).Nodup ∧
     IdsNodup (declared (kidsOf (commitCore k2).1.trace) k2.actions (commitCore k2).1.log.reverse)) ∧
    (runProgram (p.append (.cons .commit .nil))).aborted = true := by
  refine ⟨by decide, by decide, ⟨by decide, by decide, by decide, by decide, by decide⟩, by decide⟩

/-- `config_commit_static`'s hypotheses: three plain declarations through nested includes, nothing declares -/
example :
    let k := (runStmts {} (.cons (.declare 0 (.val 1) 0 .nil) (.cons (.include 3 none (.cons (.declare 1 (.val 1) 0 .nil)
      (.cons (.declare 2 .none (-10) .nil) .nil))) .nil)) {}).core
    (∀ cl ∈ k.closures, cl.body = .nil) ∧ IdsNodup k.actions ∧ Plain k.actions ∧
      k.actions.length ≤ closuresSize k.closures ∧ specRun k.actions = (.ok, [2, 0]) := by
  refine ⟨?_, by decide, by decide, by decide, by decide⟩
  intro cl hcl
  simp [runStmts, runStmt, declareCore, Cfg.enter] at hcl
  rcases hcl with rfl | rfl | rfl <;> rfl

end Pyr.Actions
