import PyramidModel.Introspect
import PyramidModel.Actions
import PyramidModel.Lemmas.IntrospectSpec
import PyramidModel.Lemmas.IntrospectProbeSpec
import PyramidModel.Lemmas.Introspect
import PyramidModel.Lemmas.IntrospectFlag
import PyramidModel.Lemmas.IntrospectRel
import PyramidModel.Lemmas.IntrospectLinks
import PyramidModel.Gen.C20
/-!
# C20 — the introspector reports what was actually configured

Part I  (generated table, decided whole): every directive of src/pyramid/config/*.py that builds an
         introspectable records, under the specified category/discriminator, for every key the parameter the
         specification names (or its documented normalised form), declares the specified relations, and hands
         exactly its introspectables to its `action(...)`; `include`/`with_package` forward `introspection`.
Part II (model, unbounded): the Introspector state machine and the registration step of `execute_actions`.
-/
namespace Pyr.Introspect
open Pyr.Gen.C20

/-! ## Part I — what every directive records, probed on the running code, against the specification

`probeTable` is regenerated on every run by *calling* each directive with pairwise different sentinel arguments on a
real Configurator of the tree under test and reading the introspectables its pending actions carry (57 calls, every
directive and every branch that changes what is recorded).  No obligation rests on the shape of the source text any
more (the AST slice `directives` is kept in Gen/C20.lean as information only), so behaviour-preserving rewrites of the
directive bodies are silent. -/

/-- the probe ran, and every call could be committed -/
theorem probe_ran : probeStatus = "ok" ∧ probeTable.all (fun c => c.commit == "ok") = true := by decide +kernel

/-- **recorded_table_as_specified** — the whole probed table equals the hand-written one
(`Lemmas/IntrospectProbeSpec.lean`): per call the actions (discriminator, phase, which introspectables they carry),
per introspectable category, discriminator, title, type name, *every key with its value in terms of the arguments*,
and the recorded relations in order. -/
theorem recorded_table_as_specified : probeTable = specProbeTable := by decide +kernel

/-- **keys_hold_their_parameters** — the reading rule of `IntrospectSpec.lean` holds of the specified table: every
recorded key of an introspectable whose category a directive body specifies is a specified key of that body, and
where the specification says "parameter `p`" (untouched or resolved) the recorded value mentions no other
parameter's sentinel — the calls pass pairwise different sentinels, so any swap (F-C20a: `check_origin` holding
`allow_no_origin`) would show — and a specified constant is that constant. -/
theorem keys_hold_their_parameters : ∀ c ∈ specProbeTable, callAgrees specDirectives c = true := by decide +kernel

/-- every specified directive body is exercised by at least one probed call -/
theorem same_directives : ∀ s ∈ specDirectives, probeTable.any (fun c => c.slice == s.name) = true := by
  decide +kernel

/-- **every_directive_records_its_call_site** — in every probed call, every action that carries introspectables has
the calling statement as its action info (file and line of the probe's own statement): the outermost
`action_method` wrapper is the method the statement calls.  (Reverting any hunk of 4633e93 gives `false`.) -/
theorem every_directive_records_its_call_site :
    ∀ c ∈ probeTable, ∀ a ∈ c.actions, a.2.2.2 ≠ [] → a.2.2.1 = true := by decide +kernel

/-- every introspectable a call built is carried by one of its actions, and only by one -/
theorem introspectables_reach_their_action :
    ∀ c ∈ probeTable, (c.actions.flatMap (·.2.2.2)) = List.range c.intros.length := by decide +kernel

/-- The `introspection` flag and the registration step, as **probed on the running code** of the tree under test
(extract/c20.py `PROBE`, a child interpreter; a behaviour-preserving rewrite changes nothing here, a probe that cannot
run gives `probe-failed:…`): the constructor defaults to `True` and stores the argument; `Configurator.action`
keeps the introspectables iff the flag is on (pending action and autocommit); `include` and `with_package` hand the
flag to the configurator they create (F-C20b reverted gives `"absent"`); `execute_actions` calls the callable and then
registers the action's introspectables in list order with the action's info, action by action, never for an
overridden action, not for an action whose callable raised (nor anything after it), not without an introspector,
and also for actions appended during execution; `Introspectable.register` undefers, sets the info, adds, then
applies the recorded relate/unrelate calls in order. -/
theorem flag_plumbing :
    includeFlag = "forwards" ∧ withPackageFlag = "forwards"
    ∧ ctorFlag = "default=True;stores"
    ∧ actionFlag = "drops-when-off"
    ∧ executeLoop = "order-ok;error-ok;none-ok;reentrant-ok"
    ∧ registerBody = "undefer,info,add,relations" := by decide +kernel

/-- **documented_categories** — the category headings of docs/narr/introspector.rst are regenerated on every run
(`docCategories`, `docStatus = "ok"`: section found, every heading well-formed, no duplicates).  Every category a
directive records (in the probed table) is one of those headings or one of the categories the chapter is silent about
(`undocumentedCategories`); every heading is recorded by some directive; the specification's documented name of
each introspectable is a heading and is literally the category in the source.  (Full since /repo 4ce8e67 renamed
the heading ``default csrf options`` to what the code records — finding F-C20c; reverting that commit, or renaming
the category in security.py, makes this fail.) -/
theorem documented_categories :
    docStatus = "ok" ∧ docOk docCategories undocumentedCategories probeTable specDirectives = true := by
  decide +kernel

/-! ## Part II — registration: exactly the executed actions' introspectables, pointing at their statement -/

/-- **Refinement to the declarative reading.**  `registerAll` is the loop of `execute_actions` (for every
executed action, in execution order, `introspectable.register(introspector, info)` for each of its
introspectables; `register` = `add` + the recorded relations).  Whenever it completes, what an observer sees
in *any* slot `(category, discriminator)` — the introspectable and the statement its `action_info` points
at — is the **last** registration for that slot among the executed actions, and what was there before if
there is none.  For every action list, every declaration function, every start state. -/
theorem registered_is_last_executed_declaration (decls : Nat → List Decl) (ids : List Nat) (S0 S : IState)
    (h : registerAll decls ids S0 = .ok S) (c d : Nat) :
    seen S c d = seenOfReg (lastReg c d (regsOf decls ids) none) (seen S0 c d) :=
  seen_registerAll decls ids h c d

theorem seen_empty (c d : Nat) : seen IState.empty c d = none := by
  simp [seen, peek, IState.entries, IState.empty, alookup, findE]

/-- **introspected_iff_executed** — over the C04 model of `execute_actions` (`Pyr.Actions.run`, any program,
actions that add actions included): after a commit into an empty introspector, slot `(c, d)` holds an entry
iff some *executed* action declared an introspectable for that slot. -/
theorem introspected_iff_executed (kids : Nat → List Pyr.Actions.Act) (fuel : Nat) (top : List Pyr.Actions.Act)
    (decls : Nat → List Decl) (S : IState)
    (h : registerAll decls (Pyr.Actions.run kids fuel top).2 IState.empty = .ok S) (c d : Nat) :
    (peek S c d).isSome ↔ ∃ i ∈ (Pyr.Actions.run kids fuel top).2, ∃ dcl ∈ decls i, dcl.key = (c, d) := by
  have hs := registered_is_last_executed_declaration decls _ _ _ h c d
  rw [seen_empty] at hs
  have hsome : (peek S c d).isSome ↔ (seen S c d).isSome := by simp [seen]
  rw [hsome, hs]
  constructor
  · intro hx
    cases hl : lastReg c d (regsOf decls (Pyr.Actions.run kids fuel top).2) none with
    | none => simp [hl, seenOfReg] at hx
    | some p =>
      rcases lastReg_some_mem c d _ none p hl with h1 | ⟨h1, h2⟩
      · cases h1
      · have := mem_regsOf.mp h1
        exact ⟨p.1, this.1, p.2, this.2, h2⟩
  · rintro ⟨i, hi, dcl, hd, hk⟩
    cases hl : lastReg c d (regsOf decls (Pyr.Actions.run kids fuel top).2) none with
    | none =>
      have := (lastReg_none_iff c d _).mp hl (i, dcl) (mem_regsOf.mpr ⟨hi, hd⟩)
      exact absurd hk this
    | some p => simp [seenOfReg]

/-- the entry of a slot is an introspectable that an **executed** action declared for that slot, and its
`action_info` is that action's -/
theorem entry_points_at_an_executed_statement (decls : Nat → List Decl) (ids : List Nat) (S : IState)
    (h : registerAll decls ids IState.empty = .ok S) (c d : Nat) (e : Entry) (he : peek S c d = some e) :
    e.info ∈ ids ∧ ∃ dcl ∈ decls e.info, dcl.obj = e.obj ∧ dcl.key = (c, d) := by
  have hs := registered_is_last_executed_declaration decls ids _ _ h c d
  rw [seen_empty] at hs
  simp only [seen, he, Option.map_some] at hs
  cases hl : lastReg c d (regsOf decls ids) none with
  | none => simp [hl, seenOfReg] at hs
  | some p =>
    rw [hl] at hs
    simp only [seenOfReg, Option.some.injEq, Prod.mk.injEq] at hs
    rcases lastReg_some_mem c d _ none p hl with h1 | ⟨h1, h2⟩
    · cases h1
    · have := mem_regsOf.mp h1
      rw [hs.2]
      exact ⟨this.1, p.2, this.2, hs.1.symm, h2⟩

/-- **overridden / discarded statements have no entry of their own**: an action that was declared but did not
run (C04 says which: the ones that lost conflict resolution) owns no entry, in any category -/
theorem overridden_statements_have_no_entry (decls : Nat → List Decl) (ids : List Nat) (S : IState)
    (h : registerAll decls ids IState.empty = .ok S) (i : Nat) (hi : i ∉ ids) (c d : Nat) (e : Entry)
    (he : peek S c d = some e) : e.info ≠ i := by
  intro hx
  have := (entry_points_at_an_executed_statement decls ids S h c d e he).1
  exact hi (hx ▸ this)

/-- **introspection_off_records_nothing**, also through `include` nesting of any depth: a program declared on
a configurator whose `introspection` is false, none of whose included callables switches the flag, leaves the
introspector exactly as it was — given that `include` forwards the flag (`flag_plumbing`). -/
theorem introspection_off_records_nothing (stmts : List Stmt) (path ids : List Nat) (S : IState)
    (h : noSetL stmts = true) :
    registerAll (declsOf (flattenL true false path stmts)) ids S = .ok S :=
  registerAll_no_decls _ (declsOf_nil_of_all_empty _ (flattenL_off path stmts h)) ids S

/-- …and the hypothesis on `include` is needed: if the nested configurator were built without
`introspection=` (the tree before fix F-C20b), a statement inside an include of an introspection-off
configurator is recorded. -/
theorem include_not_forwarding_counterexample :
    registerAll (declsOf (flattenL false false [] [.incl 1 none [.act ⟨0, none, 0, [⟨⟨0, 0, 0⟩, []⟩]⟩]])) [0]
      IState.empty ≠ .ok IState.empty := by decide

/-- with introspection on (and nobody switching it) every pending action carries exactly the introspectables
its directive built — nothing is lost on the way through `include` -/
theorem introspection_on_keeps_everything (forwards : Bool) (stmts : List Stmt) (path : List Nat)
    (h : noSetL stmts = true) :
    (flattenL forwards true path stmts).map (fun p => (p.id, p.intrs)) = (actsL stmts).map (fun a => (a.id, a.intrs)) :=
  flattenL_on forwards path stmts h

/-! non-vacuity: a program with an overridden statement, through the C04 model -/
section examples
open Pyr.Actions in
/-- outer `add_route('r')` (action 0, path []) overrides the included one (action 1, path [1]); action 2 has
no discriminator.  Only 0 and 2 run; slot (0,7) is the outer statement's, slot (1,9) action 2's. -/
example :
    let top : List Act := [⟨0, .val 5, 0, []⟩, ⟨1, .val 5, 0, [1]⟩, ⟨2, .none, 0, [1]⟩]
    let decls : Nat → List Decl := fun i =>
      if i = 0 then [⟨⟨0, 7, 100⟩, []⟩] else if i = 1 then [⟨⟨0, 7, 101⟩, []⟩] else [⟨⟨1, 9, 102⟩, [⟨true, 0, 7⟩]⟩]
    (run noKids 10 top).2 = [0, 2] ∧
    (registerAll decls (run noKids 10 top).2 IState.empty).toOption.map
        (fun S => (seen S 0 7, seen S 1 9, related S 0 7)) =
      some (some (⟨0, 7, 100⟩, 0), some (⟨1, 9, 102⟩, 2), .ok [⟨1, 9, 102⟩]) := by decide

example : noSetL [.incl 1 none [.act ⟨0, none, 0, [⟨⟨0, 0, 0⟩, []⟩]⟩, .incl 2 none []]] = true := by decide
end examples

/-! ## Part III — the Introspector state machine, over any operation sequence

`Op` = the public mutating operations (`add`, `get` — it creates the category —, `remove`, `relate`/`unrelate`
with any number of pairs); `runOps` runs any list of them from any state.  The read-only operations
(`get_category`, `related`, `categories`, `categorized`) are functions of the state. -/

/-- `get` after `add` returns the introspectable just added, with its `action_info` and the counter as `order` -/
theorem get_after_add (S : IState) (o : Obj) (info : Nat) :
    (get (add S o info) o.cat o.discr).1 = some ⟨o, info, S.counter⟩ := peek_add_same S o info

/-- …and no other slot changes -/
theorem add_leaves_other_slots (S : IState) (o : Obj) (info c d : Nat) (h : (c, d) ≠ (o.cat, o.discr)) :
    (get (add S o info) c d).1 = (get S c d).1 := peek_add_other S o info c d h

/-- re-adding the same (category, discriminator) **replaces**: afterwards the category has exactly one binding
for that discriminator — the new one, at the end — and its other bindings are the old ones, in their order.
What happens to relations on a re-add is `readd_starts_unrelated` (Part V): nothing is inherited. -/
theorem readd_replaces (S : IState) (o : Obj) (info : Nat) :
    (add S o info).entries o.cat =
      (S.entries o.cat).filter (fun e => e.obj.discr != o.discr) ++ [⟨o, info, S.counter⟩]
    ∧ ((add S o info).entries o.cat).filter (fun e => e.obj.discr == o.discr) = [⟨o, info, S.counter⟩] := by
  rw [entries_add_same]
  refine ⟨rfl, ?_⟩
  simp only [putE, List.filter_append, List.filter_filter]
  have : (S.entries o.cat).filter (fun e => (e.obj.discr == o.discr && e.obj.discr != o.discr)) = [] := by
    rw [List.filter_eq_nil_iff]
    intro a _
    cases h : a.obj.discr == o.discr <;> simp [h, bne]
  rw [this]
  simp

/-- **categories keep insertion order**: after any operation sequence, `get_category` — which *sorts* by the
`order` attribute — lists exactly the category's bindings in the order of their last `add`: `order` strictly
increases along the list (and stays below the counter), discriminators are pairwise different. -/
theorem category_keeps_insertion_order (ops : List Op) (c : Nat) (l : List (Entry × List Obj))
    (h : getCategory (runOps IState.empty ops) c = some l) :
    l.map (·.1) = (runOps IState.empty ops).entries c
    ∧ (l.map (·.1)).Pairwise (fun a b => a.order < b.order ∧ a.obj.discr ≠ b.obj.discr)
    ∧ ∀ e ∈ l.map (·.1), e.obj.cat = c ∧ e.order < (runOps IState.empty ops).counter := by
  have wf := catsWF_runOps ops catsWF_empty
  generalize runOps IState.empty ops = S at h wf
  unfold getCategory at h
  cases hl : alookup c S.cats with
  | none => simp [hl] at h
  | some es =>
    have hes : S.entries c = es := by simp [IState.entries, hl]
    have hsorted := wf.sorted c
    rw [hes] at hsorted
    have hso : sortO es = es := sortO_of_sorted es (hsorted.imp (fun h => h.1))
    simp only [hl, Option.map_some, hso, Option.some.injEq] at h
    subst h
    simp only [List.map_map, Function.comp_def, List.map_id']
    rw [hes]
    refine ⟨rfl, hsorted, ?_⟩
    intro e he
    exact wf.mem c e (hes ▸ he)

/-- **`related` is symmetric** after any operation sequence in which contents determine the introspectable
(`ValInj`: no two different slots ever hold equal dict contents).  Python compares list members with `==`,
which for introspectables is dict equality; the excluded point is decided below. -/
theorem related_symmetric (ops : List Op) (hU : ValInj (addedObjs ops)) (x y : Obj)
    (h : y ∈ relatedOf (runOps IState.empty ops) x) : x ∈ relatedOf (runOps IState.empty ops) y :=
  (relInv_runOps hU ops (relInv_empty _) (fun _ ho => ho)).sym x y h

/-- …also irreflexive and duplicate-free -/
theorem related_irreflexive_nodup (ops : List Op) (hU : ValInj (addedObjs ops)) (x : Obj) :
    x ∉ relatedOf (runOps IState.empty ops) x ∧ (relatedOf (runOps IState.empty ops) x).Nodup := by
  have := refsWF_rel (relInv_runOps hU ops (relInv_empty _) (fun _ ho => ho)).refs x
  exact ⟨this.2.2, this.2.1⟩

/-- the excluded point: two introspectables with equal contents (`val = 5`) in different slots, both related
to a third — `y not in L` finds the first one and the second link is silently not made one way. -/
theorem related_asymmetric_when_contents_collide :
    let S := runOps IState.empty [.add ⟨0, 0, 7⟩ 0, .add ⟨1, 0, 5⟩ 1, .add ⟨1, 1, 5⟩ 2,
                                  .relate true [(0, 0), (1, 0)], .relate true [(0, 0), (1, 1)]]
    (⟨0, 0, 7⟩ : Obj) ∈ relatedOf S ⟨1, 1, 5⟩ ∧ (⟨1, 1, 5⟩ : Obj) ∉ relatedOf S ⟨0, 0, 7⟩ := by decide

theorem peek_remove {S S' : IState} {c d : Nat} (h : remove S c d = .ok S') :
    peek S' c d = none ∧ ∀ c' d', (c', d') ≠ (c, d) → peek S' c' d' = peek S c' d' := by
  simp only [remove, peek_touch] at h
  split at h
  · rename_i hp
    cases h
    exact ⟨by rw [peek_touch]; exact hp, fun c' d' _ => peek_touch S c c' d'⟩
  · split at h
    · cases h
    · cases h
      constructor
      · unfold peek
        rw [entries_aset_same]
        exact findE_delE_same d _
      · intro c' d' hne
        unfold peek
        by_cases hc : c' = c
        · subst hc
          rw [entries_aset_same, entries_touch]
          apply findE_delE_other
          intro hd
          exact hne (by rw [hd])
        · rw [entries_aset_other _ _ _ _ _ hc, entries_touch]

/-- **`remove` drops the relations** (and never raises on a reachable state): the slot is emptied, other slots
are untouched, the removed introspectable is related to nothing and nothing is related to it any more, and
every other link survives. -/
theorem remove_drops_relations (ops : List Op) (hU : ValInj (addedObjs ops)) (c d : Nat) :
    ∃ S', remove (runOps IState.empty ops) c d = .ok S'
      ∧ peek S' c d = none
      ∧ (∀ c' d', (c', d') ≠ (c, d) → peek S' c' d' = peek (runOps IState.empty ops) c' d')
      ∧ ∀ e, peek (runOps IState.empty ops) c d = some e →
          relatedOf S' e.obj = [] ∧ (∀ z, e.obj ∉ relatedOf S' z)
          ∧ ∀ z w, z ≠ e.obj → w ≠ e.obj → (w ∈ relatedOf S' z ↔ w ∈ relatedOf (runOps IState.empty ops) z) := by
  have inv := relInv_runOps hU ops (relInv_empty _) (fun _ ho => ho)
  obtain ⟨S', hr, _, hspec⟩ := relInv_remove hU inv c d
  have hp := peek_remove hr
  refine ⟨S', hr, hp.1, hp.2, ?_⟩
  intro e he
  have hs := hspec e he
  refine ⟨?_, ?_, ?_⟩
  · apply List.eq_nil_iff_forall_not_mem.mpr
    intro w hw
    exact ((hs e.obj w).mp hw).2.1 rfl
  · intro z hz
    exact ((hs z e.obj).mp hz).2.2 rfl
  · intro z w hz hw
    rw [hs z w]
    exact ⟨fun h => h.1, fun h => ⟨h, hz, hw⟩⟩

/-- `relate` links exactly the named introspectables, pairwise and both ways, and nothing else changes:
afterwards `w` is related to `z` iff it was before or both are among the named ones (and differ) -/
theorem relate_links_exactly_the_named (ops : List Op) (hU : ValInj (addedObjs ops)) (ks : List (Nat × Nat))
    (S' : IState) (h : relate (runOps IState.empty ops) true ks = .ok S') :
    ∃ xs, lookupAll (runOps IState.empty ops) ks = .ok xs ∧
      ∀ z w, w ∈ relatedOf S' z ↔ (w ∈ relatedOf (runOps IState.empty ops) z ∨ (z ∈ xs ∧ w ∈ xs ∧ z ≠ w)) := by
  have inv := relInv_runOps hU ops (relInv_empty _) (fun _ ho => ho)
  generalize runOps IState.empty ops = S at h inv
  unfold relate at h
  split at h
  · cases h
  · rename_i xs hxs
    cases h
    refine ⟨xs, hxs, ?_⟩
    have hin : ∀ p ∈ pairsOf xs, p.1 ∈ addedObjs ops ∧ p.2 ∈ addedObjs ops := by
      intro p hp
      have := (mem_pairsOf (z := p.1) (w := p.2)).mp hp
      obtain ⟨c1, e1, hm1, he1⟩ := lookupAll_live hxs p.1 this.1
      obtain ⟨c2, e2, hm2, he2⟩ := lookupAll_live hxs p.2 this.2
      exact ⟨he1 ▸ inv.live c1 e1 hm1, he2 ▸ inv.live c2 e2 hm2⟩
    have f := relFold_true hU (pairsOf xs) inv.refs hin
    intro z w
    simp only [relatedOf_eq, relateObjs]
    rw [f.2 z w, mem_pairsOf]
    constructor
    · rintro (h1 | ⟨⟨h1, h2⟩, h3⟩)
      · exact Or.inl h1
      · exact Or.inr ⟨h1, h2, h3⟩
    · rintro (h1 | ⟨h1, h2, h3⟩)
      · exact Or.inl h1
      · exact Or.inr ⟨⟨h1, h2⟩, h3⟩

/-! non-vacuity of the hypotheses -/
example : ValInj (addedObjs [.add ⟨0, 0, 7⟩ 0, .get 3 3, .add ⟨1, 0, 5⟩ 1, .add ⟨0, 0, 7⟩ 2,
                             .relate true [(0, 0), (1, 0)], .remove 1 0]) := by decide
example : ¬ ValInj (addedObjs [.add ⟨0, 0, 7⟩ 0, .add ⟨1, 0, 5⟩ 1, .add ⟨1, 1, 5⟩ 2]) := by decide
example :
    let S := runOps IState.empty [.add ⟨0, 0, 7⟩ 0, .add ⟨1, 0, 5⟩ 1, .add ⟨0, 1, 8⟩ 2, .add ⟨0, 0, 7⟩ 3,
                                  .relate true [(0, 0), (1, 0)]]
    (getCategory S 0).map (fun l => l.map fun p => (p.1.obj.discr, p.1.info, p.2)) =
      some [(1, 2, []), (0, 3, [⟨1, 0, 5⟩])] ∧ related S 1 0 = .ok [⟨0, 0, 7⟩] := by decide

/-! ## Part IV — relations after a commit link only declared pairs -/

/-- at the level of the Introspector: after any operation sequence, every link joins two introspectables whose
slots were named *together* by one `relate(...)` call of the sequence -/
theorem links_only_between_named_slots (ops : List Op) (hU : ValInj (addedObjs ops)) (z w : Obj)
    (h : w ∈ relatedOf (runOps IState.empty ops) z) :
    ∃ ks, Op.relate true ks ∈ ops ∧ z.slot ∈ ks ∧ w.slot ∈ ks :=
  links_named hU ops (fun _ ho => ho) z w h

/-- **relations_link_declared_pairs** — after a commit (`registerAll` over the executed actions, from an empty
introspector; contents determine the introspectable): every link in the introspector joins introspectables
sitting in the two slots of *one declared relation of an executed action*: the slot of the declaring
introspectable and the `(category, discriminator)` it named in `.relate(...)`.  Part I says which relations
the directives declare (view→route, mapper/template/permission→view, template→renderer factory, route
factory→route); overridden actions are not executed, so their relations are never made. -/
theorem relations_link_declared_pairs (decls : Nat → List Decl) (ids : List Nat) (S : IState)
    (h : registerAll decls ids IState.empty = .ok S)
    (hU : ValInj ((regsOf decls ids).map (fun p => p.2.obj))) (z w : Obj) (hw : w ∈ relatedOf S z) :
    ∃ p ∈ regsOf decls ids, p.1 ∈ ids ∧ ∃ r ∈ p.2.rels, r.rel = true ∧
      z.slot ∈ [p.2.key, (r.cat, r.discr)] ∧ w.slot ∈ [p.2.key, (r.cat, r.discr)] := by
  have hS := registerAll_runOps decls ids h
  rw [hS] at hw
  have hin : ∀ o ∈ addedObjs (opsOfRegs (regsOf decls ids)), o ∈ (regsOf decls ids).map (fun p => p.2.obj) := by
    intro o ho
    obtain ⟨p, hp, he⟩ := addedObjs_opsOfRegs _ o ho
    exact List.mem_map.mpr ⟨p, hp, he⟩
  obtain ⟨ks, hk, h1, h2⟩ := links_named hU _ hin z w hw
  obtain ⟨p, hp, r, hr, hrel, hks⟩ := mem_opsOfRegs_relate hk
  subst hks
  exact ⟨p, hp, (mem_regsOf.mp hp).1, r, hr, hrel, h1, h2⟩

/-- non-vacuity: the view/route/permission shape -/
example :
    let decls : Nat → List Decl := fun i =>
      if i = 0 then [⟨⟨0, 1, 10⟩, []⟩]                                   -- route
      else [⟨⟨1, 2, 11⟩, [⟨true, 0, 1⟩]⟩, ⟨⟨2, 3, 12⟩, [⟨true, 1, 2⟩]⟩]  -- view → route, permission → view
    ValInj ((regsOf decls [0, 1]).map (fun p => p.2.obj)) ∧
    (registerAll decls [0, 1] IState.empty).toOption.map (fun S => (relatedOf S ⟨1, 2, 11⟩, relatedOf S ⟨0, 1, 10⟩)) =
      some ([⟨0, 1, 10⟩, ⟨2, 3, 12⟩], [⟨1, 2, 11⟩]) := by decide

/-! ## Part V — re-registration: relations belong to the introspectable, not to the slot -/

/-- **A re-added slot starts unrelated.**  What the code does (`Introspector.add`, registry.py:124-129): the new
object replaces the old one in `_categories`; `_refs` is not touched — the replaced object keeps its relation list
under its own key and stays in the lists of its partners, but it is in no category any more.  So, for a *new*
introspectable `o` (contents not seen before) added after any operation sequence — whether or not its slot was
occupied: it is the entry of its slot, it is related to nothing, nothing is related to it, and every other
relation list is exactly what it was.  Nothing is inherited from the object it replaces (seeded change C20-2
makes `add` hand the old object's relations to the new one: refuted by this theorem's model, caught on the
real code by the correspondence and by the operation-sequence oracle). -/
theorem readd_starts_unrelated (ops : List Op) (o : Obj) (info : Nat) (hfresh : o ∉ addedObjs ops)
    (hU : ValInj (addedObjs (ops ++ [.add o info]))) :
    let S := runOps IState.empty ops
    let S' := runOps IState.empty (ops ++ [.add o info])
    peek S' o.cat o.discr = some ⟨o, info, S.counter⟩
    ∧ relatedOf S' o = []
    ∧ (∀ z, o ∉ relatedOf S' z)
    ∧ (∀ z, relatedOf S' z = relatedOf S z) := by
  intro S S'
  have hS' : S' = add S o info := by simp [S', S, runOps_snoc, step]
  have hU0 : ValInj (addedObjs ops) := by
    intro a ha b hb
    exact hU a (by rw [addedObjs_append]; exact List.mem_append_left _ ha) b
      (by rw [addedObjs_append]; exact List.mem_append_left _ hb)
  have inv := relInv_runOps hU0 ops (relInv_empty _) (fun _ h => h)
  have hrefs : S'.refs = S.refs := by rw [hS']; rfl
  have hrel : ∀ z, relatedOf S' z = relatedOf S z := by intro z; simp [relatedOf, hrefs]
  refine ⟨by rw [hS']; exact peek_add_same S o info, ?_, ?_, hrel⟩
  · rw [hrel]
    simp only [relatedOf]
    cases hl : alookup o S.refs with
    | none => rfl
    | some L => exact absurd (inv.refs.2 o L hl).1 hfresh
  · intro z hz
    rw [hrel] at hz
    exact hfresh ((refsWF_rel inv.refs z).1 o hz)

/-- **relations_link_objects_declared_together** — object level, any number of commits (`registerAll` over the
concatenation of the executed lists, `registerAll_append`): every link in the introspector joins the two
*introspectables* that one declared relation of an executed action found, at the moment it was applied, in the
slot of the declaring introspectable and in the slot it named.  An introspectable registered later under the
same slot is not one of them: it has exactly the relations its own declarations (and later declarations
towards its slot) make. -/
theorem relations_link_objects_declared_together (decls : Nat → List Decl) (ids : List Nat) (S : IState)
    (h : registerAll decls ids IState.empty = .ok S)
    (hU : ValInj ((regsOf decls ids).map (fun p => p.2.obj))) (z w : Obj) (hw : w ∈ relatedOf S z) :
    ∃ pre ks rest xs, opsOfRegs (regsOf decls ids) = pre ++ Op.relate true ks :: rest
      ∧ (∃ p ∈ regsOf decls ids, ∃ r ∈ p.2.rels, r.rel = true ∧ ks = [p.2.key, (r.cat, r.discr)])
      ∧ lookupAll (runOps IState.empty pre) ks = .ok xs ∧ xs.map Obj.slot = ks ∧ z ∈ xs ∧ w ∈ xs := by
  have hS := registerAll_runOps decls ids h
  rw [hS] at hw
  have hin : ∀ o ∈ addedObjs (opsOfRegs (regsOf decls ids)), o ∈ (regsOf decls ids).map (fun p => p.2.obj) := by
    intro o ho
    obtain ⟨p, hp, he⟩ := addedObjs_opsOfRegs _ o ho
    exact List.mem_map.mpr ⟨p, hp, he⟩
  obtain ⟨pre, ks, rest, xs, h1, h2, h3, h4⟩ := links_objects hU _ hin z w hw
  have hmem : Op.relate true ks ∈ opsOfRegs (regsOf decls ids) := by rw [h1]; simp
  refine ⟨pre, ks, rest, xs, h1, mem_opsOfRegs_relate hmem, h2, ?_, h3, h4⟩
  exact lookupAll_slots (catsWF_runOps pre catsWF_empty) h2

/-- non-vacuity, and the seeded scenario in the model: commit 1 registers view_a (slot (1,2), contents 11) with
permission 'read' (slot (2,3)); commit 2 registers view_b (same slot, contents 21) with permission 'edit'
(slot (2,4)).  Afterwards the view entry is view_b, related to 'edit' only; 'read' lists the replaced view_a
object, not view_b. -/
example :
    let decls : Nat → List Decl := fun i =>
      if i = 0 then [⟨⟨1, 2, 11⟩, []⟩, ⟨⟨2, 3, 12⟩, [⟨true, 1, 2⟩]⟩]
      else [⟨⟨1, 2, 21⟩, []⟩, ⟨⟨2, 4, 22⟩, [⟨true, 1, 2⟩]⟩]
    ValInj ((regsOf decls [0, 1]).map (fun p => p.2.obj)) ∧
    (registerAll decls ([0] ++ [1]) IState.empty).toOption.map
        (fun S => (seen S 1 2, relatedOf S ⟨1, 2, 21⟩, relatedOf S ⟨2, 3, 12⟩, relatedOf S ⟨2, 4, 22⟩)) =
      some (some (⟨1, 2, 21⟩, 1), [⟨2, 4, 22⟩], [⟨1, 2, 11⟩], [⟨1, 2, 21⟩]) := by decide
example : (⟨0, 0, 9⟩ : Obj) ∉ addedObjs [.add ⟨0, 0, 7⟩ 0, .add ⟨1, 0, 5⟩ 1, .relate true [(0, 0), (1, 0)]]
    ∧ ValInj (addedObjs ([.add ⟨0, 0, 7⟩ 0, .add ⟨1, 0, 5⟩ 1, .relate true [(0, 0), (1, 0)]] ++ [.add ⟨0, 0, 9⟩ 2])) := by
  decide

end Pyr.Introspect
