import PyramidModel.Lemmas.AssetsSpec
import PyramidModel.Gen.X04
/-
X04 — asset specifications and asset overrides (extra coverage target; the statement is in notes/X04.md).

For every list of override declarations and every resource name, the resource served is that of the most recently
declared override that matches the name (directory override: the name starts with the overridden path, which ends in
`/`; file override: the name is the path) and whose source has the resource; otherwise the package's own.  All six
provider methods answer about that one place.  `override_asset` never pairs a directory with a file.
-/
namespace Pyr.Assets

/-! ## 0. obligations over the GENERATED probe tables (Gen/X04.lean, rewritten from the tree under test on every run) -/

theorem gen_probe_trusted : Gen.probeStatus = "ok" := by decide

/-- source number `n` of the probes -/
def tagSrc (n : Nat) : Source := .fs ['/', Char.ofNat (48 + n)]

def tagOfSrc : Source → Option Nat
  | .fs ['/', c] => some (c.toNat - 48)
  | _ => none

def tagOf : Override → Option Nat
  | .dir _ s => tagOfSrc s
  | .file _ s => tagOfSrc s

def probeDecls : List Decl := [([], tagSrc 0), ([], tagSrc 1), ([], tagSrc 2)]

/-- `insert` puts the new override where the model puts it (in front) -/
theorem gen_insert_position : (registered probeDecls).map tagOf = Gen.insertOrder.map some := by decide

def kindTag : Override → String
  | .dir _ _ => "dir"
  | .file _ _ => "file"

/-- the class `insert` builds and the answer of the override object, for 8 paths x 17 names -/
theorem gen_match_probe :
    Gen.matchProbe.length ≥ 136 ∧
    ∀ e ∈ Gen.matchProbe,
      kindTag (mkOverride e.1 (tagSrc 0)) = e.2.1 ∧
      (mkOverride e.1 (tagSrc 0)).apply e.2.2.1 = e.2.2.2.map (fun r => (tagSrc 0, r)) := by decide +kernel

/-- the path string a source examines -/
def locPath : Loc → Text
  | .inPkg _ p => p
  | .onFs p => p

/-- `get_path` of both source classes builds the string the model builds (leading slashes of the resource name are
stripped by the filesystem source — fix 3e07f6a — and kept by the package source) -/
theorem gen_path_probe :
    Gen.pathProbe.length = 38 ∧
    ∀ e ∈ Gen.pathProbe,
      locPath ((if e.1 = "fs" then Source.fs e.2.1 else Source.pkg ['p'] e.2.1).loc e.2.2.1) = e.2.2.2 := by decide +kernel

/-- stub `i` answers iff bit `i` of the mask is set; a file for the methods that open, a directory for `listdir` -/
def maskWorld (mask : Nat) (node : Node) : World := fun l =>
  match l with
  | .onFs ['/', c, '/', 'n'] => if mask.testBit (c.toNat - 48) then node else .absent
  | _ => .absent

/-- the sources a guarded loop examines: up to and including the first that has the resource -/
def consulted (w : World) : List (Source × Text) → List Source
  | [] => []
  | (s, r) :: rest => s :: (if (w (s.loc r)).there then [] else consulted w rest)

def tagOfLoc : Loc → Option Nat
  | .onFs ['/', c, '/', 'n'] => some (c.toNat - 48)
  | _ => none

/-- does the model's method answer (something other than `None`), and does it raise? -/
def methodAnswers (meth : String) (mask : Nat) : Option Bool :=
  let ovs := registered probeDecls
  let ok {α} (r : Except Err (Option α)) : Option Bool := match r with
    | .ok o => some o.isSome
    | .error _ => none
  if meth = "get_filename" then ok (PO.getFilename (maskWorld mask .file) ovs ['n'])
  else if meth = "get_stream" then ok (PO.getStream (maskWorld mask .file) ovs ['n'])
  else if meth = "get_string" then ok (PO.getString (maskWorld mask .file) ovs ['n'])
  else if meth = "has_resource" then ok (PO.hasResource (maskWorld mask .file) ovs ['n'])
  else if meth = "isdir" then ok (PO.isdir (maskWorld mask .file) ovs ['n'])
  else if meth = "listdir" then ok (PO.listdir (maskWorld mask (.dir [])) ovs ['n'])
  else none

/-- every one of the six loops consults the sources most-recent-first, stops at the first that answers, and returns
that one's answer (three stub sources, all eight subsets answering) -/
theorem gen_loop_probe :
    Gen.loopProbe.length = 48 ∧
    ∀ e ∈ Gen.loopProbe,
      (consulted (maskWorld e.2.1 .file) (filteredSources (registered probeDecls) ['n'])).map tagOfSrc = e.2.2.1.map some ∧
      methodAnswers e.1 e.2.1 = some e.2.2.2.isSome ∧
      (pickLoc (maskWorld e.2.1 .file) (filteredSources (registered probeDecls) ['n'])).bind tagOfLoc = e.2.2.2 := by
  decide +kernel

/-- whose answer `Prov.orDefault` returns (`0` = the default provider's, `1` = the utility's) -/
def provOutcome (mode : String) : Option String :=
  let show_ (r : Except Err Nat) : Option String := match r with
    | .ok 0 => some "default"
    | .ok _ => some "value"
    | .error _ => none
  if mode = "noutility" then show_ (Prov.orDefault none (fun _ => .ok (some 1)) (.ok 0))
  else if mode = "none" then show_ (Prov.orDefault (some []) (fun _ => .ok none) (.ok 0))
  else if mode = "value" ∨ mode = "falsy" then show_ (Prov.orDefault (some []) (fun _ => .ok (some 1)) (.ok 0))
  else none

def provMethods : List String :=
  ["get_resource_filename", "get_resource_stream", "get_resource_string", "has_resource", "resource_isdir", "resource_listdir"]

/-- each of the six `OverrideProvider` methods returns the utility's answer unless there is no utility or it answers
`None`, in which case the default provider answers; a falsy answer (empty listing, `False`, empty string) is an answer -/
theorem gen_provider_probe :
    (∀ e ∈ Gen.providerProbe, e.1 ∈ provMethods ∧ provOutcome e.2.1 = some e.2.2) ∧
    (provMethods.all fun m => ["noutility", "none", "value"].all fun k =>
      Gen.providerProbe.any fun e => e.1 == m && e.2.1 == k) = true ∧
    (Gen.providerProbe.filter fun e => e.2.1 == "falsy").length = 5 := by decide

def probeWorld : World := fun l =>
  match l with
  | .onFs p => if p = "/T/dir".toList ∨ p = "/T/dir/".toList then .dir [] else if p = "/T/file".toList then .file else .absent
  | _ => .absent

def probeImportable (p : Text) : Bool := p = ['P', 'A'] || p = ['P', 'B']

def errTag : CfgErr → String
  | .itself => "itself"
  | .absMissing => "absmissing"
  | .importError => "import"
  | .dirWithFile => "dirwithfile"
  | .fileWithDir => "filewithdir"

/-- declaration followed by the commit-time action, as one row of the probe table -/
def validationOutcome (toOv ovWith : Text) : String × Text × Text × String × Text :=
  match overrideAsset probeWorld probeImportable toOv ovWith with
  | .error e => (errTag e, [], [], "", [])
  | .ok acc =>
    match register probeImportable [] acc with
    | .error e => (errTag e, [], [], "", [])
    | .ok _ =>
      match acc.source with
      | .pkg n p => ("ok", acc.package, acc.path, "pkg", n ++ ':' :: p)
      | .fs p => ("ok", acc.package, acc.path, "fs", p)

/-- the decision table of `override_asset` over 11 x 14 specs: which error, or what reaches `PackageOverrides.insert` -/
theorem gen_validation_table :
    Gen.validationProbe.length = 154 ∧
    ∀ e ∈ Gen.validationProbe, validationOutcome e.1 e.2.1 = e.2.2 := by decide +kernel

/-! ## 1. first match, most recently declared first -/

/-- THE refinement: with the declarations registered in order, the file name the provider answers with is the
reading's — the latest declaration that matches and has the resource, else the package's own.  Any number of
declarations, any order, any name, any world. -/
theorem served_eq_spec (w : World) (decls : List Decl) (pkg name : Text) :
    Prov.filename w (some (registered decls)) pkg name = .ok (specServed w decls pkg name) := by
  simp only [Prov.filename, Prov.orDefault, PO.getFilename, firstResult_getFilename, pickLoc_registered, specServed]
  cases decls.reverse.findSome? (hitLoc w name) <;> rfl

/-- the reading, relationally: `l` is served iff it is the hit of some declaration after which no declaration hits, or
nothing hits and `l` is the package's own resource -/
theorem served_is_latest_hit (w : World) (decls : List Decl) (pkg name : Text) (l : Loc) :
    specServed w decls pkg name = l ↔ Serves w decls pkg name l := by
  unfold specServed Serves
  cases h : decls.reverse.findSome? (hitLoc w name) with
  | some l' =>
    have h' := (findSome?_reverse_iff _ _ _).mp h
    constructor
    · rintro rfl; exact Or.inl h'
    · rintro (⟨i, hi, hfi, hl⟩ | ⟨hall, _⟩)
      · have := (findSome?_reverse_iff (hitLoc w name) decls l).mpr ⟨i, hi, hfi, hl⟩
        rw [h] at this; exact Option.some.inj this
      · obtain ⟨i, hi, hfi, _⟩ := h'
        rw [hall i hi] at hfi; cases hfi
  | none =>
    have h' := (findSome?_reverse_none _ _).mp h
    constructor
    · rintro rfl; exact Or.inr ⟨h', rfl⟩
    · rintro (⟨i, hi, hfi, _⟩ | ⟨_, rfl⟩)
      · rw [h' i hi] at hfi; cases hfi
      · rfl

/-- no override source has the resource (or none matches): the package's own is served -/
theorem falls_through_to_package (w : World) (decls : List Decl) (pkg name : Text)
    (h : ∀ d ∈ decls, hitLoc w name d = none) :
    Prov.filename w (some (registered decls)) pkg name = .ok (.inPkg pkg name) := by
  rw [served_eq_spec]
  have : decls.reverse.findSome? (hitLoc w name) = none := by
    simp only [List.findSome?_eq_none_iff, List.mem_reverse]; exact h
  simp [specServed, this]

/-- the declaration made last wins whenever it matches and has the resource, whatever was declared before -/
theorem latest_declaration_wins (w : World) (decls : List Decl) (d : Decl) (pkg name : Text) (l : Loc)
    (h : hitLoc w name d = some l) :
    Prov.filename w (some (registered (decls ++ [d]))) pkg name = .ok l := by
  rw [served_eq_spec]; simp [specServed, h]

/-- a declaration that does not match the name, or whose source lacks the resource, changes nothing for that name -/
theorem missing_declaration_is_skipped (w : World) (d1 d2 : List Decl) (d : Decl) (pkg name : Text)
    (h : hitLoc w name d = none) :
    Prov.filename w (some (registered (d1 ++ d :: d2))) pkg name
      = Prov.filename w (some (registered (d1 ++ d2))) pkg name := by
  rw [served_eq_spec, served_eq_spec]
  simp [specServed, List.findSome?_append, h]

/-- what is served is there, unless it is the package's own resource (which may be missing) -/
theorem served_is_there_or_own (w : World) (decls : List Decl) (pkg name : Text) :
    specServed w decls pkg name = .inPkg pkg name ∨ (w (specServed w decls pkg name)).there = true := by
  unfold specServed
  cases h : decls.reverse.findSome? (hitLoc w name) with
  | none => exact Or.inl rfl
  | some l =>
    right
    obtain ⟨d, _, hd⟩ := List.exists_of_findSome?_eq_some h
    unfold hitLoc at hd
    split at hd
    · cases hd
    · split at hd
      · cases hd; assumption
      · cases hd

example : hitLoc (fun l => if l = .inPkg ['b'] ['t', '/', 'x'] then .file else .absent) ['d', '/', 'x']
    (['d', '/'], .pkg ['b'] ['t', '/']) = some (.inPkg ['b'] ['t', '/', 'x']) := by decide

/-! ## 2. what an override matches: the boundary -/

/-- the override object built by `insert` answers exactly when the declarative `Matches` holds -/
theorem override_matches_iff (path : Text) (s s' : Source) (name r : Text) :
    (mkOverride path s).apply name = some (s', r) ↔ s' = s ∧ Matches path name r := by
  rw [apply_mkOverride, ← matchRest_iff]
  cases matchRest path name with
  | none => simp
  | some r' => simp [eq_comm]

/-- a directory override `d/` matches exactly the names `d/…`, and looks up what follows the slash -/
theorem dir_override_boundary (d : Text) (s s' : Source) (name r : Text) :
    (mkOverride (d ++ ['/']) s).apply name = some (s', r) ↔ s' = s ∧ name = d ++ '/' :: r := by
  rw [override_matches_iff]
  have hd : isDirPath (d ++ ['/']) = true := by simp [isDirPath, endsWithSlash]
  simp [Matches, hd]

/-- … so it never matches a sibling that merely shares a string prefix (`templates/` vs `templates2/x`), nor the
directory's own name without the slash -/
theorem dir_override_not_sibling (d : Text) (s : Source) (c : Char) (xs : Text) (hc : c ≠ '/') :
    (mkOverride (d ++ ['/']) s).apply (d ++ c :: xs) = none ∧ (mkOverride (d ++ ['/']) s).apply d = none := by
  constructor
  · cases h : (mkOverride (d ++ ['/']) s).apply (d ++ c :: xs) with
    | none => rfl
    | some sr =>
      obtain ⟨s', r⟩ := sr
      have := ((dir_override_boundary d s s' _ r).mp h).2
      simp at this; exact absurd this.1 hc
  · cases h : (mkOverride (d ++ ['/']) s).apply d with
    | none => rfl
    | some sr =>
      obtain ⟨s', r⟩ := sr
      have := ((dir_override_boundary d s s' _ r).mp h).2
      have hl := congrArg List.length this
      simp at hl

/-- a file override (a path that is not empty and does not end in a slash) matches its own name only, never a prefix -/
theorem file_override_exact (path : Text) (s s' : Source) (name r : Text) (h : isDirPath path = false) :
    (mkOverride path s).apply name = some (s', r) ↔ s' = s ∧ name = path ∧ r = [] := by
  rw [override_matches_iff]; simp [Matches, h]

example : isDirPath ['a', '.', 'p', 't'] = false ∧ isDirPath ['t', '/'] = true ∧ isDirPath [] = true := by decide

/-- a package source looks the remainder up under its prefix, by plain concatenation -/
theorem pkg_source_under_prefix (n pfx r : Text) : (Source.pkg n pfx).loc r = .inPkg n (pfx ++ r) := rfl

/-- a filesystem source looks EVERY remainder up under its prefix (full since fix 3e07f6a): the path examined is the
prefix, one slash, and the remainder without its leading slashes — whatever the remainder.  What stays outside: the
statement is about the path STRING; a remainder with `..` segments (`a/../../x`) yields `prefix/a/../../x`, which the
operating system resolves above the prefix — `FSAssetSource` does not examine segments (checked on the real code, notes
O-2); such names are excluded from the correspondence. -/
theorem fs_source_under_prefix (pfx r : Text) (hp : pfx ≠ []) :
    (Source.fs pfx).loc r =
      .onFs (if r = [] then pfx else if endsWithSlash pfx then pfx ++ lstripSlash r else pfx ++ '/' :: lstripSlash r) := by
  have hr := lstripSlash_head r
  unfold Source.loc joinPath endsWithSlash
  by_cases h1 : r = [] <;> by_cases h2 : pfx.getLast? = some '/' <;> simp [h1, h2, hr, hp]

example : "/T/fs1/tpl".toList ≠ [] := by decide

/-- … so no resource name makes it look outside: the examined path always begins with the prefix -/
theorem fs_source_never_discards_prefix (pfx r : Text) (hp : pfx ≠ []) :
    ∃ rest, (Source.fs pfx).loc r = .onFs (pfx ++ rest) := by
  rw [fs_source_under_prefix pfx r hp]
  by_cases h1 : r = []
  · exact ⟨[], by simp [h1]⟩
  · by_cases h2 : endsWithSlash pfx = true
    · exact ⟨lstripSlash r, by simp [h1, h2]⟩
    · exact ⟨'/' :: lstripSlash r, by simp [h1, h2]⟩

/-- regression facts about F-X04a (fixed by 3e07f6a): with `pkg:templates/` overridden by the directory `/T/fs1/tpl`, the
resource name `templates//etc/passwd` reaches the source with the remainder `/etc/passwd`; the OLD `get_path`
(`os.path.join(prefix, name)`) examined `/etc/passwd`, the repaired one examines `/T/fs1/tpl/etc/passwd`, like a
package source (`tpl//etc/passwd` = `tpl/etc/passwd`) -/
theorem fs_source_escaped_prefix_before_fix :
    (mkOverride "templates/".toList (.fs "/T/fs1/tpl".toList)).apply "templates//etc/passwd".toList
        = some (.fs "/T/fs1/tpl".toList, "/etc/passwd".toList) ∧
      fsLocOld "/T/fs1/tpl".toList "/etc/passwd".toList = .onFs "/etc/passwd".toList ∧
      (Source.fs "/T/fs1/tpl".toList).loc "/etc/passwd".toList = .onFs "/T/fs1/tpl/etc/passwd".toList ∧
      (Source.pkg ['b'] "tpl/".toList).loc "/etc/passwd".toList = .inPkg ['b'] "tpl//etc/passwd".toList := by decide

/-- outside the statement: a remainder with `..` segments stays under the prefix as a string only -/
theorem fs_source_dotdot_is_lexical :
    (Source.fs "/T/fs1/tpl".toList).loc "a/../../x".toList = .onFs "/T/fs1/tpl/a/../../x".toList := by decide

/-! ## 3. the six methods agree on the source they use -/

/-- `PackageOverrides` level: each method observes the place `get_filename` names (the first filtered source that has
the resource), or answers `None` when there is none -/
theorem overrides_methods_agree (w : World) (ovs : List Override) (name : Text) :
    ∃ pick : Option Loc,
      PO.getFilename w ovs name = .ok pick ∧
      PO.getStream w ovs name = (match pick with | none => .ok none | some l => (openAt w l).map some) ∧
      PO.getString w ovs name = (match pick with | none => .ok none | some l => (openAt w l).map some) ∧
      PO.hasResource w ovs name = .ok (pick.map fun _ => true) ∧
      PO.isdir w ovs name = .ok (pick.map fun l => (w l).isDir) ∧
      PO.listdir w ovs name = (match pick with | none => .ok none | some l => (listAt w l).map some) := by
  refine ⟨pickLoc w (filteredSources ovs name), firstResult_getFilename _ _, ?_, ?_, ?_, ?_, ?_⟩
  · exact firstResult_observe w (openAt w) _ (fun _ _ => rfl) _
  · exact firstResult_observe w (openAt w) _ (fun _ _ => rfl) _
  · have := firstResult_observe w (fun _ => Except.ok true) (Source.existsOpt w)
      (fun s r => by unfold Source.existsOpt; split <;> rfl) (filteredSources ovs name)
    rw [PO.hasResource, this]; cases pickLoc w (filteredSources ovs name) <;> rfl
  · have := firstResult_observe w (fun l => Except.ok (w l).isDir) (Source.isdir w)
      (fun s r => by unfold Source.isdir; split <;> rfl) (filteredSources ovs name)
    rw [PO.isdir, this]; cases pickLoc w (filteredSources ovs name) <;> rfl
  · exact firstResult_observe w (listAt w) _ (fun _ _ => rfl) _

/-- provider level, any overrides list (or no utility at all): `has_resource`, `resource_isdir`, `resource_listdir`,
`get_resource_stream` and `get_resource_string` all describe the one place `get_resource_filename` names -/
theorem provider_methods_agree (w : World) (ovs : Option (List Override)) (pkg name : Text) :
    ∃ l : Loc,
      Prov.filename w ovs pkg name = .ok l ∧
      Prov.hasResource w ovs pkg name = .ok (w l).there ∧
      Prov.isdir w ovs pkg name = .ok (w l).isDir ∧
      Prov.listdir w ovs pkg name = listAt w l ∧
      Prov.stream w ovs pkg name = openAt w l ∧
      Prov.string w ovs pkg name = openAt w l := by
  cases ovs with
  | none => exact ⟨.inPkg pkg name, rfl, rfl, rfl, rfl, rfl, rfl⟩
  | some os =>
    obtain ⟨pick, h1, h2, h3, h4, h5, h6⟩ := overrides_methods_agree w os name
    cases pick with
    | none =>
      refine ⟨.inPkg pkg name, ?_, ?_, ?_, ?_, ?_, ?_⟩ <;>
        simp [Prov.filename, Prov.hasResource, Prov.isdir, Prov.listdir, Prov.stream, Prov.string, Prov.orDefault, h1, h2, h3, h4, h5, h6]
    | some l =>
      have hthere : (w l).there = true := by
        have : pickLoc w (filteredSources os name) = some l := by
          have := firstResult_getFilename w (filteredSources os name)
          rw [PO.getFilename] at h1; rw [h1] at this; exact (Except.ok.inj this).symm
        exact pickLoc_there this
      refine ⟨l, ?_, ?_, ?_, ?_, ?_, ?_⟩
      · simp [Prov.filename, Prov.orDefault, h1]
      · simp [Prov.hasResource, Prov.orDefault, h4, hthere]
      · simp [Prov.isdir, Prov.orDefault, h5]
      · simp only [Prov.listdir, Prov.orDefault, h6]; cases listAt w l <;> rfl
      · simp only [Prov.stream, Prov.orDefault, h2]; cases openAt w l <;> rfl
      · simp only [Prov.string, Prov.orDefault, h3]; cases openAt w l <;> rfl

/-! ## 4. `override_asset`: validation -/

/-- is the source a directory? an absolute path by what is on disk, a package source by its spelling -/
def sourceIsDir (w : World) : Source → Bool
  | .fs p => (w (.onFs p)).isDir
  | .pkg _ p => p = [] || endsWithSlash p

theorem override_with_itself_refused (w : World) (imp : Text → Bool) (s : Text) :
    overrideAsset w imp s s = .error .itself := by simp [overrideAsset]

/-- what is accepted pairs a directory with a directory and a file with a file: the override object `insert` will
build is a `DirectoryOverride` exactly when the source is a directory -/
theorem accepted_kinds_agree (w : World) (imp : Text → Bool) (toOv ovWith : Text) (acc : Accepted)
    (h : overrideAsset w imp toOv ovWith = .ok acc) :
    isDirPath acc.path = sourceIsDir w acc.source ∧
    acc.package = (specParts toOv).1 ∧ acc.path = (specParts toOv).2 ∧
    (isabs ovWith = true → acc.source = .fs ovWith ∧ (w (.onFs ovWith)).there = true) ∧
    (isabs ovWith = false → acc.source = .pkg (specParts ovWith).1 (specParts ovWith).2 ∧ imp (specParts ovWith).1 = true) := by
  unfold overrideAsset at h
  by_cases hsame : toOv = ovWith
  · simp [hsame] at h
  · simp only [hsame, if_false] at h
    by_cases habs : isabs ovWith = true
    · simp only [habs, if_true] at h
      by_cases hth : (w (.onFs ovWith)).there = true
      · simp only [hth, Bool.not_true, Bool.false_eq_true, if_false] at h
        obtain ⟨hk, rfl⟩ := kindCheck_ok.mp h
        exact ⟨hk, rfl, rfl, fun _ => ⟨rfl, hth⟩, fun hf => by simp [habs] at hf⟩
      · simp [hth] at h
    · have habs' : isabs ovWith = false := by simpa using habs
      simp only [habs', Bool.false_eq_true, if_false] at h
      by_cases himp : imp (specParts ovWith).1 = true
      · simp only [himp, Bool.not_true, Bool.false_eq_true, if_false] at h
        obtain ⟨hk, rfl⟩ := kindCheck_ok.mp h
        refine ⟨?_, rfl, rfl, fun ht => by simp [habs'] at ht, fun _ => ⟨rfl, himp⟩⟩
        simp only [isDirPath, sourceIsDir]
        rw [hk]
        by_cases hp : (specParts ovWith).2 = []
        · simp [hp]
        · rw [endsWithSlash_of_parts hp]
      · simp [himp] at h

example : (overrideAsset probeWorld probeImportable "PA:d/".toList "PB:x/".toList).toOption
    = some ⟨['P', 'A'], ['d', '/'], .pkg ['P', 'B'] ['x', '/']⟩ := by decide

/-- a directory is never overridden with a file, nor a file with a directory -/
theorem kind_mismatch_refused (w : World) (imp : Text → Bool) (toOv ovWith : Text) (hne : toOv ≠ ovWith)
    (habs : isabs ovWith = true) (hth : (w (.onFs ovWith)).there = true)
    (hk : isDirPath (specParts toOv).2 ≠ (w (.onFs ovWith)).isDir) :
    overrideAsset w imp toOv ovWith = .error (if isDirPath (specParts toOv).2 then .dirWithFile else .fileWithDir) := by
  unfold overrideAsset
  simp only [hne, if_false, habs, if_true, hth, Bool.not_true, Bool.false_eq_true]
  exact kindCheck_ne _ hk

example : "PA:d/".toList ≠ "/T/file".toList ∧ isabs "/T/file".toList = true ∧ (probeWorld (.onFs "/T/file".toList)).there = true ∧
    isDirPath (specParts "PA:d/".toList).2 ≠ (probeWorld (.onFs "/T/file".toList)).isDir := by decide

/-- completeness: distinct specs, an admissible source and matching kinds are accepted -/
theorem validation_complete_pkg (w : World) (imp : Text → Bool) (toOv ovWith : Text) (hne : toOv ≠ ovWith)
    (habs : isabs ovWith = false) (himp : imp (specParts ovWith).1 = true)
    (hk : isDirPath (specParts toOv).2 = ((specParts ovWith).2 = [] || endsWithSlash ovWith)) :
    overrideAsset w imp toOv ovWith
      = .ok ⟨(specParts toOv).1, (specParts toOv).2, .pkg (specParts ovWith).1 (specParts ovWith).2⟩ := by
  unfold overrideAsset
  simp only [hne, if_false, habs, Bool.false_eq_true, himp, Bool.not_true]
  exact kindCheck_ok.mpr ⟨hk, rfl⟩

example : "PA:d/".toList ≠ "PB".toList ∧ isabs "PB".toList = false ∧ probeImportable (specParts "PB".toList).1 = true ∧
    isDirPath (specParts "PA:d/".toList).2 = ((specParts "PB".toList).2 = [] || endsWithSlash "PB".toList) := by decide

/-! ## 5. the registry: overrides of different packages do not interfere; a whole history is read per package -/

/-- after the deferred actions of a batch ran, the overrides of a package are its previous ones with this batch's
declarations FOR THAT PACKAGE inserted in declaration order; the declarations for other packages leave them alone -/
theorem registry_per_package (imp : Text → Bool) (i : Nat) (r r' : Registry) (accs : List Accepted) (pkg : Text)
    (h : commitAll imp i r accs = .ok r') :
    r'.get pkg =
      if declsOf accs pkg = [] then r.get pkg
      else some ((declsOf accs pkg).foldl (fun ovs d => insert ovs d.1 d.2) ((r.get pkg).getD [])) := by
  induction accs generalizing i r with
  | nil => simp [commitAll] at h; subst h; simp [declsOf]
  | cons a rest ih =>
    simp only [commitAll, register] at h
    by_cases hi : imp a.package = true
    · simp only [hi, Bool.not_true, Bool.false_eq_true, if_false] at h
      have := ih (i + 1) (r.insert a.package a.path a.source) h
      rw [this, registry_insert_get]
      by_cases hp : a.package = pkg
      · subst hp
        simp only [declsOf, List.filter_cons, decide_true, if_true, List.map_cons, List.foldl_cons]
        by_cases hrest : (List.filter (fun b => decide (b.package = a.package)) rest) = []
        · simp [hrest]
        · simp [hrest]
      · have hp' : pkg ≠ a.package := fun h => hp h.symm
        simp [declsOf, hp, hp']
    · simp [hi] at h

/-- the whole pipeline: a history of batches, each declared and then committed, starting from an empty registry —
for every package and name the provider serves what the reading says for the declarations ACCEPTED FOR THAT PACKAGE, in
declaration order (and the package's own resource when nothing was declared for it) -/
theorem configured_serves_spec (w : World) (imp : Text → Bool) (batches : List (List (Text × Text))) (reg : Registry)
    (h : runBatches w imp 0 [] batches = .ok reg) :
    ∃ accs : List Accepted,
      AllAccepted w imp batches.flatten accs ∧
      ∀ pkg name, Prov.filename w (reg.get pkg) pkg name = .ok (specServed w (declsOf accs pkg) pkg name) := by
  -- generalised over the registry reached so far, described by the accepted declarations so far
  suffices key : ∀ (bs : List (List (Text × Text))) (i : Nat) (r : Registry) (done : List Accepted),
      (∀ pkg, r.get pkg = if declsOf done pkg = [] then none else some (registered (declsOf done pkg))) →
      runBatches w imp i r bs = .ok reg →
      ∃ accs, AllAccepted w imp bs.flatten accs ∧
        ∀ pkg, reg.get pkg = if declsOf (done ++ accs) pkg = [] then none else some (registered (declsOf (done ++ accs) pkg)) by
    obtain ⟨accs, hf, hreg⟩ := key batches 0 [] [] (fun pkg => by simp [declsOf, Registry.get]) h
    refine ⟨accs, hf, fun pkg name => ?_⟩
    rw [hreg pkg]
    simp only [List.nil_append]
    by_cases hd : declsOf accs pkg = []
    · simp [hd, Prov.filename, Prov.orDefault, specServed]
    · simp only [hd, if_false]; exact served_eq_spec w _ pkg name
  intro bs
  induction bs with
  | nil =>
    intro i r done hr h
    simp only [runBatches] at h
    cases h
    exact ⟨[], by simpa using AllAccepted.nil, by simpa using hr⟩
  | cons b bs ih =>
    intro i r done hr h
    simp only [runBatches] at h
    cases hd : declareAll w imp i b with
    | error f => simp [hd] at h
    | ok accs1 =>
      simp only [hd] at h
      cases hc : commitAll imp i r accs1 with
      | error f => simp [hc] at h
      | ok r1 =>
        simp only [hc] at h
        -- the batch's declarations were each accepted
        have hacc : ∀ (b : List (Text × Text)) (i : Nat) (accs1 : List Accepted), declareAll w imp i b = .ok accs1 →
            AllAccepted w imp b accs1 := by
          intro b
          induction b with
          | nil => intro i accs1 h; simp [declareAll] at h; subst h; exact .nil
          | cons d ds ihd =>
            intro i accs1 h
            obtain ⟨x, y⟩ := d
            simp only [declareAll] at h
            cases ho : overrideAsset w imp x y with
            | error e => simp [ho] at h
            | ok a =>
              simp only [ho] at h
              cases hrest : declareAll w imp (i + 1) ds with
              | error f => simp [hrest] at h
              | ok as =>
                simp only [hrest] at h
                cases h
                exact .cons ho (ihd (i + 1) as hrest)
        have hr1 : ∀ pkg, r1.get pkg = if declsOf (done ++ accs1) pkg = [] then none
            else some (registered (declsOf (done ++ accs1) pkg)) := by
          intro pkg
          rw [registry_per_package imp i r r1 accs1 pkg hc, hr pkg]
          have happ : declsOf (done ++ accs1) pkg = declsOf done pkg ++ declsOf accs1 pkg := by
            simp [declsOf, List.filter_append]
          rw [happ]
          by_cases h1 : declsOf accs1 pkg = []
          · simp [h1]
          · by_cases h0 : declsOf done pkg = []
            · simp [h1, h0, registered]
            · simp [h1, h0, registered, List.foldl_append]
        obtain ⟨accs2, hf2, hreg⟩ := ih (i + b.length) r1 (done ++ accs1) hr1 h
        refine ⟨accs1 ++ accs2, ?_, ?_⟩
        · simp only [List.flatten_cons]
          exact (hacc b i accs1 hd).append hf2
        · intro pkg; simpa [List.append_assoc] using hreg pkg

example : (runBatches probeWorld probeImportable 0 []
    [[("PA:d/".toList, "PB:x/".toList)], [("PA:d/".toList, "/T/dir".toList), ("PB".toList, "PA:d/".toList)]]).toOption =
    some [(['P', 'A'], [.dir ['d', '/'] (.fs "/T/dir".toList), .dir ['d', '/'] (.pkg ['P', 'B'] ['x', '/'])]),
         (['P', 'B'], [.dir [] (.pkg ['P', 'A'] ['d', '/'])])] := by decide

/-! ## 6. asset specifications -/

/-- a package name as the round trips need it: not empty, no colon, not beginning with a slash -/
def PkgNameOk (p : Text) : Prop := p ≠ [] ∧ p.contains ':' = false ∧ isabs p = false ∧ p ≠ mainName

/-- `asset_spec_from_abspath ∘ abspath_from_asset_spec` gives the spec back, for every package-relative spec `p:f` whose
path is clean (non-empty `/`-separated segments); `resource_filename` = the default provider's `_fn` under `root` -/
theorem spec_roundtrip (p root : Text) (segs : List Text) (pn : Text)
    (hp : PkgNameOk p) (hs : CleanSegs segs) (hr : root ≠ []) (hrs : root.getLast? ≠ some '/') :
    assetSpecFromAbspath (abspathFromAssetSpec (fun _ f => fn root f) (p ++ ':' :: joinSegs segs) (some pn)) p root
      = p ++ ':' :: joinSegs segs := by
  obtain ⟨hne, hcolon, habs, hmain⟩ := hp
  have h1 : isabs (p ++ ':' :: joinSegs segs) = false := by
    cases p with
    | nil => exact absurd rfl hne
    | cons c cs => simpa [isabs] using habs
  have h2 : (p ++ ':' :: joinSegs segs).contains ':' = true := by simp
  have hres : resolveAssetSpec (p ++ ':' :: joinSegs segs) (some pn) = (some p, joinSegs segs) := by
    simp only [resolveAssetSpec, h1, h2, Bool.false_eq_true, if_false, if_true, splitColon_append hcolon]
  simp only [abspathFromAssetSpec, hres, fn_clean hs hr hrs, assetSpecFromAbspath, hmain, if_false]
  rw [show root ++ '/' :: joinSegs segs = (root ++ ['/']) ++ joinSegs segs by simp]
  simp

example : PkgNameOk "pa".toList ∧ CleanSegs ["templates".toList, "a.pt".toList] ∧ "/T/pa".toList ≠ [] ∧
    "/T/pa".toList.getLast? ≠ some '/' := by
  refine ⟨⟨by decide, by decide, by decide, by decide⟩, ⟨by decide, ?_⟩, by decide, by decide⟩
  intro s hs
  simp only [List.mem_cons, List.not_mem_nil, or_false] at hs
  rcases hs with rfl | rfl <;> decide

/-- the other way round: an absolute path under the package directory becomes a spec that resolves to it again -/
theorem abspath_roundtrip (p root : Text) (segs : List Text) (pn : Text)
    (hp : PkgNameOk p) (hs : CleanSegs segs) (hr : root ≠ []) (hrs : root.getLast? ≠ some '/') :
    abspathFromAssetSpec (fun _ f => fn root f) (assetSpecFromAbspath (root ++ '/' :: joinSegs segs) p root) (some pn)
      = root ++ '/' :: joinSegs segs := by
  have hstep : assetSpecFromAbspath (root ++ '/' :: joinSegs segs) p root = p ++ ':' :: joinSegs segs := by
    simp only [assetSpecFromAbspath, hp.2.2.2, if_false]
    rw [show root ++ '/' :: joinSegs segs = (root ++ ['/']) ++ joinSegs segs by simp]
    simp
  rw [hstep]
  obtain ⟨hne, hcolon, habs, hmain⟩ := hp
  have h1 : isabs (p ++ ':' :: joinSegs segs) = false := by
    cases p with
    | nil => exact absurd rfl hne
    | cons c cs => simpa [isabs] using habs
  have h2 : (p ++ ':' :: joinSegs segs).contains ':' = true := by simp
  have hres : resolveAssetSpec (p ++ ':' :: joinSegs segs) (some pn) = (some p, joinSegs segs) := by
    simp only [resolveAssetSpec, h1, h2, Bool.false_eq_true, if_false, if_true, splitColon_append hcolon]
  simp only [abspathFromAssetSpec, hres, fn_clean hs hr hrs]

/-- the package boundary is a path boundary: a path that merely shares a string prefix with the package directory
(`/x/foo` vs `/x/foobar/y`) is left alone -/
theorem abspath_outside_package_unchanged (p root : Text) (c : Char) (xs : Text) (hc : c ≠ '/') :
    assetSpecFromAbspath (root ++ c :: xs) p root = root ++ c :: xs ∧
    assetSpecFromAbspath root p root = root := by
  have hno : ∀ t : Text, (t.head? ≠ some '/') → (root ++ ['/']).isPrefixOf (root ++ t) = false := by
    intro t ht
    induction root with
    | nil =>
      cases t with
      | nil => simp
      | cons d ds =>
        simp only [List.nil_append, List.isPrefixOf, Bool.and_eq_false_imp]
        simp at ht; simp [Ne.symm ht]
    | cons r rs ih => simpa [List.isPrefixOf] using ih
  constructor
  · unfold assetSpecFromAbspath
    split
    · rfl
    · simp [hno (c :: xs) (by simpa using hc)]
  · unfold assetSpecFromAbspath
    split
    · rfl
    · have := hno [] (by simp)
      simp only [List.append_nil] at this
      simp [this]

/-- `AssetResolver.resolve` and `resolve_asset_spec` make the same absolute-vs-package decision and the same split -/
theorem resolve_agrees (pn : Text) (spec : Text) :
    resolve (some pn) spec = (match resolveAssetSpec spec (some pn) with
      | (none, f) => .fs f
      | (some p, f) => .pkg p f) := by
  unfold resolve resolveAssetSpec
  cases h1 : isabs spec <;> cases h2 : spec.contains ':' <;> simp

/-- a relative spec cannot be resolved without a package; an absolute one and a `pkg:path` one can -/
theorem resolve_without_package (spec : Text) :
    resolve none spec = .valueError ↔ (isabs spec = false ∧ spec.contains ':' = false) := by
  unfold resolve
  by_cases h1 : isabs spec = true
  · simp [h1]
  · by_cases h2 : spec.contains ':' = true
    · simp [h1]
    · simp [h1]

end Pyr.Assets
