/-
X07 — WSGI sub-application mounting: `pyramid.request.call_app_with_subpath_as_path_info`, `pyramid.wsgi.wsgiapp` /
`wsgiapp2` (extra coverage target; the statement is in notes/X07.md).  Property theorems about the executable model
`PyramidModel/Mount.lean`; the generated obligations at the end tie the model to tables made by RUNNING the tree under
test (extract/x07.py → Gen/X07.lean).

Reading aid: `Env.sn` / `Env.pi` are `environ.get('SCRIPT_NAME', '')` / `environ.get('PATH_INFO', '/')`; `wsgiOf x` is how a
subpath element is written into PATH_INFO; `segs w` are the non-empty '/'-separated pieces of a WSGI string;
`RawTail sn pi sub` says the written subpath elements are the last pieces of `sn ++ pi`.
-/
import PyramidModel.Lemmas.MountCanon
import PyramidModel.Gen.X07

namespace Pyr.Mount

open Pyr.Trav (splitOn joinWith splitPathInfo)

/-! ## 0. the loop is its declarative reading -/

/-- The `workback` loop (with its per-iteration `break` test) computes exactly the declarative reading: cut the reversed
element list after its n-th non-empty element; if that stretch reads as the subpath, the rest is the new SCRIPT_NAME,
otherwise everything is consumed.  All inputs, errors included. -/
theorem rewrite_eq_spec (e : Env) (sub : List Text) : rewrite e sub = specRewrite e sub := rewrite_eq_spec' e sub

/-! ## 1. the documented postconditions -/

/-- Whenever the call gets as far as the mounted application, both keys are set, and PATH_INFO is "/" + the written
subpath joined by "/" (+ "/" exactly when that is not "/", the old PATH_INFO is not "/" and ends with "/"). -/
theorem both_keys_set (e e' : Env) (sub : List Text) (h : rewrite e sub = .ok e') :
    ∃ s, e'.scriptName = some s ∧ e'.pathInfo = some (newPathInfo e.pi sub) := by
  obtain ⟨rest, _, he⟩ := rewrite_ok e e' sub h
  exact ⟨joinWorkback rest, by rw [he], by rw [he]⟩

/-- Postcondition "PATH_INFO starts with /" (hence "at least one of the two is set") — NO hypothesis on the input. -/
theorem path_info_starts_with_slash (e e' : Env) (sub : List Text) (h : rewrite e sub = .ok e') :
    ∃ t, e'.pathInfo = some ('/' :: t) := by
  obtain ⟨s, _, hp⟩ := both_keys_set e e' sub h
  rcases newPathInfo_cases e.pi sub with h1 | h1
  · exact ⟨joinWith '/' (sub.map wsgiOf), by rw [hp, h1]; rfl⟩
  · exact ⟨joinWith '/' (sub.map wsgiOf) ++ ['/'], by rw [hp, h1]; rfl⟩

/-- Postcondition "SCRIPT_NAME is not '/'", in the stronger form the code guarantees: the new SCRIPT_NAME NEVER ends with
a slash — NO hypothesis on the input (any environ, any subpath, tail or not). -/
theorem script_name_no_trailing_slash (e e' : Env) (sub : List Text) (h : rewrite e sub = .ok e') :
    ∃ s, e'.scriptName = some s ∧ s.getLast? ≠ some '/' ∧ s ≠ ['/'] := by
  obtain ⟨rest, hw, he⟩ := rewrite_ok e e' sub h
  have hsl : ∀ s ∈ rest, '/' ∉ s := fun s hs =>
    Trav.mem_splitOn_no_sep '/' _ s (by simpa using workLoop_subset sub _ _ _ hw s hs)
  have hl := joinWorkback_last rest hsl
  refine ⟨joinWorkback rest, by rw [he], hl, ?_⟩
  intro h1; rw [h1] at hl; exact hl rfl

/-- Postcondition "SCRIPT_NAME is empty or starts with /": holds whenever the old SCRIPT_NAME + PATH_INFO is empty or
starts with "/" (every PEP 3333 environ).  The guard is needed: see `script_name_shape_needs_guard`. -/
theorem script_name_shape (e e' : Env) (sub : List Text) (h : rewrite e sub = .ok e')
    (hg : e.sn ++ e.pi = [] ∨ (e.sn ++ e.pi).head? = some '/') :
    ∃ s, e'.scriptName = some s ∧ (s = [] ∨ s.head? = some '/') := by
  obtain ⟨rest, hw, he⟩ := rewrite_ok e e' sub h
  refine ⟨joinWorkback rest, by rw [he], ?_⟩
  rw [joinWorkback_eq]
  apply joinWorkback_head
  -- `rest.reverse` is a prefix of the split path, whose first element is empty
  obtain ⟨pre, hpre⟩ := workLoop_suffix sub _ _ _ hw
  have hraw : ∃ t, splitOn '/' (e.sn ++ e.pi) = [] :: t := by
    rcases hg with h0 | h0
    · rw [h0]; exact ⟨[], rfl⟩
    · cases hw' : e.sn ++ e.pi with
      | nil => rw [hw'] at h0; simp at h0
      | cons c cs =>
        rw [hw'] at h0
        simp only [List.head?_cons, Option.some.injEq] at h0
        subst h0
        exact ⟨splitOn '/' cs, Trav.splitOn_cons_sep '/' cs⟩
  obtain ⟨t, ht⟩ := hraw
  have h2 : rest.reverse ++ pre.reverse = [] :: t := by
    rw [← List.reverse_append, hpre, List.reverse_reverse, ht]
  cases hr : rest.reverse with
  | nil => left; rfl
  | cons x xs =>
    right
    rw [hr] at h2
    injection h2 with h3 _
    exact ⟨xs, by rw [h3]⟩

/-- the excluded point, run on the real code too (corpus/X07/w03): SCRIPT_NAME "s" stays "s" -/
theorem script_name_shape_needs_guard :
    rewrite { scriptName := some ['s'], pathInfo := some ['/', 'a'] } [['a']]
      = .ok { scriptName := some ['s'], pathInfo := some ['/', 'a'] } := by decide

/-! ## 2. the new PATH_INFO reads back as the subpath -/

/-- The new PATH_INFO is the WSGI writing of a text that `split_path_info` (C02's model) normalises to exactly the
subpath — for every subpath whose elements are proper segments (non-empty, not "." / "..", no "/" inside), i.e. every
subpath traversal or a route can produce.  So a Pyramid application mounted below sees the subpath as its path. -/
theorem path_info_reads_back (e e' : Env) (sub : List Text) (h : rewrite e sub = .ok e')
    (hc : ∀ x ∈ sub, Trav.Clean x ∧ '/' ∉ x) :
    ∃ p t, e'.pathInfo = some p ∧ decodeEl p = .ok t ∧ splitPathInfo t = sub := by
  obtain ⟨_, _, hp⟩ := both_keys_set e e' sub h
  exact ⟨_, textPathInfo e.pi sub, hp, by rw [newPathInfo_eq_wsgiOf, decodeEl_wsgiOf], splitPathInfo_textPathInfo e.pi sub hc⟩

/-- outside that guard the reading differs — an element with a "/" inside splits in two (run on the real code: corpus w04) -/
theorem path_info_slash_inside_splits :
    rewrite { scriptName := some [], pathInfo := some ['/', 'x'] } [['a', '/', 'b']]
      = .ok { scriptName := some [], pathInfo := some ['/', 'a', '/', 'b'] } := by decide

/-! ## 3. the subpath is the tail of the path: nothing lost, nothing duplicated, no error -/

/-- **Main theorem.**  When the written subpath elements are the last non-empty pieces of SCRIPT_NAME + PATH_INFO, the call
never raises (whatever bytes lie to the left, UTF-8 or not), the new SCRIPT_NAME denotes exactly the pieces before the
subpath, and SCRIPT_NAME + PATH_INFO of the mounted application denotes the same piece sequence as the old pair. -/
theorem tail_segments_preserved (e : Env) (sub : List Text) (h : RawTail e.sn e.pi sub) :
    ∃ s, rewrite e sub = .ok { scriptName := some s, pathInfo := some (newPathInfo e.pi sub) } ∧
      segs s ++ sub.map wsgiOf = segs (e.sn ++ e.pi) ∧
      segs (s ++ newPathInfo e.pi sub) = segs (e.sn ++ e.pi) := by
  obtain ⟨pre, hpre⟩ := h
  obtain ⟨rest, hw, hne, hsub⟩ := workLoop_tail (splitOn '/' (e.sn ++ e.pi)) pre sub hpre.symm
  have hsl : ∀ s ∈ rest, '/' ∉ s := fun s hs => Trav.mem_splitOn_no_sep '/' _ s (hsub s hs)
  have hs : segs (joinWorkback rest) = pre := by rw [segs_joinWorkback rest hsl, hne, List.reverse_reverse]
  have hel : ∀ x ∈ sub.map wsgiOf, x ≠ [] ∧ '/' ∉ x := fun x hx =>
    mem_segs (w := e.sn ++ e.pi) (by rw [← hpre]; exact List.mem_append_right _ hx)
  refine ⟨joinWorkback rest, rewrite_of_loop e sub rest hw, ?_, ?_⟩
  · rw [hs, hpre]
  · rw [segs_newPathInfo _ _ _ hel, hs, hpre]

/-- bytes that are not UTF-8 to the left of the subpath are never looked at (non-vacuity of "whatever lies to the left") -/
example : RawTail ['/', Char.ofNat 255] ['/', 'a'] [['a']] := by decide

/-! ## 4. empty subpath -/

/-- Empty subpath ⇒ PATH_INFO "/" and SCRIPT_NAME = the whole old path without its trailing slashes — every environ. -/
theorem empty_subpath (e : Env) :
    rewrite e [] = .ok { scriptName := some (rstripSlash (e.sn ++ e.pi)), pathInfo := some ['/'] } := by
  have hw : workLoop [] (splitOn '/' (e.sn ++ e.pi)).reverse [] = .ok (splitOn '/' (e.sn ++ e.pi)).reverse := by
    cases h : (splitOn '/' (e.sn ++ e.pi)).reverse with
    | nil => rfl
    | cons x xs => simp [workLoop]
  rw [rewrite_of_loop e [] _ hw, joinWorkback_eq, List.reverse_reverse, join_strip_split]
  rfl

/-! ## 5. the subpath is NOT a tail of the path -/

/-- When every piece of the old path decodes (to `ds`) and the subpath is not a suffix of `ds`, the loop consumes the whole
path: the mounted application gets SCRIPT_NAME "" (and PATH_INFO made of the subpath alone) — the prefix is LOST.
This is what the code does, silently; see `dot_in_tail_loses_prefix` for where it hurts. -/
theorem not_a_tail_script_name_empty (e : Env) (sub ds : List Text)
    (hd : decList (segs (e.sn ++ e.pi)) = .ok ds) (hn : ¬ sub <:+ ds) :
    rewrite e sub = .ok { scriptName := some [], pathInfo := some (newPathInfo e.pi sub) } := by
  have hr := decList_reverse _ _ hd
  unfold segs at hr
  rw [← nonEmpty_reverse] at hr
  have hw : workLoop sub (splitOn '/' (e.sn ++ e.pi)).reverse [] = .ok [] := by
    rw [workLoop_eq_spec, specWorkback, decRev_eq, nonEmpty_takeNe_fst]
    rw [← List.take_append_drop sub.length (nonEmpty _)] at hr
    obtain ⟨x, y, hx, hy, hz⟩ := decList_append_inv _ _ _ hr
    simp only [hx, List.append_nil]
    have hne : x.reverse ≠ sub := by
      intro h
      apply hn
      have : ds = y.reverse ++ x.reverse := by
        have := congrArg List.reverse hz
        simpa using this
      rw [this, h]
      exact List.suffix_append _ _
    simp only [hne, if_false, decRev_eq, nonEmpty_takeNe_snd, hy]
  rw [rewrite_of_loop e sub [] hw]
  rfl

example : decList (segs (['/', 's'] ++ ['/', 'a', '/', 'x'])) = .ok [['s'], ['a'], ['x']] ∧ ¬ [['a']] <:+ [['s'], ['a'], ['x']] := by decide

/-- **Dichotomy for a path that decodes** (to the text pieces `ds`): either the subpath is a suffix of `ds` — then the call
succeeds and the new SCRIPT_NAME reads as exactly the pieces of `ds` before that suffix — or it is not, and SCRIPT_NAME
is "".  There is no third outcome and no error.  (Decoded level: no assumption on how the pieces are spelled.) -/
theorem decoded_dichotomy (e : Env) (sub ds : List Text) (hd : decList (segs (e.sn ++ e.pi)) = .ok ds) :
    (sub <:+ ds → ∃ s front, rewrite e sub = .ok { scriptName := some s, pathInfo := some (newPathInfo e.pi sub) } ∧
        decList (segs s) = .ok front ∧ front ++ sub = ds) ∧
    (¬ sub <:+ ds → rewrite e sub = .ok { scriptName := some [], pathInfo := some (newPathInfo e.pi sub) }) := by
  refine ⟨?_, not_a_tail_script_name_empty e sub ds hd⟩
  rintro ⟨front, hfront⟩
  have hsplit := List.take_append_drop front.length (segs (e.sn ++ e.pi))
  rw [← hsplit] at hd
  obtain ⟨x, y, hx, hy, hz⟩ := decList_append_inv _ _ _ hd
  have hxl := decList_length _ _ hx
  have hlen : x.length = front.length := by
    rw [hxl, List.length_take]
    have h1 := decList_length _ _ (decList_append_ok _ _ _ _ hx hy)
    rw [hsplit, ← hz, ← hfront] at h1
    simp only [List.length_append] at h1
    omega
  have hxy : x = front ∧ y = sub := List.append_inj (by rw [← hz, hfront]) hlen
  obtain ⟨rest, hw, hne, hsub⟩ := workLoop_tail_dec (splitOn '/' (e.sn ++ e.pi)) _ _ sub hsplit.symm (by rw [hy, hxy.2])
  have hsl : ∀ s ∈ rest, '/' ∉ s := fun s hs => Trav.mem_splitOn_no_sep '/' _ s (hsub s hs)
  refine ⟨joinWorkback rest, front, rewrite_of_loop e sub rest hw, ?_, hfront⟩
  rw [segs_joinWorkback rest hsl, hne, List.reverse_reverse, hx, hxy.1]

/-- A piece of the path that reads (latin-1 → strict UTF-8) as the text `x` is spelled exactly `wsgiOf x`: the decoder
accepts no second spelling (no overlong forms, no surrogates), so "reads as the subpath" and "is written as the
subpath" are the same thing. -/
theorem decoding_is_canonical (el x : Text) : decodeEl el = .ok x ↔ el = wsgiOf x :=
  ⟨decodeEl_canonical el x, fun h => by rw [h, decodeEl_wsgiOf]⟩

/-- Hence, for a path that decodes to `ds`, the tail hypothesis of `tail_segments_preserved` is precisely "the subpath is
a suffix of `ds`": together with `decoded_dichotomy` the two theorems cover every decodable environ. -/
theorem raw_tail_iff_decoded_suffix (sn pi : Text) (sub ds : List Text) (hd : decList (segs (sn ++ pi)) = .ok ds) :
    RawTail sn pi sub ↔ sub <:+ ds := by
  have hc := decList_canonical _ _ hd
  constructor
  · rintro ⟨pre, hpre⟩
    rw [← hpre] at hd
    obtain ⟨x, y, _, hy, hz⟩ := decList_append_inv _ _ _ hd
    rw [decList_wsgiOf] at hy
    injection hy with hy
    exact ⟨x, by rw [hz, hy]⟩
  · rintro ⟨front, hfront⟩
    exact ⟨front.map wsgiOf, by rw [hc, ← hfront, List.map_append]⟩

/-! ## 6. errors -/

/-- The only errors are decoding errors of path pieces, found while scanning from the right: an error means that the
stretch holding the last n non-empty pieces, or (after a mismatch) the rest of the path, has a piece that is not a WSGI
string (UnicodeEncodeError) or not UTF-8 (UnicodeDecodeError).  With `tail_segments_preserved`: never when the subpath
is the tail. -/
theorem error_only_from_decoding (e : Env) (sub : List Text) (err : Err) (h : rewrite e sub = .error err) :
    ∃ s ∈ segs (e.sn ++ e.pi), decodeEl s = .error err := by
  have key : ∀ (l acc : List Text), decRev l acc = .error err → ∃ s ∈ nonEmpty l, decodeEl s = .error err := by
    intro l
    induction l with
    | nil => intro acc h; simp [decRev] at h
    | cons x xs ih =>
      intro acc h
      by_cases hx : x = []
      · subst hx
        simp only [decRev, if_true] at h
        rw [nonEmpty_cons_empty]; exact ih acc h
      · simp only [decRev, hx, if_false] at h
        rw [nonEmpty_cons_ne _ _ hx]
        cases hd : decodeEl x with
        | error e2 =>
          simp only [hd, Except.error.injEq] at h
          exact ⟨x, by simp, by rw [hd, h]⟩
        | ok t =>
          simp only [hd] at h
          obtain ⟨s, hs, hse⟩ := ih _ h
          exact ⟨s, List.mem_cons_of_mem _ hs, hse⟩
  rw [rewrite_eq_spec] at h
  unfold specRewrite specScriptName specWorkback at h
  simp only [] at h
  have hmem : ∀ k s, (s ∈ nonEmpty (takeNe k (splitOn '/' (e.sn ++ e.pi)).reverse).1 ∨
      s ∈ nonEmpty (takeNe k (splitOn '/' (e.sn ++ e.pi)).reverse).2) → s ∈ segs (e.sn ++ e.pi) := by
    intro k s hs
    have := takeNe_append k (splitOn '/' (e.sn ++ e.pi)).reverse
    have h2 : s ∈ nonEmpty (splitOn '/' (e.sn ++ e.pi)).reverse := by
      rw [← this, nonEmpty_append]; exact List.mem_append.mpr hs
    rw [nonEmpty_reverse] at h2
    simpa [segs] using h2
  cases h1 : decRev (takeNe sub.length (splitOn '/' (e.sn ++ e.pi)).reverse).1 [] with
  | error e1 =>
    simp only [h1, Except.error.injEq] at h
    subst h
    obtain ⟨s, hs, hse⟩ := key _ _ h1
    exact ⟨s, hmem _ s (.inl hs), hse⟩
  | ok got =>
    simp only [h1] at h
    by_cases hg : got = sub
    · simp [hg] at h
    · simp only [hg, if_false] at h
      cases h2 : decRev (takeNe sub.length (splitOn '/' (e.sn ++ e.pi)).reverse).2 got with
      | error e2 =>
        simp only [h2, Except.error.injEq] at h
        subst h
        obtain ⟨s, hs, hse⟩ := key _ _ h2
        exact ⟨s, hmem _ s (.inr hs), hse⟩
      | ok _ => simp [h2] at h

/-- both error kinds occur (run on the real code: corpus w05, w06) -/
theorem errors_occur :
    rewrite { scriptName := some ['/', Char.ofNat 255], pathInfo := some ['/', 'a'] } [['b']] = .error .unicodeDecode ∧
    rewrite { scriptName := some ['/', Char.ofNat 955], pathInfo := some ['/', 'a'] } [['b']] = .error .unicodeEncode := by
  decide

/-! ## 7. wsgiapp / wsgiapp2 -/

/-- `wsgiapp` hands the environ on as it is; `wsgiapp2` is the rewrite with `request.subpath`. -/
theorem decorators (e : Env) (sub : List Text) : mount .plain e sub = .ok e ∧ mount .fixup e sub = rewrite e sub := ⟨rfl, rfl⟩

/-! ## 8. where the subpath comes from -/

/-- What traversal or a `*subpath` route derives — any suffix of `split_path_info` of the decoded PATH_INFO — IS a raw
tail, provided the path text has no "." / ".." segment and PATH_INFO starts with "/" (any SCRIPT_NAME).  `_partial`:
with a dot segment among the pieces that make up the subpath the conclusion is false, see `dot_in_tail_loses_prefix`. -/
theorem derived_subpath_is_tail_partial (sn t : Text) (sub : List Text) (hd : DotFree ('/' :: t))
    (hs : sub <:+ splitPathInfo ('/' :: t)) : RawTail sn (wsgiOf ('/' :: t)) sub := by
  rw [splitPathInfo_dotfree _ hd, Trav.splitOn_cons_sep, nonEmpty_cons_empty] at hs
  obtain ⟨pre, hpre⟩ := hs
  unfold RawTail
  rw [wsgiOf_cons, wsgiOf_slash]
  show _ <:+ segs (sn ++ '/' :: wsgiOf t)
  rw [segs_append_slash, segs_wsgiOf]
  unfold segs
  rw [← hpre, List.map_append, ← List.append_assoc]
  exact List.suffix_append _ _

/-- Consequently: for a dot-free path, mounting under whatever traversal / the route derived loses and duplicates nothing
and raises nothing. -/
theorem derived_subpath_preserved_partial (sn t : Text) (sub : List Text) (hd : DotFree ('/' :: t))
    (hs : sub <:+ splitPathInfo ('/' :: t)) :
    let e : Env := { scriptName := some sn, pathInfo := some (wsgiOf ('/' :: t)) }
    ∃ s, rewrite e sub = .ok { scriptName := some s, pathInfo := some (newPathInfo e.pi sub) } ∧
      segs (s ++ newPathInfo e.pi sub) = segs (sn ++ wsgiOf ('/' :: t)) := by
  intro e
  obtain ⟨s, h1, _, h3⟩ := tail_segments_preserved e sub (derived_subpath_is_tail_partial sn t sub hd hs)
  exact ⟨s, h1, h3⟩

example : DotFree ['/', 'm', 'n', 't', '/', '/', 'a', '/', 'b', '/'] ∧
    [['a'], ['b']] <:+ splitPathInfo ['/', 'm', 'n', 't', '/', '/', 'a', '/', 'b', '/'] := by decide

/-- **F-X07a (witness, replayed on the real code: corpus w01/w02).**  PATH_INFO "/mnt/a/./b" under the route "/mnt*subpath":
the route derives the subpath (a, b) — a suffix of the normalised path — but the loop compares raw pieces, never finds
(a, b), consumes everything, and the mounted application gets SCRIPT_NAME "" instead of "/s/mnt": the pieces s and mnt
are lost. -/
theorem dot_in_tail_loses_prefix :
    let pi : Text := ['/', 'm', 'n', 't', '/', 'a', '/', '.', '/', 'b']
    routeStar ['/', 'm', 'n', 't'] pi = some [['a'], ['b']] ∧
    [['a'], ['b']] <:+ splitPathInfo pi ∧
    ¬ RawTail ['/', 's'] pi [['a'], ['b']] ∧
    rewrite { scriptName := some ['/', 's'], pathInfo := some pi } [['a'], ['b']]
      = .ok { scriptName := some [], pathInfo := some ['/', 'a', '/', 'b'] } := by decide

/-- The route glue: a route "pre*subpath" (literal prefix) yields `split_path_info` of what follows the prefix. -/
theorem route_subpath (pre path : Text) (sp : List Text) (h : routeStar pre path = some sp) :
    ∃ pre' rest, path = pre' ++ rest ∧ (pre' = pre ∨ pre' = '/' :: pre) ∧ sp = splitPathInfo rest := by
  unfold routeStar at h
  simp only [] at h
  have hq : (if pre.head? = some '/' then pre else '/' :: pre) = pre ∨ (if pre.head? = some '/' then pre else '/' :: pre) = '/' :: pre := by
    split
    · left; rfl
    · right; rfl
  generalize (if pre.head? = some '/' then pre else '/' :: pre) = q at h hq
  by_cases hp : q.isPrefixOf path = true
  · simp only [hp, if_true, Option.some.injEq] at h
    obtain ⟨r, hr⟩ := List.isPrefixOf_iff_prefix.mp hp
    exact ⟨q, r, hr.symm, hq, by rw [← h, ← hr, List.drop_left]⟩
  · simp [hp] at h

/-! ## 9. mounting twice -/

/-- Nested mounting composes: if the outer mount used the tail `mid ++ sub2` and the application below mounts again with
the shorter tail `sub2` (as a `*subpath` route inside it derives), the innermost application again sees the complete
piece sequence, its SCRIPT_NAME denotes the same pieces as a direct mount with `sub2` would give, and nothing raises. -/
theorem nested_mount (e e1 : Env) (mid sub2 : List Text) (h : RawTail e.sn e.pi (mid ++ sub2))
    (h1 : rewrite e (mid ++ sub2) = .ok e1) :
    ∃ s2 sd, rewrite e1 sub2 = .ok { scriptName := some s2, pathInfo := some (newPathInfo e1.pi sub2) } ∧
      rewrite e sub2 = .ok { scriptName := some sd, pathInfo := some (newPathInfo e.pi sub2) } ∧
      segs (s2 ++ newPathInfo e1.pi sub2) = segs (e.sn ++ e.pi) ∧ segs s2 = segs sd ∧
      newPathInfo e1.pi sub2 = newPathInfo e.pi sub2 := by
  obtain ⟨s1, hr1, _, hs1⟩ := tail_segments_preserved e (mid ++ sub2) h
  rw [hr1] at h1
  injection h1 with h1
  have hsn : e1.sn = s1 := by rw [← h1]; rfl
  have hpi : e1.pi = newPathInfo e.pi (mid ++ sub2) := by rw [← h1]; rfl
  obtain ⟨pre, hpre⟩ := h
  have ht1 : RawTail e1.sn e1.pi sub2 := by
    unfold RawTail
    rw [hsn, hpi, hs1, ← hpre, List.map_append, ← List.append_assoc]
    exact List.suffix_append _ _
  have htd : RawTail e.sn e.pi sub2 := by
    unfold RawTail
    rw [← hpre, List.map_append, ← List.append_assoc]
    exact List.suffix_append _ _
  obtain ⟨s2, hr2, ha2, hb2⟩ := tail_segments_preserved e1 sub2 ht1
  obtain ⟨sd, hrd, had, _⟩ := tail_segments_preserved e sub2 htd
  refine ⟨s2, sd, hr2, hrd, ?_, ?_, ?_⟩
  · rw [hb2, hsn, hpi, hs1]
  · rw [hsn, hpi, hs1] at ha2
    exact List.append_cancel_right (ha2.trans had.symm)
  · by_cases h0 : sub2 = []
    · subst h0; rw [newPathInfo_nil, newPathInfo_nil]
    · rw [hpi]
      apply newPathInfo_congr
      apply wantsSlash_newPathInfo
      · intro hc; exact h0 (List.append_eq_nil_iff.mp hc).2
      · intro x hx
        exact mem_segs (w := e.sn ++ e.pi) (by rw [← hpre]; exact List.mem_append_right _ hx)

example : RawTail ['/', 's'] ['/', 'o', '/', 'i', '/', 'x'] ([['i']] ++ [['x']]) := by decide

/-- Mounting again with the SAME subpath (an application that immediately delegates once more) changes nothing: under the
tail hypothesis the rewrite is idempotent — SCRIPT_NAME and PATH_INFO are reproduced exactly, character by character. -/
theorem remount_idempotent (e e1 : Env) (sub : List Text) (h : RawTail e.sn e.pi sub) (h1 : rewrite e sub = .ok e1) :
    rewrite e1 sub = .ok e1 := by
  obtain ⟨s1, hsc, hlast, _⟩ := script_name_no_trailing_slash e e1 sub h1
  obtain ⟨rest, _, he1⟩ := rewrite_ok e e1 sub h1
  have hsn : e1.sn = joinWorkback rest := by rw [he1]; rfl
  have hpi : e1.pi = newPathInfo e.pi sub := by rw [he1]; rfl
  have hs1 : s1 = joinWorkback rest := by
    have : e1.scriptName = some (joinWorkback rest) := by rw [he1]
    rw [hsc] at this; injection this
  rw [hs1] at hlast
  by_cases h0 : sub = []
  · subst h0
    rw [empty_subpath, hsn, hpi, newPathInfo_nil, rstripSlash_concat_slash _ hlast, he1, newPathInfo_nil]
  · obtain ⟨pre, hpre⟩ := h
    have hel : ∀ x ∈ sub.map wsgiOf, x ≠ [] ∧ '/' ∉ x := fun x hx =>
      mem_segs (w := e.sn ++ e.pi) (by rw [← hpre]; exact List.mem_append_right _ hx)
    have hw := workLoop_on_output e.pi (joinWorkback rest) sub h0 hel
    rw [← hsn, ← hpi] at hw
    rw [rewrite_of_loop e1 sub _ hw, joinWorkback_eq, List.reverse_reverse, join_strip_split, hsn,
      rstripSlash_id _ hlast, hpi, newPathInfo_congr _ e.pi sub (wantsSlash_newPathInfo e.pi sub h0 hel), he1]

/-! ## 10. generated obligations: the model against the running code (extract/x07.py → Gen/X07.lean) -/

open Pyr.Mount.Gen

/-- the probe of the tree under test answered and imported that tree -/
theorem gen_probe_trusted : probeStatus = ['o', 'k'] := by decide

/-- `call_app_with_subpath_as_path_info` on the 7 × 15 × 9 cube: the model's answer is the observed one, row by row -/
theorem gen_rewrite_cube :
    rewriteCubes.all (fun cube => cube.all (fun r =>
      outOf (rewrite { scriptName := r.1, pathInfo := r.2.1 } (r.2.2.1.getD [])) == some r.2.2.2)) = true ∧
    900 ≤ (rewriteCubes.map List.length).sum := by
  constructor
  · decide +kernel
  · decide +kernel

/-- the decorators of `pyramid.wsgi`: `wsgiapp` leaves the environ alone, `wsgiapp2` rewrites it -/
theorem gen_decorator_cube :
    decoratorCube.all (fun r =>
      outOf (mount (if r.1 then .fixup else .plain) { scriptName := some r.2.1, pathInfo := some r.2.2.1 } r.2.2.2.1)
        == some r.2.2.2.2) = true ∧ 60 ≤ decoratorCube.length := by
  constructor
  · decide +kernel
  · decide +kernel

/-- a real Router with `add_route(pre + '*subpath')` and a `wsgiapp2` view: match / subpath / mounted environ / errors -/
theorem gen_route_cube :
    routeCube.all (fun r => routeObs (viaRoute .fixup r.1 { scriptName := some ['/', 's'], pathInfo := some r.2.1 }) == some r.2.2) = true ∧
    100 ≤ routeCube.length := by
  constructor
  · decide +kernel
  · decide +kernel

/-- CPython's `str.split('/')` is `splitOn '/'` on every text of length ≤ 4 over {'/', 'a', '.'} -/
theorem gen_split : splitProbe.all (fun r => splitOn '/' r.1 == r.2) = true ∧ splitProbe.length = 121 := by
  constructor
  · decide +kernel
  · decide +kernel

/-- CPython's latin-1 → UTF-8 reading is `decodeEl` on all one-character strings and the multi-byte probe list -/
theorem gen_decode : decodeProbe.all (fun r => decodeObs r.1 == r.2) = true ∧ 270 ≤ decodeProbe.length := by
  constructor
  · decide +kernel
  · decide +kernel

end Pyr.Mount
