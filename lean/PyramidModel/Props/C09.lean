/-
C09 — Auth-ticket cookies authenticate exactly what was issued, until they expire.

Property theorems about the executable model `PyramidModel/AuthTkt.lean` (tied to src/pyramid/authentication.py by
the correspondence run of harness/c09.py).  Parameters, never interpreted: the hash (`env.H`, with its digest size)
and the Unicode database (`env.U`).  Hypotheses are named: `Hash.WellSized` (every digest has `digest_size` bytes),
`IpOk` (the client address is an IPv4/IPv6 address), `MacSecure` (unforgeability — only `no_other_identity` and
`identify_total` use it), clocks below 2³² (the wire format has 8 hex digits).

Every theorem is for ALL secrets, user ids, token lists, cookie strings, clocks, option combinations and
operation sequences; nothing here is checked on literals except the `example`s, which show the hypotheses are
satisfiable and exhibit the excluded points.
-/
import PyramidModel.Lemmas.AuthTktExamples
import PyramidModel.Lemmas.AuthTktAddr

namespace Pyr.AuthTkt

/-! ## 1. What is issued is accepted, with exactly its fields (wire level) -/

/-- **issue_parse_roundtrip** (full).  For every secret, userid text, address, token list, user data and clock
below 2³²: the value `AuthTicket.cookie_value()` builds is accepted by `parse_ticket` under the same secret, hash and
address, and yields exactly `(timestamp, userid, tokens, user_data)`.  Side conditions are those `remember`
guarantees: no `!` in tokens/user data, user data not ending in a double quote. -/
theorem issue_parse_roundtrip (env : Env) (hH : env.H.WellSized) (secret userid ip : Text) (tokens : List Text)
    (userData : Text) (ts : Nat) (v : Text) (hts : ts < 4294967296)
    (htok : '!' ∉ List.intercalate [','] tokens) (hud : '!' ∉ userData) (hend : EndsClean userData)
    (hv : cookieValue env secret userid ip tokens userData ts = .ok v) :
    parseTicket env secret v ip = .ok (some ⟨ts, userid, List.intercalate [','] tokens, userData⟩) := by
  cases hd : calcDigest env ip ts secret userid (List.intercalate [','] tokens) userData with
  | error e => simp [cookieValue, hd, bind, Except.bind] at hv
  | ok d =>
    rw [cookieValue_eq _ _ _ _ _ _ _ d hd] at hv
    simp at hv
    subst hv
    obtain ⟨ipts, _, hdm⟩ := calcDigest_ok_inv hd
    rw [parseTicket_accept_iff]
    exact ⟨d, parseFields_wire env.U _ d ts userid _ userData (by rw [hdm]; exact mac_length _ hH _ _)
      (by rw [hdm]; exact mac_isDigits _ _ _) hts htok hud hend, hd⟩

/-- the wire format really is limited to clocks below 2³²: `'%08x'` then needs nine digits -/
example : (hex8 4294967296).length = 9 := by
  have : natDigits 16 4294967296 = ['1', '0', '0', '0', '0', '0', '0', '0', '0'] := by
    simp [natDigits, digitChar]
  simp [hex8, this]

/-! ## 2. remember → identify (helper level), type of the user id preserved -/

/-- **remember_identify_roundtrip** (full).  A ticket issued by `remember` for a user id of type int / str / bytes
(any other type comes back as its `str()`) and validated tokens is accepted by any helper with the same secret, hash
and effective client address, at any time at which it is not expired, and `identify` yields exactly that user id
(same type), those tokens (`['']` for no tokens: `''.split(',')`), the issue time and the type tag; no request state
changes.  (The case in which this call also reissues is `reissue_once`.) -/
theorem remember_identify_roundtrip (env : Env) (hH : env.H.WellSized)
    (cfgA : Cfg) (reqA : Req) (stA stA' : St) (u : UserId) (ma : Option Nat) (toks : List Tok) (cs : List SetCookie)
    (hclk : reqA.clock < 4294967296)
    (hrem : remember env cfgA reqA stA false u ma toks = (.ok cs, stA'))
    (cfgB : Cfg) (reqB : Req) (stB : St)
    (hsec : cfgB.secret = cfgA.secret) (hip : remoteAddr cfgB reqB = remoteAddr cfgA reqA)
    (hlive : isExpired cfgB reqB.now reqA.clock = false)
    (hnr : reissueDue cfgB stB reqB.now reqA.clock = false) :
    ∃ c tl, cs = [c] ∧ checkTokens toks = .ok tl ∧ c.name = cfgA.cookieName ∧
      (reqB.cookie = some c.value →
        identify env cfgB reqB stB =
          (.ok (some ⟨reqA.clock, normUid u, tokensBack tl, userIdTypePrefix ++ (encodeUserid u).1⟩), stB)) := by
  obtain ⟨tl, d, hct, hd, _, hcs, _⟩ := remember_ok_inv hrem
  refine ⟨_, tl, hcs, hct, rfl, ?_⟩
  intro hck
  have htl := (checkTokens_ok hct).2
  have := identify_issued_plain env hH cfgB reqB stB u tl reqA.clock d hclk (fun t ht => (htl t ht).1)
    (by rw [hsec, hip]; exact hd) (by simpa [ticketCookie] using hck) hlive hnr
  simpa [issuedIdentity] using this

/-- `remember` succeeds whenever the address is well-formed, the tokens are valid and the ticket fits a cookie:
the hypothesis `hrem` above is satisfiable for all such inputs -/
theorem remember_succeeds (env : Env) (hH : env.H.WellSized) (cfg : Cfg) (req : Req) (st : St) (u : UserId)
    (ma : Option Nat) (tl : List Text)
    (htl : ∀ t ∈ tl, validToken t = true ∧ (t.all (·.toNat < 128)) = true)
    (hip : IpOk env.U (remoteAddr cfg req)) (hclk : req.clock < 4294967296)
    (hfit : issuedLen env.H.size u tl ≤ 4093) :
    ∃ c st', remember env cfg req st false u ma (tl.map .str) = (.ok [c], st') := by
  obtain ⟨b, hb⟩ := hip req.clock
  have hd := @calcDigest_of_ipts env (remoteAddr cfg req) req.clock cfg.secret (encodeUserid u).2
    (List.intercalate [','] tl) (userIdTypePrefix ++ (encodeUserid u).1) b hb
  have hlen := issuedValue_length env hH _ req.clock cfg.secret u tl _ hclk hd
  unfold remember
  simp only [checkTokens_map_str tl htl]
  rw [cookieValue_eq _ _ _ _ _ _ _ _ hd]
  have hnot : ¬ ((wire (mac env.H (utf8Enc cfg.secret) (digestInput b (utf8Enc cfg.secret) (encodeUserid u).2
      (List.intercalate [','] tl) (userIdTypePrefix ++ (encodeUserid u).1))) req.clock (encodeUserid u).2
      (List.intercalate [','] tl) (userIdTypePrefix ++ (encodeUserid u).1)).length > 4093) := by
    simp only [issuedValue] at hlen; omega
  simp [getCookies, hnot, pure, Except.pure]

/-! ## 3. Expiry, both sides of the boundary -/

theorem isExpired_iff (cfg : Cfg) (now : Nat) (ts : Int) :
    isExpired cfg now ts = true ↔ ∃ t, cfg.timeout = some t ∧ t ≠ 0 ∧ ts + (t : Int) < (now : Int) := by
  unfold isExpired
  cases cfg.timeout with
  | none => simp
  | some t => simp

/-- **expired_after** (full).  Whatever the cookie: once `timestamp + timeout < now` (timeout set and non-zero),
`identify` yields nothing and touches no request state — even for a ticket with a correct digest. -/
theorem expired_after (env : Env) (cfg : Cfg) (req : Req) (st : St) (c : Text) (p : Parsed) (t : Nat)
    (hc : req.cookie = some c) (hp : parseTicket env cfg.secret c (remoteAddr cfg req) = .ok (some p))
    (ht : cfg.timeout = some t) (h0 : t ≠ 0) (hexp : p.ts + (t : Int) < (req.now : Int)) :
    identify env cfg req st = (.ok none, st) :=
  identify_expired env cfg req st c p hc hp ((isExpired_iff _ _ _).mpr ⟨t, ht, h0, hexp⟩)

/-- the boundary itself: at `now = issue + timeout` the ticket is still live … -/
theorem live_at_expiry_boundary (cfg : Cfg) (ts t : Nat) (ht : cfg.timeout = some t) :
    isExpired cfg (ts + t) (ts : Int) = false := by
  cases h : isExpired cfg (ts + t) (ts : Int) with
  | false => rfl
  | true =>
    obtain ⟨t', ht', _, hlt⟩ := (isExpired_iff _ _ _).mp h
    rw [ht] at ht'; cases ht'
    omega

/-- … and one second later it is expired -/
theorem expired_just_after_boundary (cfg : Cfg) (ts t : Nat) (ht : cfg.timeout = some t) (h0 : t ≠ 0) :
    isExpired cfg (ts + t + 1) (ts : Int) = true :=
  (isExpired_iff _ _ _).mpr ⟨t, ht, h0, by omega⟩

/-- `timeout=None` and `timeout=0` both mean "never expires" (`if self.timeout and …`) -/
theorem no_timeout_never_expires (cfg : Cfg) (now : Nat) (ts : Int) (h : cfg.timeout = none ∨ cfg.timeout = some 0) :
    isExpired cfg now ts = false := by
  cases he : isExpired cfg now ts with
  | false => rfl
  | true =>
    obtain ⟨t, ht, h0, _⟩ := (isExpired_iff _ _ _).mp he
    rcases h with h | h <;> rw [h] at ht <;> simp at ht
    exact absurd ht.symm h0

/-- **accepted_until_expiry** (full): the issued ticket is accepted at every `now ≤ issue + timeout` (no reissue due) -/
theorem accepted_until_expiry (env : Env) (hH : env.H.WellSized)
    (cfg : Cfg) (reqA : Req) (stA stA' : St) (u : UserId) (ma : Option Nat) (toks : List Tok) (cs : List SetCookie)
    (hclk : reqA.clock < 4294967296) (hrem : remember env cfg reqA stA false u ma toks = (.ok cs, stA'))
    (reqB : Req) (stB : St) (t : Nat) (ht : cfg.timeout = some t)
    (hip : remoteAddr cfg reqB = remoteAddr cfg reqA) (hnow : reqB.now ≤ reqA.clock + t)
    (hnr : reissueDue cfg stB reqB.now reqA.clock = false) :
    ∃ c tl, cs = [c] ∧ checkTokens toks = .ok tl ∧
      (reqB.cookie = some c.value →
        identify env cfg reqB stB =
          (.ok (some ⟨reqA.clock, normUid u, tokensBack tl, userIdTypePrefix ++ (encodeUserid u).1⟩), stB)) := by
  have hlive : isExpired cfg reqB.now reqA.clock = false := by
    cases h : isExpired cfg reqB.now (reqA.clock : Int) with
    | false => rfl
    | true =>
      obtain ⟨t', ht', _, hlt⟩ := (isExpired_iff _ _ _).mp h
      rw [ht] at ht'; cases ht'
      omega
  obtain ⟨c, tl, h1, h2, _, h3⟩ := remember_identify_roundtrip env hH cfg reqA stA stA' u ma toks cs hclk hrem cfg reqB stB rfl
    hip hlive hnr
  exact ⟨c, tl, h1, h2, h3⟩

/-- **expired_after_issue** (full): the same ticket at any `now > issue + timeout` yields nothing -/
theorem expired_after_issue (env : Env) (hH : env.H.WellSized)
    (cfg : Cfg) (reqA : Req) (stA stA' : St) (u : UserId) (ma : Option Nat) (toks : List Tok) (c : SetCookie)
    (hclk : reqA.clock < 4294967296) (hrem : remember env cfg reqA stA false u ma toks = (.ok [c], stA'))
    (reqB : Req) (stB : St) (t : Nat) (ht : cfg.timeout = some t) (h0 : t ≠ 0)
    (hip : remoteAddr cfg reqB = remoteAddr cfg reqA) (hck : reqB.cookie = some c.value)
    (hnow : reqA.clock + t < reqB.now) :
    identify env cfg reqB stB = (.ok none, stB) := by
  obtain ⟨tl, d, hct, hd, _, hcs, _⟩ := remember_ok_inv hrem
  have htl := (checkTokens_ok hct).2
  simp only [List.cons.injEq, and_true] at hcs
  have hck' : reqB.cookie = some (issuedValue d u tl reqA.clock) := by rw [hck, hcs]; rfl
  exact identify_issued_expired env hH cfg reqB stB u tl reqA.clock d hclk (fun t ht => (htl t ht).1)
    (by rw [hip]; exact hd) hck' ((isExpired_iff _ _ _).mpr ⟨t, ht, h0, by omega⟩)

/-! ## 4. Nothing is accepted unless its digest field is the keyed digest of its other fields -/

/-- **accept_iff_digest** (full), for EVERY cookie string: `parse_ticket` accepts `c` with fields `p` iff, after
stripping double quotes, `c` is `digest ‖ 8-character timestamp ‖ quoted userid ‖ '!' ‖ data` with the digest exactly
`2·digest_size` characters, the timestamp field a Python hex integer literal, no `!` in the quoted userid, `p` the
fields so delimited — and the digest field equal to `calculate_digest` of those fields under the helper's secret and
the client address. -/
theorem accept_iff_digest (env : Env) (secret c ip : Text) (p : Parsed) :
    parseTicket env secret c ip = .ok (some p) ↔
      ∃ d t8 uq data, stripQuotes c = d ++ t8 ++ uq ++ '!' :: data ∧ d.length = env.H.size * 2 ∧ t8.length = 8 ∧
        '!' ∉ uq ∧ pyInt env.U 16 t8 = some p.ts ∧ p.userid = unquote uq ∧ p.tokens = (splitData data).1 ∧
        p.userData = (splitData data).2 ∧
        calcDigest env ip p.ts secret p.userid p.tokens p.userData = .ok d := by
  rw [parseTicket_accept_iff]
  constructor
  · rintro ⟨d, hpf, hcd⟩
    obtain ⟨t8, uq, data, h⟩ := (parseFields_iff _ _ _ _ _).mp hpf
    exact ⟨d, t8, uq, data, h.1, h.2.1, h.2.2.1, h.2.2.2.1, h.2.2.2.2.1, h.2.2.2.2.2.1, h.2.2.2.2.2.2.1, h.2.2.2.2.2.2.2, hcd⟩
  · rintro ⟨d, t8, uq, data, h1, h2, h3, h4, h5, h6, h7, h8, hcd⟩
    exact ⟨d, (parseFields_iff _ _ _ _ _).mpr ⟨t8, uq, data, h1, h2, h3, h4, h5, h6, h7, h8⟩, hcd⟩

/-- **identify_accepts_only_mac** (full): whenever `identify` returns an identity — for any cookie, configuration,
clock and request state — the cookie's digest field is the MAC (double hash keyed with the secret) of the address,
timestamp, userid, tokens and user data parsed from the rest of the cookie. -/
theorem identify_accepts_only_mac (env : Env) (cfg : Cfg) (req : Req) (st st' : St) (i : Identity)
    (h : identify env cfg req st = (.ok (some i), st')) :
    ∃ c d p ipts, req.cookie = some c ∧ parseFields env.U (env.H.size * 2) c = some (d, p) ∧
      ipTimestamp env.U (remoteAddr cfg req) p.ts = .ok ipts ∧
      d = mac env.H (utf8Enc cfg.secret) (digestInput ipts (utf8Enc cfg.secret) p.userid p.tokens p.userData) ∧
      i.ts = p.ts ∧ i.userData = p.userData := by
  unfold identify at h
  cases hc : req.cookie with
  | none => simp [hc, pure, Except.pure] at h
  | some c =>
    simp only [hc] at h
    cases hp : parseTicket env cfg.secret c (remoteAddr cfg req) with
    | error e => simp [hp] at h
    | ok o =>
      cases o with
      | none => simp [hp, pure, Except.pure] at h
      | some p =>
        obtain ⟨d, hpf, hcd⟩ := (parseTicket_accept_iff _ _ _ _ _).mp hp
        obtain ⟨ipts, hi, hdm⟩ := calcDigest_ok_inv hcd
        refine ⟨c, d, p, ipts, rfl, hpf, hi, hdm, ?_⟩
        simp only [hp] at h
        split at h
        · simp [pure, Except.pure] at h
        · cases hdl : decodeLoop env.U (splitAll '|' p.userData) (.str p.userid) with
          | error e => simp [hdl] at h
          | ok userid =>
            simp only [hdl] at h
            split at h
            · cases hrem : remember env cfg req st true userid cfg.maxAge
                  (((splitAll ',' p.tokens).filter (!·.isEmpty)).map .str) with
              | mk r s2 =>
                cases r with
                | error e => simp [hrem] at h
                | ok hs =>
                  simp [hrem, pure, Except.pure] at h
                  rw [← h.1]; exact ⟨rfl, rfl⟩
            · simp [pure, Except.pure] at h
              rw [← h.1]; exact ⟨rfl, rfl⟩

/-! ## 5. Encoding injectivity and "nothing, or the unchanged original identity" -/

/-- **fields_injective** (full).  With the same secret and an address/timestamp prefix of the same width, the bytes
fed to the hash determine the prefix, userid, tokens and user data — provided the fields of one side (the issued
ticket) contain no NUL. -/
theorem fields_injective (ipts ipts' secret : Bytes) (u t d u' t' d' : Text)
    (hlen : ipts.length = ipts'.length) (hu : NulFree u) (ht : NulFree t) (hd : NulFree d)
    (h : digestInput ipts secret u t d = digestInput ipts' secret u' t' d') :
    ipts = ipts' ∧ u = u' ∧ t = t' ∧ d = d' :=
  digestInput_injective ipts ipts' secret u t d u' t' d' hlen hu ht hd h

/-- what `remember` puts into a ticket is NUL-free, for every user id and valid token list -/
theorem issued_fields_nulfree (u : UserId) (tl : List Text) (htl : ∀ t ∈ tl, validToken t = true) :
    NulFree (encodeUserid u).2 ∧ NulFree (List.intercalate [','] tl) ∧ NulFree (userIdTypePrefix ++ (encodeUserid u).1) :=
  ⟨encodeUserid_nulfree u, intercalate_nulfree tl htl, tag_nulfree u⟩

/-- the width hypothesis of `fields_injective` always holds between two timestamps under one IPv4 address -/
theorem prefix_width_v4 (U : Uni) (ip : Text) (ts ts' : Int) (b b' : Bytes) (hv4 : ip.contains ':' = false)
    (h : ipTimestamp U ip ts = .ok b) (h' : ipTimestamp U ip ts' = .ok b') : b.length = b'.length := by
  rw [ipTimestamp_v4_length U ip ts b hv4 h, ipTimestamp_v4_length U ip ts' b' hv4 h']

/-- … and under one IPv6 address when the two decimal timestamps have the same number of digits (all clocks from
2001-09-09 to 2106 have ten) -/
theorem prefix_width_v6 (U : Uni) (ip : Text) (ts ts' : Int) (b b' : Bytes) (hv6 : ip.contains ':' = true)
    (hdig : (decStr ts).length = (decStr ts').length)
    (h : ipTimestamp U ip ts = .ok b) (h' : ipTimestamp U ip ts' = .ok b') : b.length = b'.length := by
  rw [ipTimestamp_v6_length U ip ts b hv6 h, ipTimestamp_v6_length U ip ts' b' hv6 h', hdig]

/-- a ticket the server issued through `remember`: user id, validated tokens, issue time -/
structure Issued where
  u : UserId
  tl : List Text
  clock : Nat

/-- the byte strings the server MACed for its issued tickets, under one secret and client address -/
def IssuedInputs (U : Uni) (ip secret : Text) (issued : List Issued) (inputs : List Bytes) : Prop :=
  ∀ x ∈ inputs, ∃ i ∈ issued, ∃ b, ipTimestamp U ip i.clock = .ok b ∧
    x = digestInput b (utf8Enc secret) (encodeUserid i.u).2 (List.intercalate [','] i.tl)
          (userIdTypePrefix ++ (encodeUserid i.u).1)

/-- **no_other_identity** (full, under the named MAC hypothesis).  Fix the helper's secret and the client address.
If the presented cookie — ANY string — is accepted, and its digest field is the MAC of nothing but byte strings the
server itself MACed for issued tickets (`MacSecure`), and the address/timestamp prefixes have equal width (always so
for IPv4: `prefix_width_v4`), then the parsed userid, tokens and user data are exactly those of one of the issued
tickets: an edited, spliced or invented cookie can only ever stand for an identity that was issued. -/
theorem no_other_identity (env : Env) (secret ip c : Text) (p : Parsed) (issued : List Issued) (inputs : List Bytes)
    (hvalid : ∀ i ∈ issued, ∀ t ∈ i.tl, validToken t = true)
    (hinputs : IssuedInputs env.U ip secret issued inputs)
    (hacc : parseTicket env secret c ip = .ok (some p))
    (hmac : ∀ d q, parseFields env.U (env.H.size * 2) c = some (d, q) → MacSecure env.H (utf8Enc secret) inputs d)
    (hwidth : ∀ i ∈ issued, ∀ b b', ipTimestamp env.U ip i.clock = .ok b → ipTimestamp env.U ip p.ts = .ok b' →
      b.length = b'.length) :
    ∃ i ∈ issued, p.userid = (encodeUserid i.u).2 ∧ p.tokens = List.intercalate [','] i.tl ∧
      p.userData = userIdTypePrefix ++ (encodeUserid i.u).1 ∧
      ∀ b b', ipTimestamp env.U ip i.clock = .ok b → ipTimestamp env.U ip p.ts = .ok b' → b = b' := by
  obtain ⟨d, hpf, hcd⟩ := (parseTicket_accept_iff _ _ _ _ _).mp hacc
  obtain ⟨ipts, hi, hdm⟩ := calcDigest_ok_inv hcd
  obtain ⟨i, hi_mem, b, hb, hx⟩ := hinputs _ (hmac d p hpf _ hdm.symm)
  have hw := hwidth i hi_mem b ipts hb hi
  obtain ⟨n1, n2, n3⟩ := issued_fields_nulfree i.u i.tl (hvalid i hi_mem)
  obtain ⟨e0, e1, e2, e3⟩ := digestInput_injective b ipts (utf8Enc secret) _ _ _ _ _ _ hw n1 n2 n3 hx.symm
  refine ⟨i, hi_mem, e1.symm, e2.symm, e3.symm, ?_⟩
  intro b1 b2 h1 h2
  rw [hb] at h1; rw [hi] at h2
  cases h1; cases h2; exact e0

/-- **identify_total** (full).  For every cookie string, configuration, clock and request state, with a well-formed
client address: `identify` never raises unless the cookie's digest was accepted (so garbage, truncated, edited,
re-quoted or non-ASCII cookies — F-C09a's input class included — give `None`). -/
theorem identify_total (env : Env) (cfg : Cfg) (req : Req) (st st' : St) (e : Err)
    (hip : IpOk env.U (remoteAddr cfg req))
    (h : identify env cfg req st = (.error e, st')) :
    ∃ c p, req.cookie = some c ∧ parseTicket env cfg.secret c (remoteAddr cfg req) = .ok (some p) := by
  obtain ⟨c, hc, hcase⟩ := identify_raised_cases env cfg req st e st' h
  rcases hcase with herr | ⟨p, hp⟩
  · obtain ⟨o, ho⟩ := parseTicket_total env cfg.secret c _ hip
    rw [ho] at herr; cases herr
  · exact ⟨c, p, hc, hp⟩

/-- **identify_nothing_or_issued** (full, under the MAC hypothesis): with an unforgeable MAC, `identify` on ANY cookie
never raises and yields nothing or the identity — user id with its type, tokens — of a ticket the server issued. -/
theorem identify_nothing_or_issued (env : Env) (hH : env.H.WellSized) (cfg : Cfg) (req : Req) (st : St)
    (issued : List Issued) (inputs : List Bytes)
    (hvalid : ∀ i ∈ issued, ∀ t ∈ i.tl, validToken t = true ∧ (t.all (·.toNat < 128)) = true)
    (hfit : ∀ i ∈ issued, issuedLen env.H.size i.u i.tl ≤ 4093)
    (hinputs : IssuedInputs env.U (remoteAddr cfg req) cfg.secret issued inputs)
    (hip : IpOk env.U (remoteAddr cfg req)) (hclk : req.clock < 4294967296)
    (hmac : ∀ c d q, req.cookie = some c → parseFields env.U (env.H.size * 2) c = some (d, q) →
      MacSecure env.H (utf8Enc cfg.secret) inputs d)
    (hwidth : ∀ i ∈ issued, ∀ ts b b', ipTimestamp env.U (remoteAddr cfg req) i.clock = .ok b →
      ipTimestamp env.U (remoteAddr cfg req) ts = .ok b' → b.length = b'.length) :
    ∃ r st', identify env cfg req st = (.ok r, st') ∧
      (r = none ∨ ∃ id i, r = some id ∧ i ∈ issued ∧ id.userid = normUid i.u ∧
        (id.tokens = tokensBack i.tl ∨ id.tokens = i.tl)) := by
  cases hc : req.cookie with
  | none => exact ⟨none, st, identify_no_cookie env cfg req st hc, Or.inl rfl⟩
  | some c =>
    obtain ⟨o, ho⟩ := parseTicket_total env cfg.secret c _ hip
    cases o with
    | none => exact ⟨none, st, identify_rejected env cfg req st c hc ho, Or.inl rfl⟩
    | some p =>
      obtain ⟨i, him, e1, e2, e3, _⟩ := no_other_identity env cfg.secret (remoteAddr cfg req) c p issued inputs
        (fun i hi t ht => (hvalid i hi t ht).1) hinputs ho (fun d q hq => hmac c d q hc hq)
        (fun i hi b b' hb hb' => hwidth i hi p.ts b b' hb hb')
      rcases identify_fields env hH cfg req st c p i.u i.tl hc ho e1 e2 e3 (hvalid i him) hip hclk (hfit i him) with
        ⟨_, h⟩ | ⟨_, _, h⟩ | ⟨_, _, d2, _, h⟩
      · exact ⟨none, st, h, Or.inl rfl⟩
      · exact ⟨_, _, h, Or.inr ⟨_, i, rfl, him, rfl, Or.inl rfl⟩⟩
      · exact ⟨_, _, h, Or.inr ⟨_, i, rfl, him, rfl, Or.inr rfl⟩⟩

/-! ## 5b. The ticket is bound to the address it was issued for (`include_ip`) -/

/-- **address_injective_v6** (full).  On the IPv6 branch the signed prefix is the address TEXT followed by the decimal
timestamp: two prefixes (timestamps of equal decimal width) are equal only for the same address string and timestamp —
`::1`, `0:0:0:0:0:0:0:1`, `[::1]`, `::ffff:1.2.3.4`, upper/lower-case spellings are all DIFFERENT addresses to the digest. -/
theorem address_injective_v6 (U : Uni) (ip ip' : Text) (ts ts' : Int) (b : Bytes)
    (h6 : ip.contains ':' = true) (h6' : ip'.contains ':' = true)
    (hw : (decStr ts).length = (decStr ts').length)
    (h : ipTimestamp U ip ts = .ok b) (h' : ipTimestamp U ip' ts' = .ok b) : ip = ip' ∧ ts = ts' :=
  ipTimestamp_v6_injective U ip ip' ts ts' b h6 h6' hw h h'

/-- **address_injective_v4** (full).  On the dotted branch the signed prefix is one byte per part (`chr(int(part))`) and
four timestamp bytes: two prefixes with the same number of parts are equal only for the same octet VALUES and the same
timestamp modulo 2³².  (The spelling of an octet — `1` / `001` / `int()`'s spaces and underscores — is not signed.) -/
theorem address_injective_v4 (U : Uni) (ip ip' : Text) (ts ts' : Int) (b : Bytes)
    (h4 : ip.contains ':' = false) (h4' : ip'.contains ':' = false)
    (hn : (splitAll '.' ip).length = (splitAll '.' ip').length)
    (h : ipTimestamp U ip ts = .ok b) (h' : ipTimestamp U ip' ts' = .ok b) :
    (splitAll '.' ip).mapM (ipOctet U) = (splitAll '.' ip').mapM (ipOctet U) ∧ ts % 4294967296 = ts' % 4294967296 :=
  ipTimestamp_v4_injective U ip ip' ts ts' b h4 h4' hn h h'

/-- **other_address_rejected** (full, under the named MAC hypothesis).  A ticket issued for `(u, tl)` at `clock` to
the client address `ipA`, presented — as ANY cookie string carrying its MAC — from the address `ipB`: if it is accepted
then the signed address/timestamp prefix is the one that was issued (and the fields are the issued ones).  With
`address_injective_v6` / `_v4` this is: it is accepted only from the same IPv6 address string (same timestamp), resp.
from an IPv4 address with the same octet values — never from another address. -/
theorem other_address_rejected (env : Env) (secret ipA ipB c : Text) (p : Parsed) (u : UserId) (tl : List Text)
    (clock : Nat) (bA : Bytes)
    (hvalid : ∀ t ∈ tl, validToken t = true)
    (_hA : ipTimestamp env.U ipA clock = .ok bA)
    (hacc : parseTicket env secret c ipB = .ok (some p))
    (hmac : ∀ d q, parseFields env.U (env.H.size * 2) c = some (d, q) →
      MacSecure env.H (utf8Enc secret) [digestInput bA (utf8Enc secret) (encodeUserid u).2 (List.intercalate [','] tl)
        (userIdTypePrefix ++ (encodeUserid u).1)] d)
    (hw : ∀ bB, ipTimestamp env.U ipB p.ts = .ok bB → bA.length = bB.length) :
    ipTimestamp env.U ipB p.ts = .ok bA ∧ p.userid = (encodeUserid u).2 ∧ p.tokens = List.intercalate [','] tl ∧
      p.userData = userIdTypePrefix ++ (encodeUserid u).1 := by
  obtain ⟨d, hpf, hcd⟩ := (parseTicket_accept_iff _ _ _ _ _).mp hacc
  obtain ⟨bB, hB, hdm⟩ := calcDigest_ok_inv hcd
  have hx := hmac d p hpf _ hdm.symm
  simp only [List.mem_singleton] at hx
  obtain ⟨n1, n2, n3⟩ := issued_fields_nulfree u tl hvalid
  obtain ⟨e0, e1, e2, e3⟩ := digestInput_injective bA bB (utf8Enc secret) _ _ _ _ _ _ (hw bB hB) n1 n2 n3 hx.symm
  exact ⟨by rw [hB, e0], e1.symm, e2.symm, e3.symm⟩

/-- distinct IPv6 address strings never verify each other's tickets (timestamps of equal decimal width) -/
theorem other_ipv6_address_rejected (env : Env) (secret ipA ipB c : Text) (p : Parsed) (u : UserId) (tl : List Text)
    (clock : Nat) (bA : Bytes)
    (hvalid : ∀ t ∈ tl, validToken t = true)
    (h6A : ipA.contains ':' = true) (h6B : ipB.contains ':' = true)
    (hA : ipTimestamp env.U ipA clock = .ok bA)
    (hacc : parseTicket env secret c ipB = .ok (some p))
    (hmac : ∀ d q, parseFields env.U (env.H.size * 2) c = some (d, q) →
      MacSecure env.H (utf8Enc secret) [digestInput bA (utf8Enc secret) (encodeUserid u).2 (List.intercalate [','] tl)
        (userIdTypePrefix ++ (encodeUserid u).1)] d)
    (hdig : (decStr (clock : Int)).length = (decStr p.ts).length)
    (hlen : ipA.length = ipB.length) : ipA = ipB ∧ p.ts = (clock : Int) := by
  have hw : ∀ bB, ipTimestamp env.U ipB p.ts = .ok bB → bA.length = bB.length := by
    intro bB hB
    rw [ipTimestamp_v6_length _ _ _ _ h6A hA, ipTimestamp_v6_length _ _ _ _ h6B hB, hdig, hlen]
  obtain ⟨hB, _⟩ := other_address_rejected env secret ipA ipB c p u tl clock bA hvalid hA hacc hmac hw
  obtain ⟨e1, e2⟩ := ipTimestamp_v6_injective env.U ipA ipB clock p.ts bA h6A h6B hdig hA hB
  exact ⟨e1, e2.symm⟩

/-! ## 6. Reissue: once, strictly after `reissue_time`, revoked by forget / remember -/

theorem reissueDue_iff (cfg : Cfg) (st : St) (now : Nat) (ts : Int) :
    reissueDue cfg st now ts = true ↔
      ∃ rt, cfg.reissueTime = some rt ∧ st.reissued = false ∧ (now : Int) - ts > (rt : Int) := by
  unfold reissueDue
  cases cfg.reissueTime with
  | none => simp
  | some rt => simp

/-- at `now - issue = reissue_time` exactly (or earlier) nothing is reissued … -/
theorem no_reissue_at_boundary (cfg : Cfg) (st : St) (ts rt d : Nat) (hrt : cfg.reissueTime = some rt) (hd : d ≤ rt) :
    reissueDue cfg st (ts + d) (ts : Int) = false := by
  cases h : reissueDue cfg st (ts + d) (ts : Int) with
  | false => rfl
  | true =>
    obtain ⟨rt', h1, _, h3⟩ := (reissueDue_iff _ _ _ _).mp h
    rw [hrt] at h1; cases h1
    omega

/-- … and one second later a reissue is due (first identify of the request) -/
theorem reissue_due_after_boundary (cfg : Cfg) (st : St) (ts rt : Nat) (hrt : cfg.reissueTime = some rt)
    (hst : st.reissued = false) : reissueDue cfg st (ts + rt + 1) (ts : Int) = true :=
  (reissueDue_iff _ _ _ _).mpr ⟨rt, hrt, hst, by omega⟩

/-- no `reissue_time`: never -/
theorem no_reissue_without_option (cfg : Cfg) (st : St) (now : Nat) (ts : Int) (h : cfg.reissueTime = none) :
    reissueDue cfg st now ts = false := by
  simp [reissueDue, h]

/-- **reissue_once** (full).  An issued, unexpired ticket strictly older than `reissue_time`, seen by the first
`identify` of a request: the identity is reported, exactly one callback carrying exactly one cookie is registered, the
cookie holds a fresh ticket (issue time = the request's clock) for the same user id and tokens with the configured
attributes, that ticket is itself accepted by `parse_ticket`, and — unless revoked later — the response callbacks
attach exactly that one cookie. -/
theorem reissue_once (env : Env) (hH : env.H.WellSized) (cfg : Cfg) (reqA : Req) (stA stA' : St) (u : UserId)
    (ma : Option Nat) (toks : List Tok) (c : SetCookie)
    (hclk : reqA.clock < 4294967296) (hrem : remember env cfg reqA stA false u ma toks = (.ok [c], stA'))
    (reqB : Req) (stB : St) (hinv : StInv stB)
    (hip : remoteAddr cfg reqB = remoteAddr cfg reqA) (hck : reqB.cookie = some c.value)
    (hipok : IpOk env.U (remoteAddr cfg reqB)) (hclkB : reqB.clock < 4294967296)
    (hlive : isExpired cfg reqB.now reqA.clock = false)
    (hdue : reissueDue cfg stB reqB.now reqA.clock = true) :
    ∃ tl d2 st', checkTokens toks = .ok tl ∧
      identify env cfg reqB stB =
        (.ok (some ⟨reqA.clock, normUid u, tl, userIdTypePrefix ++ (encodeUserid u).1⟩), st') ∧
      st'.reissued = true ∧ st'.revoked = stB.revoked ∧
      st'.callbacks = [[ticketCookie cfg reqB (issuedValue d2 u tl reqB.clock) cfg.maxAge]] ∧
      (stB.revoked = false → finish st' = [ticketCookie cfg reqB (issuedValue d2 u tl reqB.clock) cfg.maxAge]) ∧
      parseTicket env cfg.secret (issuedValue d2 u tl reqB.clock) (remoteAddr cfg reqB) =
        .ok (some (issuedFields u tl reqB.clock)) := by
  obtain ⟨tl, d, hct, hd, hlen, hcs, _⟩ := remember_ok_inv hrem
  have htl := (checkTokens_ok hct).2
  simp only [List.cons.injEq, and_true] at hcs
  have hck' : reqB.cookie = some (issuedValue d u tl reqA.clock) := by rw [hck, hcs]; rfl
  obtain ⟨b, hb⟩ := hipok reqB.clock
  obtain ⟨d2, hd2⟩ : ∃ d2, calcDigest env (remoteAddr cfg reqB) reqB.clock cfg.secret (encodeUserid u).2
      (List.intercalate [','] tl) (userIdTypePrefix ++ (encodeUserid u).1) = .ok d2 := ⟨_, calcDigest_of_ipts hb⟩
  have hid := identify_issued_reissue env hH cfg reqB stB u tl reqA.clock d hclk htl (by rw [hip]; exact hd) hlen hck'
    hlive hdue hclkB d2 hd2
  have hnr : stB.reissued = false := ((reissueDue_iff _ _ _ _).mp hdue).choose_spec.2.1
  have hcb : stB.callbacks = [] := hinv.1 hnr
  refine ⟨tl, d2, _, hct, hid, rfl, rfl, by simp [hcb], ?_, ?_⟩
  · intro hrv
    simp [finish, hrv, hcb]
  · exact issued_parse env hH cfg.secret _ u tl reqB.clock _ hclkB (fun t ht => (htl t ht).1) hd2

/-- **reissue_at_most_once** (full, all histories): whatever sequence of identify / remember / forget runs inside
one request, the response callbacks attach at most one cookie. -/
theorem reissue_at_most_once (env : Env) (cfg : Cfg) (req : Req) (ops : List Op) :
    (finish (runOps env cfg req {} ops).2).length ≤ 1 :=
  finish_length _ (runOps_inv env cfg req {} ops stInv_init).1

/-- **forget_revokes** (full, all histories): a `forget` anywhere in the request — before or after the identify that
scheduled a reissue — leaves no reissued ticket on the response. -/
theorem forget_revokes (env : Env) (cfg : Cfg) (req : Req) (a b : List Op) :
    finish (runOps env cfg req {} (a ++ Op.forget :: b)).2 = [] := by
  rw [runOps_append]
  simp only [runOps, step, forget]
  have hinv := (runOps_inv env cfg req {} a stInv_init).1
  have := (runOps_inv env cfg req { (runOps env cfg req {} a).2 with revoked := true } b
    ⟨hinv.1, hinv.2.1, hinv.2.2⟩).2 rfl
  simp [finish, this]

/-- **remember_revokes** (full, all histories).  A `remember` whose tokens are valid, made ANYWHERE in the request —
before or after the `identify` that schedules the reissue of the old ticket — cancels that reissue: whatever else runs
in the request, the response callbacks attach no reissued ticket.  (The internal `remember` that `identify` itself
performs for the reissue does not count: `reissue_once`.)  This is the statement's "unless the user was … re-remembered
during the request" at full strength; it was false before /repo commit 70c9cb6 (F-C09b, fixed), when only a `remember`
after the scheduling `identify` revoked. -/
theorem remember_revokes (env : Env) (cfg : Cfg) (req : Req) (a b : List Op) (u : UserId) (ma : Option Nat)
    (toks : List Tok) (tl : List Text) (htoks : checkTokens toks = .ok tl) :
    finish (runOps env cfg req {} (a ++ Op.remember u ma toks :: b)).2 = [] := by
  rw [runOps_append]
  simp only [runOps, step]
  have hinv := (runOps_inv env cfg req {} a stInv_init).1
  have hs := step_inv env cfg req (runOps env cfg req {} a).2 (.remember u ma toks) hinv
  simp only [step] at hs
  have hrev : (remember env cfg req (runOps env cfg req {} a).2 false u ma toks).2.revoked = true := by
    unfold remember
    simp only [htoks]
    cases cookieValue env cfg.secret (encodeUserid u).2 (remoteAddr cfg req) tl (userIdTypePrefix ++ (encodeUserid u).1) req.clock <;> rfl
  have := (runOps_inv env cfg req _ b hs.1).2 hrev
  simp [finish, this]

/-- the regression case of F-C09b: `remember(new user)` followed by the first `identify` of a request whose ticket is
due for reissue leaves NO reissued ticket for the old user on the response -/
theorem remember_before_identify_revokes (env : Env) (cfg : Cfg) (req : Req) (u2 : UserId) (ma2 : Option Nat)
    (toks2 : List Tok) (tl2 : List Text) (htoks : checkTokens toks2 = .ok tl2) :
    finish (runOps env cfg req {} [Op.remember u2 ma2 toks2, Op.identify]).2 = [] :=
  remember_revokes env cfg req [] [Op.identify] u2 ma2 toks2 tl2 htoks

/-- the internal `remember` of a reissue does not revoke: whatever the state, it leaves all bookkeeping untouched -/
theorem internal_remember_keeps_state (env : Env) (cfg : Cfg) (req : Req) (st : St) (u : UserId) (ma : Option Nat)
    (toks : List Tok) : (remember env cfg req st true u ma toks).2 = st := by
  unfold remember
  simp only
  cases checkTokens toks with
  | error e => rfl
  | ok tl =>
    simp only
    cases cookieValue env cfg.secret (encodeUserid u).2 (remoteAddr cfg req) tl (userIdTypePrefix ++ (encodeUserid u).1) req.clock <;> rfl

/-! ## 6b. History independence across requests (remark)

`identify env cfg req st` is a function of the hash, the helper's configuration, the request (cookie value, client
address, `now`, clock) and the PER-REQUEST bookkeeping `st` (the two `_authtkt_*` flags, fresh for every request): the
model has no helper-level state argument, so every theorem above holds for every request of every history — in
particular the same cookie value presented again from another address (`include_ip`), after its expiry, or after an
edited variant was seen, is judged exactly as if the helper were new.  That the REAL helper has no such hidden state is
not a Lean statement: it is the oracle clause "same answer as a fresh helper of the same configuration" which
harness/c09.py evaluates on multi-request histories against one long-lived `AuthTktCookieHelper` (random histories, and
all sequences of ≤ 3 requests over 7 request kinds × 4 configurations), and every request of such a history is also
compared with this model. -/

/-! ## 7. Cookie attributes -/

/-- **cookie_domains_spec** (full): the `Domain` of every issued or deleting cookie is the configured `domain` if
set; else, with `parent_domain`, the request's domain without its first label when it has at least two dots; else,
with `wild_domain`, the request's domain; else none. -/
theorem cookie_domains_spec (cfg : Cfg) (cur : Text) :
    (∀ d, cfg.domain = some d → d ≠ [] → cookieDomain cfg cur = some d) ∧
    ((cfg.domain = none ∨ cfg.domain = some []) → cfg.parentDomain = true → countChar '.' cur > 1 →
      ∃ label rest, '.' ∉ label ∧ cur = label ++ '.' :: rest ∧ cookieDomain cfg cur = some rest) ∧
    ((cfg.domain = none ∨ cfg.domain = some []) → (cfg.parentDomain = false ∨ countChar '.' cur ≤ 1) →
      cookieDomain cfg cur = if cfg.wildDomain then some cur else none) := by
  refine ⟨?_, ?_, ?_⟩
  · intro d hd hne
    cases d with
    | nil => exact absurd rfl hne
    | cons x xs => simp [cookieDomain, hd]
  · intro hdom hpar hcnt
    have hfb : cookieDomain cfg cur = cookieDomain.fallback cfg cur := by
      rcases hdom with h | h <;> simp [cookieDomain, h]
    have hex : ∃ ab, splitFirst '.' cur = some ab := by
      cases hs : splitFirst '.' cur with
      | some ab => exact ⟨ab, rfl⟩
      | none =>
        exfalso
        have hno : ∀ t : Text, splitFirst '.' t = none → countChar '.' t = 0 := by
          intro t
          induction t with
          | nil => intro _; rfl
          | cons x xs ih =>
            intro h
            unfold splitFirst at h
            split at h
            · simp at h
            · rename_i hx
              cases hxs : splitFirst '.' xs with
              | none => simp [countChar, hx, List.filter]; simpa [countChar] using ih hxs
              | some ab => simp [hxs] at h
        have := hno cur hs
        omega
    obtain ⟨⟨label, rest⟩, hs⟩ := hex
    obtain ⟨h1, h2⟩ := splitFirst_some hs
    refine ⟨label, rest, h2, h1, ?_⟩
    rw [hfb]
    simp [cookieDomain.fallback, hpar, hcnt, hs]
  · intro hdom hnp
    have hfb : cookieDomain cfg cur = cookieDomain.fallback cfg cur := by
      rcases hdom with h | h <;> simp [cookieDomain, h]
    rw [hfb]
    rcases hnp with h | h
    · simp [cookieDomain.fallback, h]
    · have : ¬ (countChar '.' cur > 1) := by omega
      simp [cookieDomain.fallback, this]

/-- **issued_cookie_attributes** (full): a successful `remember` returns exactly one cookie carrying the configured
name, path, domain variant, `max_age` (argument, else the helper's), Secure, HttpOnly and SameSite -/
theorem issued_cookie_attributes (env : Env) (cfg : Cfg) (req : Req) (st st' : St) (u : UserId) (ma : Option Nat)
    (toks : List Tok) (cs : List SetCookie) (h : remember env cfg req st false u ma toks = (.ok cs, st')) :
    ∃ c, cs = [c] ∧ c.name = cfg.cookieName ∧ c.path = nonEmpty (some cfg.path) ∧
      c.domain = nonEmpty (cookieDomain cfg req.domain) ∧
      (∀ m, ma = some m → c.maxAge = some m) ∧ (ma = none → c.maxAge = cfg.maxAge) ∧
      c.secure = cfg.secure ∧ c.httpOnly = cfg.httpOnly ∧ c.samesite = cfg.samesite ∧ c.value ≠ [] := by
  obtain ⟨tl, d, _, _, _, hcs, _⟩ := remember_ok_inv h
  refine ⟨_, hcs, rfl, rfl, rfl, ?_, ?_, rfl, rfl, rfl, ?_⟩
  · intro m hm; subst hm; rfl
  · intro hm; subst hm; rfl
  · show wire d req.clock (encodeUserid u).2 (List.intercalate [','] tl) (userIdTypePrefix ++ (encodeUserid u).1) ≠ []
    simp only [wire]
    split <;> simp

/-- **forget_cookie_attributes** (full): `forget` returns exactly one deleting cookie (empty value, `Max-Age=0`, an
`expires` in the past) for the same name, path and domain as an issued one, and revokes any pending reissue -/
theorem forget_cookie_attributes (cfg : Cfg) (req : Req) (st : St) :
    ∃ c, forget cfg req st = (.ok [c], { st with revoked := true }) ∧ c.name = cfg.cookieName ∧ c.value = [] ∧
      c.maxAge = some 0 ∧ c.expires = .past ∧ c.path = nonEmpty (some cfg.path) ∧
      c.domain = nonEmpty (cookieDomain cfg req.domain) ∧ c.secure = cfg.secure ∧ c.httpOnly = cfg.httpOnly ∧
      c.samesite = cfg.samesite :=
  ⟨_, rfl, rfl, rfl, rfl, rfl, rfl, rfl, rfl, rfl, rfl⟩

/-! ## 8. Non-vacuity of the hypotheses, and the excluded points -/

example : toyH.WellSized := fun _ => rfl
example : IpOk toyU ['0', '.', '0', '.', '0', '.', '0'] := ipOk_default toyU
example : IpOk toyU [':', ':', '1'] := ipOk_v6 toyU _ (by decide) (by decide)
/-- valid tokens exist; Python's `$` also lets one trailing newline through; digits first / empty are refused -/
example : validToken ['a', 'd', 'm', 'i', 'n'] = true ∧ validToken ['a', 'b', 'c', '\n'] = true ∧
    validToken ['1', 'a'] = false ∧ validToken [] = false ∧ validToken ['a', '\n', '\n'] = false := by decide
/-- the hypotheses of `remember_succeeds` (hence `hrem` of the round-trip theorems) hold at a concrete point -/
example : ∃ c st', remember toyEnv { secret := ['s'] } ⟨none, [], [], 5, 5⟩ {} false (.bytes [1, 2]) none [.str ['a']] = (.ok [c], st') :=
  remember_succeeds toyEnv (fun _ => rfl) { secret := ['s'] } ⟨none, [], [], 5, 5⟩ {} (.bytes [1, 2]) none [['a']]
    (by decide) (ipOk_default toyU) (by decide) (by decide)
example : isExpired { secret := [], timeout := some 10 } 16 (5 : Int) = true ∧
    isExpired { secret := [], timeout := some 10 } 15 (5 : Int) = false ∧
    reissueDue { secret := [], reissueTime := some 3 } {} 9 (5 : Int) = true ∧
    reissueDue { secret := [], reissueTime := some 3 } {} 8 (5 : Int) = false := by decide
/-- no tokens come back as `['']` (`''.split(',')`), the reissue path drops it -/
example : tokensBack [] = [[]] ∧ splitAll ',' [] = [[]] := by decide

/-- `MacSecure` is satisfiable: for the (injective) identity "hash" `idH` the MAC of `x` is the MAC of nothing else -/
example (s x : Bytes) : MacSecure idH s [x] (mac idH s x) := by
  intro y h
  simp [mac_idH_injective s y x h]

/-- **ipv6_digit_shift_same_digest** — the excluded point of `fields_injective` / `no_other_identity` (finding
F-C09d).  Under IP binding with an IPv6 client address the hashed bytes are `ip + str(timestamp) + secret + userid…`
with no separator: with the secret `"0"`, the ticket (timestamp 10, userid `"5"`) and the edited cookie (timestamp 1,
userid `"05"`) hash the SAME bytes, so for EVERY hash function the edited cookie carries a correct digest. The
prefixes have different widths (`"::110"` / `"::11"`), which is exactly the hypothesis `no_other_identity` asks for. -/
theorem ipv6_digit_shift_same_digest (env : Env) (toks ud : Text) :
    calcDigest env [':', ':', '1'] 10 ['0'] ['5'] toks ud = calcDigest env [':', ':', '1'] 1 ['0'] ['0', '5'] toks ud := by
  have h10 : ipTimestamp env.U [':', ':', '1'] 10 = .ok ([58, 58, 49, 49, 48].map byteOfNat) := by
    have hc : ([':', ':', '1'] : Text).contains ':' = true := by decide
    unfold ipTimestamp
    rw [decStr_small.1]
    simp only [hc, if_true]
    rfl
  have h1 : ipTimestamp env.U [':', ':', '1'] 1 = .ok ([58, 58, 49, 49].map byteOfNat) := by
    have hc : ([':', ':', '1'] : Text).contains ':' = true := by decide
    unfold ipTimestamp
    rw [decStr_small.2]
    simp only [hc, if_true]
    rfl
  rw [calcDigest_of_ipts h10, calcDigest_of_ipts h1]
  have : digestInput ([58, 58, 49, 49, 48].map byteOfNat) (utf8Enc ['0']) ['5'] toks ud =
      digestInput ([58, 58, 49, 49].map byteOfNat) (utf8Enc ['0']) ['0', '5'] toks ud := by
    have e5 : utf8Enc ['5'] = [byteOfNat 53] := by decide
    have e05 : utf8Enc ['0', '5'] = [byteOfNat 48, byteOfNat 53] := by decide
    have e0 : utf8Enc ['0'] = [byteOfNat 48] := by decide
    simp [digestInput, e5, e05, e0]
  rw [this]

end Pyr.AuthTkt
