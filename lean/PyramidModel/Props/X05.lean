/-
X05 — authentication policies and principals: property theorems (statement in notes/X05.md).

(1) principals   every policy flavour computes `authenticated_userid` and `effective_principals` from ONE verdict
                 (`verified`: the claimed userid, provided it is not a system principal and the groupfinder knows it)
(2) Basic        `extract_http_basic_credentials` answers credentials exactly on headers of the documented form;
                 round trip; never raises on a WSGI header
(3) glue         `LegacySecurityPolicy.permits` = `authz.permits(context, effective_principals, permission)`;
                 no policy ⇒ everything allowed
(4) session      remember / forget
(5) generated    the probe tables of extract/x05.py, decided whole
-/
import PyramidModel.AuthPolicy
import PyramidModel.Lemmas.AuthPolicySpec
import PyramidModel.Lemmas.AuthPolicy
import PyramidModel.Acl
import PyramidModel.Gen.X05

namespace Pyr.AuthPolicy

open Pyr.AuthTkt (Bytes latin1Enc utf8Enc b64enc b64dec splitFirst asciiBytes)

/-! ## (1) principals -/

/-- `_clean_principal` refuses exactly `Everyone` and `Authenticated` -/
theorem clean_refuses_iff (p : Prin) : cleanPrincipal p = none ↔ p = everyone ∨ p = authenticated := by
  unfold cleanPrincipal
  by_cases h : p = authenticated ∨ p = everyone
  · simp only [h, if_true, true_iff]; exact h.symm
  · simp only [h, if_false, reduceCtorEq, false_iff]; exact fun h' => h h'.symm

/-- what is kept is kept unchanged -/
theorem clean_keeps (p q : Prin) (h : cleanPrincipal p = some q) : q = p ∧ p ≠ everyone ∧ p ≠ authenticated := by
  unfold cleanPrincipal at h
  by_cases hp : p = authenticated ∨ p = everyone
  · simp [hp] at h
  · simp only [hp, if_false, Option.some.injEq] at h
    exact ⟨h.symm, fun e => hp (Or.inr e), fun e => hp (Or.inl e)⟩

/-- the abstract `CallbackAuthenticationPolicy`, any claimed userid, any groupfinder: both methods read the same verdict -/
theorem callback_policy_methods_agree (uid : Option Prin) (cb : Option (Prin → Groups)) :
    (cbAuthUserid uid cb = none ∧ cbEffPrincipals uid cb = [everyone]) ∨
    (∃ u gs, uid = some u ∧ u ≠ everyone ∧ u ≠ authenticated ∧
      (match cb with | none => some [] | some f => f u) = some gs ∧
      cbAuthUserid uid cb = some u ∧ cbEffPrincipals uid cb = everyone :: authenticated :: u :: gs) := by
  cases uid with
  | none => left; simp [cbAuthUserid, cbEffPrincipals]
  | some u =>
    by_cases hu : u = everyone ∨ u = authenticated
    · left; simp [cbAuthUserid, cbEffPrincipals, clean_none_of hu]
    · have hne : u ≠ everyone ∧ u ≠ authenticated := ⟨fun e => hu (Or.inl e), fun e => hu (Or.inr e)⟩
      cases cb with
      | none =>
        right; exact ⟨u, [], rfl, hne.1, hne.2, rfl, by simp [cbAuthUserid, cbEffPrincipals, clean_some_of_ne hu]⟩
      | some f =>
        cases hf : f u with
        | none => left; simp [cbAuthUserid, cbEffPrincipals, clean_some_of_ne hu, hf]
        | some gs =>
          right
          exact ⟨u, gs, rfl, hne.1, hne.2, hf, by simp [cbAuthUserid, cbEffPrincipals, clean_some_of_ne hu, hf]⟩

/-- `authenticated_userid` of every policy flavour, on every request, is the verified user of the declarative reading
(errors included: a repoze.who identity without the userid key is a `KeyError` on both sides) -/
theorem auth_userid_eq_spec (pol : Policy) (req : Req) : authUserid pol req = specAuthUserid pol req := by
  cases pol with
  | remoteUser cb =>
    simp only [authUserid, specAuthUserid, verified, unauthUserid, genericCallback, groupsFor, bind, Except.bind, pure, Except.pure]
    cases hu : req.remoteUser with
    | none => simp [cbAuthUserid]
    | some u =>
      by_cases h : u = everyone ∨ u = authenticated
      · simp [cbAuthUserid, clean_none_of h, h]
      · cases cb with
        | none => simp [cbAuthUserid, clean_some_of_ne h, h]
        | some f => cases hf : f u <;> simp [cbAuthUserid, clean_some_of_ne h, h, hf]
  | session pfx cb =>
    simp only [authUserid, specAuthUserid, verified, unauthUserid, genericCallback, groupsFor, bind, Except.bind, pure, Except.pure]
    cases hu : sessGet req.session (useridKey pfx) with
    | none => simp [cbAuthUserid]
    | some u =>
      by_cases h : u = everyone ∨ u = authenticated
      · simp [cbAuthUserid, clean_none_of h, h]
      · cases cb with
        | none => simp [cbAuthUserid, clean_some_of_ne h, h]
        | some f => cases hf : f u <;> simp [cbAuthUserid, clean_some_of_ne h, h, hf]
  | repoze cb =>
    simp only [authUserid, specAuthUserid, verified, unauthUserid, groupsFor, bind, Except.bind, pure, Except.pure]
    cases hi : req.identity with
    | none => simp
    | some i =>
      obtain ⟨iu, tag⟩ := i
      cases iu with
      | none => simp [throw, throwThe, MonadExceptOf.throw]
      | some ou =>
        cases ou with
        | none => simp
        | some u =>
          by_cases h : u = everyone ∨ u = authenticated
          · simp [clean_none_of h, h]
          · cases cb with
            | none => simp [clean_some_of_ne h, h]
            | some f => cases hf : f ⟨some (some u), tag⟩ <;> simp [clean_some_of_ne h, h, hf]
  | basic check realm =>
    simp only [authUserid, specAuthUserid, verified, unauthUserid, genericCallback, groupsFor, bind, Except.bind, pure,
      Except.pure]
    cases hp : parseBasic req.authorization with
    | none => simp [cbAuthUserid]
    | raises => simp [throw, throwThe, MonadExceptOf.throw]
    | creds u p =>
      by_cases h : Prin.str u = everyone ∨ Prin.str u = authenticated
      · simp [cbAuthUserid, clean_none_of h, h]
      · cases hf : check u p <;> simp [cbAuthUserid, clean_some_of_ne h, h, hf, basicCallback, hp]

/-- `effective_principals` of every policy flavour is `[Everyone]` plus `[Authenticated, userid] ++ groups` for the verified
user — on every request whose repoze.who identity (if any) carries the userid key -/
theorem eff_principals_eq_spec (pol : Policy) (req : Req) (hid : IdentOk req) : effPrincipals pol req = specPrincipals pol req := by
  cases pol with
  | remoteUser cb =>
    simp only [effPrincipals, specPrincipals, verified, unauthUserid, genericCallback, groupsFor, bind, Except.bind, pure, Except.pure]
    cases hu : req.remoteUser with
    | none => simp [cbEffPrincipals]
    | some u =>
      by_cases h : u = everyone ∨ u = authenticated
      · simp [cbEffPrincipals, clean_none_of h, h]
      · cases cb with
        | none => simp [cbEffPrincipals, clean_some_of_ne h, h]
        | some f => cases hf : f u <;> simp [cbEffPrincipals, clean_some_of_ne h, h, hf]
  | session pfx cb =>
    simp only [effPrincipals, specPrincipals, verified, unauthUserid, genericCallback, groupsFor, bind, Except.bind, pure, Except.pure]
    cases hu : sessGet req.session (useridKey pfx) with
    | none => simp [cbEffPrincipals]
    | some u =>
      by_cases h : u = everyone ∨ u = authenticated
      · simp [cbEffPrincipals, clean_none_of h, h]
      · cases cb with
        | none => simp [cbEffPrincipals, clean_some_of_ne h, h]
        | some f => cases hf : f u <;> simp [cbEffPrincipals, clean_some_of_ne h, h, hf]
  | repoze cb =>
    simp only [effPrincipals, specPrincipals, verified, unauthUserid, groupsFor, bind, Except.bind, pure, Except.pure]
    cases hi : req.identity with
    | none => simp
    | some i =>
      obtain ⟨iu, tag⟩ := i
      cases iu with
      | none => exact absurd rfl (hid _ hi)
      | some ou =>
        cases ou with
        | none => cases cb with
          | none => simp
          | some f => cases hf : f ⟨some none, tag⟩ <;> simp [hf]
        | some u =>
          by_cases h : u = everyone ∨ u = authenticated
          · cases cb with
            | none => simp [clean_none_of h, h]
            | some f => cases hf : f ⟨some (some u), tag⟩ <;> simp [clean_none_of h, h, hf]
          · cases cb with
            | none => simp [clean_some_of_ne h, h]
            | some f => cases hf : f ⟨some (some u), tag⟩ <;> simp [clean_some_of_ne h, h, hf]
  | basic check realm =>
    simp only [effPrincipals, specPrincipals, verified, unauthUserid, genericCallback, groupsFor, bind, Except.bind, pure,
      Except.pure]
    cases hp : parseBasic req.authorization with
    | none => simp [cbEffPrincipals]
    | raises => simp [throw, throwThe, MonadExceptOf.throw]
    | creds u p =>
      by_cases h : Prin.str u = everyone ∨ Prin.str u = authenticated
      · simp [cbEffPrincipals, clean_none_of h, h]
      · cases hf : check u p <;> simp [cbEffPrincipals, clean_some_of_ne h, h, hf, basicCallback, hp]

/-- the reading unfolded: who is verified -/
theorem verified_iff (pol : Policy) (req : Req) (u : Prin) (gs : List Prin) :
    verified pol req = .ok (some (u, gs)) ↔
      unauthUserid pol req = .ok (some u) ∧ u ≠ everyone ∧ u ≠ authenticated ∧ groupsFor pol req u = some gs := by
  unfold verified
  simp only [bind, Except.bind, pure, Except.pure]
  cases hu : unauthUserid pol req with
  | error e => simp
  | ok ou =>
    cases ou with
    | none => simp
    | some v =>
      by_cases h : v = everyone ∨ v = authenticated
      · simp only [h, if_true, Except.ok.injEq, reduceCtorEq, Option.some.injEq, false_iff, not_and]
        rintro rfl h1 h2
        exact absurd h (by simp [h1, h2])
      · simp only [h, if_false]
        cases hg : groupsFor pol req v with
        | none =>
          simp only [Except.ok.injEq, reduceCtorEq, Option.some.injEq, false_iff, not_and]
          rintro rfl _ _; simp [hg]
        | some g =>
          simp only [Except.ok.injEq, Option.some.injEq, Prod.mk.injEq]
          constructor
          · rintro ⟨rfl, rfl⟩
            exact ⟨rfl, fun e => h (Or.inl e), fun e => h (Or.inr e), hg⟩
          · rintro ⟨rfl, _, _, hg'⟩
            rw [hg] at hg'
            exact ⟨rfl, by simpa using hg'⟩

/-- ALWAYS: whatever the flavour, the request, the groupfinder — when `effective_principals` returns, `Everyone` leads -/
theorem eff_contains_everyone (pol : Policy) (req : Req) (ps : List Prin) (h : effPrincipals pol req = .ok ps) :
    ∃ rest, ps = everyone :: rest := by
  cases pol with
  | repoze cb =>
    simp only [effPrincipals, pure, Except.pure] at h
    cases hi : req.identity with
    | none => simp only [hi, Except.ok.injEq] at h; exact ⟨[], h.symm⟩
    | some i =>
      simp only [hi] at h
      split at h
      · simp only [Except.ok.injEq] at h; exact ⟨[], h.symm⟩
      · split at h
        · cases h
        · simp only [Except.ok.injEq] at h; exact ⟨[], h.symm⟩
        · split at h <;> simp only [Except.ok.injEq] at h
          · exact ⟨[], h.symm⟩
          · exact ⟨_, h.symm⟩
  | remoteUser cb =>
    simp only [effPrincipals, bind, Except.bind, unauthUserid, pure, Except.pure, Except.ok.injEq] at h
    subst h
    rcases callback_policy_methods_agree req.remoteUser (genericCallback (.remoteUser cb) req) with ⟨_, h2⟩ | ⟨u, gs, _, _, _, _, _, h2⟩
    · exact ⟨[], h2⟩
    · exact ⟨_, h2⟩
  | session pfx cb =>
    simp only [effPrincipals, bind, Except.bind, unauthUserid, pure, Except.pure, Except.ok.injEq] at h
    subst h
    rcases callback_policy_methods_agree (sessGet req.session (useridKey pfx)) (genericCallback (.session pfx cb) req) with
      ⟨_, h2⟩ | ⟨u, gs, _, _, _, _, _, h2⟩
    · exact ⟨[], h2⟩
    · exact ⟨_, h2⟩
  | basic check realm =>
    simp only [effPrincipals, bind, Except.bind] at h
    cases hu : unauthUserid (.basic check realm) req with
    | error e => simp [hu] at h
    | ok uid =>
      simp only [hu, pure, Except.pure, Except.ok.injEq] at h
      subst h
      rcases callback_policy_methods_agree uid (genericCallback (.basic check realm) req) with ⟨_, h2⟩ | ⟨u, gs, _, _, _, _, _, h2⟩
      · exact ⟨[], h2⟩
      · exact ⟨_, h2⟩

/-- the two methods agree on every well-formed request: either nobody is authenticated and the principals are `[Everyone]`,
or `u` is, `u` is the claimed userid, not a system principal, the groupfinder knows it with groups `gs`, and the principals
are `[Everyone, Authenticated, u] ++ gs`; or both raise the same error -/
theorem methods_agree (pol : Policy) (req : Req) (hid : IdentOk req) :
    (authUserid pol req = .ok none ∧ effPrincipals pol req = .ok [everyone]) ∨
    (∃ u gs, authUserid pol req = .ok (some u) ∧ effPrincipals pol req = .ok (everyone :: authenticated :: u :: gs) ∧
      unauthUserid pol req = .ok (some u) ∧ u ≠ everyone ∧ u ≠ authenticated ∧ groupsFor pol req u = some gs) ∨
    (∃ e, authUserid pol req = .error e ∧ effPrincipals pol req = .error e) := by
  rw [auth_userid_eq_spec, eff_principals_eq_spec pol req hid]
  unfold specAuthUserid specPrincipals
  simp only [bind, Except.bind, pure, Except.pure]
  cases hv : verified pol req with
  | error e => right; right; exact ⟨e, rfl, rfl⟩
  | ok v =>
    cases v with
    | none => left; exact ⟨rfl, rfl⟩
    | some ug =>
      obtain ⟨u, gs⟩ := ug
      right; left
      have := (verified_iff pol req u gs).1 hv
      exact ⟨u, gs, rfl, rfl, this⟩

/-- `Authenticated` is among the principals iff there is an authenticated userid -/
theorem authenticated_iff_userid (pol : Policy) (req : Req) (hid : IdentOk req) (ps : List Prin)
    (h : effPrincipals pol req = .ok ps) : authenticated ∈ ps ↔ ∃ u, authUserid pol req = .ok (some u) := by
  have hne : authenticated ≠ everyone := by decide
  rcases methods_agree pol req hid with ⟨ha, he⟩ | ⟨u, gs, ha, he, _⟩ | ⟨e, _, he⟩
  · rw [he] at h; cases h
    simp [ha, hne]
  · rw [he] at h; cases h
    simp [ha]
  · rw [he] at h; cases h

/-- an authenticated userid is never one of the refused principals, and it is the claimed userid — every flavour, request, groupfinder -/
theorem userid_never_refused (pol : Policy) (req : Req) (u : Prin) (h : authUserid pol req = .ok (some u)) :
    u ≠ everyone ∧ u ≠ authenticated ∧ unauthUserid pol req = .ok (some u) := by
  rw [auth_userid_eq_spec] at h
  unfold specAuthUserid at h
  simp only [bind, Except.bind, pure, Except.pure] at h
  cases hv : verified pol req with
  | error e => simp [hv] at h
  | ok v =>
    cases v with
    | none => simp [hv] at h
    | some ug =>
      obtain ⟨u', gs⟩ := ug
      simp only [hv, Option.map, Except.ok.injEq, Option.some.injEq] at h
      subst h
      have := (verified_iff pol req u' gs).1 hv
      exact ⟨this.2.1, this.2.2.1, this.1⟩

/-- groups (and `Authenticated`) appear only for an authenticated user: nobody authenticated ⇒ exactly `[Everyone]` -/
theorem groups_only_when_authenticated (pol : Policy) (req : Req) (hid : IdentOk req) (h : authUserid pol req = .ok none) :
    effPrincipals pol req = .ok [everyone] := by
  rcases methods_agree pol req hid with ⟨_, he⟩ | ⟨u, gs, ha, _⟩ | ⟨e, ha, _⟩
  · exact he
  · rw [ha] at h; cases h
  · rw [ha] at h; cases h

/-- a groupfinder that answers `None` un-authenticates whatever userid is claimed (generic flavours) -/
theorem unknown_to_groupfinder (uid : Option Prin) (f : Prin → Groups) (h : ∀ u, uid = some u → f u = none) :
    cbAuthUserid uid (some f) = none ∧ cbEffPrincipals uid (some f) = [everyone] := by
  rcases callback_policy_methods_agree uid (some f) with h1 | ⟨u, gs, hu, _, _, hg, _⟩
  · exact h1
  · simp only at hg; rw [h u hu] at hg; cases hg

/-- a repoze.who identity WITHOUT the userid key (outside the hypothesis of the agreement theorems) never authenticates:
`authenticated_userid` raises, `effective_principals` raises or is `[Everyone]` -/
theorem malformed_identity_never_authenticates (cb : Option (Ident → Groups)) (req : Req) (i : Ident)
    (hi : req.identity = some i) (hk : i.userid = none) :
    authUserid (.repoze cb) req = .error .keyError ∧
    (effPrincipals (.repoze cb) req = .error .keyError ∨ effPrincipals (.repoze cb) req = .ok [everyone]) := by
  constructor
  · simp [authUserid, hi, hk, throw, throwThe, MonadExceptOf.throw]
  · simp only [effPrincipals, hi, hk]
    split
    · right; rfl
    · left; rfl

/-! ## (2) Basic credentials -/

/-- the documented form, declaratively: `meth SP rest`, `meth` without a space and equal to `basic` ignoring ASCII case,
`rest` stripped is latin-1 text that base64-decodes to `raw`, `raw` read as UTF-8 (else latin-1) is `user:pw` with no colon
in `user` -/
def BasicForm (h : Option Text) (user pw : Text) : Prop :=
  ∃ meth rest bs raw, h = some (meth ++ ' ' :: rest) ∧ ' ' ∉ meth ∧ isBasic meth = true ∧
    latin1Enc (strip rest) = .ok bs ∧ b64dec bs = some raw ∧ decodeText raw = user ++ ':' :: pw ∧ ':' ∉ user

/-- the parser answers `(user, pw)` exactly on headers of the documented form — every header text -/
theorem parse_creds_iff (h : Option Text) (u p : Text) : parseBasic h = .creds u p ↔ BasicForm h u p := by
  unfold BasicForm
  constructor
  · intro hp
    unfold parseBasic at hp
    split at hp
    · cases hp
    · cases hp
    · rename_i a _
      split at hp
      · cases hp
      · rename_i meth rest hs
        split at hp
        · cases hp
        · rename_i hb
          split at hp
          · cases hp
          · rename_i bs hl
            split at hp
            · cases hp
            · rename_i raw hd
              split at hp
              · cases hp
              · rename_i u' p' hc
                cases hp
                have h1 := (splitFirst_some_iff ' ' a meth rest).1 hs
                have h2 := (splitFirst_some_iff ':' _ u p).1 hc
                refine ⟨meth, rest, bs, raw, by rw [h1.1], h1.2, by simpa using hb, hl, hd, h2.1, h2.2⟩
  · rintro ⟨meth, rest, bs, raw, rfl, hm, hb, hl, hd, ht, hu⟩
    have hs := (splitFirst_some_iff ' ' (meth ++ ' ' :: rest) meth rest).2 ⟨rfl, hm⟩
    have hc := (splitFirst_some_iff ':' (decodeText raw) u p).2 ⟨ht, hu⟩
    cases meth with
    | nil => simp [isBasic, basicWord] at hb
    | cons c m =>
      simp only [parseBasic, List.cons_append]
      rw [← List.cons_append, hs]
      simp [hb, hl, hd, hc]

/-- the user name never contains a colon, and `user ++ ":" ++ password` is the decoded text: the split is at the FIRST colon -/
theorem parse_user_no_colon (h : Option Text) (u p : Text) (hp : parseBasic h = .creds u p) :
    ':' ∉ u ∧ ∃ raw, decodeText raw = u ++ ':' :: p := by
  obtain ⟨_, _, _, raw, _, _, _, _, _, ht, hu⟩ := (parse_creds_iff h u p).1 hp
  exact ⟨hu, raw, ht⟩

/-- round trip over arbitrary Unicode: what a client formats for `(u, p)` — any user name without a colon, ANY password —
is read back as `(u, p)` -/
theorem parse_roundtrip (u p : Text) (hu : ':' ∉ u) : parseBasic (some (formatBasic u p)) = .creds u p := by
  rw [parse_creds_iff]
  refine ⟨['B', 'a', 's', 'i', 'c'], b64enc (utf8Enc (u ++ ':' :: p)), asciiBytes (b64enc (utf8Enc (u ++ ':' :: p))),
    utf8Enc (u ++ ':' :: p), rfl, by decide, by decide, ?_, AuthTkt.b64dec_enc _, decodeText_enc _, hu⟩
  rw [strip_id _ (b64enc_nospace _)]
  exact latin1Enc_ok _ (b64enc_latin1 _)

/-- on a WSGI header (code points 0-255) the parser never raises -/
theorem parse_never_raises_wsgi (h : Text) (hl : Latin1 h) : parseBasic (some h) ≠ .raises := by
  intro hp
  unfold parseBasic at hp
  split at hp
  · cases hp
  · cases hp
  · rename_i a heq
    cases heq
    split at hp
    · cases hp
    · rename_i meth rest hs
      split at hp
      · cases hp
      · split at hp
        · rename_i e he
          apply latin1Enc_error _ _ he
          intro c hc
          exact hl c ((splitFirst_mem hs).2 c (strip_sub rest c hc))
        · split at hp
          · cases hp
          · split at hp <;> cases hp

/-- … and without a header, or with an empty one, it answers None -/
theorem parse_absent : parseBasic none = .none ∧ parseBasic (some []) = .none := by decide

/-- outside WSGI (a code point above 255 in a `Basic` header) the real code raises UnicodeEncodeError; the model says so -/
theorem parse_raises_outside_wsgi : parseBasic (some ("Basic Og".toList ++ [Char.ofNat 256])) = .raises := by decide +kernel

/-- a header without a space, or whose decoded text has no colon, gives None -/
theorem parse_none_cases (h : Text) :
    (' ' ∉ h → parseBasic (some h) = .none) ∧
    (∀ meth rest, h = meth ++ ' ' :: rest → ' ' ∉ meth → isBasic meth = false → parseBasic (some h) = .none) := by
  constructor
  · intro hs
    have := (splitFirst_none_iff ' ' h).2 hs
    cases h with
    | nil => rfl
    | cons c r => simp [parseBasic, this]
  · rintro meth rest rfl hm hb
    have hs := (splitFirst_some_iff ' ' (meth ++ ' ' :: rest) meth rest).2 ⟨rfl, hm⟩
    cases meth with
    | nil => simp only [List.nil_append] at hs ⊢; simp [parseBasic, hs, hb]
    | cons c m =>
      simp only [parseBasic, List.cons_append]
      rw [← List.cons_append, hs]
      simp [hb]

/-- the scheme is compared ignoring ASCII case: all 32 spellings of `basic` are accepted, and only words of five letters -/
theorem scheme_case_insensitive :
    (∀ m ∈ [['b', 'B'], ['a', 'A'], ['s', 'S'], ['i', 'I'], ['c', 'C']].foldr
        (fun alts acc => alts.flatMap fun c => acc.map (c :: ·)) [[]], isBasic m = true) ∧
    (∀ m, isBasic m = true → m.length = 5) := by
  constructor
  · decide
  · intro m hm
    have : (m.map lowerAscii).length = basicWord.length := by
      have := of_decide_eq_true (by simpa [isBasic] using hm : decide (m.map lowerAscii = basicWord) = true)
      rw [this]
    simpa [basicWord] using this

/-- only the folded spelling of the scheme matters -/
theorem scheme_only_folded (m m' rest : Text) (hm : ' ' ∉ m) (hm' : ' ' ∉ m') (h : m.map lowerAscii = m'.map lowerAscii) :
    parseBasic (some (m ++ ' ' :: rest)) = parseBasic (some (m' ++ ' ' :: rest)) := by
  have hb : isBasic m = isBasic m' := by simp [isBasic, h]
  have hs := (splitFirst_some_iff ' ' (m ++ ' ' :: rest) m rest).2 ⟨rfl, hm⟩
  have hs' := (splitFirst_some_iff ' ' (m' ++ ' ' :: rest) m' rest).2 ⟨rfl, hm'⟩
  have key : ∀ (x : Text), ' ' ∉ x → parseBasic (some (x ++ ' ' :: rest)) =
      (if !isBasic x then Parse.none else
        match latin1Enc (strip rest) with
        | .error _ => .raises
        | .ok bs => match b64dec bs with
          | none => .none
          | some raw => match splitFirst ':' (decodeText raw) with
            | none => .none
            | some (u, p) => .creds u p) := by
    intro x hx
    have hsx := (splitFirst_some_iff ' ' (x ++ ' ' :: rest) x rest).2 ⟨rfl, hx⟩
    cases x with
    | nil => simp only [List.nil_append] at hsx ⊢; simp only [parseBasic, hsx]; rfl
    | cons c r =>
      simp only [parseBasic, List.cons_append]
      rw [← List.cons_append, hsx]; rfl
  rw [key m hm, key m' hm', hb]

/-- "try utf-8 first, then latin-1" -/
theorem decode_utf8_then_latin1 (raw : Bytes) :
    (∀ t, utf8Dec raw = some t → decodeText raw = t) ∧ (utf8Dec raw = none → decodeText raw = latin1Dec raw) := by
  constructor
  · intro t h; simp [decodeText, h]
  · intro h; simp [decodeText, h]

/-! ### the BasicAuth policy -/

/-- BasicAuth authenticates `v` iff the header carries credentials `(u, p)` with `v = u`, `u` is not a system principal and
`check(u, p)` knows the user -/
theorem basic_auth_iff (check : Text → Text → Groups) (realm : Text) (req : Req) (v : Prin) :
    authUserid (.basic check realm) req = .ok (some v) ↔
      ∃ u p gs, parseBasic req.authorization = .creds u p ∧ v = .str u ∧ v ≠ everyone ∧ v ≠ authenticated ∧ check u p = some gs := by
  rw [auth_userid_eq_spec]
  unfold specAuthUserid
  simp only [bind, Except.bind, pure, Except.pure]
  constructor
  · intro h
    cases hv : verified (.basic check realm) req with
    | error e => simp [hv] at h
    | ok o =>
      cases o with
      | none => simp [hv] at h
      | some ug =>
        obtain ⟨u', gs⟩ := ug
        simp only [hv, Option.map, Except.ok.injEq, Option.some.injEq] at h
        subst h
        obtain ⟨h1, h2, h3, h4⟩ := (verified_iff _ req u' gs).1 hv
        simp only [unauthUserid] at h1
        cases hp : parseBasic req.authorization with
        | none => simp [hp, pure, Except.pure] at h1
        | raises => simp [hp, throw, throwThe, MonadExceptOf.throw] at h1
        | creds u p =>
          simp only [hp, pure, Except.pure, Except.ok.injEq, Option.some.injEq] at h1
          subst h1
          simp only [groupsFor, hp] at h4
          exact ⟨u, p, gs, rfl, rfl, h2, h3, h4⟩
  · rintro ⟨u, p, gs, hp, rfl, h2, h3, h4⟩
    have : verified (.basic check realm) req = .ok (some (.str u, gs)) := by
      rw [verified_iff]
      refine ⟨by simp [unauthUserid, hp, pure, Except.pure], h2, h3, by simp [groupsFor, hp, h4]⟩
    simp [this]

/-- log in: the formatted header of a known user yields `[Everyone, Authenticated, user] ++ groups` -/
theorem basic_login (check : Text → Text → Groups) (realm u p : Text) (gs : List Prin) (req : Req)
    (hh : req.authorization = some (formatBasic u p)) (hu : ':' ∉ u)
    (h1 : Prin.str u ≠ everyone) (h2 : Prin.str u ≠ authenticated) (hc : check u p = some gs) :
    authUserid (.basic check realm) req = .ok (some (.str u)) ∧
    effPrincipals (.basic check realm) req = .ok (everyone :: authenticated :: .str u :: gs) := by
  have hp : parseBasic req.authorization = .creds u p := by rw [hh]; exact parse_roundtrip u p hu
  have hid : IdentOk req ∨ True := Or.inr trivial
  have hv : verified (.basic check realm) req = .ok (some (.str u, gs)) := by
    rw [verified_iff]
    exact ⟨by simp [unauthUserid, hp, pure, Except.pure], h1, h2, by simp [groupsFor, hp, hc]⟩
  constructor
  · rw [auth_userid_eq_spec]; simp [specAuthUserid, hv, bind, Except.bind, pure, Except.pure]
  · have : effPrincipals (.basic check realm) req = specPrincipals (.basic check realm) req := by
      simp only [effPrincipals, specPrincipals, verified, unauthUserid, genericCallback, groupsFor, bind, Except.bind,
        pure, Except.pure, hp]
      have hne : ¬(Prin.str u = everyone ∨ Prin.str u = authenticated) := fun h => h.elim h1 h2
      simp [cbEffPrincipals, clean_some_of_ne hne, hne, hc, basicCallback, hp]
    rw [this]; simp [specPrincipals, hv, bind, Except.bind, pure, Except.pure]

/-- the challenge `forget` returns names the realm -/
theorem basic_forget_challenge (check : Text → Text → Groups) (realm : Text) (req : Req) :
    polForget (.basic check realm) req =
      .ok (.list [("WWW-Authenticate".toList, "Basic realm=\"".toList ++ realm ++ ['"'])], req.session) := rfl

/-! ## (3) the request API and the legacy shim -/

/-- `LegacySecurityPolicy.permits(request, context, permission)` is `authz.permits(context, effective_principals(request),
permission)` — any authentication policy, any authorization policy; with `context=None` the request's context is used -/
theorem legacy_permits_eq {C P : Type} (pol : Policy) (authz : C → List Prin → P → Bool) (req : Req) (perm : P)
    (ctxArg : Option C) (reqCtx : C) :
    reqHasPermission (.legacy pol authz) req perm ctxArg reqCtx =
      (effPrincipals pol req).map fun ps => PermOut.decided (authz (ctxArg.getD reqCtx) ps perm) := by
  cases ctxArg <;> cases h : effPrincipals pol req <;>
    simp [reqHasPermission, legacyPermits, h, bind, Except.bind, pure, Except.pure, Except.map]

/-- without a security policy `has_permission` allows everything, nobody is authenticated, `remember`/`forget` return [] -/
theorem no_policy_allows_everything {C P : Type} (req : Req) (perm : P) (ctxArg : Option C) (reqCtx : C) (u : Prin) (kw : Bool) :
    reqHasPermission (Sec.none : Sec C P) req perm ctxArg reqCtx = .ok .noPolicy ∧ PermOut.noPolicy.truthy = true ∧
    reqAuthUserid (Sec.none : Sec C P) req = .ok none ∧ reqIdentity (Sec.none : Sec C P) req = .ok none ∧
    reqIsAuthenticated (Sec.none : Sec C P) req = .ok false ∧
    secRemember (Sec.none : Sec C P) req u = .ok (.list [], req.session) ∧
    secForget (Sec.none : Sec C P) req kw = .ok (.list [], req.session) := by
  refine ⟨rfl, rfl, rfl, rfl, rfl, rfl, rfl⟩

/-- `is_authenticated` is `authenticated_userid is not None`, whatever the policy -/
theorem is_authenticated_iff {C P : Type} (s : Sec C P) (req : Req) (b : Bool) (h : reqIsAuthenticated s req = .ok b) :
    b = true ↔ ∃ u, reqAuthUserid s req = .ok (some u) := by
  unfold reqIsAuthenticated at h
  simp only [bind, Except.bind, pure, Except.pure] at h
  cases ha : reqAuthUserid s req with
  | error e => simp [ha] at h
  | ok o =>
    simp only [ha, Except.ok.injEq] at h
    subst h
    cases o <;> simp

/-- under the legacy shim the identity IS the authenticated userid, and the deprecated properties are the policy's methods -/
theorem legacy_identity_is_userid {C P : Type} (pol : Policy) (authz : C → List Prin → P → Bool) (req : Req) :
    reqIdentity (.legacy pol authz) req = authUserid pol req ∧ reqAuthUserid (.legacy pol authz) req = authUserid pol req ∧
    reqEffPrincipals (.legacy pol authz) req = effPrincipals pol req ∧
    reqUnauthUserid (.legacy pol authz) req = unauthUserid pol req := ⟨rfl, rfl, rfl, rfl⟩

/-- a request nobody is authenticated on is judged as `[Everyone]` -/
theorem legacy_unauthenticated_judged_as_everyone {C P : Type} (pol : Policy) (authz : C → List Prin → P → Bool) (req : Req)
    (hid : IdentOk req) (h : authUserid pol req = .ok none) (perm : P) (ctxArg : Option C) (reqCtx : C) :
    reqHasPermission (.legacy pol authz) req perm ctxArg reqCtx = .ok (.decided (authz (ctxArg.getD reqCtx) [everyone] perm)) := by
  rw [legacy_permits_eq, groups_only_when_authenticated pol req hid h]; rfl

/-- `forget(request, **kw)` is refused by the legacy shim; without keywords it is the policy's `forget` -/
theorem legacy_forget_kw {C P : Type} (pol : Policy) (authz : C → List Prin → P → Bool) (req : Req) :
    secForget (.legacy pol authz) req true = .error .valueError ∧ secForget (.legacy pol authz) req false = polForget pol req :=
  ⟨rfl, rfl⟩

/-- the deprecated `effective_principals` property without the legacy shim is `[Everyone]` -/
theorem deprecated_principals_without_legacy {C P : Type} (c : Custom C P) (req : Req) :
    reqEffPrincipals (Sec.none : Sec C P) req = .ok [everyone] ∧ reqEffPrincipals (.custom c) req = .ok [everyone] := ⟨rfl, rfl⟩

/-! ### composed with C11's ACL decision -/

/-- `ACLAuthorizationPolicy.permits` by C11's model, principals named by `name` -/
def aclAuthz (name : Prin → Nat) : Acl.Lineage → List Prin → Nat → Bool := fun l ps perm => Acl.permits (ps.map name) perm l

/-- an ACL that grants a permission to `Authenticated` only lets exactly the requests with an authenticated userid in —
for every policy flavour, claimed userid and groupfinder (in particular: claiming to be `system.Authenticated` does not help) -/
theorem acl_authenticated_only (name : Prin → Nat) (hn : name everyone ≠ name authenticated) (pol : Policy) (req : Req)
    (hid : IdentOk req) (perm : Nat) (out : PermOut)
    (h : reqHasPermission (.legacy pol (aclAuthz name)) req perm none [some [⟨.allow, name authenticated, .all⟩]] = .ok out) :
    out.truthy = true ↔ ∃ u, authUserid pol req = .ok (some u) := by
  rw [legacy_permits_eq] at h
  have hn' : name authenticated ≠ name everyone := fun e => hn e.symm
  rcases methods_agree pol req hid with ⟨ha, he⟩ | ⟨u, gs, ha, he, _⟩ | ⟨e, _, he⟩
  · rw [he] at h
    simp only [Except.map, Option.getD, Except.ok.injEq] at h
    subst h
    have : aclAuthz name [some [⟨.allow, name authenticated, .all⟩]] [everyone] perm = false := by
      simp [aclAuthz, Acl.permits, Acl.decideAt, Acl.scanAclAt, Acl.Ace.hits, Acl.Perms.has, hn']
    simp [PermOut.truthy, this, ha]
  · rw [he] at h
    simp only [Except.map, Option.getD, Except.ok.injEq] at h
    subst h
    have : aclAuthz name [some [⟨.allow, name authenticated, .all⟩]] (everyone :: authenticated :: u :: gs) perm = true := by
      simp [aclAuthz, Acl.permits, Acl.decideAt, Acl.scanAclAt, Acl.Ace.hits, Acl.Perms.has]
    simp [PermOut.truthy, this, ha]
  · rw [he] at h; cases h

/-! ### `Allowed` / `Denied` -/

/-- `Allowed` is truthy and `Denied` falsy whatever the message -/
theorem permits_result_truthiness (s : Text) (args : List Text) :
    (allowed s args).truthy = true ∧ (denied s args).truthy = false := ⟨rfl, rfl⟩

/-- a message without `%` and without arguments is rendered as is -/
theorem fmt_plain (s : Text) (h : '%' ∉ s) : fmt s [] = .ok s := by
  induction s with
  | nil => rfl
  | cons c r ih =>
    have hc : c ≠ '%' := fun e => h (by simp [e])
    have hr : '%' ∉ r := fun hm => h (by simp [hm])
    have step : fmt (c :: r) [] = (c :: ·) <$> fmt r [] := by
      rw [fmt.eq_def]
      split <;> simp_all
    rw [step, ih hr]; rfl

/-- the message `has_permission` gives without a policy -/
theorem no_policy_message : (allowed noPolicyMsg).msg = .ok noPolicyMsg ∧ (allowed noPolicyMsg).truthy = true := by
  constructor
  · exact fmt_plain _ (by decide)
  · rfl

/-! ## (4) the session helper -/

/-- after `remember` the key holds the userid -/
theorem session_remember_get (s : Session) (k : Text) (v : Option Prin) : sessGet (sessSet s k v) k = v := by
  unfold sessGet sessSet
  by_cases h : sessHas s k
  · simp only [h, if_true, lookup_map_set, beq_self_eq_true]
  · simp only [h, Bool.false_eq_true, if_false]
    have hn : s.lookup k = none := by
      induction s with
      | nil => rfl
      | cons kv r ih =>
        simp only [sessHas, List.any_cons, Bool.or_eq_true, not_or] at h
        have : (k == kv.1) = false := by
          have := h.1; simp only [beq_iff_eq] at this; simpa using fun e => this e.symm
        simp only [List.lookup, this]
        exact ih (by simpa [sessHas] using h.2)
    rw [List.lookup_append, hn]
    simp [List.lookup]

/-- after `forget` the key is gone -/
theorem session_forget_get (s : Session) (k : Text) : sessGet (sessDel s k) k = none ∧ sessHas (sessDel s k) k = false := by
  constructor
  · unfold sessGet sessDel
    have : (s.filter (fun kv => !(kv.1 == k))).lookup k = none := by
      induction s with
      | nil => rfl
      | cons kv r ih =>
        by_cases hk : kv.1 = k
        · simp [List.filter, hk, ih]
        · have h1 : (kv.1 == k) = false := by simpa using hk
          have h2 : (k == kv.1) = false := by simpa using fun e => hk e.symm
          simp [List.filter, h1, List.lookup, h2, ih]
    rw [this]
  · simp [sessHas, sessDel, List.any_filter]

/-- `remember` and `forget` leave every other key alone -/
theorem session_other_keys (s : Session) (k k' : Text) (v : Option Prin) (h : k' ≠ k) :
    (sessSet s k v).lookup k' = s.lookup k' ∧ (sessDel s k).lookup k' = s.lookup k' := by
  have hb : (k' == k) = false := by simpa using h
  constructor
  · unfold sessSet
    by_cases hh : sessHas s k
    · simp only [hh, if_true, lookup_map_set, hb, Bool.false_eq_true, if_false]
    · simp only [hh, Bool.false_eq_true, if_false, List.lookup_append]
      cases s.lookup k' <;> simp [List.lookup, hb]
  · unfold sessDel
    induction s with
    | nil => rfl
    | cons kv r ih =>
      by_cases hk : kv.1 = k
      · simp [List.filter, hk, List.lookup, hb, ih]
      · have h1 : (kv.1 == k) = false := by simpa using hk
        simp only [List.filter, h1, Bool.not_false, List.lookup]
        cases (k' == kv.1) <;> simp [ih]

/-- forgetting when nothing is stored changes nothing -/
theorem session_forget_absent_noop (s : Session) (k : Text) (h : sessHas s k = false) : sessDel s k = s := by
  unfold sessDel
  rw [List.filter_eq_self]
  intro kv hkv
  simp only [sessHas, List.any_eq_false] at h
  simpa using h kv hkv

/-- the session policy: `remember(u)` then `unauthenticated_userid` is `u`; `forget` then it is None; no headers either way -/
theorem session_policy_remember_forget (pfx : Text) (cb : Option (Prin → Groups)) (req : Req) (u : Prin) :
    (∃ s', polRemember (.session pfx cb) req u = .ok (.list [], s') ∧
      unauthUserid (.session pfx cb) { req with session := s' } = .ok (some u)) ∧
    (∃ s', polForget (.session pfx cb) req = .ok (.list [], s') ∧
      unauthUserid (.session pfx cb) { req with session := s' } = .ok none) := by
  refine ⟨⟨_, rfl, ?_⟩, ⟨_, rfl, ?_⟩⟩
  · simp [unauthUserid, session_remember_get, pure, Except.pure]
  · simp [unauthUserid, (session_forget_get _ _).1, pure, Except.pure]

/-- remembered, not refused, no groupfinder ⇒ authenticated as that user on the next request -/
theorem session_login (pfx : Text) (req : Req) (u : Prin) (h1 : u ≠ everyone) (h2 : u ≠ authenticated) :
    authUserid (.session pfx none) { req with session := sessSet req.session (useridKey pfx) (some u) } = .ok (some u) := by
  have hne : ¬(u = everyone ∨ u = authenticated) := fun h => h.elim h1 h2
  simp [authUserid, unauthUserid, genericCallback, session_remember_get, cbAuthUserid, clean_some_of_ne hne, bind, Except.bind,
    pure, Except.pure]

/-- the other flavours never touch the session -/
theorem other_policies_leave_session (pol : Policy) (req : Req) (u : Prin) (hs : ∀ pfx cb, pol ≠ .session pfx cb) :
    (∀ h s', polRemember pol req u = .ok (h, s') → s' = req.session) ∧
    (∀ h s', polForget pol req = .ok (h, s') → s' = req.session) := by
  cases pol with
  | session pfx cb => exact absurd rfl (hs pfx cb)
  | remoteUser cb => constructor <;> (intro h s' e; cases e; rfl)
  | basic c r => constructor <;> (intro h s' e; cases e; rfl)
  | repoze cb =>
    constructor <;>
    · intro h s' e
      simp only [polRemember, polForget, repozeIdentifier, bind, Except.bind, pure, Except.pure] at e
      split at e <;> cases e <;> rfl

/-! ## (5) generated obligations: the probe tables of extract/x05.py -/

theorem gen_probe_trusted : Gen.probeStatus = ['o', 'k'] := by decide

theorem gen_constants : Prin.str Gen.everyoneConst = everyone ∧ Prin.str Gen.authenticatedConst = authenticated := by decide

/-- `_clean_principal` of all four classes refuses exactly what the model refuses, and returns the others unchanged -/
theorem gen_refused : Gen.refusedProbe.length = 60 ∧
    ∀ r ∈ Gen.refusedProbe, (cleanPrincipal r.2.1).isNone = r.2.2 ∧ (r.2.2 = false → cleanPrincipal r.2.1 = some r.2.1) := by
  decide +kernel

/-- what `str.strip()` removes, over all of Unicode -/
theorem gen_space : Gen.spaceCodes = spaceCodes := by decide

/-- the characters whose lower-casing yields letters of "basic" are the ten ASCII letters the model folds -/
theorem gen_lower : Gen.lowerIntoBasic = (List.range 128).filter (fun n => basicWord.contains (lowerAscii (Char.ofNat n))) := by
  decide +kernel

/-- the parser on the whole probed header cube -/
theorem gen_parser : 400 ≤ Gen.parserCube.length ∧ ∀ r ∈ Gen.parserCube, parseBasic r.1 = r.2 := by
  decide +kernel

def cubeGroups : Nat → Groups
  | 1 => none
  | 2 => some []
  | _ => some [.str ['g', '1'], .str ['g', '2']]

def cubePolicy (kind mode : Nat) : Policy :=
  match kind with
  | 0 => .remoteUser (if mode = 0 then none else some fun _ => cubeGroups mode)
  | 1 => .session ['a', 'u', 't', 'h', '.'] (if mode = 0 then none else some fun _ => cubeGroups mode)
  | 3 => .basic (fun _ _ => cubeGroups mode) ['R', 'e', 'a', 'l', 'm']
  | _ => .repoze (if mode = 0 then none else some fun _ => cubeGroups mode)

def cubeReq (kind : Nat) (uid : Option Prin) : Req :=
  match kind with
  | 0 => { remoteUser := uid }
  | 1 => { session := match uid with
      | none => []
      | some u => [(['a', 'u', 't', 'h', '.', 'u', 's', 'e', 'r', 'i', 'd'], some u)] }
  | 2 => { identity := some { userid := some uid } }
  | 3 => { authorization := match uid with
      | some (.str u) => some (formatBasic u ['p', 'w'])
      | _ => none }
  | 4 => {}
  | _ => { identity := some { userid := none } }

/-- the authorization policy is handed exactly `seen` (or the call fails where `effective_principals` does) -/
def seenOk (pol : Policy) (req : Req) : Option (List Prin) → Bool
  | some seen => decide (legacyPermits pol (fun (_ : Unit) ps (_ : Unit) => decide (ps = seen)) req () () = .ok true)
  | none => decide ((legacyPermits pol (fun (_ : Unit) _ (_ : Unit) => true) req () ()).toOption = none)

/-- the decision cube of the four real classes (flavour × claimed userid × groupfinder answer): `authenticated_userid`,
`effective_principals`, and the principals `LegacySecurityPolicy.permits` hands to the authorization policy -/
theorem gen_policy_cube : 90 ≤ Gen.policyCube.length ∧
    ∀ r ∈ Gen.policyCube,
      (authUserid (cubePolicy r.1 r.2.2.1) (cubeReq r.1 r.2.1)).toOption = r.2.2.2.1 ∧
      (effPrincipals (cubePolicy r.1 r.2.2.1) (cubeReq r.1 r.2.1)).toOption = r.2.2.2.2.1 ∧
      seenOk (cubePolicy r.1 r.2.2.1) (cubeReq r.1 r.2.1) r.2.2.2.2.2 = true := by
  decide +kernel

theorem gen_challenge : Gen.challengeProbe.length = 4 ∧
    ∀ r ∈ Gen.challengeProbe, polForget (.basic (fun _ _ => none) r.1) {} = .ok (.list r.2, []) := by
  decide +kernel

/-- without a policy: an `Allowed`, truthy, with the modelled message; nobody authenticated; `remember`/`forget` empty -/
theorem gen_no_policy : Gen.noPolicyProbe = (['A', 'l', 'l', 'o', 'w', 'e', 'd'], true, noPolicyMsg, true, true) := by
  decide +kernel

theorem gen_legacy_forget_kw : Gen.legacyForgetKwRaises = true := by decide

/-! ## non-vacuity -/

example : IdentOk { identity := some { userid := some (some (.str ['f'])) } } := by decide
example : ¬ IdentOk { identity := some { userid := none } } := by decide
example : Latin1 ("Basic w6k6w7w=".toList) := by decide
example : parseBasic (some "bAsIc  w6k6w7w6w7w= ".toList) = .creds ['é'] ['ü', ':', 'ü'] := by decide +kernel
example : parseBasic (some "Basic /zrp".toList) = .creds ['ÿ'] ['é'] := by decide +kernel      -- latin-1 fallback
example : parseBasic (some "Basic ZnJlZA==".toList) = .none := by decide +kernel              -- no colon
example : parseBasic (some "Basic\tOg==".toList) = .none := by decide +kernel                 -- a tab does not separate
example : BasicForm (some "Basic Og==".toList) [] [] := (parse_creds_iff _ _ _).1 (by decide +kernel)
example : effPrincipals (.remoteUser (some fun _ => some [.str ['g']])) { remoteUser := some (.str ['f']) }
    = .ok [everyone, authenticated, .str ['f'], .str ['g']] := by decide
example : effPrincipals (.remoteUser none) { remoteUser := some everyone } = .ok [everyone] := by decide
example : authUserid (.repoze (some fun _ => none)) { identity := some { userid := some (some (.str ['f'])) } } = .ok none := by decide
example : verified (.session [] none) { session := [(['u', 's', 'e', 'r', 'i', 'd'], some (.int 7))] } = .ok (some (.int 7, [])) := by
  decide
example : (fmt ['a', '%', 's', '%', '%'] [['x']]) = .ok ['a', 'x', '%'] := by decide
example : (fmt ['1', '0', '0', '%'] []) = .error .valueError := by decide

end Pyr.AuthPolicy
